(* XTree.v — conditional groups over lines of every kind: a well-nested tree whose leaves are text, #define, #undef,
   #include, #pragma or unknown directives.  The preprocessor model (CondIncl.xrun) performs exactly the leaves of the
   groups C's rules select, in order, and stops at the first of them that is rejected; leaves of other groups are never
   looked at.  What a selected leaf does is whatever xrun does on that single line (`live`); for #include leaves the
   theorem asks that the included text leaves the condition chain as it found it (`frame`). *)
From Coq Require Import List NArith Bool String Lia.
From RV Require Import Cond CondProofs CondIncl CondInclProofs.
Import ListNotations.
Local Open Scope list_scope.

Inductive xitem :=
| XLeaf (x : xline)
| XCond (g : guard) (body : xitems) (rest : xtail)
with xitems := XNil | XCons (i : xitem) (r : xitems)
with xtail :=
| XEnd
| XElif (c : list ctok) (body : xitems) (rest : xtail)
| XElse (body : xitems).

Scheme xitem_mind := Induction for xitem Sort Prop
  with xitems_mind := Induction for xitems Sort Prop
  with xtail_mind := Induction for xtail Sort Prop.
Combined Scheme xitem_xitems_xtail_ind from xitem_mind, xitems_mind, xtail_mind.

Fixpoint xflat_item (i : xitem) : list xline :=
  match i with
  | XLeaf x => [x]
  | XCond g body rest => XL (guard_line g) :: xflat_items body ++ xflat_tail rest
  end
with xflat_items (its : xitems) : list xline :=
  match its with XNil => [] | XCons i r => xflat_item i ++ xflat_items r end
with xflat_tail (t : xtail) : list xline :=
  match t with
  | XEnd => [XL LEndif]
  | XElif c body rest => XL (LElif c) :: xflat_items body ++ xflat_tail rest
  | XElse body => XL LElse :: xflat_items body ++ [XL LEndif]
  end.

(* what the rest of the file sees: macro table, output, once-set *)
Definition vis := (env * list otok * list string)%type.
Definition st_of (stk : list cstate) (v : vis) : xstate :=
  let '(e, o, once) := v in mkX (mkP stk e o) once.
Definition vis_of (st : xstate) : vis := (p_env (x_p st), p_out (x_p st), x_once st).

Section Tree.
Variable switch : cstate -> bool -> cstate.
Hypothesis Hsw : switch_ok switch.
Variable evalb : env -> list ctok -> bool.
Variable files : string -> option (list xline).
Variable d : nat.
Variable self : string.

Notation evalc := (CondProofs.evalc evalb).
Notation xrun := (CondIncl.xrun switch evalc files d self).

(* a leaf of a selected group, run on its own *)
Definition live (v : vis) (x : xline) : vis + xerr :=
  match xrun [x] (st_of [] v) with inl st => inl (vis_of st) | inr e => inr e end.

Definition bindv {A} (r : vis + xerr) (f : vis -> A + xerr) : A + xerr :=
  match r with inl v => f v | inr e => inr e end.

(* C's conditional groups, with the first rejected leaf of a selected group ending the run *)
Fixpoint xsem_item (v : vis) (i : xitem) : vis + xerr :=
  match i with
  | XLeaf x => live v x
  | XCond g body rest =>
      if guard_true evalb (fst (fst v)) g then xsem_items v body else xsem_tail v rest
  end
with xsem_items (v : vis) (its : xitems) : vis + xerr :=
  match its with
  | XNil => inl v
  | XCons i r => bindv (xsem_item v i) (fun v1 => xsem_items v1 r)
  end
with xsem_tail (v : vis) (t : xtail) : vis + xerr :=
  match t with
  | XEnd => inl v
  | XElif c body rest => if evalb (fst (fst v)) c then xsem_items v body else xsem_tail v rest
  | XElse body => xsem_items v body
  end.

(* a leaf is not a conditional directive, and run in a selected group it leaves the chain as it found it *)
Definition leaf_shape (x : xline) : bool := match x with XL l => is_simple l | _ => true end.
Definition frame (x : xline) : Prop :=
  forall stk v, is_active stk = true ->
    xrun [x] (st_of stk v) = match live v x with inl v' => inl (st_of stk v') | inr e => inr e end.

Fixpoint ok_item (i : xitem) : Prop :=
  match i with
  | XLeaf x => leaf_shape x = true /\ frame x
  | XCond _ body rest => ok_items body /\ ok_tail rest
  end
with ok_items (its : xitems) : Prop :=
  match its with XNil => True | XCons i r => ok_item i /\ ok_items r end
with ok_tail (t : xtail) : Prop :=
  match t with
  | XEnd => True
  | XElif _ body rest => ok_items body /\ ok_tail rest
  | XElse body => ok_items body
  end.

(* every leaf but #include meets `frame` by itself *)
Lemma frame_not_include x : leaf_shape x = true -> (forall f, x <> XInclude f) -> frame x.
Proof.
  intros Hs Hni stk [[e o] once] Ha. unfold live, st_of, vis_of.
  rewrite !(xrun_cons switch evalc files d self), !(xrun_nil switch evalc files d self). cbv zeta. cbn [x_p x_once p_stack].
  rewrite Ha. change (is_active []) with true. cbn [negb].
  destruct x as [l|f| | | |]; try reflexivity.
  - cbn [leaf_shape] in Hs.
    rewrite (step_simple_active switch evalb stk e o l Hs Ha), (step_simple_active switch evalb [] e o l Hs eq_refl).
    rewrite !(xrun_nil switch evalc files d self). reflexivity.
  - exfalso. apply (Hni f). reflexivity.
Qed.

Lemma leaf_dead x stk v k : leaf_shape x = true -> is_active stk = false ->
  xrun (x :: k) (st_of stk v) = xrun k (st_of stk v).
Proof.
  intros Hs Hd. destruct v as [[e o] once]. unfold st_of.
  rewrite (xrun_cons switch evalc files d self). cbv zeta. cbn [x_p x_once p_stack]. rewrite Hd. cbn [negb].
  destruct x as [l|f| | | |]; try reflexivity.
  cbn [leaf_shape] in Hs. rewrite (step_simple_inactive switch evalb stk e o l Hs Hd). reflexivity.
Qed.

Lemma xrun_app' a b st :
  xrun (a ++ b) st = match xrun a st with inl st' => xrun b st' | inr e => inr e end.
Proof. apply xrun_app. Qed.

Lemma leaf_live x stk v k : frame x -> is_active stk = true ->
  xrun (x :: k) (st_of stk v) = bindv (live v x) (fun v' => xrun k (st_of stk v')).
Proof.
  intros Hf Ha. change (x :: k) with ([x] ++ k). rewrite xrun_app', (Hf stk v Ha).
  destruct (live v x); reflexivity.
Qed.

(* the steps of conditional directives on st_of states *)
Lemma xstep l stk v k :
  xrun (XL l :: k) (st_of stk v) =
  match step switch evalc (mkP stk (fst (fst v)) (snd (fst v))) l with
  | inl p => xrun k (mkX p (snd v))
  | inr e => inr (XE e)
  end.
Proof. destruct v as [[e o] once]. unfold st_of. rewrite (xrun_cons switch evalc files d self). reflexivity. Qed.

Lemma simulation :
  (forall i, ok_item i -> forall stk v k,
     (is_active stk = true ->
        xrun (xflat_item i ++ k) (st_of stk v) = bindv (xsem_item v i) (fun v' => xrun k (st_of stk v'))) /\
     (is_active stk = false -> xrun (xflat_item i ++ k) (st_of stk v) = xrun k (st_of stk v))) /\
  (forall its, ok_items its -> forall stk v k,
     (is_active stk = true ->
        xrun (xflat_items its ++ k) (st_of stk v) = bindv (xsem_items v its) (fun v' => xrun k (st_of stk v'))) /\
     (is_active stk = false -> xrun (xflat_items its ++ k) (st_of stk v) = xrun k (st_of stk v))) /\
  (forall t, ok_tail t -> forall stk v k,
     (is_active stk = true ->
        xrun (xflat_tail t ++ k) (st_of (DisabledInner :: stk) v) = bindv (xsem_tail v t) (fun v' => xrun k (st_of stk v'))) /\
     (is_active stk = true -> xrun (xflat_tail t ++ k) (st_of (Enabled :: stk) v) = xrun k (st_of stk v)) /\
     (forall top, dead top stk -> xrun (xflat_tail t ++ k) (st_of (top :: stk) v) = xrun k (st_of stk v))).
Proof.
  destruct Hsw as (S0 & S1 & S2 & S3).
  apply xitem_xitems_xtail_ind.
  - (* XLeaf *)
    intros x [Hs Hf] stk v k. cbn [xflat_item app xsem_item]. split; intros Ha.
    + apply leaf_live; assumption.
    + apply leaf_dead; assumption.
  - (* XCond *)
    intros g body IHb rest IHr [Wb Wr] stk v k.
    cbn [xflat_item xsem_item]. cbn [app]. rewrite <- app_assoc.
    specialize (IHb Wb). specialize (IHr Wr). destruct v as [[e o] once]. split; intros Ha; rewrite xstep; cbn [fst snd].
    + rewrite (step_guard_active switch evalb stk e o g Ha). destruct (guard_true evalb e g).
      * destruct (IHb (Enabled :: stk) (e, o, once) (xflat_tail rest ++ k)) as [H _].
        change (mkX (mkP (Enabled :: stk) e o) once) with (st_of (Enabled :: stk) (e, o, once)).
        rewrite H by (rewrite active_cons, Ha; reflexivity).
        destruct (xsem_items (e, o, once) body) as [v1|err]; cbn [bindv]; [|reflexivity].
        destruct (IHr stk v1 k) as (_ & T2 & _). apply T2. exact Ha.
      * destruct (IHb (DisabledInner :: stk) (e, o, once) (xflat_tail rest ++ k)) as [_ H].
        change (mkX (mkP (DisabledInner :: stk) e o) once) with (st_of (DisabledInner :: stk) (e, o, once)).
        rewrite H by reflexivity.
        destruct (IHr stk (e, o, once) k) as (T1 & _ & _). apply T1. exact Ha.
    + rewrite (step_guard_inactive switch evalb stk e o g Ha).
      destruct (IHb (DisabledInner :: stk) (e, o, once) (xflat_tail rest ++ k)) as [_ H].
      change (mkX (mkP (DisabledInner :: stk) e o) once) with (st_of (DisabledInner :: stk) (e, o, once)).
      rewrite H by reflexivity.
      destruct (IHr stk (e, o, once) k) as (_ & _ & T3). apply T3. right. exact Ha.
  - (* XNil *)
    intros _ stk v k. cbn. split; reflexivity.
  - (* XCons *)
    intros i IHi r IHr [Wi Wr] stk v k.
    cbn [xflat_items xsem_items]. rewrite <- app_assoc.
    specialize (IHi Wi). specialize (IHr Wr). split; intros Ha.
    + destruct (IHi stk v (xflat_items r ++ k)) as [H _]. rewrite (H Ha).
      destruct (xsem_item v i) as [v1|err]; cbn [bindv]; [|reflexivity].
      destruct (IHr stk v1 k) as [H' _]. apply (H' Ha).
    + destruct (IHi stk v (xflat_items r ++ k)) as [_ H]. rewrite (H Ha).
      destruct (IHr stk v k) as [_ H']. apply H'. exact Ha.
  - (* XEnd *)
    intros _ stk v k. cbn [xflat_tail app xsem_tail bindv]. destruct v as [[e o] once].
    repeat split; intros; rewrite xstep; cbn [fst snd]; rewrite step_endif; reflexivity.
  - (* XElif *)
    intros c body IHb rest IHr [Wb Wr] stk v k.
    cbn [xflat_tail xsem_tail]. cbn [app]. rewrite <- app_assoc.
    specialize (IHb Wb). specialize (IHr Wr). destruct v as [[e o] once]. repeat split.
    + intros Ha. rewrite xstep. cbn [fst snd]. rewrite (step_elif switch evalb), Ha. cbn [cstate_eqb andb]. destruct (evalb e c).
      * rewrite S1. destruct (IHb (Enabled :: stk) (e, o, once) (xflat_tail rest ++ k)) as [H _].
        change (mkX (mkP (Enabled :: stk) e o) once) with (st_of (Enabled :: stk) (e, o, once)).
        rewrite H by (rewrite active_cons, Ha; reflexivity).
        destruct (xsem_items (e, o, once) body) as [v1|err]; cbn [bindv]; [|reflexivity].
        destruct (IHr stk v1 k) as (_ & T2 & _). apply T2. exact Ha.
      * rewrite S2. destruct (IHb (DisabledInner :: stk) (e, o, once) (xflat_tail rest ++ k)) as [_ H].
        change (mkX (mkP (DisabledInner :: stk) e o) once) with (st_of (DisabledInner :: stk) (e, o, once)).
        rewrite H by reflexivity.
        destruct (IHr stk (e, o, once) k) as (T1 & _ & _). apply T1. exact Ha.
    + intros Ha. rewrite xstep. cbn [fst snd]. rewrite (step_elif switch evalb), S0.
      destruct (IHb (DisabledOuter :: stk) (e, o, once) (xflat_tail rest ++ k)) as [_ H].
      change (mkX (mkP (DisabledOuter :: stk) e o) once) with (st_of (DisabledOuter :: stk) (e, o, once)).
      rewrite H by reflexivity.
      destruct (IHr stk (e, o, once) k) as (_ & _ & T3). apply T3. left. reflexivity.
    + intros top Hd. rewrite xstep. cbn [fst snd]. rewrite (step_elif switch evalb).
      set (b := if cstate_eqb DisabledInner top && is_active stk then evalb e c else false).
      assert (Hd' := dead_switch switch Hsw top stk b Hd).
      destruct (IHb (switch top b :: stk) (e, o, once) (xflat_tail rest ++ k)) as [_ H].
      change (mkX (mkP (switch top b :: stk) e o) once) with (st_of (switch top b :: stk) (e, o, once)).
      rewrite H by (apply dead_inactive; exact Hd').
      destruct (IHr stk (e, o, once) k) as (_ & _ & T3). apply T3. exact Hd'.
  - (* XElse *)
    intros body IHb Wb stk v k.
    cbn [xflat_tail xsem_tail]. cbn [app]. rewrite <- app_assoc. cbn [app].
    specialize (IHb Wb). destruct v as [[e o] once]. repeat split.
    + intros Ha. rewrite xstep. cbn [fst snd]. rewrite (step_else switch evalb), S1.
      destruct (IHb (Enabled :: stk) (e, o, once) (XL LEndif :: k)) as [H _].
      change (mkX (mkP (Enabled :: stk) e o) once) with (st_of (Enabled :: stk) (e, o, once)).
      rewrite H by (rewrite active_cons, Ha; reflexivity).
      destruct (xsem_items (e, o, once) body) as [[[e1 o1] once1]|err]; cbn [bindv]; [|reflexivity].
      rewrite xstep. cbn [fst snd]. rewrite step_endif. reflexivity.
    + intros Ha. rewrite xstep. cbn [fst snd]. rewrite (step_else switch evalb), S0.
      destruct (IHb (DisabledOuter :: stk) (e, o, once) (XL LEndif :: k)) as [_ H].
      change (mkX (mkP (DisabledOuter :: stk) e o) once) with (st_of (DisabledOuter :: stk) (e, o, once)).
      rewrite H by reflexivity.
      rewrite xstep. cbn [fst snd]. rewrite step_endif. reflexivity.
    + intros top Hd. rewrite xstep. cbn [fst snd]. rewrite (step_else switch evalb).
      assert (Hd' := dead_switch switch Hsw top stk true Hd).
      destruct (IHb (switch top true :: stk) (e, o, once) (XL LEndif :: k)) as [_ H].
      change (mkX (mkP (switch top true :: stk) e o) once) with (st_of (switch top true :: stk) (e, o, once)).
      rewrite H by (apply dead_inactive; exact Hd').
      rewrite xstep. cbn [fst snd]. rewrite step_endif. reflexivity.
Qed.

(* a whole file: the selected leaves in order, or the first rejection among them *)
Theorem tree_selects_C_groups its v :
  ok_items its ->
  xrun (xflat_items its) (st_of [] v) =
  match xsem_items v its with inl v' => inl (st_of [] v') | inr e => inr e end.
Proof.
  intros W. destruct (proj1 (proj2 simulation) its W [] v []) as [H _].
  rewrite app_nil_r in H. rewrite (H eq_refl).
  destruct (xsem_items v its); cbn [bindv]; [apply (xrun_nil switch evalc files d self) | reflexivity].
Qed.

End Tree.

(* ---------- #include leaves: a file that is itself a well-nested tree leaves the chain as it found it ---------- *)
Section Frames.
Variable switch : cstate -> bool -> cstate.
Hypothesis Hsw : switch_ok switch.
Variable evalb : env -> list ctok -> bool.
Variable files : string -> option (list xline).
Notation evalc := (CondProofs.evalc evalb).

Lemma st_of_vis_of stk v : vis_of (st_of stk v) = v.
Proof. destruct v as [[e o] once]. reflexivity. Qed.

Lemma frame_include d self f body :
  files f = Some (xflat_items body) -> ok_items switch evalb files d f body ->
  frame switch evalb files (S d) self (XInclude f).
Proof.
  intros Hf Hok stk v Ha. unfold live.
  rewrite !(xrun_cons switch evalc files (S d) self), !(xrun_nil switch evalc files (S d) self). cbv zeta.
  assert (Hs1 : p_stack (x_p (st_of stk v)) = stk) by (destruct v as [[e o] once]; reflexivity).
  assert (Hs2 : p_stack (x_p (st_of [] v)) = []) by (destruct v as [[e o] once]; reflexivity).
  assert (Hm : marked (st_of stk v) f = marked (st_of [] v) f) by (destruct v as [[e o] once]; reflexivity).
  rewrite Hs1, Hs2, Ha. change (is_active []) with true. cbn [negb]. rewrite Hf, Hm.
  destruct (marked (st_of [] v) f).
  - rewrite !(xrun_nil switch evalc files d f), !(xrun_nil switch evalc files (S d) self). rewrite st_of_vis_of. reflexivity.
  - destruct (proj1 (proj2 (simulation switch Hsw evalb files d f)) body Hok stk v []) as [H1 _].
    destruct (proj1 (proj2 (simulation switch Hsw evalb files d f)) body Hok [] v []) as [H2 _].
    rewrite app_nil_r in H1, H2. rewrite (H1 Ha), (H2 eq_refl).
    destruct (xsem_items switch evalb files d f v body) as [v'|err]; cbn [bindv]; [|reflexivity].
    rewrite !(xrun_nil switch evalc files d f), !(xrun_nil switch evalc files (S d) self). rewrite st_of_vis_of. reflexivity.
Qed.

Lemma frame_include_missing d self f : files f = None -> frame switch evalb files d self (XInclude f).
Proof.
  intros Hf stk v Ha. unfold live.
  rewrite !(xrun_cons switch evalc files d self). cbv zeta.
  assert (Hs1 : p_stack (x_p (st_of stk v)) = stk) by (destruct v as [[e o] once]; reflexivity).
  assert (Hs2 : p_stack (x_p (st_of [] v)) = []) by (destruct v as [[e o] once]; reflexivity).
  rewrite Hs1, Hs2, Ha. change (is_active []) with true. cbn [negb]. rewrite Hf. reflexivity.
Qed.
End Frames.
