(* MacroChain.v — a replacement list that names another object-like macro: the rescan expands it (one level of nesting),
   under the disabled set the outer expansion leaves behind.  Generic in the paste function and the rest of the table. *)
From Coq Require Import List NArith Bool String Arith Lia.
From RV Require Import Macro MacroProofs MacroSubst.
Import ListNotations.
Local Open Scope list_scope.

Section Chain.
Variable paste : mtok -> mtok -> option mtok.
Variable defs : list macro.
Notation plain := (plain defs).

Lemma pick_first_dis dis x after i : forall ds mi0 k m,
  nth_error ds k = Some m -> m_name m = x -> m_fn m = false -> nth (mi0 + k) dis false = false ->
  (forall j m', j < k -> nth_error ds j = Some m' -> String.eqb x (m_name m') = false) ->
  pick_macro ds dis mi0 x after i 0 None = Some (mi0 + k).
Proof.
  induction ds as [|m0 r IH]; intros mi0 k m Hn Hx Hf Hd Hfirst; [destruct k; discriminate|].
  cbn [pick_macro]. cbn [andb].
  destruct k as [|k].
  - cbn in Hn. inversion Hn; subst m0. rewrite Nat.add_0_r in *. rewrite Hd, Hx, String.eqb_refl, Hf. cbn. reflexivity.
  - rewrite (Hfirst 0 m0 ltac:(lia) eq_refl).
    replace (mi0 + S k) with (S mi0 + k) in * by lia.
    rewrite (IH (S mi0) k m Hn Hx Hf Hd).
    + destruct (nth mi0 dis false); reflexivity.
    + intros j m' Hj Hn'. apply (Hfirst (S j) m'); [lia | exact Hn'].
Qed.

Definition noarg (l : list mtok) : Prop := forall i, ~ In (MArg i) l.
Lemma subst_noarg body args : noarg body -> subst body args = body.
Proof.
  induction body as [|t r IH]; intros H; [reflexivity|].
  assert (Hr : noarg r) by (intros i Hi; apply (H i); right; exact Hi).
  destruct t; cbn [subst]; rewrite ?(IH Hr); try reflexivity.
  exfalso. apply (H i). left; reflexivity.
Qed.

(* one object-like invocation in plain surroundings, under any disabled set that leaves the macro enabled, given what
   the rescan of its replacement list yields *)
Lemma expand_object d dis n mi m pre post out :
  nth_error defs mi = Some m -> m_fn m = false -> nth mi dis false = false ->
  (forall j m', j < mi -> nth_error defs j = Some m' -> String.eqb (m_name m) (m_name m') = false) ->
  plain pre -> plain post -> noarg (m_body m) ->
  expand paste defs (S d) (set_nth dis mi true) (S (List.length (m_body m))) (m_body m) 0 0 None = XOk out ->
  plain out ->
  List.length (pre ++ MId (m_name m) :: post) <= S n ->
  expand paste defs (S (S d)) dis (S (S n)) (pre ++ MId (m_name m) :: post) 0 0 None = XOk (pre ++ out ++ post).
Proof.
  intros Hn Hf Hd Hfirst Hpre Hpost Hna Hinner Hout Hlen.
  set (toks := pre ++ MId (m_name m) :: post).
  assert (Hl : List.length toks = List.length pre + S (List.length post))
    by (unfold toks; rewrite app_length; reflexivity).
  rewrite expand_eq. unfold loop_step.
  destruct (Nat.leb_spec (List.length toks) 0) as [Hz|_]; [lia|].
  unfold find. change (firstn 0 toks) with (@nil mtok). change (skipn 0 toks) with toks. cbn [rev]. unfold toks at 1.
  rewrite find_from_skip by exact Hpre. cbn [find_from Nat.add].
  rewrite (pick_first_dis dis (m_name m) post (List.length pre) defs 0 mi m Hn eq_refl Hf Hd Hfirst). cbn [Nat.add].
  rewrite Hn, Hf. cbn [map all_ok rev].
  rewrite (subst_noarg _ [] Hna), Hinner.
  assert (Hfn : firstn (List.length pre) toks = pre) by (unfold toks; apply firstn_app_length_eq).
  assert (Hsk : skipn (S (List.length pre)) toks = post).
  { unfold toks. replace (S (List.length pre)) with (List.length (pre ++ [MId (m_name m)])) by (rewrite app_length; cbn; lia).
    replace (pre ++ MId (m_name m) :: post) with ((pre ++ [MId (m_name m)]) ++ post) by (rewrite <- app_assoc; reflexivity).
    apply skipn_app_length_eq. }
  rewrite Hfn, Hsk.
  apply expand_plain.
  - apply plain_app; [exact Hpre | apply plain_app; [exact Hout | exact Hpost]].
  - rewrite app_length. lia.
Qed.

Lemma plain_noarg l : plain l -> noarg l.
Proof.
  intros H i Hi. unfold MacroSubst.plain in H. rewrite forallb_forall in H. specialize (H _ Hi). discriminate H.
Qed.

Lemma nth_set_other dis i j : i <> j -> nth j (set_nth dis i true) false = nth j dis false.
Proof.
  revert i j; induction dis as [|b r IH]; intros [|i] [|j] H; cbn; try reflexivity; try congruence.
  apply IH. congruence.
Qed.

(* `#define A preA B postA` / `#define B bodyB`: a use of A is preA bodyB postA *)
Theorem object_chain_is_replaced ia a ib b pre post preA postA :
  nth_error defs ia = Some a -> m_fn a = false ->
  nth_error defs ib = Some b -> m_fn b = false ->
  m_body a = preA ++ MId (m_name b) :: postA ->
  String.eqb (m_name a) (m_name b) = false ->
  (forall j m', j < ia -> nth_error defs j = Some m' -> String.eqb (m_name a) (m_name m') = false) ->
  (forall j m', j < ib -> nth_error defs j = Some m' -> String.eqb (m_name b) (m_name m') = false) ->
  plain pre -> plain post -> plain preA -> plain postA -> plain (m_body b) ->
  apply_macros paste defs (pre ++ MId (m_name a) :: post) = XOk (pre ++ (preA ++ m_body b ++ postA) ++ post).
Proof.
  intros Ha Hfa Hb Hfb Hbody Hab Hfirsta Hfirstb Hpre Hpost HpreA HpostA Hbb.
  assert (Hne : ia <> ib).
  { intros E. subst ib. rewrite Ha in Hb. inversion Hb; subst b. rewrite String.eqb_refl in Hab. discriminate. }
  assert (Hla : ia < List.length defs) by (apply nth_error_Some; congruence).
  assert (Hlb : ib < List.length defs) by (apply nth_error_Some; congruence).
  destruct (List.length defs) as [|[|nd]] eqn:Hnd; [lia | lia |].
  unfold apply_macros. rewrite Hnd.
  set (dis0 := map (fun _ : macro => false) defs).
  assert (Hnoarg : noarg (m_body a)).
  { rewrite Hbody. intros i Hi. apply in_app_or in Hi as [Hi|[Hi|Hi]].
    - apply (plain_noarg _ HpreA i Hi).
    - discriminate Hi.
    - apply (plain_noarg _ HpostA i Hi). }
  destruct (List.length (pre ++ MId (m_name a) :: post)) as [|nt] eqn:Hnt.
  { rewrite app_length in Hnt. cbn in Hnt. lia. }
  apply (expand_object (S nd) dis0 nt ia a pre post (preA ++ m_body b ++ postA) Ha Hfa).
  - apply nth_all_false.
  - exact Hfirsta.
  - exact Hpre.
  - exact Hpost.
  - exact Hnoarg.
  - rewrite Hbody.
    destruct (List.length (preA ++ MId (m_name b) :: postA)) as [|nb] eqn:Hnb.
    { rewrite app_length in Hnb. cbn in Hnb. lia. }
    apply (expand_object nd (set_nth dis0 ia true) nb ib b preA postA (m_body b) Hb Hfb).
    + rewrite nth_set_other by exact Hne. apply nth_all_false.
    + exact Hfirstb.
    + exact HpreA.
    + exact HpostA.
    + apply plain_noarg. exact Hbb.
    + apply expand_plain; [exact Hbb | lia].
    + exact Hbb.
    + rewrite Hnb. lia.
  - apply plain_app; [exact HpreA | apply plain_app; [exact Hbb | exact HpostA]].
  - rewrite Hnt. lia.
Qed.

End Chain.
