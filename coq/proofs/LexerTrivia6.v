(* LexerTrivia6.v — `<` and `>` in a prefix.  The lexer records on `<` / `>` whether a token follows directly; inside a
   `Pre2` prefix the token behind the bracket is itself part of the prefix (a token read the same whatever follows, or a
   trivia piece), so the recorded flag does not depend on what comes after the prefix either. *)
From Coq Require Import List NArith Bool String Ascii Arith Lia.
From RV Require Import Lexer LexerProofs LexerTrivia LexerTrivia2 LexerTrivia3.
From RV Require Import LexerTriviaNum LexerTrivia4.
Import ListNotations.
Local Open Scope string_scope.

Section Trivia6.
Variable keywords : list (string * string).
Variable reserved_words : list string.
Variable symbols : list (N * string * option string * option string).
Variable int_suffixes : list (list (list N) * string).
Variable float_suffixes : list (list N * string).
Variable float_is_zero : string -> bool.
Variable utf8_ok : string -> bool.

Notation tok_at := (tok_at keywords reserved_words symbols int_suffixes float_suffixes float_is_zero utf8_ok).
Notation Pre2 := (Pre2 keywords reserved_words symbols int_suffixes float_suffixes float_is_zero utf8_ok).

(* the first token of a non-empty prefix does not depend on what follows the prefix *)
Lemma pre2_first nxt p : Pre2 nxt p -> p <> "" ->
  exists t n, forall r, tok_at false (p ++ String nxt r) = LOk t n.
Proof.
  intros Pp. destruct Pp as [|c a' t p T Pp|x p Px Pp]; intros Hne.
  - congruence.
  - exists t, (slen (String c a')). intros r. pose proof (T r) as Tr. rewrite <- sapp_assoc in Tr. exact Tr.
  - destruct Px as [w Bw| |body Hb|text Ht].
    + destruct Bw as [ -> | [ -> | -> ] ]; eexists; eexists; intros r; cbn [append]; reflexivity.
    + eexists; eexists; intros r; cbn [append]; reflexivity.
    + exists TComment, (2 + (slen body + 2)). intros r.
      rewrite ?sapp_assoc. cbn [append]. rewrite ?sapp_assoc.
      rewrite (tok_at_block keywords reserved_words symbols int_suffixes float_suffixes float_is_zero utf8_ok).
      change (String "*" (String "/" (p ++ String nxt r))) with ("*/" ++ (p ++ String nxt r)).
      rewrite (block_end_body body Hb). reflexivity.
    + exists TComment, (2 + slen text). intros r.
      rewrite ?sapp_assoc. cbn [append]. rewrite ?sapp_assoc. cbn [append].
      rewrite (tok_at_line keywords reserved_words symbols int_suffixes float_suffixes float_is_zero utf8_ok).
      rewrite (line_len_text text Ht). reflexivity.
Qed.

Lemma pre2_langle nxt p : Pre2 nxt p -> p <> "" -> Pre2 nxt ("<" ++ p).
Proof.
  intros Pp Hne. destruct (pre2_first nxt p Pp Hne) as (t & n & Ht).
  apply (Pre2Tok _ _ _ _ _ _ _ nxt "<"%char "" (TLAngle (negb (is_ws t))) p); [|exact Pp].
  intros r. cbn [append]. cbn [Lexer.tok_at]. cbn. rewrite (Ht r). reflexivity.
Qed.

Lemma pre2_rangle nxt p : Pre2 nxt p -> p <> "" -> Pre2 nxt (">" ++ p).
Proof.
  intros Pp Hne. destruct (pre2_first nxt p Pp Hne) as (t & n & Ht).
  apply (Pre2Tok _ _ _ _ _ _ _ nxt ">"%char "" (TRAngle (negb (is_ws t))) p); [|exact Pp].
  intros r. cbn [append]. cbn [Lexer.tok_at]. cbn. rewrite (Ht r). reflexivity.
Qed.

(* a bracket directly in front of the token at the insertion point, when that token is a word *)
Lemma alpha_not_digit c : is_alpha_ c = true -> is_digit c = false.
Proof.
  unfold is_alpha_, is_digit. intros H.
  destruct ((48 <=? code c)%N && (code c <=? 57)%N) eqn:D; [|reflexivity]. exfalso.
  apply andb_true_iff in D as [D1 D2]. apply N.leb_le in D1, D2.
  apply orb_true_iff in H as [H|H]; [apply orb_true_iff in H as [H|H]|].
  - apply andb_true_iff in H as [H1 H2]. apply N.leb_le in H1, H2. lia.
  - apply andb_true_iff in H as [H1 H2]. apply N.leb_le in H1, H2. lia.
  - apply N.eqb_eq in H. lia.
Qed.

Lemma word_token nxt r : is_alpha_ nxt = true -> exists t n, tok_at false (String nxt r) = LOk t n /\ is_ws t = false.
Proof.
  intros Ha. cbn [Lexer.tok_at]. rewrite (alpha_not_digit nxt Ha), Ha. unfold Lexer.lex_word.
  destruct (span is_ident_char (String nxt r)) as [w0 r0].
  destruct (find _ keywords) as [[k v]|]; [eexists; eexists; split; reflexivity|].
  destruct (existsb _ reserved_words); eexists; eexists; split; reflexivity.
Qed.

Lemma pre2_langle_word nxt : is_alpha_ nxt = true -> Pre2 nxt "<".
Proof.
  intros Ha. apply (Pre2Tok _ _ _ _ _ _ _ nxt "<"%char "" (TLAngle true) ""); [|apply Pre2Nil].
  intros r. cbn [append]. destruct (word_token nxt r Ha) as (t & n & Ht & Hw).
  assert (E : tok_at false (String "<" (String nxt r)) =
              LOk (TLAngle (match tok_at false (String nxt r) with LOk t _ => negb (is_ws t) | LErr _ _ => false end)) 1) by reflexivity.
  rewrite E, Ht, Hw. reflexivity.
Qed.

Lemma pre2_rangle_word nxt : is_alpha_ nxt = true -> Pre2 nxt ">".
Proof.
  intros Ha. apply (Pre2Tok _ _ _ _ _ _ _ nxt ">"%char "" (TRAngle true) ""); [|apply Pre2Nil].
  intros r. cbn [append]. destruct (word_token nxt r Ha) as (t & n & Ht & Hw).
  assert (E : tok_at false (String ">" (String nxt r)) =
              LOk (TRAngle (match tok_at false (String nxt r) with LOk t _ => negb (is_ws t) | LErr _ _ => false end)) 1) by reflexivity.
  rewrite E, Ht, Hw. reflexivity.
Qed.

End Trivia6.
