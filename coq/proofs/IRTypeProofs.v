(* IRTypeProofs.v — what the strict IR checker guarantees. *)
From Coq Require Import List NArith Bool String Lia.
From RV Require Import IRType.
Import ListNotations.
Local Open Scope string_scope.
Local Open Scope N_scope.

(* ---- induction over expression trees ---- *)
Section Ind.
Variable P : expr -> Prop.
Hypothesis H : forall k t lv kids, Forall P kids -> P (Node k t lv kids).
Fixpoint expr_ind' (e : expr) : P e :=
  match e with
  | Node k t lv kids =>
      H k t lv kids ((fix all (l : list expr) : Forall P l :=
                        match l with [] => Forall_nil P | x :: r => Forall_cons x (expr_ind' x) (all r) end) kids)
  end.
End Ind.

(* ---- type equality ---- *)
Lemma sk_eqb_eq a b : sk_eqb a b = true -> a = b.
Proof. destruct a, b; cbn; congruence. Qed.

Lemma optN_eqb_eq a b : optN_eqb a b = true -> a = b.
Proof. destruct a, b; cbn; try congruence. intros E. apply N.eqb_eq in E. congruence. Qed.

Lemma ty_eqb_eq : forall a b, ty_eqb a b = true -> a = b.
Proof.
  induction a; destruct b; cbn; try congruence; intros E;
    repeat match goal with
           | E : _ && _ = true |- _ => apply andb_true_iff in E; destruct E
           | E : (_ =? _) = true |- _ => apply N.eqb_eq in E
           | E : String.eqb _ _ = true |- _ => apply String.eqb_eq in E
           | E : sk_eqb _ _ = true |- _ => apply sk_eqb_eq in E
           | E : optN_eqb _ _ = true |- _ => apply optN_eqb_eq in E
           | E : ty_eqb _ _ = true, IH : forall b, ty_eqb _ b = true -> _ |- _ => apply IH in E
           end; subst; reflexivity.
Qed.

(* ---- the error combinators ---- *)
Lemma both_none a b : both a b = None -> a = None /\ b = None.
Proof. destruct a; cbn; [discriminate | auto]. Qed.

Lemma req_none b s : req b s = None -> b = true.
Proof. destruct b; cbn; [reflexivity | discriminate]. Qed.

Ltac split_err :=
  repeat match goal with
         | E : both _ _ = None |- _ => apply both_none in E; destruct E
         | E : req _ _ = None |- _ => apply req_none in E
         | E : _ && _ = true |- _ => apply andb_true_iff in E; destruct E
         end.

Lemma eqb_bool_eq a b : Bool.eqb a b = true -> a = b.
Proof. destruct a, b; cbn; congruence. Qed.

(* turn the boolean facts into equations and finish *)
Ltac facts :=
  split_err;
  repeat match goal with
         | E : ty_eqb _ _ = true |- _ => apply ty_eqb_eq in E
         | E : negb _ = true |- _ => apply negb_true_iff in E
         | E : Bool.eqb _ _ = true |- _ => apply eqb_bool_eq in E
         end.
Ltac fin := facts; subst; repeat split; try assumption; try reflexivity; try (symmetry; assumption).

(* the kids of a well-typed node are well typed *)
Definition all_wt (l : list expr) : err :=
  (fix all (l : list expr) : err := match l with [] => None | x :: r => both (wt x) (all r) end) l.

Lemma wt_unfold k t lv kids : wt (Node k t lv kids) = both (check_node k t lv kids) (all_wt kids).
Proof. reflexivity. Qed.

Lemma all_wt_forall l : all_wt l = None -> Forall (fun x => wt x = None) l.
Proof.
  induction l as [|x r IH]; cbn; intros E; [constructor|].
  apply both_none in E as [E1 E2]. constructor; [exact E1 | apply IH; exact E2].
Qed.

(* ---- every node of a well-typed tree is locally consistent ---- *)
Inductive subterm : expr -> expr -> Prop :=
| sub_refl e : subterm e e
| sub_kid s k t lv kids x : In x kids -> subterm s x -> subterm s (Node k t lv kids).

Theorem wt_every_node e : wt e = None ->
  forall s, subterm s e -> match s with Node k t lv kids => check_node k t lv kids = None end.
Proof.
  induction e as [k t lv kids IH] using expr_ind'. intros W s Hs.
  rewrite wt_unfold in W. apply both_none in W as [W1 W2].
  inversion Hs as [|s' k' t' lv' kids' x Hin Hsub]; subst.
  - exact W1.
  - apply all_wt_forall in W2. rewrite Forall_forall in IH, W2.
    exact (IH x Hin (W2 x Hin) s Hsub).
Qed.

(* ---- writes: what is assigned, incremented or passed for an out parameter is a writable lvalue ---- *)
Definition assign_name (n : string) : bool := String.eqb n "Assignment" || in_list n assign_arith || in_list n assign_int.

Lemma in_list_arith_not_assign n : in_list n arith_ops = true -> assign_name n = false.
Proof.
  unfold in_list, arith_ops. cbn [existsb]. intros E.
  repeat (apply orb_true_iff in E as [E|E]; [apply String.eqb_eq in E; subst; reflexivity|]). discriminate.
Qed.

Theorem wt_assignment_operands name t lv a b :
  assign_name name = true ->
  check_node (KOp name) t lv [a; b] = None ->
  writable a = true /\ same (e_ty a) (e_ty b) = true /\ t = e_ty a /\ lv = true.
Proof.
  intros Hn C. cbn [check_node check_op] in C.
  destruct (in_list name arith_ops) eqn:E1.
  { rewrite (in_list_arith_not_assign _ E1) in Hn. discriminate. }
  destruct (in_list name int_ops) eqn:E2.
  { exfalso. unfold assign_name in Hn. unfold in_list, int_ops in E2. cbn [existsb] in E2.
    repeat (apply orb_true_iff in E2 as [E2|E2]; [apply String.eqb_eq in E2; subst; cbn in Hn; discriminate|]). discriminate. }
  destruct (in_list name bool_ops) eqn:E3.
  { exfalso. unfold in_list, bool_ops in E3. cbn [existsb] in E3.
    repeat (apply orb_true_iff in E3 as [E3|E3]; [apply String.eqb_eq in E3; subst; cbn in Hn; discriminate|]). discriminate. }
  destruct (in_list name cmp_ops) eqn:E4.
  { exfalso. unfold in_list, cmp_ops in E4. cbn [existsb] in E4.
    repeat (apply orb_true_iff in E4 as [E4|E4]; [apply String.eqb_eq in E4; subst; cbn in Hn; discriminate|]). discriminate. }
  destruct (String.eqb name "Assignment") eqn:E5; [fin|].
  destruct (in_list name assign_arith) eqn:E6; [fin|].
  destruct (in_list name assign_int) eqn:E7; [fin|].
  unfold assign_name in Hn. rewrite E5, E6, E7 in Hn. discriminate.
Qed.

Theorem wt_increment_operand name t lv a :
  in_list name ["PrefixIncrement"; "PrefixDecrement"; "PostfixIncrement"; "PostfixDecrement"] = true ->
  check_node (KOp name) t lv [a] = None -> writable a = true.
Proof.
  intros Hn C. cbn [check_node check_op] in C.
  destruct (in_list name ["PrefixIncrement"; "PrefixDecrement"]) eqn:E1; [split_err; assumption|].
  destruct (in_list name ["PostfixIncrement"; "PostfixDecrement"]) eqn:E2; [split_err; assumption|].
  exfalso. unfold in_list in *. cbn [existsb] in *.
  repeat (apply orb_true_iff in Hn as [Hn|Hn]; [rewrite Hn in *; cbn in *; try discriminate|]); try discriminate.
  all: repeat rewrite orb_true_r in *; try discriminate.
Qed.

(* a writable lvalue is an lvalue whose path goes through nothing const *)
Lemma writable_spec e : writable e = true -> e_lv e = true /\ const_path e = false /\ is_const (e_ty e) = false.
Proof.
  unfold writable. intros E. apply andb_true_iff in E as [E1 E2]. apply negb_true_iff in E2.
  repeat split; try assumption. destruct e as [k t lv kids]. cbn [const_path e_ty] in *.
  apply orb_false_iff in E2 as [E2 _]. exact E2.
Qed.

(* ---- calls: one operand per parameter, each of the parameter's type, writable where the parameter is out / inout ---- *)
Lemma args_ok_spec : forall params nd args, args_ok nd params args = None ->
  Forall2 (fun (p : N * ty) a =>
             (same (e_ty a) (snd p) = true \/ exists i, strip (snd p) = TParam i) /\
             (fst p <> 0 -> writable a = true)) (firstn (List.length args) params) args.
Proof.
  induction params as [|[dir pt] ps IH]; intros nd [|a r] E; cbn [args_ok] in E; try discriminate; cbn [List.length firstn]; [constructor|constructor|].
  split_err. constructor; [|eapply IH; eassumption]. cbn [fst snd]. split.
  - match goal with H : same _ _ || _ = true |- _ => apply orb_true_iff in H as [H|H] end; [left; assumption|].
    right. destruct (strip pt); try discriminate. eexists; reflexivity.
  - intros Hd. match goal with H : (dir =? 0) || _ = true |- _ => apply orb_true_iff in H as [Hz|Hz] end; [|assumption].
    apply N.eqb_eq in Hz. contradiction.
Qed.

Lemma args_ok_count : forall params nd args, args_ok nd params args = None ->
  (N.to_nat nd <= List.length args <= List.length params)%nat.
Proof.
  induction params as [|[dir pt] ps IH]; intros nd [|a r] E; cbn [args_ok] in E; try discriminate; cbn [List.length].
  - unfold req in E. destruct (nd =? 0) eqn:Z; [|discriminate]. apply N.eqb_eq in Z. subst. cbn. lia.
  - unfold req in E. destruct (nd =? 0) eqn:Z; [|discriminate]. apply N.eqb_eq in Z. subst. cbn. lia.
  - split_err. match goal with H : args_ok _ _ _ = None |- _ => apply IH in H end. lia.
Qed.

Theorem wt_call_operands intrinsic nd params ret t lv args :
  check_node (KCall false intrinsic nd params ret) t lv args = None ->
  Forall2 (fun (p : N * ty) a =>
             (same (e_ty a) (snd p) = true \/ exists i, strip (snd p) = TParam i) /\
             (fst p <> 0 -> writable a = true)) (firstn (List.length args) params) args /\
  (N.to_nat nd <= List.length args <= List.length params)%nat /\ t = ret /\ lv = false.
Proof.
  intros C. cbn [check_node] in C. split_err. split; [eapply args_ok_spec; eassumption|].
  split; [eapply args_ok_count; eassumption|]. fin.
Qed.

(* ---- matrix swizzles: every component lies inside the matrix; an lvalue only without a repeated component ---- *)
Theorem wt_matrix_swizzle idx t lv x :
  check_node (KMSwz idx) t lv [x] = None ->
  exists r c s, strip (e_ty x) = TMatrix r c s /\
    forallb (fun i => (i / 4 <? r) && (i mod 4 <? c)) idx = true /\
    lv = (e_lv x && nodupN idx)%bool.
Proof.
  intros C. cbn [check_node] in C. destruct idx as [|i idx]; [discriminate|].
  destruct (strip (e_ty x)) as [| | |r c s| | | | | | | |] eqn:E; try discriminate.
  split_err. exists r, c, s. repeat split.
  - match goal with H : forallb _ _ = true |- _ => exact H end.
  - match goal with H : Bool.eqb _ _ = true |- _ => apply Bool.eqb_prop in H; exact H end.
Qed.

(* ---- statements: a returned value has the function's type, an initialiser the variable's ---- *)
Theorem wt_return ret e : wt_stmt ret (SRet (Some e)) = None -> wt e = None /\ same (e_ty e) ret = true.
Proof. cbn. intros E. split_err. split; assumption. Qed.

Theorem wt_return_nothing ret : wt_stmt ret (SRet None) = None -> strip ret = TVoid.
Proof. cbn. intros E. fin. Qed.

Theorem wt_initialiser ret t e : wt_stmt ret (SVar t (IExpr e)) = None -> wt e = None /\ same (e_ty e) t = true.
Proof. cbn. intros E. split_err. split; assumption. Qed.

(* ---- the annotation of every node is the type derived bottom-up from the leaves ---- *)
Definition ann (e : expr) : ty * bool := (e_ty e, e_lv e).

Lemma derive_kids l : Forall (fun x => derive x = Some (ann x)) l ->
  (fix all (l : list expr) : option (list (ty * bool)) :=
     match l with
     | [] => Some []
     | x :: r => match derive x, all r with Some a, Some b => Some (a :: b) | _, _ => None end
     end) l = Some (map ann l).
Proof.
  induction 1 as [|x r Hx Hr IH]; [reflexivity|]. rewrite Hx, IH. reflexivity.
Qed.

Theorem wt_annotations_are_derived e : wt e = None -> derive e = Some (ann e).
Proof.
  induction e as [k t lv kids IH] using expr_ind'. intros W.
  rewrite wt_unfold in W. apply both_none in W as [C W2].
  apply all_wt_forall in W2.
  assert (Hk : Forall (fun x => derive x = Some (ann x)) kids).
  { rewrite Forall_forall in *. intros x Hx. apply IH; [exact Hx | apply W2; exact Hx]. }
  cbn [derive]. rewrite (derive_kids kids Hk). clear IH W2 Hk.
  unfold ann at 2. cbn [e_ty e_lv].
  destruct k; cbn [check_node] in C.
  - (* literal *) destruct kids; [|split_err; discriminate]. cbn. fin.
  - (* variable *) destruct kids; [|split_err; discriminate]. cbn. fin.
  - (* enum value *) destruct kids; [|split_err; discriminate]. cbn. fin.
  - (* ternary *) destruct kids as [|c [|a [|b [|? ?]]]]; try discriminate. cbn. fin.
  - (* sequence *) cbn [derive_node]. rewrite <- map_rev. destruct (rev kids) as [|last r]; [discriminate|].
    cbn. unfold ann. fin.
  - (* swizzle *) destruct kids as [|x [|? ?]]; try discriminate. destruct idx as [|i idx]; [discriminate|].
    cbn [map derive_node ann]. unfold ann. cbn [e_ty e_lv].
    destruct (strip (e_ty x)); try discriminate; fin.
  - (* matrix swizzle *) destruct kids as [|x [|? ?]]; try discriminate. destruct idx as [|i idx]; [discriminate|].
    cbn [map derive_node ann]. unfold ann. cbn [e_ty e_lv].
    destruct (strip (e_ty x)); try discriminate; fin.
  - (* opaque *) destruct kids; reflexivity.
  - (* subscript *) destruct kids as [|a [|i [|? ?]]]; try discriminate. split_err. cbn [map derive_node ann]. unfold ann. cbn [e_ty e_lv].
    destruct (strip (e_ty a)); try discriminate; fin.
  - (* struct member *) destruct kids as [|x [|? ?]]; try discriminate. cbn. unfold ann. fin.
  - (* call *) split_err. destruct kids; cbn; fin.
  - (* constructor *) destruct (num t) as [[k s]|]; [|discriminate]. split_err. destruct kids; cbn; fin.
  - (* cast *) destruct kids as [|x [|? ?]]; try discriminate. cbn. fin.
  - (* sizeof *) destruct kids; [|split_err; discriminate]. cbn. fin.
  - (* operations *)
    unfold check_op in C. destruct kids as [|a [|b [|? ?]]]; try discriminate.
    + cbn [map derive_node ann]. unfold ann. cbn [e_ty e_lv].
      destruct (in_list name ["PrefixIncrement"; "PrefixDecrement"]) eqn:E1; [fin|].
      destruct (in_list name ["PostfixIncrement"; "PostfixDecrement"]) eqn:E2.
      { assert (X : in_list name ["PostfixIncrement"; "PostfixDecrement"; "Plus"; "Minus"; "BitwiseNot"] = true).
        { unfold in_list in *. cbn [existsb] in *. apply orb_true_iff in E2 as [E2|E2]; [|apply orb_true_iff in E2 as [E2|E2]; [|discriminate]];
            rewrite E2; repeat rewrite orb_true_r; reflexivity. }
        rewrite X. fin. }
      destruct (in_list name ["Plus"; "Minus"]) eqn:E3.
      { assert (X : in_list name ["PostfixIncrement"; "PostfixDecrement"; "Plus"; "Minus"; "BitwiseNot"] = true).
        { unfold in_list in *. cbn [existsb] in *. apply orb_true_iff in E3 as [E3|E3]; [|apply orb_true_iff in E3 as [E3|E3]; [|discriminate]];
            rewrite E3; repeat rewrite orb_true_r; reflexivity. }
        rewrite X. fin. }
      destruct (String.eqb name "LogicalNot") eqn:E4.
      { assert (X : in_list name ["PostfixIncrement"; "PostfixDecrement"; "Plus"; "Minus"; "BitwiseNot"] = false).
        { apply String.eqb_eq in E4. subst. reflexivity. }
        rewrite X. destruct (num (e_ty a)) as [[k s]|]; [|discriminate]. fin. }
      destruct (String.eqb name "BitwiseNot") eqn:E5; [|discriminate].
      assert (X : in_list name ["PostfixIncrement"; "PostfixDecrement"; "Plus"; "Minus"; "BitwiseNot"] = true).
      { apply String.eqb_eq in E5. subst. reflexivity. }
      rewrite X. fin.
    + cbn [map derive_node ann]. unfold ann. cbn [e_ty e_lv].
      destruct (in_list name arith_ops) eqn:E1; [cbn [orb]; fin|].
      destruct (in_list name int_ops) eqn:E2; [cbn [orb]; fin|].
      destruct (in_list name bool_ops) eqn:E3; [cbn [orb]; fin|].
      cbn [orb].
      destruct (in_list name cmp_ops) eqn:E4.
      { split_err. destruct (num (e_ty a)) as [[k s]|]; [fin|].
        destruct (strip (e_ty a)); try discriminate. fin. }
      destruct (String.eqb name "Assignment") eqn:E5; [cbn [orb]; fin|].
      cbn [orb].
      destruct (in_list name assign_arith) eqn:E6; [cbn [orb]; fin|].
      cbn [orb].
      destruct (in_list name assign_int) eqn:E7; [|discriminate]. fin.
Qed.
