(* MacroNested.v — nested invocations: the arguments of a function-like macro are expanded first, then substituted.
   `f(K)` with an object-like `K`: the replacement list of f with K's replacement list in place of the parameter. *)
From Coq Require Import List NArith Bool String Arith Lia.
From RV Require Import Macro MacroProofs MacroSubst.
From RV Require Import MacroChain.
Import ListNotations.
Local Open Scope list_scope.

Section Nested.
Variable paste : mtok -> mtok -> option mtok.
Variable defs : list macro.
Notation plain := (plain defs).

Definition balanced (a : list mtok) : Prop := depth_after 0 a = Some 0.

Lemma split_go_commas_bal : forall args post acc, args <> [] -> Forall balanced args ->
  split_args_go (commas args ++ MRP :: post) [] 0 acc = Some (post, rev acc ++ map trim args).
Proof.
  induction args as [|a r IH]; intros post acc Hne Hs; [congruence|].
  inversion Hs as [|? ? Ha Hr]; subst.
  destruct r as [|b r'].
  - cbn [commas map]. rewrite (split_go_depth a 0 0 (MRP :: post) [] acc Ha). cbn [split_args_go].
    rewrite app_nil_r, rev_involutive. cbn [rev]. reflexivity.
  - change (commas (a :: b :: r')) with (a ++ MComma :: commas (b :: r')).
    rewrite <- app_assoc. cbn [app].
    rewrite (split_go_depth a 0 0 _ [] acc Ha). cbn [split_args_go Nat.eqb].
    rewrite app_nil_r, rev_involutive.
    rewrite (IH post (trim a :: acc) ltac:(discriminate) Hr).
    cbn [rev map]. rewrite <- app_assoc. reflexivity.
Qed.

Lemma all_ok_forall2 (f : list mtok -> xres) l l' :
  Forall2 (fun a a' => f a = XOk a') l l' -> forall acc, all_ok (map f l) acc = inr (rev acc ++ l').
Proof.
  induction 1 as [|a a' l l' Ha _ IH]; intros acc; cbn [map all_ok]; [rewrite app_nil_r; reflexivity|].
  rewrite Ha, IH. cbn [rev]. rewrite <- app_assoc. reflexivity.
Qed.

(* the invocation of a function-like macro, given what the expansion of each argument and the rescan yield *)
Lemma function_macro_nested mi m pre args args' post out :
  nth_error defs mi = Some m -> m_fn m = true ->
  (forall j m', j < mi -> nth_error defs j = Some m' -> String.eqb (m_name m) (m_name m') = false) ->
  args <> [] -> List.length args = m_params m -> Forall balanced args ->
  plain pre -> plain post ->
  (forall n, (forall a, In a args -> List.length a <= n) ->
     Forall2 (fun a a' => expand paste defs (S (List.length defs)) (map (fun _ => false) defs) (S (S n)) a 0 0 None = XOk a')
             (map trim args) args') ->
  (let sb := subst (m_body m) args' in
   expand paste defs (List.length defs) (set_nth (map (fun _ => false) defs) mi true) (S (List.length sb)) sb 0 0 None = XOk out) ->
  plain out ->
  apply_macros paste defs (pre ++ MId (m_name m) :: MLP :: commas args ++ MRP :: post) = XOk (pre ++ out ++ post).
Proof.
  intros Hn Hf Hfirst Hne Hlen Hs Hpre Hpost Hargs Hinner Hout.
  unfold apply_macros.
  set (call := MLP :: commas args ++ MRP :: post).
  set (toks := pre ++ MId (m_name m) :: call).
  assert (Hl : List.length toks = List.length pre + S (List.length call))
    by (unfold toks; rewrite app_length; reflexivity).
  rewrite expand_eq. unfold loop_step.
  destruct (Nat.leb_spec (List.length toks) 0) as [Hz|_]; [lia|].
  unfold find. change (firstn 0 toks) with (@nil mtok). change (skipn 0 toks) with toks. cbn [rev]. unfold toks at 1.
  rewrite find_from_skip by exact Hpre. cbn [find_from Nat.add]. unfold call at 1.
  rewrite (pick_first_fn defs (m_name m) _ (List.length pre) defs 0 mi m Hn eq_refl Hf Hfirst). cbn [Nat.add].
  rewrite Hn, Hf.
  assert (Hsk : skipn (S (List.length pre)) toks = call).
  { unfold toks. replace (S (List.length pre)) with (List.length (pre ++ [MId (m_name m)])) by (rewrite app_length; cbn; lia).
    replace (pre ++ MId (m_name m) :: call) with ((pre ++ [MId (m_name m)]) ++ call) by (rewrite <- app_assoc; reflexivity).
    apply skipn_app_length_eq. }
  assert (Hfn : firstn (List.length pre) toks = pre) by (unfold toks; apply firstn_app_length_eq).
  rewrite Hsk, Hfn. unfold call at 1. unfold split_args. cbn [trim_start_all is_ws].
  rewrite (split_go_commas_bal args post [] Hne Hs). cbn [rev app].
  assert (Hp0 : Nat.eqb (m_params m) 0 = false).
  { apply Nat.eqb_neq. rewrite <- Hlen. destruct args; [congruence | cbn; lia]. }
  rewrite Hp0, map_length, Hlen, Nat.eqb_refl.
  (* every argument is shorter than the call *)
  assert (Hshort : forall a, In a args -> List.length a <= List.length (commas args)).
  { clear. induction args as [|x r IH]; intros a Ha; [destruct Ha|].
    destruct r as [|y r'].
    - destruct Ha as [<-|[]]. cbn. lia.
    - change (commas (x :: y :: r')) with (x ++ MComma :: commas (y :: r')). rewrite app_length. cbn [List.length].
      destruct Ha as [<-|Ha]; [lia|]. specialize (IH a Ha). lia. }
  assert (Hcall : List.length call = S (List.length (commas args) + S (List.length post))).
  { unfold call. cbn [List.length]. rewrite app_length. reflexivity. }
  destruct (List.length toks) as [|[|nt]] eqn:Hnt; [lia | lia |].
  rewrite (all_ok_forall2 _ _ args').
  2: { apply Hargs. intros a Ha. specialize (Hshort a Ha). lia. }
  cbn [rev app]. cbv zeta in Hinner. rewrite Hinner.
  apply expand_plain.
  - apply plain_app; [exact Hpre | apply plain_app; [exact Hout | exact Hpost]].
  - rewrite app_length. lia.
Qed.

(* f(K): `#define f(p) body` with a plain body, `#define K bodyK` with a plain bodyK *)
Theorem argument_is_expanded_first fi f ki k pre post :
  nth_error defs fi = Some f -> m_fn f = true -> m_params f = 1 ->
  nth_error defs ki = Some k -> m_fn k = false ->
  (forall j m', j < fi -> nth_error defs j = Some m' -> String.eqb (m_name f) (m_name m') = false) ->
  (forall j m', j < ki -> nth_error defs j = Some m' -> String.eqb (m_name k) (m_name m') = false) ->
  forallb (bodyb defs) (m_body f) = true -> plain (m_body k) ->
  plain pre -> plain post ->
  apply_macros paste defs (pre ++ MId (m_name f) :: MLP :: MId (m_name k) :: MRP :: post) =
  XOk (pre ++ subst (m_body f) [m_body k] ++ post).
Proof.
  intros Hf Hff Hp Hk Hfk Hfirstf Hfirstk Hbody Hbk Hpre Hpost.
  change (MId (m_name k) :: MRP :: post) with (commas [[MId (m_name k)]] ++ MRP :: post).
  assert (Hnd : exists nd, List.length defs = S nd).
  { destruct defs; [destruct fi; discriminate | eexists; reflexivity]. }
  destruct Hnd as [nd Hnd].
  assert (Hsub : plain (subst (m_body f) [m_body k])).
  { apply subst_is_plain; [exact Hbody | constructor; [exact Hbk | constructor]]. }
  apply (function_macro_nested fi f pre [[MId (m_name k)]] [m_body k] post _ Hf Hff Hfirstf).
  - discriminate.
  - rewrite Hp. reflexivity.
  - constructor; [reflexivity | constructor].
  - exact Hpre.
  - exact Hpost.
  - intros n Hn'. cbn [map]. constructor; [|constructor].
    assert (Ht : trim [MId (m_name k)] = [MId (m_name k)]) by reflexivity.
    rewrite Ht. rewrite Hnd.
    pose proof (expand_object paste defs nd (map (fun _ => false) defs) n ki k [] [] (m_body k) Hk Hfk
                  (nth_all_false defs ki) Hfirstk eq_refl eq_refl (plain_noarg defs _ Hbk)) as E.
    cbn [app] in E. rewrite app_nil_r in E. apply E.
    + apply expand_plain; [exact Hbk | lia].
    + exact Hbk.
    + cbn. lia.
  - cbv zeta. rewrite Hnd. apply expand_plain; [exact Hsub | lia].
  - exact Hsub.
Qed.

End Nested.
