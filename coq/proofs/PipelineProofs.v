(* PipelineProofs.v — what the pipeline loop of compile returns. *)
From Coq Require Import List Bool String Lia Arith.
From RV Require Import Pipeline.
Import ListNotations.

Section Proofs.
Variable P : Type.
Variable pname : P -> string.
Variable R E : Type.
Variable build : option P -> R + E.

Notation Compile := (compile P pname R E build).
Notation BuildAll := (build_all P R E build).

Lemma build_all_spec ps : forall acc rs,
  BuildAll ps acc = inl rs -> exists xs, rs = rev acc ++ xs /\ Forall2 (fun p x => build (Some p) = inl x) ps xs.
Proof.
  induction ps as [|p r IH]; intros acc rs H; cbn [build_all] in H.
  - inversion H; subst. exists []. rewrite app_nil_r. split; [reflexivity | constructor].
  - destruct (build (Some p)) as [x|e] eqn:B; [|discriminate].
    destruct (IH _ _ H) as (xs & -> & F). exists (x :: xs). cbn [rev]. rewrite <- app_assoc. split; [reflexivity|].
    constructor; assumption.
Qed.

(* without a name: one result per pipeline definition, in source order *)
Theorem all_in_source_order pipes rs :
  Compile pipes None false = Done _ _ rs -> Forall2 (fun p x => build (Some p) = inl x) pipes rs.
Proof.
  unfold compile. cbn [wanted].
  assert (Hf : List.filter (fun _ : P => true) pipes = pipes) by (induction pipes as [|a l IH]; cbn; [reflexivity | rewrite IH; reflexivity]).
  change (List.filter (wanted P pname None) pipes) with (List.filter (fun _ : P => true) pipes). rewrite Hf.
  destruct (BuildAll pipes []) as [xs|e] eqn:B; [|discriminate].
  destruct (Nat.eqb (List.length xs) 0 && negb false); [discriminate|]. intros H. inversion H; subst rs.
  destruct (build_all_spec _ _ _ B) as (ys & -> & F). exact F.
Qed.

(* with a name: exactly the pipeline of that name, which is the only one of that name *)
Theorem named_is_that_pipeline pipes n rs :
  Compile pipes (Some n) false = Done _ _ rs ->
  exists p x, rs = [x] /\ build (Some p) = inl x /\ List.filter (fun q => String.eqb (pname q) n) pipes = [p].
Proof.
  unfold compile. change (wanted P pname (Some n)) with (fun q => String.eqb (pname q) n).
  destruct (BuildAll (List.filter (fun q => String.eqb (pname q) n) pipes) []) as [xs|e] eqn:B; [|discriminate].
  destruct (Nat.ltb_spec 1 (List.length xs)) as [L1|L1]; [discriminate|]. destruct (Nat.eqb_spec (List.length xs) 0) as [L0|L0]; [discriminate|].
  intros Hd. inversion Hd; subst rs. destruct (build_all_spec _ _ _ B) as (ys & -> & F). cbn [rev app] in *.
  destruct F as [|p x ps' ys' Hb F']; [cbn in *; lia|]. destruct F'; [|cbn in *; lia].
  exists p, x. repeat split; assumption.
Qed.

Theorem unknown_name_fails pipes n :
  (forall p, In p pipes -> pname p <> n) -> Compile pipes (Some n) false = NotFound _ _ n.
Proof.
  intros H. unfold compile. change (wanted P pname (Some n)) with (fun q => String.eqb (pname q) n).
  assert (Hf : List.filter (fun q => String.eqb (pname q) n) pipes = []).
  { induction pipes as [|a l IH]; [reflexivity|]. cbn [List.filter].
    destruct (String.eqb_spec (pname a) n) as [Eq|_]; [exfalso; apply (H a); [left; reflexivity | exact Eq]|].
    apply IH. intros p Hp. apply H. right. exact Hp. }
  rewrite Hf. reflexivity.
Qed.

Theorem no_pipelines_fails_unless_mode : Compile [] None false = NoPipelines _ _.
Proof. reflexivity. Qed.

Theorem no_pipeline_mode_builds_the_module pipes filter x :
  build None = inl x -> Compile pipes filter true = Done _ _ [x].
Proof. intros H. unfold compile. rewrite H. destruct filter; reflexivity. Qed.

(* compiled alone by name or as part of the whole file: the same result, at the pipeline's position *)
Theorem by_name_equals_position pipes n rs rs_all :
  Compile pipes (Some n) false = Done _ _ rs -> Compile pipes None false = Done _ _ rs_all ->
  exists i p x, rs = [x] /\ nth_error pipes i = Some p /\ pname p = n /\ nth_error rs_all i = Some x.
Proof.
  intros H1 H2. destruct (named_is_that_pipeline _ _ _ H1) as (p & x & -> & Hb & Hf).
  pose proof (all_in_source_order _ _ H2) as F.
  assert (Hin : In p pipes /\ pname p = n).
  { assert (Hp : In p (List.filter (fun q => String.eqb (pname q) n) pipes)) by (rewrite Hf; left; reflexivity).
    apply filter_In in Hp. destruct Hp as [Hp He]. split; [exact Hp | apply String.eqb_eq, He]. }
  destruct Hin as [Hin Hn]. destruct (In_nth_error _ _ Hin) as [i Hi].
  exists i, p, x. repeat split; try assumption.
  clear -F Hi Hb. revert i Hi. induction F as [|q y ps ys Hq F IH]; intros [|i] Hi; cbn in *; try discriminate.
  - inversion Hi; subst q. congruence.
  - apply IH, Hi.
Qed.

End Proofs.
