(* OverloadGlue.v — instantiation of the overload model with the tables regenerated from
   typer/src/casting.rs, the table obligations, and the lemmas connecting signatures/arguments
   (Overload.viable) with the cast-level theorems of OverloadProofs.v. *)
From Coq Require Import List NArith Bool Lia Permutation String Arith PeanoNat.
From RV Require Import Overload OverloadProofs GenLayout GenCasting.
Import ListNotations.
Local Open Scope N_scope.

Definition scalar_eqb (a b : scalar) : bool := String.eqb (scalar_name a) (scalar_name b).
Definition vrank_eqb (a b : vrank) : bool :=
  match a, b with
  | VR_Exact, VR_Exact | VR_Expand, VR_Expand | VR_Contract, VR_Contract => true
  | _, _ => false
  end.
(* trusted order on vector conversions: same dimension is best, truncation is worst *)
Definition vorder (r : vrank) : N := match r with VR_Exact => 0 | VR_Expand => 1 | VR_Contract => 2 end.

Notation ety := (Overload.ety scalar).
Notation param := (Overload.param scalar).
Notation signature := (Overload.signature scalar).
Notation find := (Overload.find scalar scalar_eqb nrank NR_Exact scalar_rank vrank VR_Exact VR_Expand VR_Contract).
Notation casts_of := (Overload.casts_of scalar scalar_eqb nrank NR_Exact scalar_rank vrank VR_Exact VR_Expand VR_Contract).
Notation viable := (Overload.viable scalar scalar_eqb nrank NR_Exact scalar_rank vrank VR_Exact VR_Expand VR_Contract).
Notation resolve := (Overload.resolve nrank nrank_order vrank vrank_eqb worst_to_best).
Notation finalists := (Overload.finalists nrank nrank_order vrank vrank_eqb worst_to_best).
Notation param_ety := (Overload.param_ety scalar).

(* ---- table obligations ---- *)
Lemma scalar_eqb_spec a b : scalar_eqb a b = true <-> a = b.
Proof. destruct a, b; cbn; split; intros H; try reflexivity; try discriminate. Qed.

Lemma vrank_eqb_spec a b : vrank_eqb a b = true <-> a = b.
Proof. destruct a, b; cbn; split; intros H; try reflexivity; try discriminate. Qed.

Lemma order_exact_min r : nrank_order NR_Exact <= nrank_order r.
Proof. destruct r; cbn; lia. Qed.

Lemma order_injective a b : nrank_order a = nrank_order b -> a = b.
Proof. destruct a, b; cbn; intros H; try reflexivity; discriminate. Qed.

Lemma w2b_eq : worst_to_best = [VR_Contract; VR_Expand; VR_Exact].
Proof. reflexivity. Qed.

Lemma vorder_vals : vorder VR_Exact = 0 /\ vorder VR_Expand = 1 /\ vorder VR_Contract = 2.
Proof. repeat split. Qed.

Lemma vrank_cases r : r = VR_Exact \/ r = VR_Expand \/ r = VR_Contract.
Proof. destruct r; auto. Qed.

(* a conversion between different scalar types is never ranked Exact *)
Lemma scalar_rank_not_exact s d : s <> d -> scalar_rank s d <> NR_Exact.
Proof. destruct s, d; cbn; intros H E; try discriminate; apply H; reflexivity. Qed.

(* the priority table in the header comment of casting.rs *)
Lemma rank_table_rows :
  map (fun d => scalar_rank ST_Int32 d) [ST_UInt32; ST_Bool; ST_Float16; ST_Float32; ST_Float64] =
    [NR_Promotion; NR_IntToBool; NR_Conversion; NR_Conversion; NR_Conversion] /\
  map (fun d => scalar_rank ST_Float16 d) [ST_Float32; ST_Float64; ST_Int32] = [NR_Promotion; NR_PromotionTwice; NR_Conversion] /\
  map (fun d => scalar_rank ST_Float32 d) [ST_Float64; ST_Float16; ST_Int32] = [NR_Promotion; NR_Conversion; NR_Conversion] /\
  map (fun d => scalar_rank ST_IntLiteral d) [ST_Int32; ST_UInt32; ST_Bool; ST_Float32] =
    [NR_Promotion; NR_Promotion; NR_IntToBool; NR_Conversion].
Proof. repeat split. Qed.

(* ---- find on identical types ---- *)
Lemma dim_eqb_refl d : Overload.dim_eqb d d = true.
Proof. destruct d; cbn; [reflexivity | apply N.eqb_refl]. Qed.

Lemma find_identical (a : ety) (p : param) :
  e_scalar _ a = p_scalar _ p -> e_dim _ a = p_dim _ p ->
  (p_out _ p = true -> e_lvalue _ a = true /\ e_const _ a = false) ->
  find a (param_ety p) = Some (NR_Exact, VR_Exact).
Proof.
  intros Hs Hd Ho. unfold Overload.find, Overload.dim_cast, Overload.param_ety. cbn [e_scalar e_dim e_lvalue e_const].
  rewrite <- Hs, <- Hd. assert (E : scalar_eqb (e_scalar _ a) (e_scalar _ a) = true) by (apply scalar_eqb_spec; reflexivity).
  rewrite E, dim_eqb_refl. cbn [andb].
  destruct (p_out _ p) eqn:Po.
  - destruct (Ho eq_refl) as [Hl Hc]. rewrite Hl, Hc. cbn [negb andb]. reflexivity.
  - rewrite andb_false_r. cbn [andb]. reflexivity.
Qed.

Lemma find_exact_same_scalar (a q : ety) v : find a q = Some (NR_Exact, v) -> e_scalar _ a = e_scalar _ q.
Proof.
  unfold Overload.find. destruct (negb (e_lvalue _ a) && e_lvalue _ q); [discriminate|].
  destruct (Overload.dim_cast _ _ _ _ _ _ a q); [|discriminate].
  destruct (scalar_eqb (e_scalar _ a) (e_scalar _ q)) eqn:E.
  - intros _. apply scalar_eqb_spec. exact E.
  - destruct (e_lvalue _ q && e_const _ a && negb (e_const _ q)); [discriminate|].
    intros H. inversion H as [[H1 H2]]. exfalso. eapply scalar_rank_not_exact; [|exact H1].
    intros E'. rewrite E' in E. assert (scalar_eqb (e_scalar _ q) (e_scalar _ q) = true) by (apply scalar_eqb_spec; reflexivity).
    congruence.
Qed.

(* ---- viable candidates ---- *)
Lemma casts_of_length ps : forall args c,
  casts_of ps args = Some c -> (List.length args <= List.length ps)%nat -> List.length c = List.length args.
Proof.
  induction ps as [|p ps IH]; intros [|a args] c H L; cbn in *; try (inversion H; reflexivity); try lia.
  destruct (find a (param_ety p)); [|discriminate].
  destruct (casts_of ps args) eqn:E; [|discriminate]. inversion H; subst. cbn. f_equal. apply (IH args); [exact E | lia].
Qed.

Lemma viable_in sigs args c :
  In c (viable sigs args) ->
  exists s, In s sigs /\ fst c = s_id _ s /\ casts_of (s_params _ s) args = Some (snd c) /\
            (List.length args <= List.length (s_params _ s))%nat.
Proof.
  unfold Overload.viable. rewrite in_flat_map. intros (s & Hs & Hc). exists s.
  destruct (Nat.leb (List.length args) (List.length (s_params _ s))) eqn:L1; cbn [andb] in Hc; [|destruct Hc].
  destruct (Nat.leb (s_non_default _ s) (List.length args)); [|destruct Hc].
  destruct (casts_of (s_params _ s) args) eqn:E; [|destruct Hc].
  destruct Hc as [<-|[]]. cbn. apply Nat.leb_le in L1. auto.
Qed.

Lemma viable_length sigs args c : In c (viable sigs args) -> List.length (snd c) = List.length args.
Proof.
  intros H. destruct (viable_in _ _ _ H) as (s & _ & _ & E & L). eapply casts_of_length; eassumption.
Qed.

Lemma viable_nodup sigs args : NoDup (map (s_id _) sigs) -> NoDup (map fst (viable sigs args)).
Proof.
  induction sigs as [|s sigs IH]; intros H; cbn; [constructor|].
  inversion H as [|? ? Hnot Hnd]; subst. unfold Overload.viable in *. cbn [flat_map]. rewrite map_app.
  match goal with |- NoDup (map fst ?o ++ _) => set (one := o) end.
  assert (Hone : one = [] \/ exists c, one = [(s_id _ s, c)]).
  { unfold one. destruct (_ && _); [|left; reflexivity]. destruct (casts_of _ _); [right; eexists; reflexivity | left; reflexivity]. }
  destruct Hone as [->|[c ->]]; cbn; [apply IH; exact Hnd|].
  constructor; [|apply IH; exact Hnd].
  intros Hin. apply in_map_iff in Hin as (d & Ed & Hd).
  destruct (viable_in sigs args d Hd) as (s' & Hs' & Eid & _). apply Hnot. rewrite <- Ed, Eid. apply in_map. exact Hs'.
Qed.

Lemma viable_perm sigs sigs' args : Permutation sigs sigs' -> Permutation (viable sigs args) (viable sigs' args).
Proof. intros P. unfold Overload.viable. apply Permutation_flat_map. exact P. Qed.

Notation dominates := (OverloadProofs.dominates nrank nrank_order vrank vorder).
Notation exact_cast := (OverloadProofs.exact_cast nrank nrank_order vrank NR_Exact VR_Exact).

(* ---- the three statements of the property on signatures and argument types ---- *)
Lemma order_independent sigs sigs' args :
  Permutation sigs sigs' -> resolve (viable sigs args) = resolve (viable sigs' args).
Proof. intros P. apply resolve_perm. apply viable_perm. exact P. Qed.

Lemma selected_not_dominated sigs args id :
  NoDup (map (s_id _) sigs) -> resolve (viable sigs args) = Selected id ->
  exists c, In c (viable sigs args) /\ fst c = id /\ forall d, In d (viable sigs args) -> ~ dominates (snd d) (snd c).
Proof.
  intros Hnd Hr. apply resolve_selected in Hr as (c & Hf & Hid).
  assert (Hc : In c (finalists (viable sigs args))) by (rewrite Hf; left; reflexivity).
  exists c. repeat split; [|exact Hid|].
  - unfold Overload.finalists in Hc. cbn zeta in Hc. apply filter_In in Hc as [Hc _].
    unfold Overload.winners in Hc. apply filter_In in Hc as [Hc _]. exact Hc.
  - eapply (finalist_not_dominated nrank nrank_order vrank vrank_eqb worst_to_best vrank_eqb_spec vorder
              VR_Exact VR_Expand VR_Contract w2b_eq vorder_vals vrank_cases (viable sigs args) (List.length args) c).
    + apply viable_nodup. exact Hnd.
    + intros d Hd. apply (viable_length sigs args d Hd).
    + exact Hc.
Qed.

Lemma exact_candidate_wins sigs args c :
  NoDup (map (s_id _) sigs) -> In c (viable sigs args) -> Forall exact_cast (snd c) ->
  (forall d, In d (viable sigs args) -> fst d <> fst c -> Exists (fun x => ~ exact_cast x) (snd d)) ->
  resolve (viable sigs args) = Selected (fst c).
Proof.
  intros Hnd Hc Hex Ho.
  eapply (exact_wins nrank nrank_order vrank vrank_eqb worst_to_best vrank_eqb_spec NR_Exact order_exact_min vorder
            VR_Exact VR_Expand VR_Contract w2b_eq vorder_vals vrank_cases (viable sigs args) (List.length args) c).
  - apply viable_nodup. exact Hnd.
  - intros d Hd. apply (viable_length sigs args d Hd).
  - exact Hc.
  - exact Hex.
  - exact Ho.
Qed.
