(* MslThreadingProofs.v — globals reach exactly the functions that need them; trampolines keep copy semantics. *)
From Coq Require Import List NArith ZArith Bool Lia Permutation Sorted.
From RV Require Import Perm PermProofs MslThreading.
Import ListNotations.

Section Threading.
Variable s0 : state.              (* direct requirements: functions called and globals mentioned *)
Variable threaded : key -> bool.
Variable fuel : nat.
Variable ks : list key.
Variable s : state.
Hypothesis Hfix : recurse fuel ks s0 = Some s.

Lemma leb_total x y : N.leb x y = true \/ N.leb y x = true.
Proof. destruct (N.leb_spec x y); [left; reflexivity | right; apply N.leb_le; lia]. Qed.
Lemma leb_trans x y z : N.leb x y = true -> N.leb y z = true -> N.leb x z = true.
Proof. rewrite !N.leb_le. lia. Qed.

(* a function receives a global exactly when the global is threaded and the function reaches it *)
Theorem required_exact f g : In f ks -> (In g (required s threaded f) <-> threaded g = true /\ reach s0 f g).
Proof.
  intros Hf. unfold required. split.
  - intros H. apply (Permutation_in _ (isort_perm key N.leb _)) in H. apply filter_In in H as [H1 H2].
    split; [exact H2|]. apply (recurse_is_reachability s0 fuel ks s f Hfix Hf g). exact H1.
  - intros [H1 H2]. apply (Permutation_in _ (Permutation_sym (isort_perm key N.leb _))). apply filter_In. split; [|exact H1].
    apply (recurse_is_reachability s0 fuel ks s f Hfix Hf g). exact H2.
Qed.

(* what a callee needs, its caller has: every argument the exporter appends to a call is a parameter of the caller *)
Theorem call_is_well_scoped f d g :
  In f ks -> In d ks -> In d (get s0 f) -> In g (required s threaded d) -> In g (required s threaded f).
Proof.
  intros Hf Hd Hcall Hg. apply (required_exact d g Hd) in Hg as [Ht Hr]. apply (required_exact f g Hf). split; [exact Ht|].
  (* f reaches d directly, d reaches g *)
  clear Ht. induction Hr as [x Hx|o x Hr IH Hx].
  - apply (reach_step s0 f d x); [apply reach_direct; exact Hcall | exact Hx].
  - apply (reach_step s0 f o x); [exact IH | exact Hx].
Qed.

(* the call and the signature agree position by position: both are the callee's sorted list *)
Lemma skipn_app_exact (A : Type) (a b : list A) : skipn (List.length a) (a ++ b) = b.
Proof. induction a as [|x r IH]; [reflexivity | exact IH]. Qed.

Theorem call_matches_signature params args d :
  skipn (List.length args) (call_arguments s threaded args d) = skipn (List.length params) (signature s threaded params d).
Proof. unfold call_arguments, signature. rewrite !skipn_app_exact. reflexivity. Qed.

Theorem required_sorted f : StronglySorted (fun a b => N.leb a b = true) (required s threaded f).
Proof. apply (isort_sorted key N.leb leb_total leb_trans). Qed.
End Threading.

(* ---------- trampolines ---------- *)
Lemma upd_same s x v : upd s x v x = v.
Proof. unfold upd. rewrite N.eqb_refl. reflexivity. Qed.
Lemma upd_other s x v y : y <> x -> upd s x v y = s y.
Proof. unfold upd. intros H. destruct (N.eqb y x) eqn:E; [apply N.eqb_eq in E; contradiction | reflexivity]. Qed.

(* copying into distinct addresses *)
Lemma copy_other : forall dst vals s y, ~ In y dst -> copy s dst vals y = s y.
Proof.
  induction dst as [|a r IH]; intros vals s y H; [reflexivity|]. destruct vals as [|v w]; [reflexivity|].
  cbn [copy]. rewrite IH; [|intros X; apply H; right; exact X]. apply upd_other. intros E; apply H; left; symmetry; exact E.
Qed.

Lemma copy_map : forall dst vals s, NoDup dst -> List.length vals = List.length dst -> map (copy s dst vals) dst = vals.
Proof.
  induction dst as [|a r IH]; intros vals s N L; destruct vals as [|v w]; try discriminate; [reflexivity|].
  cbn [copy map]. inversion N as [|? ? Ha Nr]; subst. f_equal.
  - rewrite copy_other; [apply upd_same | exact Ha].
  - apply IH; [exact Nr | cbn in L; lia].
Qed.

Lemma map_upd_nth : forall addrs s d a v, NoDup addrs -> nth_error addrs d = Some a ->
  map (upd s a v) addrs = set_nth d v (map s addrs).
Proof.
  induction addrs as [|x r IH]; intros s d a v N H; [destruct d; discriminate|].
  inversion N as [|? ? Hx Nr]; subst. destruct d as [|d]; cbn in H.
  - inversion H; subst. cbn [map set_nth]. rewrite upd_same. f_equal.
    apply map_ext_in. intros y Hy. apply upd_other. intros E; subst; contradiction.
  - cbn [map set_nth]. rewrite upd_other.
    + f_equal. apply IH; assumption.
    + intros E; subst. apply Hx. apply nth_error_In in H. exact H.
Qed.

Definition wf_body (n : nat) (b : list instr) : Prop := Forall (fun i => match i with ISet d _ => d < n end) b.

(* on distinct addresses the reference semantics is the value semantics, and nothing else is touched *)
Lemma ref_simulates : forall b addrs s, NoDup addrs -> wf_body (List.length addrs) b ->
  map (run_body_ref addrs b s) addrs = run_body b (map s addrs) /\
  forall y, ~ In y addrs -> run_body_ref addrs b s y = s y.
Proof.
  induction b as [|i b IH]; intros addrs s N W; [split; reflexivity|].
  inversion W as [|? ? Wi Wb]; subst. destruct i as [d f]. cbn [run_body_ref run_body fold_left run_instr_ref run_instr].
  destruct (nth_error addrs d) as [a|] eqn:E; [|apply nth_error_None in E; lia].
  destruct (IH addrs (upd s a (f (map s addrs))) N Wb) as [I1 I2]. split.
  - unfold run_body_ref, run_body in *. rewrite I1. rewrite (map_upd_nth addrs s d a _ N E). reflexivity.
  - intros y Hy. unfold run_body_ref in *. rewrite (I2 y Hy). apply upd_other. intros X; subst. apply Hy. apply nth_error_In in E. exact E.
Qed.

(* the trampoline: whatever the arguments are (aliased or not), the Metal call leaves every variable of the caller as
   the HLSL call does; only the trampoline's own locals differ *)
Theorem trampoline_keeps_copy_semantics b locals args s :
  NoDup locals -> List.length locals = List.length args -> wf_body (List.length args) b ->
  (forall x, In x locals -> ~ In x args) ->
  forall y, ~ In y locals -> metal_call b locals args s y = hlsl_call b args s y.
Proof.
  intros N L W D y Hy. unfold metal_call, hlsl_call.
  set (s1 := copy s locals (map s args)).
  assert (M1 : map s1 locals = map s args). { apply copy_map; [exact N | rewrite map_length; lia]. }
  rewrite <- L in W. destruct (ref_simulates b locals s1 N W) as [R1 R2].
  rewrite R1, M1.
  (* copying the same values into args from two stores that agree outside the locals *)
  assert (G : forall vals t t', (forall z, ~ In z locals -> t z = t' z) -> forall z, ~ In z locals -> copy t args vals z = copy t' args vals z).
  { clear - D. induction args as [|a r IH]; intros vals t t' A z Hz; [apply A; exact Hz|].
    destruct vals as [|v w]; [apply A; exact Hz|]. cbn [copy]. apply IH.
    - intros x Hx Hr. apply (D x Hx). right. exact Hr.
    - intros q Hq. unfold upd. destruct (N.eqb q a); [reflexivity | apply A; exact Hq].
    - exact Hz. }
  apply G; [|exact Hy]. intros z Hz. rewrite (R2 z Hz). unfold s1. apply copy_other. exact Hz.
Qed.

(* the trampoline is needed: with both parameters bound to the same variable, references alone compute something else
   than copy-in / copy-out.   body: p0 := p0 + 1; p1 := p0 * 10   called as f(a, a) with a = 1 *)
Definition ex_body : list instr :=
  [ISet 0 (fun v => (nth 0 v 0 + 1)%Z); ISet 1 (fun v => (nth 0 v 0 * 10)%Z)].

Example references_alone_differ :
  hlsl_call ex_body [5%N; 5%N] (fun _ => 1%Z) 5%N = 20%Z /\
  metal_call_direct ex_body [5%N; 5%N] (fun _ => 1%Z) 5%N = 20%Z /\
  (* p1 := p0 * 10 then p0 := p1 + 1 : copy semantics writes p0 last into a ... *)
  hlsl_call [ISet 1 (fun v => (nth 0 v 0 * 10)%Z); ISet 0 (fun v => (nth 1 v 0 + 1)%Z)] [5%N; 5%N] (fun _ => 1%Z) 5%N = 10%Z /\
  metal_call_direct [ISet 1 (fun v => (nth 0 v 0 * 10)%Z); ISet 0 (fun v => (nth 1 v 0 + 1)%Z)] [5%N; 5%N] (fun _ => 1%Z) 5%N = 11%Z /\
  metal_call [ISet 1 (fun v => (nth 0 v 0 * 10)%Z); ISet 0 (fun v => (nth 1 v 0 + 1)%Z)] [100%N; 101%N] [5%N; 5%N] (fun _ => 1%Z) 5%N = 10%Z.
Proof. vm_compute. repeat split. Qed.
