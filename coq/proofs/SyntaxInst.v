(* SyntaxInst.v — the generated tables satisfy the provisos of SyntaxProofs.v and SyntaxBridge.v (finite checks by
   computation), hence the parser model reads back every tree the printer model prints. *)
From Coq Require Import List NArith Bool String Ascii Lia Arith.
From RV Require Import Syntax GenSyntax SyntaxTables SyntaxProofs SyntaxBridge.
Import ListNotations.
Local Open Scope list_scope.

Lemma uop_cases (P : string -> Prop) : Forall P un_names -> forall o, t_uop o = true -> P o.
Proof.
  intros H o Ho. unfold t_uop in Ho. apply existsb_exists in Ho. destruct Ho as (x & Hin & Heq).
  apply String.eqb_eq in Heq. subst x. rewrite Forall_forall in H. apply H. exact Hin.
Qed.

Lemma bop_cases (P : string -> Prop) : Forall P bin_names -> forall o, t_bop o = true -> P o.
Proof.
  intros H o Ho. unfold t_bop in Ho. apply existsb_exists in Ho. destruct Ho as (x & Hin & Heq).
  apply String.eqb_eq in Heq. subst x. rewrite Forall_forall in H. apply H. exact Hin.
Qed.

Ltac ctx := let p := fresh "p" in let Hin := fresh "Hin" in
  intros p Hin; vm_compute in Hin; repeat (destruct Hin as [Hin|Hin]; [subst p; vm_compute; reflexivity|]); destruct Hin.

Ltac by_uop := match goal with |- forall o, t_uop o = true -> @?P o => apply (uop_cases P) end.
Ltac by_bop := match goal with |- forall o, t_bop o = true -> @?P o => apply (bop_cases P) end.
Ltac in_list := cbv; repeat (first [left; reflexivity | right]).
Ltac each_name := repeat (apply Forall_cons); try apply Forall_nil.

(* ---- SyntaxProofs provisos ---- *)
Lemma I_prefix : forall o, t_uop o = true -> t_un_post o = false -> t_prefix_of (t_un_sp o) = Some o.
Proof. by_uop. each_name; vm_compute; intros; try discriminate; reflexivity. Qed.

Lemma I_postfix : forall o, t_uop o = true -> t_un_post o = true -> t_postfix_of (t_un_sp o) = Some o.
Proof. by_uop. each_name; vm_compute; intros; try discriminate; reflexivity. Qed.

Lemma bin_at_none s : forallb (fun r : string * N * string * nat * string => let '(_, _, _, _, t) := r in negb (String.eqb t s)) binops = true ->
  forall n, t_bin_at n s = None.
Proof.
  intros H n. unfold t_bin_at.
  destruct (find _ binops) as [[[[[nm p] sp] l] t]|] eqn:Hf; [|reflexivity].
  apply find_some in Hf. destruct Hf as [Hin Hb]. rewrite forallb_forall in H. specialize (H _ Hin). cbn in H.
  apply andb_true_iff in Hb. destruct Hb as [_ Hb]. rewrite Hb in H. discriminate.
Qed.

Lemma I_postfix_inv : forall s o, t_postfix_of s = Some o -> special s = false /\ (forall n, t_bin_at n s = None).
Proof.
  intros s o H. unfold t_postfix_of in H.
  destruct (find _ parser_postfix) as [[nm sp]|] eqn:Hf; [|discriminate].
  apply find_some in Hf. destruct Hf as [Hin Heq]. cbn in Heq. apply String.eqb_eq in Heq. subst sp.
  clear H. revert s nm Hin.
  assert (H : Forall (fun r : string * string => special (snd r) = false /\ forall n, t_bin_at n (snd r) = None) parser_postfix).
  { each_name; (split; [reflexivity | apply bin_at_none; reflexivity]). }
  intros s nm Hin. rewrite Forall_forall in H. exact (H _ Hin).
Qed.

Lemma I_prefix_paren : t_prefix_of "(" = None.
Proof. reflexivity. Qed.

Lemma I_bin : forall o, t_bop o = true ->
  3 <= t_blv o <= 14 /\ t_bin_at (pN (t_blv o)) (t_bin_sp o) = Some o /\ special (t_bin_sp o) = false.
Proof. by_bop. each_name; vm_compute; repeat split; lia. Qed.

Lemma I_bin_inv : forall n s o, t_bin_at n s = Some o -> t_bop o = true /\ t_bin_sp o = s /\ n = pN (t_blv o).
Proof.
  intros n s o H. unfold t_bin_at in H.
  destruct (find _ binops) as [[[[[nm p] sp] l] t]|] eqn:Hf; [|discriminate].
  inversion H; subst nm. clear H. apply find_some in Hf. destruct Hf as [Hin Hb].
  apply andb_true_iff in Hb. destruct Hb as [Hl Ht]. apply Nat.eqb_eq in Hl. apply String.eqb_eq in Ht. subst l t.
  assert (H : Forall (fun r : string * N * string * nat * string => let '(nm, _, _, l, t) := r in
                        t_bop nm = true /\ t_bin_sp nm = t /\ l = pN (t_blv nm)) binops).
  { each_name; vm_compute; repeat split. }
  rewrite Forall_forall in H. exact (H _ Hin).
Qed.

Lemma I_bin_level : forall o o', t_bop o = true -> t_bop o' = true -> t_bin_sp o = t_bin_sp o' -> t_blv o = t_blv o'.
Proof.
  assert (H : forallb (fun o => forallb (fun o' => implb (String.eqb (t_bin_sp o) (t_bin_sp o')) (Nat.eqb (t_blv o) (t_blv o'))) bin_names) bin_names = true)
    by (vm_compute; reflexivity).
  intros o o' Ho Ho' Hsp. unfold t_bop in *. apply existsb_exists in Ho, Ho'.
  destruct Ho as (x & Hx & Ex), Ho' as (y & Hy & Ey). apply String.eqb_eq in Ex, Ey. subst x y.
  rewrite forallb_forall in H. specialize (H o Hx). rewrite forallb_forall in H. specialize (H o' Hy).
  rewrite Hsp, String.eqb_refl in H. cbn in H. apply Nat.eqb_eq. exact H.
Qed.

Lemma I_comma : forall o, t_bop o = true -> (t_blv o = 14 <-> t_bin_sp o = ","%string).
Proof. by_bop. each_name; vm_compute; split; intros H; first [reflexivity | discriminate | lia]. Qed.

Lemma I_uop_special : forall o, t_uop o = true -> special (t_un_sp o) = false.
Proof. by_uop. each_name; reflexivity. Qed.

Lemma I_postfix_comma : t_postfix_of "," = None.
Proof. reflexivity. Qed.

(* ---- SyntaxBridge provisos ---- *)
Definition P_leaf := misc "Identifier".
Definition P_tern := misc "TernaryConditional".
Definition P_sub := misc "ArraySubscript".
Definition P_mem := misc "Member".
Definition P_call := misc "Call".
Definition P_cast := misc "Cast".

Lemma I_literal_like_identifier : misc "Literal" = misc "Identifier".
Proof. reflexivity. Qed.

Lemma B_leaf : In P_leaf t_precs /\ t_lvN P_leaf = 0.
Proof. split; [in_list | reflexivity]. Qed.
Lemma B_un : forall o, t_uop o = true -> In (t_un_prec o) t_precs /\ t_lvN (t_un_prec o) = if t_un_post o then 1 else 2.
Proof. by_uop. each_name; (split; [in_list | reflexivity]). Qed.
Lemma B_bin : forall o, t_bop o = true -> In (t_bin_prec o) t_precs /\ t_lvN (t_bin_prec o) = t_blv o.
Proof. by_bop. each_name; (split; [in_list | reflexivity]). Qed.
Lemma B_tern : In P_tern t_precs /\ t_lvN P_tern = 13.
Proof. split; [in_list | reflexivity]. Qed.
Lemma B_sub : In P_sub t_precs /\ t_lvN P_sub = 1.
Proof. split; [in_list | reflexivity]. Qed.
Lemma B_mem : In P_mem t_precs /\ t_lvN P_mem = 1.
Proof. split; [in_list | reflexivity]. Qed.
Lemma B_call : In P_call t_precs /\ t_lvN P_call = 1.
Proof. split; [in_list | reflexivity]. Qed.
Lemma B_cast : In P_cast t_precs /\ t_lvN P_cast = 2.
Proof. split; [in_list | reflexivity]. Qed.

Notation CTX := (ctx_ok t_assoc t_lvN t_precs).

Lemma C_post : forall o, t_uop o = true -> t_un_post o = true -> CTX (t_un_prec o) (t_side "UnaryOperation" 0) 1.
Proof. by_uop. each_name; intros H; first [discriminate H | ctx]. Qed.
Lemma C_pre : forall o, t_uop o = true -> t_un_post o = false -> CTX (t_un_prec o) (t_side "UnaryOperation" 1) 2.
Proof. by_uop. each_name; intros H; first [discriminate H | ctx]. Qed.
Lemma C_bin : forall o, t_bop o = true ->
  CTX (t_bin_prec o) (t_side "BinaryOperation" 0) (lctx t_blv o) /\ CTX (t_bin_prec o) (t_side "BinaryOperation" 1) (rctx t_blv o).
Proof. by_bop. each_name; (split; ctx). Qed.
Lemma C_tern : CTX P_tern (t_side "TernaryConditional" 0) 12 /\ CTX P_tern (t_side "TernaryConditional" 1) 13 /\
               CTX P_tern (t_side "TernaryConditional" 2) 13.
Proof. repeat split; ctx. Qed.
Lemma C_sub : CTX P_sub (t_side "ArraySubscript" 0) 1 /\ CTX P_sub (t_side "ArraySubscript" 1) 1.
Proof. repeat split; ctx. Qed.
Lemma C_mem : CTX P_mem (t_side "Member" 0) 1.
Proof. ctx. Qed.
Lemma C_call : CTX (outer_of_call 0) (t_side "Call" 0) 1 /\ CTX (outer_of_call 1) (t_side "Call" 1) 13.
Proof. repeat split; ctx. Qed.
Lemma C_cast : CTX P_cast (t_side "Cast" 0) 2.
Proof. ctx. Qed.
Lemma C_top : CTX top_outer (side_of_name (snd top_call)) 14.
Proof. ctx. Qed.

(* ---- the theorem for the tables ---- *)
Definition t_wf (G : string -> bool) : expr -> Prop := wf G t_uop t_bop.
Definition t_raw : expr -> list tok := raw t_un_post t_un_sp t_blv t_bin_sp.

Lemma wf_wfops G e : t_wf G e -> wfops t_uop t_bop e.
Proof.
  induction e as [x|i x|o a IHa|o a b IHa IHb|c a b IHc IHa IHb|a i IHa IHi|a m IHa|fn args IHf IHargs|t a IHa]
    using expr_ind'; unfold t_wf; cbn [wf wfops]; try tauto.
  - intros [Hf Ha]. split; [apply IHf, Hf|]. clear Hf IHf.
    induction args as [|x r IH]; [exact Logic.I|]. inversion IHargs; subst. destruct Ha as [Hx Hr].
    split; [auto | apply IH; assumption].
Qed.

Lemma t_print_raw G e : t_wf G e -> toks (t_print e) = t_raw e.
Proof.
  intros Hw. unfold t_print, t_fmt.
  pose proof (bridge_all t_un_prec t_un_sp t_un_post t_bin_prec t_bin_sp t_bin_tight P_leaf P_tern P_sub P_mem P_call P_cast
             (outer_of_call 0) (outer_of_call 1) t_assoc t_sep_chars t_sides t_uop t_bop t_blv t_lvN t_precs
             B_leaf B_un B_bin B_tern B_sub B_mem B_call B_cast C_post C_pre C_bin C_tern C_sub C_mem C_call C_cast
             e (wf_wfops G e Hw) _ _ 14 C_top) as H.
  unfold P_leaf, P_tern, P_sub, P_mem, P_call, P_cast in H. rewrite H. clear H.
  unfold wrap, t_raw.
  assert (Hel : el t_un_post t_blv e <= 14).
  { apply (el_le G t_bin_at t_uop t_un_post t_bop t_blv t_bin_sp I_bin e Hw). }
  destruct (Nat.leb_spec (el t_un_post t_blv e) 14); [reflexivity | lia].
Qed.

Theorem t_roundtrip G e :
  t_wf G e -> gt_paren (toks (t_print e)) = false -> t_parse G (toks (t_print e)) = Ok e [].
Proof.
  intros Hw Hg. rewrite (t_print_raw G e Hw) in *. unfold t_parse.
  apply (parse_print G t_prefix_of t_postfix_of t_bin_at t_uop t_un_post t_un_sp t_bop t_blv t_bin_sp
           I_prefix I_postfix I_postfix_inv I_prefix_paren I_bin I_bin_inv I_bin_level I_comma I_uop_special I_postfix_comma);
    assumption.
Qed.
