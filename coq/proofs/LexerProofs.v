(* LexerProofs.v — every token consumes at least one byte and never more than the input has; the token
   spans of a file therefore tile it exactly, error positions lie inside the file, and |s|+1 steps suffice. *)
From Coq Require Import List NArith Bool String Ascii Arith Lia.
From RV Require Import Lexer.
Import ListNotations.
Local Open Scope string_scope.

Lemma slen_cons c r : slen (String c r) = S (slen r).
Proof. reflexivity. Qed.

Lemma span_len p s : slen (fst (span p s)) + slen (snd (span p s)) = slen s.
Proof.
  induction s as [|c r IH]; cbn [span]; [reflexivity|].
  destruct (p c); [|reflexivity]. destruct (span p r) as [a b]. cbn [fst snd] in *. rewrite !slen_cons. lia.
Qed.

Lemma span_app p s : s = fst (span p s) ++ snd (span p s).
Proof.
  induction s as [|c r IH]; cbn [span]; [reflexivity|].
  destruct (p c); [|reflexivity]. destruct (span p r) as [a b]. cbn [fst snd] in *. cbn. f_equal. exact IH.
Qed.

Lemma drop_len n s : slen (drop n s) = slen s - n.
Proof.
  revert s; induction n as [|n IH]; intros s; cbn [drop]; [lia|].
  destruct s as [|c r]; [reflexivity|]. rewrite IH, slen_cons. lia.
Qed.

Lemma prefix_len p s : String.prefix p s = true -> slen p <= slen s.
Proof.
  revert s; induction p as [|c p IH]; intros s H; [cbn; lia|].
  destruct s as [|d s]; cbn in H; [discriminate|].
  destruct (Ascii.ascii_dec c d); [|discriminate]. rewrite !slen_cons. specialize (IH s H). lia.
Qed.

Lemma index_of_lt c s n : index_of c s = Some n -> n < slen s.
Proof.
  revert n; induction s as [|d r IH]; intros n H; cbn in H; [discriminate|].
  destruct (Ascii.eqb c d).
  - inversion H; subst. rewrite slen_cons. lia.
  - destruct (index_of c r) as [m|]; [|discriminate]. inversion H; subst. specialize (IH m eq_refl).
    rewrite slen_cons. lia.
Qed.

Lemma line_comment_len_le s : line_comment_len s <= slen s.
Proof.
  assert (G : forall n s, slen s <= n -> line_comment_len s <= slen s).
  { induction n as [|n IH]; intros s0 Hn.
    - destruct s0; cbn in *; lia.
    - destruct s0 as [|c r]; [cbn; lia|]. cbn [line_comment_len]. rewrite slen_cons in *.
      destruct (Ascii.eqb c "010"); [lia|].
      destruct (Ascii.eqb c "013" && starts_with (String "010" EmptyString) r); [lia|].
      destruct (Ascii.eqb c "\").
      + destruct r as [|d r']; [cbn; lia|]. rewrite slen_cons in *.
        destruct (Ascii.eqb d "010"); [assert (H := IH r' ltac:(lia)); lia|].
        destruct r' as [|e r''].
        * assert (H := IH (String d EmptyString) ltac:(cbn in *; lia)). cbn in *. lia.
        * rewrite slen_cons in *. destruct (Ascii.eqb d "013" && Ascii.eqb e "010").
          -- assert (H := IH r'' ltac:(lia)). lia.
          -- assert (H := IH (String d (String e r'')) ltac:(rewrite !slen_cons; lia)). rewrite !slen_cons in H. lia.
      + assert (H := IH r ltac:(lia)). lia. }
  apply (G (slen s)). lia.
Qed.

Lemma block_end_le s n : block_end s = Some n -> n <= slen s.
Proof.
  revert n; induction s as [|c r IH]; intros n H; [discriminate|]. cbn [block_end] in H.
  destruct r as [|d r']; [discriminate|].
  destruct (Ascii.eqb c "*" && Ascii.eqb d "/").
  - inversion H; subst. rewrite !slen_cons. lia.
  - destruct (block_end (String d r')) as [q|]; [|discriminate]. inversion H; subst.
    specialize (IH q eq_refl). rewrite (slen_cons c). lia.
Qed.

Definition bounded (s : string) (r : lres) : Prop :=
  match r with
  | LOk _ n => 1 <= n <= slen s
  | LErr _ k => k <= slen s
  end.

Section Proofs.
Variable keywords : list (string * string).
Variable reserved_words : list string.
Variable symbols : list (N * string * option string * option string).
Variable int_suffixes : list (list (list N) * string).
Variable float_suffixes : list (list N * string).
Variable float_is_zero : string -> bool.
Variable utf8_ok : string -> bool.

Notation tok_at := (tok_at keywords reserved_words symbols int_suffixes float_suffixes float_is_zero utf8_ok).
Notation lex_all := (lex_all keywords reserved_words symbols int_suffixes float_suffixes float_is_zero utf8_ok).
Notation lex_file := (lex_file keywords reserved_words symbols int_suffixes float_suffixes float_is_zero utf8_ok).
Notation lex_int := (lex_int int_suffixes).
Notation lex_float := (lex_float float_suffixes float_is_zero).
Notation lex_word := (lex_word keywords reserved_words).
Notation lex_symbol := (lex_symbol symbols).
Notation int_suffix := (int_suffix int_suffixes).
Notation float_suffix := (float_suffix float_suffixes).

Lemma match_chars_len alts s : match_chars alts s = true -> List.length alts <= slen s.
Proof.
  revert s; induction alts as [|a r IH]; intros s H; [cbn; lia|].
  destruct s as [|c t]; cbn in H; [discriminate|]. apply andb_true_iff in H as [_ H].
  specialize (IH t H). cbn [List.length]. rewrite slen_cons. lia.
Qed.

Lemma int_suffix_len s k n : int_suffix s = Some (k, n) -> n <= slen s.
Proof.
  unfold Lexer.int_suffix. destruct (find _ int_suffixes) as [[alts k']|] eqn:F; [|discriminate].
  cbn. intros H; inversion H; subst. apply find_some in F as [_ F]. apply match_chars_len. exact F.
Qed.

Lemma float_suffix_len s k n : float_suffix s = Some (k, n) -> n = 1 /\ 1 <= slen s.
Proof.
  unfold Lexer.float_suffix. destruct s as [|c r]; [discriminate|].
  destruct (find _ float_suffixes) as [[cs k']|]; [|discriminate]. cbn [option_map]. intros H; inversion H; subst.
  rewrite slen_cons. lia.
Qed.

Lemma lex_exponent_len s n : lex_exponent s = Some n -> 1 <= n <= slen s.
Proof.
  unfold lex_exponent. destruct s as [|c r]; [discriminate|].
  destruct (Ascii.eqb c "e" || Ascii.eqb c "E"); [|discriminate].
  set (p := match r with String d r' => if (Ascii.eqb d "+" || Ascii.eqb d "-")%bool then (1, r') else (0, r) | EmptyString => (0, r) end).
  assert (Hp : fst p + slen (snd p) = slen r).
  { unfold p. destruct r as [|d r']; [reflexivity|]. destruct (Ascii.eqb d "+" || Ascii.eqb d "-"); cbn [fst snd]; rewrite ?slen_cons; lia. }
  destruct p as [sg r1]. cbn [fst snd] in Hp.
  assert (L := span_len is_digit r1). destruct (span is_digit r1) as [ds rest]. cbn [fst snd] in L.
  destruct ds as [|d0 ds']; [discriminate|].
  destruct (accum 10 dec_val (String d0 ds') 0); [|discriminate].
  intros H; inversion H; subst. rewrite slen_cons in *. lia.
Qed.

Lemma lex_word_bounded c r : is_alpha_ c = true -> bounded (String c r) (lex_word (String c r)).
Proof.
  intros Ha. unfold Lexer.lex_word. assert (L := span_len is_ident_char (String c r)).
  assert (Hi : is_ident_char c = true) by (unfold is_ident_char; rewrite Ha; reflexivity).
  cbn [span] in *. rewrite Hi in *.
  destruct (span is_ident_char r) as [a b]. cbn [fst snd] in L. cbn [bounded]. rewrite !slen_cons in *. lia.
Qed.

Lemma lex_quoted_bounded close mk e1 e2 e3 c r :
  bounded (String c r) (lex_quoted utf8_ok close mk e1 e2 e3 (String c r)).
Proof.
  unfold lex_quoted. cbn [drop]. destruct (index_of close r) as [pos|] eqn:I; [|cbn [bounded]; lia].
  apply index_of_lt in I.
  destruct (negb (utf8_ok _)); [cbn [bounded]; lia|]. destruct (contains _ _); [cbn [bounded]; lia|].
  cbn [bounded]. rewrite slen_cons. lia.
Qed.

Lemma lex_symbol_bounded c r t n : lex_symbol c r = Some (t, n) -> 1 <= n <= slen (String c r).
Proof.
  unfold Lexer.lex_symbol. destruct (find _ symbols) as [[[[b t1] teq] tdbl]|]; [|discriminate].
  rewrite slen_cons. destruct r as [|d r']; [intros H; inversion H; subst; lia|]. rewrite slen_cons.
  destruct teq, tdbl; repeat match goal with |- context [if ?x then _ else _] => destruct x end;
    intros H; inversion H; subst; lia.
Qed.

Lemma lex_int_bounded c r : is_digit c = true -> bounded (String c r) (lex_int (String c r)).
Proof.
  intros Hd. unfold Lexer.lex_int.
  set (s := String c r).
  assert (G : forall skip base dv, skip <= slen s ->
     bounded s (let body := drop skip s in
                let (ds, rest) := span (fun c0 => match dv c0 with Some _ => true | None => false end) body in
                match ds with
                | EmptyString => match body with EmptyString => LErr EndOfStream (slen s) | _ => LErr UnexpectedBytes skip end
                | _ => match accum base dv ds 0%N with
                       | None => LErr IntegerLiteralTooLarge skip
                       | Some v => let suf := int_suffix rest in
                                   match int_token (option_map fst suf) v with
                                   | Some t => LOk t (skip + slen ds + match suf with Some (_, n) => n | None => 0 end)
                                   | None => LErr IntegerLiteralTooLarge skip
                                   end
                       end
                end)).
  { intros skip base dv Hs. cbn zeta.
    assert (L := span_len (fun c0 => match dv c0 with Some _ => true | None => false end) (drop skip s)).
    rewrite drop_len in L.
    destruct (span _ (drop skip s)) as [ds rest]. cbn [fst snd] in L.
    destruct ds as [|d0 ds'].
    - destruct (drop skip s); cbn [bounded]; lia.
    - destruct (accum base dv (String d0 ds') 0) as [v|]; [|cbn [bounded]; lia].
      destruct (int_suffix rest) as [[k m]|] eqn:S.
      + apply int_suffix_len in S. cbn [option_map fst].
        destruct (int_token (Some k) v); cbn [bounded]; rewrite slen_cons in *; lia.
      + cbn [option_map]. destruct (int_token None v); cbn [bounded]; rewrite slen_cons in *; lia. }
  destruct (starts_with "0x" s) eqn:P.
  - apply G. apply prefix_len in P. exact P.
  - unfold s at 1. destruct r as [|d r'].
    + apply (G 0). lia.
    + destruct (Ascii.eqb c "0" && is_octal d); [apply (G 1); unfold s; rewrite !slen_cons; lia | apply (G 0); lia].
Qed.

Lemma lex_float_bounded c r : is_digit c = true -> bounded (String c r) (lex_float (String c r)).
Proof.
  intros Hd. unfold Lexer.lex_float. set (s := String c r).
  assert (Lw := span_len is_digit s). assert (Hw : 1 <= slen (fst (span is_digit s))).
  { unfold s. cbn [span]. rewrite Hd. destruct (span is_digit r). cbn [fst]. rewrite slen_cons. lia. }
  destruct (span is_digit s) as [whole r1]. cbn [fst snd] in *.
  set (hm := match r1 with
             | String d r2 => if Ascii.eqb d "." then let (fr, _) := span is_digit r2 in (true, slen whole + 1 + slen fr)
                              else (false, slen whole)
             | EmptyString => (false, slen whole)
             end).
  assert (Hm : slen whole <= snd hm <= slen s).
  { unfold hm. destruct r1 as [|d r2]; [cbn [snd]; lia|].
    destruct (Ascii.eqb d "."); [|cbn [snd]; lia].
    assert (Lf := span_len is_digit r2). destruct (span is_digit r2) as [fr rest]. cbn [fst snd] in *.
    rewrite slen_cons in *. lia. }
  destruct hm as [has_fraction mant_len]. cbn [snd] in Hm.
  destruct (lex_exponent (drop mant_len s)) as [en|] eqn:E.
  - apply lex_exponent_len in E. rewrite drop_len in E.
    set (text_len := mant_len + en).
    assert (Ht : 1 <= text_len <= slen s) by (unfold text_len; lia).
    assert (X : bounded s
      (let text := substring 0 text_len s in
       let r4 := drop text_len s in
       let inf := starts_with "#INF" r4 in
       if inf && (float_is_zero text || true) then LErr FloatInvalidSuffix text_len
       else let after_inf := if inf then text_len + 4 else text_len in
            let r5 := drop after_inf s in
            let suf := float_suffix r5 in
            let k := fkind_of (option_map fst suf) in
            let total := after_inf + match suf with Some (_, n) => n | None => 0 end in
            match drop total s with
            | String c0 _ => if is_ident_char c0 then (if Ascii.eqb c0 "x" then LErr OtherTokenBytes 0 else LErr FloatInvalidSuffix text_len)
                             else LOk (if inf then TInf k else TFloat k text) total
            | EmptyString => LOk (if inf then TInf k else TFloat k text) total
            end)).
    { cbn zeta. destruct (starts_with "#INF" (drop text_len s)) eqn:I.
      - rewrite orb_true_r. cbn [andb]. cbn [bounded]; lia.
      - cbn [andb]. destruct (float_suffix (drop text_len s)) as [[k n]|] eqn:S.
        + apply float_suffix_len in S as [-> S]. rewrite drop_len in S.
          destruct (drop (text_len + 1) s) as [|c0 ?]; [cbn [bounded]; lia|].
          destruct (is_ident_char c0); [destruct (Ascii.eqb c0 "x"); cbn [bounded]; lia | cbn [bounded]; lia].
        + destruct (drop (text_len + 0) s) as [|c0 ?]; [cbn [bounded]; lia|].
          destruct (is_ident_char c0); [destruct (Ascii.eqb c0 "x"); cbn [bounded]; lia | cbn [bounded]; lia]. }
    destruct has_fraction; exact X.
  - destruct has_fraction; [|cbn [bounded]; lia].
    set (text_len := mant_len + 0).
    assert (Ht : 1 <= text_len <= slen s) by (unfold text_len; lia).
    cbn zeta. fold text_len.
    destruct (starts_with "#INF" (drop text_len s)) eqn:I.
    + apply prefix_len in I. rewrite drop_len in I. change (slen "#INF") with 4 in I.
      destruct (float_is_zero _ || false); cbn [andb]; [cbn [bounded]; lia|].
      destruct (float_suffix (drop (text_len + 4) s)) as [[k n]|] eqn:S.
      * apply float_suffix_len in S as [-> S]. rewrite drop_len in S.
        destruct (drop (text_len + 4 + 1) s) as [|c0 ?]; [cbn [bounded]; lia|].
        destruct (is_ident_char c0); [destruct (Ascii.eqb c0 "x"); cbn [bounded]; lia | cbn [bounded]; lia].
      * destruct (drop (text_len + 4 + 0) s) as [|c0 ?]; [cbn [bounded]; lia|].
        destruct (is_ident_char c0); [destruct (Ascii.eqb c0 "x"); cbn [bounded]; lia | cbn [bounded]; lia].
    + cbn [andb]. destruct (float_suffix (drop text_len s)) as [[k n]|] eqn:S.
      * apply float_suffix_len in S as [-> S]. rewrite drop_len in S.
        destruct (drop (text_len + 1) s) as [|c0 ?]; [cbn [bounded]; lia|].
        destruct (is_ident_char c0); [destruct (Ascii.eqb c0 "x"); cbn [bounded]; lia | cbn [bounded]; lia].
      * destruct (drop (text_len + 0) s) as [|c0 ?]; [cbn [bounded]; lia|].
        destruct (is_ident_char c0); [destruct (Ascii.eqb c0 "x"); cbn [bounded]; lia | cbn [bounded]; lia].
Qed.

(* ---- every recogniser result is within the input ---- *)
Theorem tok_at_bounded inc s : s <> EmptyString -> bounded s (tok_at inc s).
Proof.
  destruct s as [|c r]; [congruence|]. intros _. cbn [Lexer.tok_at].
  destruct (is_digit c) eqn:Hd.
  { assert (F := lex_float_bounded c r Hd). assert (I := lex_int_bounded c r Hd).
    destruct (lex_float (String c r)) as [t n|e k]; [exact F|]. destruct e; try exact F. exact I. }
  destruct (is_alpha_ c) eqn:Ha; [apply lex_word_bounded; exact Ha|].
  destruct (inc && Ascii.eqb c "<"); [apply lex_quoted_bounded|].
  destruct (Ascii.eqb c " " || Ascii.eqb c "009"); [cbn [bounded]; rewrite slen_cons; lia|].
  destruct (Ascii.eqb c "010"); [cbn [bounded]; rewrite slen_cons; lia|].
  destruct (Ascii.eqb c "013").
  { destruct r as [|d r']; [cbn [bounded]; lia|]. destruct (Ascii.eqb d "010"); cbn [bounded]; rewrite ?slen_cons; lia. }
  destruct (Ascii.eqb c "\").
  { destruct r as [|d r']; [cbn [bounded]; lia|]. destruct (Ascii.eqb d "010"); [cbn [bounded]; rewrite !slen_cons; lia|].
    destruct r' as [|e r'']; [cbn [bounded]; lia|].
    destruct (Ascii.eqb d "013" && Ascii.eqb e "010"); cbn [bounded]; rewrite ?slen_cons; lia. }
  destruct (Ascii.eqb c "/" && starts_with "/" r) eqn:C1.
  { apply andb_true_iff in C1 as [_ C1]. apply prefix_len in C1. change (slen "/") with 1 in C1.
    assert (L := line_comment_len_le (drop 1 r)). rewrite drop_len in L. cbn [bounded]. rewrite slen_cons. lia. }
  destruct (Ascii.eqb c "/" && starts_with "*" r) eqn:C2.
  { apply andb_true_iff in C2 as [_ C2]. apply prefix_len in C2. change (slen "*") with 1 in C2.
    destruct (block_end (drop 1 r)) as [n|] eqn:B; [|cbn [bounded]; lia].
    apply block_end_le in B. rewrite drop_len in B. cbn [bounded]. rewrite slen_cons. lia. }
  destruct (Ascii.eqb c """"); [apply lex_quoted_bounded|].
  destruct (Ascii.eqb c "<"); [cbn [bounded]; rewrite slen_cons; lia|].
  destruct (Ascii.eqb c ">"); [cbn [bounded]; rewrite slen_cons; lia|].
  destruct (lex_symbol c r) as [[t n]|] eqn:S; [|cbn [bounded]; lia].
  apply lex_symbol_bounded in S. exact S.
Qed.

(* ---- TokenStream: spans tile the file ---- *)
Fixpoint tiles (start : nat) (ts : list (tok * nat * nat)) (stop : nat) : Prop :=
  match ts with
  | [] => start = stop
  | (_, a, b) :: r => a = start /\ a <= b /\ tiles b r stop
  end.

Lemma tiles_app start ts1 ts2 mid stop : tiles start ts1 mid -> tiles mid ts2 stop -> tiles start (ts1 ++ ts2) stop.
Proof.
  revert start; induction ts1 as [|[[t a] b] r IH]; intros start H1 H2; cbn in *; [subst; exact H2|].
  destruct H1 as (-> & Hab & H1). repeat split; [exact Hab|]. apply IH; assumption.
Qed.

Lemma lex_all_spec fuel : forall s off last acc ts start,
  slen s < fuel -> tiles start (rev acc) off ->
  lex_all fuel s off last acc = SOk ts -> tiles start ts (off + slen s).
Proof.
  induction fuel as [|fuel IH]; intros s off last acc ts start Hf Hacc H; [lia|].
  cbn [Lexer.lex_all] in H. destruct s as [|c r].
  - cbn [slen String.length]. rewrite Nat.add_0_r. destruct last; inversion H; subst; [exact Hacc|].
    cbn [rev]. eapply tiles_app; [exact Hacc|]. cbn. auto.
  - assert (B := tok_at_bounded false (String c r) ltac:(congruence)).
    destruct (tok_at false (String c r)) as [t n|e k]; [|discriminate]. cbn [bounded] in B.
    apply IH with (start := start) in H.
    + rewrite drop_len in H. replace (off + n + (slen (String c r) - n)) with (off + slen (String c r)) in H by lia. exact H.
    + rewrite drop_len. lia.
    + cbn [rev]. eapply tiles_app; [exact Hacc|]. cbn. repeat split; lia.
Qed.

Theorem lex_tiles (s : string) ts : lex_file s = SOk ts -> tiles 0 ts (slen s).
Proof.
  unfold Lexer.lex_file. intros H. apply (lex_all_spec _ _ _ _ _ _ 0) in H; [exact H | lia | reflexivity].
Qed.

Lemma lex_all_err fuel : forall s off last acc e k,
  slen s < fuel -> lex_all fuel s off last acc = SErr e k -> k <= off + slen s /\ e <> OtherTokenBytes \/ k <= off + slen s.
Proof.
  induction fuel as [|fuel IH]; intros s off last acc e k Hf H; [lia|].
  cbn [Lexer.lex_all] in H. destruct s as [|c r]; [destruct last; discriminate|].
  assert (B := tok_at_bounded false (String c r) ltac:(congruence)).
  destruct (tok_at false (String c r)) as [t n|e' k']; cbn [bounded] in B.
  - apply IH in H; [|rewrite drop_len; lia]. rewrite drop_len in H. right. destruct H as [[H _]|H]; lia.
  - inversion H; subst. right. lia.
Qed.

(* every diagnostic position lies inside the file (at most at its end) *)
Theorem lex_error_in_file (s : string) e k : lex_file s = SErr e k -> k <= slen s.
Proof.
  unfold Lexer.lex_file. intros H. apply lex_all_err in H; [|lia]. destruct H as [[H _]|H]; lia.
Qed.

End Proofs.
