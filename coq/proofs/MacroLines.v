(* MacroLines.v — #define, redefinition and #undef take effect from their line onward (driver of Macro.v). *)
From Coq Require Import List NArith Bool String Arith Lia.
From RV Require Import Macro MacroProofs MacroSubst.
Import ListNotations.
Local Open Scope list_scope.

Section Lines.
Variable paste : mtok -> mtok -> option mtok.
Variable files : string -> option (list item).

Lemma removed_name x ms : existsb (fun m => String.eqb x (m_name m)) (remove_macro x ms) = false.
Proof.
  induction ms as [|m r IH]; [reflexivity|]. unfold remove_macro in *. cbn [filter].
  destruct (String.eqb (m_name m) x) eqn:E; cbn [negb]; [exact IH|].
  cbn [existsb]. rewrite IH, orb_false_r. rewrite String.eqb_sym. exact E.
Qed.

Lemma removed_first x ms j m' :
  nth_error (remove_macro x ms) j = Some m' -> String.eqb x (m_name m') = false.
Proof.
  intros H. apply nth_error_In in H. unfold remove_macro in H. apply filter_In in H as [_ H].
  rewrite String.eqb_sym. destruct (String.eqb (m_name m') x); [discriminate | reflexivity].
Qed.

(* after `#define name body` (whatever `name` meant before), a use of `name` is replaced by `body` *)
Theorem define_takes_effect fuel self cmd m pre post st :
  parse_define cmd = Some m -> m_fn m = false ->
  let defs' := remove_macro (m_name m) (ps_macros st) ++ [m] in
  plain defs' pre -> plain defs' post -> plain defs' (m_body m) ->
  run paste files (S (S (S fuel))) self [IDefine cmd; IText (pre ++ MId (m_name m) :: post)] st =
  inl {| ps_macros := defs'; ps_once := ps_once st; ps_out := ps_out st ++ pre ++ m_body m ++ post |}.
Proof.
  intros Hp Hf defs' Hpre Hpost Hbody.
  cbn [run]. rewrite Hp. fold defs'. cbn [ps_macros ps_once ps_out].
  rewrite (object_macro_is_replaced paste defs' (List.length (remove_macro (m_name m) (ps_macros st))) m pre post).
  - reflexivity.
  - unfold defs'. rewrite nth_error_app2 by lia. rewrite Nat.sub_diag. reflexivity.
  - exact Hf.
  - intros j m' Hj Hn. unfold defs' in Hn. rewrite nth_error_app1 in Hn by exact Hj.
    apply (removed_first _ _ _ _ Hn).
  - exact Hpre.
  - exact Hpost.
  - exact Hbody.
Qed.

(* ... and an invocation of a newly defined function-like macro is its replacement list with the arguments substituted *)
Theorem define_function_takes_effect fuel self cmd m pre args post st :
  parse_define cmd = Some m -> m_fn m = true ->
  let defs' := remove_macro (m_name m) (ps_macros st) ++ [m] in
  args <> [] -> List.length args = m_params m -> Forall (simple defs') args ->
  plain defs' pre -> plain defs' post -> forallb (bodyb defs') (m_body m) = true ->
  run paste files (S (S (S fuel))) self
      [IDefine cmd; IText (pre ++ MId (m_name m) :: MLP :: commas args ++ MRP :: post)] st =
  inl {| ps_macros := defs'; ps_once := ps_once st;
         ps_out := ps_out st ++ pre ++ subst (m_body m) (map trim args) ++ post |}.
Proof.
  intros Hp Hf defs' Hne Hlen Hs Hpre Hpost Hbody.
  cbn [run]. rewrite Hp. fold defs'. cbn [ps_macros ps_once ps_out].
  rewrite (function_macro_is_substituted paste defs' (List.length (remove_macro (m_name m) (ps_macros st))) m pre args post).
  - reflexivity.
  - unfold defs'. rewrite nth_error_app2 by lia. rewrite Nat.sub_diag. reflexivity.
  - exact Hf.
  - intros j m' Hj Hn. unfold defs' in Hn. rewrite nth_error_app1 in Hn by exact Hj.
    apply (removed_first _ _ _ _ Hn).
  - exact Hne.
  - exact Hlen.
  - exact Hs.
  - exact Hpre.
  - exact Hpost.
  - exact Hbody.
Qed.

(* after `#undef x`, `x` is an ordinary identifier again *)
Theorem undef_takes_effect fuel self x pre post st :
  let defs' := remove_macro x (ps_macros st) in
  plain defs' pre -> plain defs' post ->
  run paste files (S (S (S fuel))) self [IUndef x; IText (pre ++ MId x :: post)] st =
  inl {| ps_macros := defs'; ps_once := ps_once st; ps_out := ps_out st ++ pre ++ MId x :: post |}.
Proof.
  intros defs' Hpre Hpost. cbn [run ps_macros ps_once ps_out]. fold defs'.
  rewrite (plain_text_unchanged paste defs'); [reflexivity|].
  apply plain_app; [exact Hpre|]. unfold plain in *. cbn [forallb plainb]. rewrite Hpost, andb_true_r.
  unfold is_name, defs'. rewrite removed_name. reflexivity.
Qed.

End Lines.
