(* CondProofs.v — the #if automaton refines C's conditional-group semantics, and rejects
   exactly the unbalanced line sequences; for any transition table satisfying switch_ok. *)
From Coq Require Import List NArith Bool String Lia.
From RV Require Import Cond.
Import ListNotations.

Scheme item_mind := Induction for item Sort Prop
  with items_mind := Induction for items Sort Prop
  with tail_mind := Induction for tail Sort Prop.
Combined Scheme item_items_tail_ind from item_mind, items_mind, tail_mind.

Definition switch_ok (switch : cstate -> bool -> cstate) : Prop :=
  (forall b, switch Enabled b = DisabledOuter) /\
  switch DisabledInner true = Enabled /\
  switch DisabledInner false = DisabledInner /\
  (forall b, switch DisabledOuter b = DisabledOuter).

Section Proofs.
Variable switch : cstate -> bool -> cstate.
Hypothesis Hsw : switch_ok switch.
Variable evalb : env -> list ctok -> bool.

(* every condition is well formed: evaluation succeeds with value evalb *)
Definition evalc : env -> list ctok -> bool + cerr := fun e c => inl (evalb e c).

Notation step := (Cond.step switch evalc).
Notation run := (Cond.run switch evalc).
Notation run_file := (Cond.run_file switch evalc).
Notation sem_item := (Cond.sem_item evalb).
Notation sem_items := (Cond.sem_items evalb).
Notation sem_tail := (Cond.sem_tail evalb).

Lemma run_app st l1 l2 :
  run st (l1 ++ l2) = match run st l1 with inl st' => run st' l2 | inr e => inr e end.
Proof.
  revert st; induction l1 as [|l l1 IH]; intros st; cbn [app Cond.run]; [reflexivity|].
  destruct (step st l); [apply IH | reflexivity].
Qed.

Lemma run_cons st l r : run st (l :: r) = match step st l with inl st' => run st' r | inr e => inr e end.
Proof. reflexivity. Qed.

Lemma active_cons s stk : is_active (s :: stk) = cstate_eqb Enabled s && is_active stk.
Proof. reflexivity. Qed.

Lemma inactive_cons s stk : is_active stk = false -> is_active (s :: stk) = false.
Proof. intros H. rewrite active_cons, H. apply andb_false_r. Qed.

Lemma flatten_item_cond g body rest :
  flatten_item (ICond g body rest) = guard_line g :: flatten_items body ++ flatten_tail rest.
Proof. reflexivity. Qed.
Lemma flatten_items_cons i r : flatten_items (ICons i r) = flatten_item i ++ flatten_items r.
Proof. reflexivity. Qed.
Lemma flatten_tail_elif c body rest :
  flatten_tail (TElif c body rest) = LElif c :: flatten_items body ++ flatten_tail rest.
Proof. reflexivity. Qed.
Lemma flatten_tail_else body : flatten_tail (TElse body) = LElse :: flatten_items body ++ [LEndif].
Proof. reflexivity. Qed.
Lemma sem_item_cond e g body rest :
  sem_item e (ICond g body rest) = if guard_true evalb e g then sem_items e body else sem_tail e rest.
Proof. reflexivity. Qed.
Lemma sem_items_cons e i r :
  sem_items e (ICons i r) = let (e1, o1) := sem_item e i in let (e2, o2) := sem_items e1 r in (e2, o1 ++ o2).
Proof. reflexivity. Qed.
Lemma sem_tail_elif e c body rest :
  sem_tail e (TElif c body rest) = if evalb e c then sem_items e body else sem_tail e rest.
Proof. reflexivity. Qed.

(* a well-nested tree only contains simple lines at its leaves *)
Fixpoint wf_item (i : item) : Prop :=
  match i with
  | ISimple l => is_simple l = true
  | ICond _ body rest => wf_items body /\ wf_tail rest
  end
with wf_items (its : items) : Prop :=
  match its with INil => True | ICons i r => wf_item i /\ wf_items r end
with wf_tail (t : tail) : Prop :=
  match t with
  | TEnd => True
  | TElif _ body rest => wf_items body /\ wf_tail rest
  | TElse body => wf_items body
  end.

(* a simple line in an active / inactive region *)
Lemma step_simple_active stk e o l :
  is_simple l = true -> is_active stk = true ->
  step (mkP stk e o) l = inl (mkP stk (fst (exec_simple e l)) (o ++ snd (exec_simple e l))).
Proof.
  intros Hs Ha. destruct l; try discriminate; cbn [Cond.step p_stack p_env p_out exec_simple fst snd];
    rewrite Ha; cbn [negb]; rewrite ?app_nil_r; reflexivity.
Qed.

Lemma step_simple_inactive stk e o l :
  is_simple l = true -> is_active stk = false -> step (mkP stk e o) l = inl (mkP stk e o).
Proof.
  intros Hs Ha. destruct l; try discriminate; cbn [Cond.step p_stack p_env p_out]; rewrite Ha; reflexivity.
Qed.

Lemma step_guard_active stk e o g :
  is_active stk = true ->
  step (mkP stk e o) (guard_line g) =
  inl (mkP ((if guard_true evalb e g then Enabled else DisabledInner) :: stk) e o).
Proof.
  intros Ha. destruct g; cbn [guard_line Cond.step p_stack p_env p_out guard_true]; rewrite Ha; cbn [negb].
  - unfold evalc. reflexivity.
  - reflexivity.
  - destruct (defined e x); reflexivity.
Qed.

Lemma step_guard_inactive stk e o g :
  is_active stk = false -> step (mkP stk e o) (guard_line g) = inl (mkP (DisabledInner :: stk) e o).
Proof. intros Ha. destruct g; cbn [guard_line Cond.step p_stack p_env p_out]; rewrite Ha; reflexivity. Qed.

Lemma step_elif top stk e o c :
  step (mkP (top :: stk) e o) (LElif c) =
  inl (mkP (switch top (if cstate_eqb DisabledInner top && is_active stk then evalb e c else false) :: stk) e o).
Proof.
  cbn [Cond.step p_stack p_env p_out]. destruct (cstate_eqb DisabledInner top && is_active stk); reflexivity.
Qed.
Lemma step_else top stk e o : step (mkP (top :: stk) e o) LElse = inl (mkP (switch top true :: stk) e o).
Proof. reflexivity. Qed.
Lemma step_endif top stk e o : step (mkP (top :: stk) e o) LEndif = inl (mkP stk e o).
Proof. reflexivity. Qed.

Definition dead (top : cstate) (stk : list cstate) : Prop := top = DisabledOuter \/ is_active stk = false.

Lemma dead_inactive top stk : dead top stk -> is_active (top :: stk) = false.
Proof. intros [->|H]; [reflexivity | apply inactive_cons; exact H]. Qed.

Lemma dead_switch top stk b : dead top stk -> dead (switch top b) stk.
Proof.
  destruct Hsw as (_ & _ & _ & H3). intros [->|H]; [left; apply H3 | right; exact H].
Qed.

(* the simulation: items in active and in skipped regions; tails before, after and outside a taken branch *)
Lemma simulation :
  (forall i, wf_item i -> forall stk e o k,
     (is_active stk = true ->
        run (mkP stk e o) (flatten_item i ++ k) = run (mkP stk (fst (sem_item e i)) (o ++ snd (sem_item e i))) k) /\
     (is_active stk = false -> run (mkP stk e o) (flatten_item i ++ k) = run (mkP stk e o) k)) /\
  (forall its, wf_items its -> forall stk e o k,
     (is_active stk = true ->
        run (mkP stk e o) (flatten_items its ++ k) = run (mkP stk (fst (sem_items e its)) (o ++ snd (sem_items e its))) k) /\
     (is_active stk = false -> run (mkP stk e o) (flatten_items its ++ k) = run (mkP stk e o) k)) /\
  (forall t, wf_tail t -> forall stk e o k,
     (* no branch taken so far *)
     (is_active stk = true ->
        run (mkP (DisabledInner :: stk) e o) (flatten_tail t ++ k) =
        run (mkP stk (fst (sem_tail e t)) (o ++ snd (sem_tail e t))) k) /\
     (* a branch was just taken *)
     (is_active stk = true -> run (mkP (Enabled :: stk) e o) (flatten_tail t ++ k) = run (mkP stk e o) k) /\
     (* a branch was taken earlier, or the whole chain is in a skipped region *)
     (forall top, dead top stk -> run (mkP (top :: stk) e o) (flatten_tail t ++ k) = run (mkP stk e o) k)).
Proof.
  destruct Hsw as (S0 & S1 & S2 & S3).
  apply item_items_tail_ind.
  - (* ISimple *)
    intros l Hl stk e o k. cbn [flatten_item app]. split; intros Ha; rewrite run_cons.
    + rewrite (step_simple_active _ _ _ _ Hl Ha). reflexivity.
    + rewrite (step_simple_inactive _ _ _ _ Hl Ha). reflexivity.
  - (* ICond *)
    intros g body IHb rest IHr [Wb Wr] stk e o k.
    rewrite flatten_item_cond, sem_item_cond. cbn [app]. rewrite <- app_assoc.
    specialize (IHb Wb). specialize (IHr Wr). split; intros Ha; rewrite run_cons.
    + rewrite (step_guard_active _ _ _ _ Ha). destruct (guard_true evalb e g).
      * destruct (IHb (Enabled :: stk) e o (flatten_tail rest ++ k)) as [H _].
        rewrite H by (rewrite active_cons, Ha; reflexivity).
        destruct (IHr stk (fst (sem_items e body)) (o ++ snd (sem_items e body)) k) as (_ & T2 & _).
        apply T2. exact Ha.
      * destruct (IHb (DisabledInner :: stk) e o (flatten_tail rest ++ k)) as [_ H].
        rewrite H by reflexivity.
        destruct (IHr stk e o k) as (T1 & _ & _). apply T1. exact Ha.
    + rewrite (step_guard_inactive _ _ _ _ Ha).
      destruct (IHb (DisabledInner :: stk) e o (flatten_tail rest ++ k)) as [_ H].
      rewrite H by reflexivity.
      destruct (IHr stk e o k) as (_ & _ & T3). apply T3. right. exact Ha.
  - (* INil *)
    intros _ stk e o k. cbn. rewrite app_nil_r. split; reflexivity.
  - (* ICons *)
    intros i IHi r IHr [Wi Wr] stk e o k.
    rewrite flatten_items_cons, sem_items_cons, <- app_assoc.
    specialize (IHi Wi). specialize (IHr Wr). split; intros Ha.
    + destruct (IHi stk e o (flatten_items r ++ k)) as [H _]. rewrite (H Ha).
      destruct (sem_item e i) as [e1 o1]. cbn [fst snd].
      destruct (IHr stk e1 (o ++ o1) k) as [H' _]. rewrite (H' Ha).
      destruct (sem_items e1 r) as [e2 o2]. cbn [fst snd]. rewrite app_assoc. reflexivity.
    + destruct (IHi stk e o (flatten_items r ++ k)) as [_ H]. rewrite (H Ha).
      destruct (IHr stk e o k) as [_ H']. apply H'. exact Ha.
  - (* TEnd *)
    intros _ stk e o k. cbn [flatten_tail app sem_tail fst snd]. rewrite app_nil_r.
    repeat split; intros; rewrite run_cons, step_endif; reflexivity.
  - (* TElif *)
    intros c body IHb rest IHr [Wb Wr] stk e o k.
    rewrite flatten_tail_elif, sem_tail_elif. cbn [app]. rewrite <- app_assoc.
    specialize (IHb Wb). specialize (IHr Wr). repeat split.
    + intros Ha. rewrite run_cons, step_elif, Ha. cbn [cstate_eqb andb]. destruct (evalb e c).
      * rewrite S1. destruct (IHb (Enabled :: stk) e o (flatten_tail rest ++ k)) as [H _].
        rewrite H by (rewrite active_cons, Ha; reflexivity).
        destruct (IHr stk (fst (sem_items e body)) (o ++ snd (sem_items e body)) k) as (_ & T2 & _).
        apply T2. exact Ha.
      * rewrite S2. destruct (IHb (DisabledInner :: stk) e o (flatten_tail rest ++ k)) as [_ H].
        rewrite H by reflexivity.
        destruct (IHr stk e o k) as (T1 & _ & _). apply T1. exact Ha.
    + intros Ha. rewrite run_cons, step_elif, S0.
      destruct (IHb (DisabledOuter :: stk) e o (flatten_tail rest ++ k)) as [_ H].
      rewrite H by reflexivity.
      destruct (IHr stk e o k) as (_ & _ & T3). apply T3. left. reflexivity.
    + intros top Hd. rewrite run_cons, step_elif.
      set (b := if cstate_eqb DisabledInner top && is_active stk then evalb e c else false).
      assert (Hd' := dead_switch top stk b Hd).
      destruct (IHb (switch top b :: stk) e o (flatten_tail rest ++ k)) as [_ H].
      rewrite H by (apply dead_inactive; exact Hd').
      destruct (IHr stk e o k) as (_ & _ & T3). apply T3. exact Hd'.
  - (* TElse *)
    intros body IHb Wb stk e o k.
    rewrite flatten_tail_else. cbn [app sem_tail]. rewrite <- app_assoc. cbn [app].
    specialize (IHb Wb). repeat split.
    + intros Ha. rewrite run_cons, step_else, S1.
      destruct (IHb (Enabled :: stk) e o (LEndif :: k)) as [H _].
      rewrite H by (rewrite active_cons, Ha; reflexivity).
      rewrite run_cons, step_endif. reflexivity.
    + intros Ha. rewrite run_cons, step_else, S0.
      destruct (IHb (DisabledOuter :: stk) e o (LEndif :: k)) as [_ H].
      rewrite H by reflexivity.
      rewrite run_cons, step_endif. reflexivity.
    + intros top Hd. rewrite run_cons, step_else.
      assert (Hd' := dead_switch top stk true Hd).
      destruct (IHb (switch top true :: stk) e o (LEndif :: k)) as [_ H].
      rewrite H by (apply dead_inactive; exact Hd').
      rewrite run_cons, step_endif. reflexivity.
Qed.

(* the automaton selects exactly the text and the macro environment C's rules select *)
Theorem chain_refines_groups (its : items) (e0 : env) :
  wf_items its -> run_file e0 (flatten_items its) = inl (sem_items e0 its).
Proof.
  intros W. unfold Cond.run_file.
  destruct (proj1 (proj2 simulation) its W [] e0 [] []) as [H _].
  rewrite app_nil_r in H. rewrite (H eq_refl). cbn [Cond.run p_stack p_env p_out app].
  destruct (sem_items e0 its); reflexivity.
Qed.

(* ---------- arbitrary line sequences: which ones are rejected, and how ---------- *)

Definition result_err {A} (r : A + perr) : option perr := match r with inl _ => None | inr e => Some e end.

Lemma step_depth st l :
  match step st l with
  | inl st' =>
      match l with
      | LIf _ | LIfdef _ | LIfndef _ => List.length (p_stack st') = S (List.length (p_stack st))
      | LElif _ | LElse => p_stack st <> [] /\ List.length (p_stack st') = List.length (p_stack st)
      | LEndif => List.length (p_stack st) = S (List.length (p_stack st'))
      | _ => p_stack st' = p_stack st
      end
  | inr e =>
      match l with
      | LElif _ | LElse => p_stack st = [] /\ e = ElseNotMatched
      | LEndif => p_stack st = [] /\ e = EndIfNotMatched
      | _ => False
      end
  end.
Proof.
  destruct st as [stk e o]. destruct l; unfold Cond.step, evalc; cbn [p_stack p_env p_out];
    try (destruct (negb (is_active stk)); reflexivity).
  - destruct stk as [|top stk]; [cbn; auto|].
    destruct top; destruct (is_active stk) eqn:E; cbn; rewrite ?E; cbn; (split; [discriminate | reflexivity]).
  - destruct stk; cbn; [auto|]. split; [discriminate | reflexivity].
  - destruct stk; cbn; [auto|]. reflexivity.
Qed.

Theorem reject_unbalanced (ls : list line) (e0 : env) :
  result_err (run_file e0 ls) = scan 0 ls.
Proof.
  unfold Cond.run_file.
  assert (G : forall ls st,
    match run st ls with
    | inr e => scan (List.length (p_stack st)) ls = Some e
    | inl st' => scan (List.length (p_stack st)) ls =
                 match p_stack st' with [] => None | _ => Some ConditionChainNotFinished end
    end).
  { clear ls. induction ls as [|l ls IH]; intros st.
    - cbn [Cond.run scan]. destruct (p_stack st); reflexivity.
    - cbn [Cond.run]. assert (Hd := step_depth st l).
      destruct (step st l) as [st'|e].
      + specialize (IH st').
        destruct l; cbn [scan];
          try (rewrite <- Hd; exact IH);
          try (rewrite Hd in IH; exact IH).
        * destruct Hd as [Hne Hlen]. destruct (p_stack st) eqn:E; [congruence|].
          cbn [List.length]. cbn [List.length] in Hlen. rewrite <- Hlen. exact IH.
        * destruct Hd as [Hne Hlen]. destruct (p_stack st) eqn:E; [congruence|].
          cbn [List.length]. cbn [List.length] in Hlen. rewrite <- Hlen. exact IH.
        * rewrite Hd. exact IH.
      + destruct l; try contradiction; destruct Hd as [-> ->]; reflexivity. }
  specialize (G ls (mkP [] e0 [])). cbn [p_stack List.length] in G.
  destruct (run (mkP [] e0 []) ls) as [st|e]; cbn [result_err].
  - destruct (p_stack st); cbn [result_err]; symmetry; exact G.
  - symmetry; exact G.
Qed.

End Proofs.
