(* NumbersProofs.v — integer literals denote exactly their written value or are rejected;
   the reference float conversion is the correctly rounded one (Flocq). *)
From Coq Require Import List ZArith NArith Bool String Ascii Lia Reals.
From Coq Require Import Floats.SpecFloat.
From Flocq Require Import Core IEEE754.BinarySingleNaN.
From RV Require Import Lexer Numbers.
Import ListNotations.

(* the mathematical value of a digit string read most significant digit first (stops at the first non-digit) *)
Fixpoint written_value (base : N) (dv : ascii -> option N) (s : string) (acc : N) : N :=
  match s with
  | EmptyString => acc
  | String c r => match dv c with Some d => written_value base dv r (acc * base + d)%N | None => acc end
  end.

Lemma written_value_ge base dv s acc : (1 <= base)%N -> (acc <= written_value base dv s acc)%N.
Proof.
  intros Hb. revert acc; induction s as [|c r IH]; intros acc; cbn [written_value]; [lia|].
  destruct (dv c) as [d|]; [|lia]. specialize (IH (acc * base + d)%N). nia.
Qed.

(* checked accumulation = the written value when it fits in 64 bits, rejection otherwise *)
Theorem accum_exact base dv s acc : (1 <= base)%N -> (acc < two64)%N ->
  accum base dv s acc =
  if (written_value base dv s acc <? two64)%N then Some (written_value base dv s acc) else None.
Proof.
  intros Hb. revert acc; induction s as [|c r IH]; intros acc Ha; cbn [accum written_value].
  - apply N.ltb_lt in Ha. rewrite Ha. reflexivity.
  - destruct (dv c) as [d|]; [|apply N.ltb_lt in Ha; rewrite Ha; reflexivity].
    destruct (N.ltb_spec (acc * base + d) two64) as [H|H]; [apply IH; exact H|].
    assert (G := written_value_ge base dv r (acc * base + d)%N Hb).
    destruct (N.ltb_spec (written_value base dv r (acc * base + d)) two64); [lia | reflexivity].
Qed.

(* ---------- floats ---------- *)
Local Open Scope R_scope.

Notation fexp64 := (SpecFloat.fexp 53 1024).
Notation round64 := (round radix2 fexp64 (round_mode mode_NE)).

(* non-negative decimal exponent: the nearest double to p * 10^e, or +infinity when that overflows *)
Theorem dec2f64_core_nearest_pos (p : positive) (e : Z) : (0 <= e)%Z ->
  let x := IZR (Zpos p * 10 ^ e) in
  if Rlt_bool (Rabs (round64 x)) (bpow radix2 1024)
  then SF2R radix2 (dec2f64_core (Npos p) e) = round64 x
  else dec2f64_core (Npos p) e = S754_infinity false.
Proof.
  intros He x. unfold dec2f64_core. apply Z.leb_le in He. rewrite He.
  assert (H := binary_normalize_correct 53 1024 eq_refl eq_refl mode_NE (Zpos p * 10 ^ e) 0 false).
  cbn zeta in H. rewrite F2R_Zmult_bpow0 in H || idtac.
  replace (F2R (Float radix2 (Z.pos p * 10 ^ e) 0)) with x in H
    by (unfold x, F2R; cbn [Fnum Fexp bpow]; rewrite Rmult_1_r; reflexivity).
  destruct (Rlt_bool (Rabs (round64 x)) (bpow radix2 1024)).
  - destruct H as (H & _ & _). rewrite <- H. symmetry. apply B2SF_B2R || (unfold B2R, B2SF; destruct (binary_normalize _ _ _ _ _ _ _ _); reflexivity).
  - rewrite H. unfold binary_overflow, overflow_to_inf. cbn.
    replace (Rlt_bool x 0) with false; [reflexivity|].
    symmetry. apply Rlt_bool_false. unfold x. apply IZR_le.
    apply Z.leb_le in He. assert (0 < 10 ^ e)%Z by (apply Z.pow_pos_nonneg; lia). nia.
Qed.

(* negative decimal exponent: the nearest double to p / 10^(-e) *)
Theorem dec2f64_core_nearest_neg (p : positive) (e : Z) : (e < 0)%Z ->
  let x := IZR (Zpos p) / IZR (10 ^ (- e)) in
  if Rlt_bool (Rabs (round64 x)) (bpow radix2 1024)
  then SF2R radix2 (dec2f64_core (Npos p) e) = round64 x
  else dec2f64_core (Npos p) e = S754_infinity false.
Proof.
  intros He x. unfold dec2f64_core.
  destruct (Z.leb_spec 0 e) as [H0|_]; [lia|].
  assert (Hp : exists q, (10 ^ (- e))%Z = Zpos q).
  { assert (0 < 10 ^ (- e))%Z by (apply Z.pow_pos_nonneg; lia). destruct (10 ^ (- e))%Z as [|q|q]; try lia. eauto. }
  destruct Hp as [q Hq]. unfold x. clear x. rewrite Hq in *.
  assert (H := Bdiv_correct_aux 53 1024 eq_refl eq_refl mode_NE false p 0 false q 0).
  cbn zeta in H. cbn [cond_Zopp xorb] in H.
  replace (F2R (Float radix2 (Z.pos p) 0)) with (IZR (Zpos p)) in H
    by (unfold F2R; cbn [Fnum Fexp bpow]; rewrite Rmult_1_r; reflexivity).
  replace (F2R (Float radix2 (Z.pos q) 0)) with (IZR (Zpos q)) in H
    by (unfold F2R; cbn [Fnum Fexp bpow]; rewrite Rmult_1_r; reflexivity).
  destruct (SFdiv_core_binary 53 1024 (Z.pos p) 0 (Z.pos q) 0) as [[mz ez] lz].
  destruct H as [_ H].
  destruct (Rlt_bool (Rabs (round64 (IZR (Z.pos p) / IZR (Z.pos q)))) (bpow radix2 1024)).
  - destruct H as (H & _). exact H.
  - rewrite H. reflexivity.
Qed.
