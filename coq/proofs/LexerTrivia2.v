(* LexerTrivia2.v — layout trivia after a complete token: comments, line splices and runs of them.
   LexerTrivia.v shows that one blank after an identifier, keyword, reserved word, operator symbol or string leaves
   that token alone.  Here the following character may be any character the token cannot absorb (`follows_ok`), and
   the inserted text may be any sequence of trivia pieces: blanks, block comments, line comments with their line
   feed, line splices.  Each piece lexes to whitespace tokens whatever comes after it, so the tokens that are not
   whitespace are the same with and without the inserted text.  The one adjacency this brings out: text that begins
   with `/` (a comment) directly after the operator `/` is not a comment there (`a//* c */b`), which is why the
   statement asks that the first inserted character differs from the token's first character. *)
From Coq Require Import List NArith Bool String Ascii Arith Lia.
From RV Require Import Lexer LexerProofs LexerTrivia.
Import ListNotations.
Local Open Scope string_scope.

(* what may follow a token whose first character is c without becoming part of it *)
Definition follows_ok (c w : ascii) : Prop :=
  is_ident_char w = false /\ Ascii.eqb w "=" = false /\ Ascii.eqb w c = false /\
  (Ascii.eqb c "/" = true -> Ascii.eqb w "*" = false).

Lemma blank_follows_ok c w : blank w ->
  (Ascii.eqb c " " || Ascii.eqb c "009") = false -> Ascii.eqb c "010" = false -> follows_ok c w.
Proof.
  intros Bw W1 W2. apply orb_false_iff in W1 as [X1 X2]. unfold follows_ok.
  destruct Bw as [ -> | [ -> | -> ] ]; repeat split; try reflexivity; intros; try reflexivity;
    rewrite Ascii.eqb_sym; assumption.
Qed.

Section Trivia2.
Variable keywords : list (string * string).
Variable reserved_words : list string.
Variable symbols : list (N * string * option string * option string).
Variable int_suffixes : list (list (list N) * string).
Variable float_suffixes : list (list N * string).
Variable float_is_zero : string -> bool.
Variable utf8_ok : string -> bool.

Notation tok_at := (tok_at keywords reserved_words symbols int_suffixes float_suffixes float_is_zero utf8_ok).
Notation lex_int := (lex_int int_suffixes).
Notation lex_float := (lex_float float_suffixes float_is_zero).
Notation lex_word := (lex_word keywords reserved_words).
Notation lex_symbol := (lex_symbol symbols).
Notation Lexes := (Lexes keywords reserved_words symbols int_suffixes float_suffixes float_is_zero utf8_ok).
Notation lex_file := (lex_file keywords reserved_words symbols int_suffixes float_suffixes float_is_zero utf8_ok).

Theorem solid_token_ignores_what_follows c a' b t w b' :
  tok_at false (String c a' ++ b) = LOk t (slen (String c a')) -> solid t = true -> follows_ok c w ->
  tok_at false (String c a' ++ String w b') = LOk t (slen (String c a')).
Proof.
  intros H St (Wi & We & Wc & Ws).
  cbn [append] in *. cbn [Lexer.tok_at] in *.
  destruct (is_digit c) eqn:Hd.
  { exfalso. destruct (lex_float (String c (a' ++ b))) as [t0 n0|e k] eqn:F.
    - inversion H; subst. rewrite (lex_float_not_solid _ _ _ _ _ F) in St. discriminate.
    - destruct e; try discriminate. rewrite (lex_int_not_solid _ _ _ _ H) in St. discriminate. }
  destruct (is_alpha_ c) eqn:Ha.
  { unfold Lexer.lex_word in *.
    destruct (span is_ident_char (String c (a' ++ b))) as [w0 r0] eqn:Sp.
    inversion H as [[Ht Hl]].
    assert (A : all is_ident_char (String c a') = true).
    { apply (span_exact is_ident_char (String c a') b). cbn [append]. rewrite Sp. exact Hl. }
    assert (W0 : w0 = String c a').
    { apply (prefix_exact w0 r0 (String c a') b); [|exact Hl].
      pose proof (span_app is_ident_char (String c (a' ++ b))) as E. rewrite Sp in E. cbn [fst snd] in E. symmetry. exact E. }
    change (String c (a' ++ String w b')) with (String c a' ++ String w b').
    rewrite (span_stop is_ident_char (String c a') w b' A Wi). subst w0. reflexivity. }
  cbn [andb] in *.
  destruct (Ascii.eqb c " " || Ascii.eqb c "009") eqn:W1; [inversion H; subst; discriminate|].
  destruct (Ascii.eqb c "010") eqn:W2; [inversion H; subst; discriminate|].
  destruct (Ascii.eqb c "013").
  { exfalso. destruct a' as [|d a'']; cbn [append] in H.
    - destruct b as [|d r]; [discriminate|]. destruct (Ascii.eqb d "010"); inversion H; subst; discriminate.
    - destruct (Ascii.eqb d "010"); inversion H; subst; discriminate. }
  destruct (Ascii.eqb c "\").
  { exfalso. revert H. generalize (a' ++ b). intros r H. destruct r as [|d r']; [discriminate|].
    destruct (Ascii.eqb d "010"); [inversion H; subst; discriminate|].
    destruct r' as [|e r'']; [discriminate|]. destruct (Ascii.eqb d "013" && Ascii.eqb e "010"); inversion H; subst; discriminate. }
  destruct (Ascii.eqb c "/" && starts_with "/" (a' ++ b)) eqn:C1; [inversion H; subst; discriminate|].
  destruct (Ascii.eqb c "/" && starts_with "*" (a' ++ b)) eqn:C2.
  { exfalso. destruct (block_end (drop 1 (a' ++ b))); inversion H; subst; discriminate. }
  assert (C1' : Ascii.eqb c "/" && starts_with "/" (a' ++ String w b') = false).
  { destruct (Ascii.eqb c "/") eqn:Cs; [|reflexivity]. cbn [andb] in *.
    destruct a' as [|d a'']; [|cbn [append] in *; rewrite (starts1 _ d _ (a'' ++ b)); exact C1].
    cbn [append]. unfold starts_with. cbn [String.prefix].
    destruct (ascii_dec "/" w) as [E|N]; [|reflexivity].
    exfalso. subst w. apply Ascii.eqb_eq in Cs. subst c. cbn in Wc. discriminate. }
  assert (C2' : Ascii.eqb c "/" && starts_with "*" (a' ++ String w b') = false).
  { destruct (Ascii.eqb c "/") eqn:Cs; [|reflexivity]. cbn [andb] in *.
    destruct a' as [|d a'']; [|cbn [append] in *; rewrite (starts1 _ d _ (a'' ++ b)); exact C2].
    cbn [append]. unfold starts_with. cbn [String.prefix].
    destruct (ascii_dec "*" w) as [E|N]; [|reflexivity].
    exfalso. subst w. specialize (Ws eq_refl). cbn in Ws. discriminate. }
  rewrite C1', C2'.
  destruct (Ascii.eqb c """") eqn:Q.
  { unfold Lexer.lex_quoted in *. cbn [drop] in *.
    destruct (index_of """" (a' ++ b)) as [pos|] eqn:I; [|discriminate].
    assert (P : pos + 2 = S (slen a')).
    { destruct (negb (utf8_ok (substring 1 pos (String c (a' ++ b))))); [discriminate|].
      destruct (contains "010" (substring 1 pos (String c (a' ++ b)))); [discriminate|]. inversion H as [[Ht Hl]]. unfold slen in *. cbn [String.length] in *. lia. }
    rewrite (index_of_app """" a' b pos I ltac:(lia) (String w b')).
    cbn [substring] in *. rewrite (substring_app pos a' (String w b')) by lia. rewrite (substring_app pos a' b) in H by lia.
    exact H. }
  destruct (Ascii.eqb c "<"); [inversion H; subst; discriminate|].
  destruct (Ascii.eqb c ">"); [inversion H; subst; discriminate|].
  destruct (lex_symbol c (a' ++ b)) as [[t0 n0]|] eqn:Y; [|discriminate].
  inversion H; subst. rewrite slen_cons in *.
  destruct (lex_symbol_sym _ _ _ _ _ Y) as [v ->].
  rewrite (lex_symbol_local symbols c a' b v w b' Y We Wc). reflexivity.
Qed.

(* ---- trivia pieces ---- *)

(* text of a line comment: no line feed, no carriage return, no backslash (a backslash may splice the next line in) *)
Definition plain_char (c : ascii) : bool :=
  negb (Ascii.eqb c "010") && negb (Ascii.eqb c "013") && negb (Ascii.eqb c "\").

(* body of a block comment: the closing star-slash does not occur in it *)
Fixpoint has_close (s : string) : bool :=
  match s with
  | String c r => match r with
                  | String d _ => (Ascii.eqb c "*" && Ascii.eqb d "/") || has_close r
                  | EmptyString => false
                  end
  | EmptyString => false
  end.

Inductive Piece : string -> Prop :=
| PBlank w : blank w -> Piece (String w "")
| PSplice : Piece (String "\" (String "010" ""))
| PBlock body : has_close body = false -> Piece ("/*" ++ body ++ "*/")
| PLine text : all plain_char text = true -> Piece ("//" ++ text ++ String "010" "").

Lemma block_end_body body : has_close body = false -> forall b, block_end (body ++ "*/" ++ b) = Some (slen body + 2).
Proof.
  induction body as [|c r IH]; intros Hc b.
  - reflexivity.
  - cbn [append block_end].
    destruct r as [|d r'].
    + (* last character of the body, then the closing star *)
      cbn [append]. cbn [has_close] in Hc.
      assert (E : Ascii.eqb c "*" && Ascii.eqb "*" "/" = false) by (rewrite andb_false_r; reflexivity).
      rewrite E. specialize (IH eq_refl b). cbn [append] in IH. rewrite IH. reflexivity.
    + cbn [append]. cbn [has_close] in Hc. apply orb_false_iff in Hc as [H1 H2].
      rewrite H1. specialize (IH H2 b). cbn [append] in IH. rewrite IH. cbn [option_map slen String.length]. reflexivity.
Qed.

Lemma line_len_text text : all plain_char text = true -> forall b, line_comment_len (text ++ String "010" b) = slen text.
Proof.
  induction text as [|c r IH]; intros Ha b.
  - reflexivity.
  - cbn [all] in Ha. apply andb_true_iff in Ha as [Hc Hr]. unfold plain_char in Hc.
    apply andb_true_iff in Hc as [Hc H3]. apply andb_true_iff in Hc as [H1 H2].
    apply negb_true_iff in H1, H2, H3.
    cbn [append line_comment_len]. rewrite H1, H2, H3. cbn [andb]. rewrite (IH Hr b). reflexivity.
Qed.

Lemma sapp_assoc (a b c : string) : (a ++ b) ++ c = a ++ (b ++ c).
Proof. induction a as [|x a IH]; [reflexivity|]. cbn [append]. rewrite IH. reflexivity. Qed.

Lemma drop_add n m s : drop (n + m) s = drop m (drop n s).
Proof.
  revert s. induction n as [|n IH]; intros s; [reflexivity|]. destruct s as [|c r]; cbn [Nat.add drop].
  - destruct m; reflexivity.
  - apply IH.
Qed.

Lemma tok_at_block r : tok_at false (String "/" (String "*" r)) =
  match block_end r with Some n => LOk TComment (2 + n) | None => LErr EndOfStream (slen (String "/" (String "*" r))) end.
Proof. destruct r; reflexivity. Qed.

Lemma tok_at_line r : tok_at false (String "/" (String "/" r)) = LOk TComment (2 + line_comment_len r).
Proof. destruct r; reflexivity. Qed.

(* a piece lexes to whitespace tokens and hands over to what follows it, whatever that is *)
Lemma piece_lexes x : Piece x -> forall b l0, exists ws l1, Forall (fun t => is_ws t = true) ws /\
    (forall ts1, Lexes b l1 ts1 -> Lexes (x ++ b) l0 (ws ++ ts1)).
Proof.
  intros P b l0. destruct P as [w Bw| |body Hb|text Ht].
  - destruct (blank_token keywords reserved_words symbols int_suffixes float_suffixes float_is_zero utf8_ok w b Bw) as (tw & Tw & Ww).
    exists [tw], (is_endline tw). split; [repeat constructor; exact Ww|].
    intros ts1 L1. cbn [append app]. apply (LexTok _ _ _ _ _ _ _ w b l0 tw 1 ts1); [exact Tw|]. cbn [drop]. exact L1.
  - exists [TPhysicalEndline], false. split; [repeat constructor|].
    intros ts1 L1. cbn [append app].
    apply (LexTok _ _ _ _ _ _ _ "\" (String "010" b) l0 TPhysicalEndline 2 ts1); [reflexivity|]. cbn [drop]. exact L1.
  - exists [TComment], false. split; [repeat constructor|].
    intros ts1 L1. rewrite sapp_assoc. cbn [append]. rewrite sapp_assoc. cbn [app].
    apply (LexTok _ _ _ _ _ _ _ "/" (String "*" (body ++ "*/" ++ b)) l0 TComment (2 + (slen body + 2)) ts1).
    + rewrite tok_at_block, (block_end_body body Hb b). reflexivity.
    + cbn [Nat.add drop]. rewrite drop_add. rewrite (drop_app body). cbn [append drop]. exact L1.
  - exists [TComment; TEndline], true. split; [repeat constructor|].
    intros ts1 L1. rewrite sapp_assoc. cbn [append]. rewrite sapp_assoc. cbn [app append].
    apply (LexTok _ _ _ _ _ _ _ "/" (String "/" (text ++ String "010" b)) l0 TComment (2 + slen text) (TEndline :: ts1)).
    + rewrite tok_at_line, (line_len_text text Ht b). reflexivity.
    + cbn [Nat.add drop]. rewrite (drop_app text). cbn [is_endline].
      apply (LexTok _ _ _ _ _ _ _ "010" b false TEndline 1 ts1); [reflexivity|]. cbn [drop is_endline]. exact L1.
Qed.

(* a run of pieces *)
Inductive Trivia : string -> Prop :=
| TrOne x : Piece x -> Trivia x
| TrMore x y : Piece x -> Trivia y -> Trivia (x ++ y).

Lemma trivia_lexes x : Trivia x -> forall b l0, exists ws l1, Forall (fun t => is_ws t = true) ws /\
    (forall ts1, Lexes b l1 ts1 -> Lexes (x ++ b) l0 (ws ++ ts1)).
Proof.
  induction 1 as [x P|x y P Ty IH]; intros b l0.
  - apply piece_lexes. exact P.
  - destruct (piece_lexes x P (y ++ b) l0) as (ws1 & l1 & F1 & H1).
    destruct (IH b l1) as (ws2 & l2 & F2 & H2).
    exists (ws1 ++ ws2)%list, l2. split; [apply Forall_app; split; assumption|].
    intros ts1 L1. rewrite sapp_assoc, <- app_assoc. apply H1. apply H2. exact L1.
Qed.

Lemma strip_ws ws ts : Forall (fun t => is_ws t = true) ws -> strip (ws ++ ts) = strip ts.
Proof.
  induction 1 as [|t ws Ht F IH]; [reflexivity|]. unfold strip in *. cbn [app filter]. rewrite Ht. cbn [negb]. exact IH.
Qed.

(* the first character of a piece: a blank, a backslash or a slash *)
Lemma piece_head x : Piece x -> exists w x', x = String w x' /\ (blank w \/ w = "\"%char \/ w = "/"%char).
Proof.
  destruct 1 as [w Bw| |body Hb|text Ht]; eexists; eexists; (split; [reflexivity|]); auto.
Qed.

Lemma trivia_head x : Trivia x -> exists w x', x = String w x' /\ (blank w \/ w = "\"%char \/ w = "/"%char).
Proof.
  destruct 1 as [x P|x y P Ty].
  - apply piece_head. exact P.
  - destruct (piece_head x P) as (w & x' & -> & Hw). exists w, (x' ++ y). split; [reflexivity|exact Hw].
Qed.

(* a solid token does not begin with a blank or a backslash *)
Lemma solid_first_char c r t n : tok_at false (String c r) = LOk t n -> solid t = true ->
  (Ascii.eqb c " " || Ascii.eqb c "009") = false /\ Ascii.eqb c "010" = false /\ Ascii.eqb c "\" = false.
Proof.
  intros H St. cbn [Lexer.tok_at] in H.
  destruct (is_digit c) eqn:Hd.
  { exfalso. destruct (lex_float (String c r)) as [t0 n0|e k] eqn:F.
    - inversion H; subst. rewrite (lex_float_not_solid _ _ _ _ _ F) in St. discriminate.
    - destruct e; try discriminate. rewrite (lex_int_not_solid _ _ _ _ H) in St. discriminate. }
  destruct (is_alpha_ c) eqn:Ha.
  { unfold is_alpha_ in Ha. repeat split.
    - destruct (Ascii.eqb c " ") eqn:E1; [apply Ascii.eqb_eq in E1; subst c; discriminate|].
      destruct (Ascii.eqb c "009") eqn:E2; [apply Ascii.eqb_eq in E2; subst c; discriminate|]. reflexivity.
    - destruct (Ascii.eqb c "010") eqn:E1; [apply Ascii.eqb_eq in E1; subst c; discriminate|]. reflexivity.
    - destruct (Ascii.eqb c "\") eqn:E1; [apply Ascii.eqb_eq in E1; subst c; discriminate|]. reflexivity. }
  cbn [andb] in H.
  destruct (Ascii.eqb c " " || Ascii.eqb c "009") eqn:W1; [inversion H; subst; discriminate|].
  destruct (Ascii.eqb c "010") eqn:W2; [inversion H; subst; discriminate|].
  destruct (Ascii.eqb c "013") eqn:W3.
  { exfalso. destruct r as [|d r']; [discriminate|]. destruct (Ascii.eqb d "010"); inversion H; subst; discriminate. }
  destruct (Ascii.eqb c "\") eqn:W4; [|repeat split; reflexivity].
  exfalso. destruct r as [|d r']; [discriminate|].
  destruct (Ascii.eqb d "010"); [inversion H; subst; discriminate|].
  destruct r' as [|e r'']; [discriminate|]. destruct (Ascii.eqb d "013" && Ascii.eqb e "010"); inversion H; subst; discriminate.
Qed.

(* inserted trivia after a solid token that does not begin with a slash: the tokens that are not whitespace stay *)
Theorem trivia_after_solid_token c a' b last t ts x :
  tok_at false (String c a' ++ b) = LOk t (slen (String c a')) -> solid t = true ->
  Ascii.eqb c "/" = false -> Trivia x ->
  Lexes (String c a' ++ b) last (t :: ts) ->
  exists ts', Lexes (String c a' ++ x ++ b) last (t :: ts') /\ strip ts' = strip ts.
Proof.
  intros T St Cs Tx L.
  destruct (trivia_head x Tx) as (w & x' & Ex & Hw).
  destruct (solid_first_char c (a' ++ b) t _ T St) as (F1 & F2 & F3).
  assert (Fo : follows_ok c w).
  { destruct Hw as [Bw|[->| ->]].
    - apply blank_follows_ok; assumption.
    - unfold follows_ok. repeat split; try reflexivity. rewrite Ascii.eqb_sym. exact F3.
    - unfold follows_ok. repeat split; try reflexivity. rewrite Ascii.eqb_sym. exact Cs. }
  pose proof (solid_token_ignores_what_follows c a' b t w (x' ++ b) T St Fo) as T'.
  inversion L as [|c0 r0 last0 t0 n0 ts0 T0 L0]; subst.
  change (String c (a' ++ b)) with (String c a' ++ b) in *. rewrite T in T0. inversion T0; subst n0.
  change (S (slen a')) with (slen (String c a')) in L0. rewrite drop_app in L0.
  destruct (trivia_lexes (String w x') Tx b (is_endline t)) as (ws & l1 & Fw & Hx).
  destruct (lexes_flag keywords reserved_words symbols int_suffixes float_suffixes float_is_zero utf8_ok b (is_endline t) ts L0 l1) as (ts2 & L2 & S2).
  exists (ws ++ ts2)%list. split.
  - cbn [append]. change (String c (a' ++ String w (x' ++ b))) with (String c a' ++ String w (x' ++ b)).
    apply (LexTok _ _ _ _ _ _ _ c (a' ++ String w (x' ++ b)) last t (slen (String c a')) (ws ++ ts2)%list); [exact T'|].
    change (String c (a' ++ String w (x' ++ b))) with (String c a' ++ String w (x' ++ b)).
    rewrite drop_app.
    change (String w (x' ++ b)) with (String w x' ++ b). apply Hx. exact L2.
  - rewrite strip_ws by exact Fw. exact S2.
Qed.

(* for a whole file that starts with the token *)
Corollary trivia_after_first_token c a' b t x spans :
  tok_at false (String c a' ++ b) = LOk t (slen (String c a')) -> solid t = true ->
  Ascii.eqb c "/" = false -> Trivia x ->
  lex_file (String c a' ++ b) = SOk spans ->
  exists spans', lex_file (String c a' ++ x ++ b) = SOk spans' /\ strip (toks spans') = strip (toks spans).
Proof.
  intros T St Cs Tx H. unfold Lexer.lex_file in *.
  destruct (lex_all_sound _ _ _ _ _ _ _ _ _ _ _ _ _ H) as (l & E & L). cbn [rev toks map app] in E.
  destruct l as [|t0 ts0].
  { exfalso. inversion L. }
  assert (t0 = t).
  { inversion L as [|c0 r0 last0 t1 n0 ts1 T0 L0]; subst. change (String c (a' ++ b)) with (String c a' ++ b) in T0. rewrite T in T0. inversion T0. reflexivity. }
  subst t0.
  destruct (trivia_after_solid_token c a' b true t ts0 x T St Cs Tx L) as (ts' & L' & S').
  destruct (lex_all_complete _ _ _ _ _ _ _ _ _ _ L' (S (slen (String c a' ++ x ++ b))) 0 [] ltac:(lia)) as (sp & E' & M').
  exists sp. split; [exact E'|]. cbn [rev toks map app] in M'. rewrite M', E.
  unfold strip in *. cbn [filter]. destruct (negb (is_ws t)); [f_equal|]; exact S'.
Qed.

(* trivia in front of the first token of a file *)
Theorem trivia_at_start x s spans :
  Trivia x -> lex_file s = SOk spans ->
  exists spans', lex_file (x ++ s) = SOk spans' /\ strip (toks spans') = strip (toks spans).
Proof.
  intros Tx H. unfold Lexer.lex_file in *.
  destruct (lex_all_sound _ _ _ _ _ _ _ _ _ _ _ _ _ H) as (l & E & L). cbn [rev toks map app] in E.
  destruct (trivia_lexes x Tx s true) as (ws & l1 & Fw & Hx).
  destruct (lexes_flag keywords reserved_words symbols int_suffixes float_suffixes float_is_zero utf8_ok s true l L l1) as (l' & L' & S').
  specialize (Hx l' L').
  destruct (lex_all_complete _ _ _ _ _ _ _ _ _ _ Hx (S (slen (x ++ s))) 0 [] ltac:(lia)) as (sp & E' & M').
  exists sp. split; [exact E'|]. cbn [rev toks map app] in M'. rewrite M', E.
  rewrite strip_ws by exact Fw. exact S'.
Qed.

End Trivia2.

(* ---- any token boundary behind a prefix of blank-separated tokens ----
   A prefix is "spaced" when it is a run of solid tokens each followed by one blank.  Such a token reads the same
   whatever comes after its blank (solid_token_ignores_what_follows), so the prefix lexes to the same tokens in front
   of every continuation, and a trivia insertion behind it is an insertion at the start of the rest. *)
Section Spaced.
Variable keywords : list (string * string).
Variable reserved_words : list string.
Variable symbols : list (N * string * option string * option string).
Variable int_suffixes : list (list (list N) * string).
Variable float_suffixes : list (list N * string).
Variable float_is_zero : string -> bool.
Variable utf8_ok : string -> bool.

Notation tok_at := (tok_at keywords reserved_words symbols int_suffixes float_suffixes float_is_zero utf8_ok).
Notation Lexes := (Lexes keywords reserved_words symbols int_suffixes float_suffixes float_is_zero utf8_ok).
Notation lex_file := (lex_file keywords reserved_words symbols int_suffixes float_suffixes float_is_zero utf8_ok).

(* the text of the prefix and the tokens it stands for (the blanks between them left out) *)
Inductive Spaced : string -> list tok -> Prop :=
| SpNil : Spaced "" []
| SpCons c a' w t p ts :
    tok_at false (String c a' ++ String w "") = LOk t (slen (String c a')) -> solid t = true -> blank w ->
    Spaced p ts -> Spaced (String c a' ++ String w p) (t :: ts).

Lemma spaced_lexes p ts : Spaced p ts -> forall rest last l0 tr,
  Lexes rest l0 tr ->
  exists tp l1 tr', Lexes (p ++ rest) last (tp ++ tr') /\ strip tp = strip ts /\ Lexes rest l1 tr' /\ strip tr' = strip tr.
Proof.
  induction 1 as [|c a' w t p ts T St Bw Sp IH]; intros rest last l0 tr Lr.
  - destruct (lexes_flag keywords reserved_words symbols int_suffixes float_suffixes float_is_zero utf8_ok rest l0 tr Lr last) as (tr' & L' & S').
    exists [], last, tr'. cbn [append app]. repeat split; assumption.
  - destruct (solid_first_char keywords reserved_words symbols int_suffixes float_suffixes float_is_zero utf8_ok c (a' ++ String w "") t _ T St) as (F1 & F2 & F3).
    assert (Fo : follows_ok c w) by (apply blank_follows_ok; assumption).
    pose proof (solid_token_ignores_what_follows keywords reserved_words symbols int_suffixes float_suffixes float_is_zero utf8_ok c a' (String w "") t w (p ++ rest) T St Fo) as T'.
    destruct (blank_token keywords reserved_words symbols int_suffixes float_suffixes float_is_zero utf8_ok w (p ++ rest) Bw) as (tw & Tw & Ww).
    destruct (IH rest (is_endline tw) l0 tr Lr) as (tp & l1 & tr' & Lp & Sp' & Lr' & Sr').
    exists (t :: tw :: tp), l1, tr'. repeat split.
    + rewrite sapp_assoc. cbn [append app].
      change (String c (a' ++ String w (p ++ rest))) with (String c a' ++ String w (p ++ rest)).
      apply (LexTok _ _ _ _ _ _ _ c (a' ++ String w (p ++ rest)) last t (slen (String c a')) (tw :: tp ++ tr')); [exact T'|].
      change (String c (a' ++ String w (p ++ rest))) with (String c a' ++ String w (p ++ rest)). rewrite drop_app.
      apply (LexTok _ _ _ _ _ _ _ w (p ++ rest) (is_endline t) tw 1 (tp ++ tr')); [exact Tw|]. cbn [drop]. exact Lp.
    + unfold strip in *. cbn [filter]. rewrite Ww. cbn [negb]. destruct (negb (is_ws t)); [f_equal|]; exact Sp'.
    + exact Lr'.
    + exact Sr'.
Qed.

Lemma spaced_lexes_inv p ts : Spaced p ts -> forall rest last l,
  Lexes (p ++ rest) last l ->
  exists tp l1 tr, l = (tp ++ tr)%list /\ strip tp = strip ts /\ Lexes rest l1 tr.
Proof.
  induction 1 as [|c a' w t p ts T St Bw Sp IH]; intros rest last l L.
  - exists [], last, l. cbn [append app] in *. repeat split. exact L.
  - destruct (solid_first_char keywords reserved_words symbols int_suffixes float_suffixes float_is_zero utf8_ok c (a' ++ String w "") t _ T St) as (F1 & F2 & F3).
    assert (Fo : follows_ok c w) by (apply blank_follows_ok; assumption).
    pose proof (solid_token_ignores_what_follows keywords reserved_words symbols int_suffixes float_suffixes float_is_zero utf8_ok c a' (String w "") t w (p ++ rest) T St Fo) as T'.
    destruct (blank_token keywords reserved_words symbols int_suffixes float_suffixes float_is_zero utf8_ok w (p ++ rest) Bw) as (tw & Tw & Ww).
    rewrite sapp_assoc in L. cbn [append] in L.
    inversion L as [|c0 r0 last0 t0 n0 ts0 T0 L0]; subst.
    change (String c (a' ++ String w (p ++ rest))) with (String c a' ++ String w (p ++ rest)) in *.
    rewrite T' in T0. inversion T0; subst t0 n0. change (S (slen a')) with (slen (String c a')) in L0. rewrite drop_app in L0.
    inversion L0 as [|c1 r1 last1 t1 n1 ts1 T1 L1]; subst.
    rewrite Tw in T1. inversion T1; subst t1 n1. cbn [drop] in L1.
    destruct (IH rest (is_endline tw) ts1 L1) as (tp & l1 & tr & -> & Sp' & Lr).
    exists (t :: tw :: tp), l1, tr. repeat split; [|exact Lr].
    unfold strip in *. cbn [filter]. rewrite Ww. cbn [negb]. destruct (negb (is_ws t)); [f_equal|]; exact Sp'.
Qed.

(* trivia inserted after a solid token that stands behind a spaced prefix *)
Theorem trivia_after_token_behind_spaced_prefix p tp c a' b t x spans :
  Spaced p tp ->
  tok_at false (String c a' ++ b) = LOk t (slen (String c a')) -> solid t = true -> Ascii.eqb c "/" = false -> Trivia x ->
  lex_file (p ++ String c a' ++ b) = SOk spans ->
  exists spans', lex_file (p ++ String c a' ++ x ++ b) = SOk spans' /\ strip (toks spans') = strip (toks spans).
Proof.
  intros Sp T St Cs Tx H. unfold Lexer.lex_file in *.
  destruct (lex_all_sound _ _ _ _ _ _ _ _ _ _ _ _ _ H) as (l & E & L). cbn [rev toks map app] in E.
  destruct (spaced_lexes_inv p tp Sp (String c a' ++ b) true l L) as (tp0 & l1 & tr & -> & S0 & Lr).
  assert (exists tsr, tr = t :: tsr) as (tsr & ->).
  { inversion Lr as [|c0 r0 last0 t1 n0 ts1 T0 L0]; subst. change (String c (a' ++ b)) with (String c a' ++ b) in T0.
    rewrite T in T0. inversion T0; subst. eexists. reflexivity. }
  destruct (trivia_after_solid_token keywords reserved_words symbols int_suffixes float_suffixes float_is_zero utf8_ok c a' b l1 t tsr x T St Cs Tx Lr) as (ts' & L' & S').
  destruct (spaced_lexes p tp Sp (String c a' ++ x ++ b) true l1 (t :: ts') L') as (tp1 & l2 & tr' & Lall & S1 & _ & Sr').
  destruct (lex_all_complete _ _ _ _ _ _ _ _ _ _ Lall (S (slen (p ++ String c a' ++ x ++ b))) 0 [] ltac:(lia)) as (sp & E' & M').
  exists sp. split; [exact E'|]. cbn [rev toks map app] in M'. rewrite M', E.
  unfold strip in *. rewrite !filter_app. rewrite S1, S0, Sr'. cbn [filter]. destruct (negb (is_ws t)); [f_equal; f_equal|f_equal]; exact S'.
Qed.

End Spaced.
