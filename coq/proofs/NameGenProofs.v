(* NameGenProofs.v — the name generator terminates, hands out pairwise distinct non-reserved names within a
   scope, and keeps every name that is unique in its scope and not reserved. *)
From Coq Require Import List NArith Bool String Ascii Arith Lia Permutation DecimalString DecimalN.
From RV Require Import Wire NameGen.
Import ListNotations.
Local Open Scope string_scope.

(* ---------- candidate names are injective in the counter ---------- *)
Lemma show_N_inj a b : show_N a = show_N b -> a = b.
Proof.
  unfold show_N. intros H. apply DecimalN.Unsigned.to_uint_inj.
  assert (Na : N.to_uint a <> Decimal.Nil) by (destruct a; cbn; [discriminate | apply DecimalPos.Unsigned.to_uint_nonnil]).
  assert (Nb : N.to_uint b <> Decimal.Nil) by (destruct b; cbn; [discriminate | apply DecimalPos.Unsigned.to_uint_nonnil]).
  assert (Ha := NilZero.usu _ Na). assert (Hb := NilZero.usu _ Nb). rewrite H in Ha. congruence.
Qed.

Lemma append_inv_head s a b : s ++ a = s ++ b -> a = b.
Proof. induction s as [|c s IH]; cbn; intros H; [exact H|]. inversion H. auto. Qed.

Lemma cand_inj name k k' : cand name k = cand name k' -> k = k'.
Proof. unfold cand. intros H. apply append_inv_head in H. apply append_inv_head in H. apply show_N_inj. exact H. Qed.

Lemma in_str_In x l : in_str x l = true <-> In x l.
Proof.
  unfold in_str. rewrite existsb_exists. split.
  - intros (y & Hy & E). apply String.eqb_eq in E. subst. exact Hy.
  - intros H. exists x. split; [exact H | apply String.eqb_refl].
Qed.

Lemma in_str_false x l : in_str x l = false <-> ~ In x l.
Proof.
  rewrite <- in_str_In. destruct (in_str x l); split; intros H.
  - discriminate.
  - exfalso. apply H. reflexivity.
  - intros H'. discriminate.
  - reflexivity.
Qed.

(* ---------- pigeonhole: among |l|+1 consecutive candidates one is not in l ---------- *)
Lemma nodup_app_intro {A} (a b : list A) :
  NoDup a -> NoDup b -> (forall x, In x a -> ~ In x b) -> NoDup (a ++ b).
Proof.
  induction a as [|x a IH]; intros Ha Hb H; [exact Hb|]. inversion Ha; subst. cbn. constructor.
  - intros Hin. apply in_app_iff in Hin as [Hin|Hin]; [contradiction | apply (H x (or_introl eq_refl) Hin)].
  - apply IH; [assumption | assumption | intros y Hy; apply H; right; exact Hy].
Qed.

Lemma pigeonhole name (l : list string) k0 :
  ~ (forall j, (j <= List.length l)%nat -> In (cand name (k0 + N.of_nat j)) l).
Proof.
  intros H.
  set (cs := map (fun j => cand name (k0 + N.of_nat j)) (seq 0 (S (List.length l)))).
  assert (Hnd : NoDup cs).
  { unfold cs. apply FinFun.Injective_map_NoDup; [|apply seq_NoDup].
    intros a b E. apply cand_inj in E. lia. }
  assert (Hinc : incl cs l).
  { intros c Hc. unfold cs in Hc. apply in_map_iff in Hc as (j & <- & Hj). apply in_seq in Hj. apply H. lia. }
  assert (L := NoDup_incl_length Hnd Hinc). unfold cs in L. rewrite map_length, seq_length in L. lia.
Qed.

Lemma find_free_none free name k fuel :
  find_free free name k fuel = None -> forall j, (j < fuel)%nat -> free (cand name (k + N.of_nat j)) = false.
Proof.
  revert k; induction fuel as [|f IH]; intros k H j Hj; [lia|]. cbn [find_free] in H.
  destruct (free (cand name k)) eqn:F; [discriminate|].
  destruct j as [|j]; [rewrite N.add_0_r; exact F|].
  specialize (IH (k + 1)%N H j ltac:(lia)). replace (k + N.of_nat (S j))%N with (k + 1 + N.of_nat j)%N by lia. exact IH.
Qed.

Lemma find_free_some free name k fuel c :
  find_free free name k fuel = Some c -> free c = true /\ exists j, c = cand name j.
Proof.
  revert k; induction fuel as [|f IH]; intros k H; [discriminate|]. cbn [find_free] in H.
  destruct (free (cand name k)) eqn:F; [inversion H; subst; eauto | eapply IH; exact H].
Qed.

(* the search always succeeds when `free` means "not in l" and the fuel exceeds |l| *)
Lemma find_free_total name (l : list string) k fuel :
  (List.length l < fuel)%nat -> find_free (fun c => negb (in_str c l)) name k fuel <> None.
Proof.
  intros Hf H. apply (pigeonhole name l k). intros j Hj.
  assert (X := find_free_none _ _ _ _ H j ltac:(lia)). cbn in X. apply negb_false_iff in X. apply in_str_In. exact X.
Qed.

Lemma find_free_ext f g name k fuel : (forall c, f c = g c) -> find_free f name k fuel = find_free g name k fuel.
Proof.
  intros E. revert k; induction fuel as [|fu IH]; intros k; cbn [find_free]; [reflexivity|].
  rewrite E. destruct (g (cand name k)); [reflexivity | apply IH].
Qed.

Section Scope.
Variable reserved : list string.

Notation is_kept := (is_kept reserved).
Notation kept_names := (kept_names reserved).
Notation gen_syms := (gen_syms).
Notation gen_entries := (gen_entries reserved).
Notation assign_scope := (assign_scope reserved).
Notation kept_assignments := (kept_assignments reserved).

(* ---------- generated names: fresh with respect to everything used before ---------- *)
Lemma gen_syms_spec name syms : forall used out used' out',
  gen_syms name syms used out = Some (used', out') ->
  exists news, out' = (news ++ out)%list /\ used' = (map snd news ++ used)%list /\
               NoDup (map snd news) /\ (forall n, In n (map snd news) -> ~ In n used) /\
               map fst (rev news) = syms.
Proof.
  induction syms as [|s r IH]; intros used out used' out' H; cbn [NameGen.gen_syms] in H.
  - inversion H; subst. exists []. cbn. repeat split; [constructor | intros n []].
  - destruct (find_free _ name 0 (S (List.length used))) as [c|] eqn:F; [|discriminate].
    apply find_free_some in F as [Fc _]. apply negb_true_iff, in_str_false in Fc.
    apply IH in H as (news & -> & -> & Hnd & Hfresh & Hfst).
    exists (news ++ [(s, c)])%list. rewrite !map_app. cbn [map snd fst]. rewrite <- !app_assoc. cbn [app].
    repeat split.
    + apply Permutation_NoDup with (l := (c :: map snd news)); [apply Permutation_cons_append|].
      constructor; [|exact Hnd]. intros Hin. apply (Hfresh c Hin). left. reflexivity.
    + intros n Hn Hu. apply in_app_iff in Hn as [Hn|[<-|[]]].
      * apply (Hfresh n Hn). right. exact Hu.
      * contradiction.
    + rewrite rev_app_distr. cbn [rev app map fst]. f_equal. exact Hfst.
Qed.

Lemma gen_syms_total name syms : forall used out, gen_syms name syms used out <> None.
Proof.
  induction syms as [|s r IH]; intros used out; cbn [NameGen.gen_syms]; [discriminate|].
  destruct (find_free _ name 0 (S (List.length used))) as [c|] eqn:F; [apply IH|].
  exfalso. eapply find_free_total; [|exact F]. lia.
Qed.

Lemma gen_entries_spec es : forall used out used' out',
  gen_entries es used out = Some (used', out') ->
  exists news, out' = (news ++ out)%list /\ used' = (map snd news ++ used)%list /\
               NoDup (map snd news) /\ (forall n, In n (map snd news) -> ~ In n used) /\
               (forall e s, In e es -> is_kept e = false -> In s (e_syms e) -> In s (map fst news)).
Proof.
  induction es as [|e r IH]; intros used out used' out' H; cbn [NameGen.gen_entries] in H.
  - inversion H; subst. exists []. cbn. repeat split; [constructor | intros n [] | intros e s []].
  - destruct (is_kept e) eqn:K.
    + apply IH in H as (news & -> & -> & Hnd & Hfresh & Hcov). exists news. repeat split; try assumption.
      intros e' s [<-|He'] Hk Hs; [congruence | eapply Hcov; eassumption].
    + destruct (gen_syms (e_name e) (e_syms e) used out) as [[u1 o1]|] eqn:G; [|discriminate].
      apply gen_syms_spec in G as (n1 & -> & -> & Hnd1 & Hf1 & Hs1).
      apply IH in H as (n2 & -> & -> & Hnd2 & Hf2 & Hcov).
      exists (n2 ++ n1)%list. rewrite !map_app, <- !app_assoc. repeat split.
      * apply nodup_app_intro; [exact Hnd2 | exact Hnd1|].
        intros x Hx Hin. apply (Hf2 x Hx). apply in_app_iff. left. exact Hin.
      * intros n Hn Hu. apply in_app_iff in Hn as [Hn|Hn].
        -- apply (Hf2 n Hn). apply in_app_iff. right. exact Hu.
        -- apply (Hf1 n Hn Hu).
      * intros e' s [<-|He'] Hk Hs.
        -- apply in_app_iff. right. rewrite <- Hs1 in Hs. rewrite map_rev in Hs. apply in_rev in Hs. exact Hs.
        -- apply in_app_iff. left. eapply Hcov; eassumption.
Qed.

Lemma gen_entries_total es : forall used out, gen_entries es used out <> None.
Proof.
  induction es as [|e r IH]; intros used out; cbn [NameGen.gen_entries]; [discriminate|].
  destruct (is_kept e); [apply IH|].
  destruct (gen_syms (e_name e) (e_syms e) used out) as [[u o]|] eqn:G; [apply IH | exfalso; eapply gen_syms_total; exact G].
Qed.

(* ---------- sorting is a permutation ---------- *)
Lemma insert_entry_perm e l : Permutation (insert_entry e l) (e :: l).
Proof.
  induction l as [|x r IH]; cbn [insert_entry]; [reflexivity|].
  destruct (String.leb (e_name e) (e_name x)); [reflexivity|]. rewrite IH. apply perm_swap.
Qed.
Lemma sort_entries_perm l : Permutation (sort_entries l) l.
Proof.
  induction l as [|x r IH]; cbn [sort_entries fold_right]; [reflexivity|].
  fold (sort_entries r). rewrite insert_entry_perm. constructor. exact IH.
Qed.

(* ---------- kept names ---------- *)
Lemma kept_assignments_names es : map snd (kept_assignments es) = kept_names es.
Proof.
  unfold NameGen.kept_assignments, NameGen.kept_names. induction es as [|e r IH]; [reflexivity|].
  cbn [flat_map filter]. destruct (is_kept e) eqn:K; [|exact IH].
  unfold NameGen.is_kept in K. destruct (e_syms e) as [|s [|s2 t]]; try discriminate.
  cbn [map app snd]. f_equal. exact IH.
Qed.

Lemma kept_names_nodup es : NoDup (map e_name es) -> NoDup (kept_names es).
Proof.
  unfold NameGen.kept_names. induction es as [|e r IH]; intros H; [constructor|].
  cbn [map] in H. inversion H as [|? ? Hnot Hnd]; subst. cbn [filter]. destruct (is_kept e); [|apply IH; exact Hnd].
  cbn [map]. constructor; [|apply IH; exact Hnd].
  intros Hin. apply Hnot. apply in_map_iff in Hin as (x & E & Hx). apply filter_In in Hx as [Hx _].
  rewrite <- E. apply in_map. exact Hx.
Qed.

Lemma kept_not_reserved es n : In n (kept_names es) -> ~ In n reserved.
Proof.
  unfold NameGen.kept_names. intros H. apply in_map_iff in H as (e & <- & He). apply filter_In in He as [_ K].
  unfold NameGen.is_kept in K. destruct (e_syms e) as [|s [|]]; try discriminate.
  apply negb_true_iff, in_str_false in K. exact K.
Qed.

(* ---------- the scope theorems ---------- *)
Theorem assign_scope_total es : assign_scope es <> None.
Proof.
  unfold NameGen.assign_scope.
  destruct (gen_entries (sort_entries es) (kept_names es ++ reserved) []) as [[u g]|] eqn:G; [discriminate|].
  exfalso. eapply gen_entries_total; exact G.
Qed.

Theorem assign_scope_spec es K G :
  NoDup (map e_name es) -> assign_scope es = Some (K, G) ->
  (* pairwise distinct names *)
  NoDup (map snd (K ++ G)) /\
  (* never a reserved name *)
  (forall n, In n (map snd (K ++ G)) -> ~ In n reserved) /\
  (* a name that is unique in its scope and not reserved is kept verbatim *)
  (forall e s, In e es -> e_syms e = [s] -> ~ In (e_name e) reserved -> In (s, e_name e) K) /\
  (* every symbol receives a name *)
  (forall e s, In e es -> In s (e_syms e) -> In s (map fst (K ++ G))).
Proof.
  intros Hnd H. unfold NameGen.assign_scope in H.
  destruct (gen_entries (sort_entries es) (kept_names es ++ reserved) []) as [[u g]|] eqn:E; [|discriminate].
  inversion H; subst; clear H.
  apply gen_entries_spec in E as (news & -> & _ & Hnd2 & Hfresh & Hcov). rewrite app_nil_r in *.
  assert (Hk := kept_assignments_names es).
  repeat split.
  - rewrite map_app, Hk, map_rev. apply nodup_app_intro.
    + apply kept_names_nodup. exact Hnd.
    + apply NoDup_rev. exact Hnd2.
    + intros x Hx Hin. apply in_rev in Hin. apply (Hfresh x Hin). apply in_app_iff. left. exact Hx.
  - intros n Hn. rewrite map_app, Hk, map_rev in Hn. apply in_app_iff in Hn as [Hn|Hn].
    + eapply kept_not_reserved; exact Hn.
    + apply in_rev in Hn. intros Hr. apply (Hfresh n Hn). apply in_app_iff. right. exact Hr.
  - intros e s He Hs Hr. unfold NameGen.kept_assignments. apply in_flat_map. exists e. split; [exact He|].
    assert (K : is_kept e = true).
    { unfold NameGen.is_kept. rewrite Hs. apply negb_true_iff, in_str_false. exact Hr. }
    rewrite K, Hs. left. reflexivity.
  - intros e s He Hs. rewrite map_app. apply in_app_iff. destruct (is_kept e) eqn:K.
    + left. unfold NameGen.kept_assignments. rewrite map_flat_map || idtac.
      apply in_map_iff. exists (s, e_name e). split; [reflexivity|].
      apply in_flat_map. exists e. split; [exact He|]. rewrite K. apply in_map_iff. exists s. split; [reflexivity | exact Hs].
    + right. rewrite map_rev. apply -> in_rev. eapply Hcov; [|exact K | exact Hs].
      apply (Permutation_in _ (Permutation_sym (sort_entries_perm es))). exact He.
Qed.

(* ---------- local variables ---------- *)
Lemma free2_eq (a b : list string) c :
  (negb (in_str c a) && negb (in_str c b))%bool = negb (in_str c (a ++ b)).
Proof. unfold in_str. rewrite existsb_app, negb_orb. reflexivity. Qed.

Lemma assign_locals_total locals : forall all used out, assign_locals locals all used out <> None.
Proof.
  induction locals as [|[id name] r IH]; intros all used out; cbn [NameGen.assign_locals]; [discriminate|].
  destruct (in_str name used); [|apply IH].
  destruct (find_free _ name 0 _) as [c|] eqn:F; [apply IH|].
  exfalso. rewrite (find_free_ext _ (fun c => negb (in_str c (all ++ used)))) in F by (intros; apply free2_eq).
  eapply find_free_total; [|exact F]. rewrite app_length. lia.
Qed.

(* a local never ends up with a reserved name or with a name generated for a global symbol *)
Lemma assign_locals_spec locals : forall all used out res,
  assign_locals locals all used out = Some res ->
  forall id n, In (id, n) res -> In (id, n) out \/ ~ In n used.
Proof.
  induction locals as [|[id0 name] r IH]; intros all used out res H id n Hin; cbn [NameGen.assign_locals] in H.
  - inversion H; subst. left. apply in_rev. exact Hin.
  - destruct (in_str name used) eqn:U.
    + destruct (find_free _ name 0 _) as [c|] eqn:F; [|discriminate].
      apply find_free_some in F as [Fc _]. apply andb_true_iff in Fc as [_ Fc]. apply negb_true_iff, in_str_false in Fc.
      destruct (IH _ _ _ _ H id n Hin) as [[E|Ho]|Hn].
      * inversion E; subst. right. exact Fc.
      * left. exact Ho.
      * right. intros Hu. apply Hn. right. exact Hu.
    + apply in_str_false in U. destruct (IH _ _ _ _ H id n Hin) as [[E|Ho]|Hn].
      * inversion E; subst. right. exact U.
      * left. exact Ho.
      * right. exact Hn.
Qed.

Theorem build_total scopes locals : build reserved scopes locals <> None.
Proof.
  unfold NameGen.build.
  assert (G : assign_scopes reserved scopes <> None).
  { induction scopes as [|es r IH]; cbn [NameGen.assign_scopes]; [discriminate|].
    destruct (assign_scope es) as [[k g]|] eqn:A; [|exfalso; eapply assign_scope_total; exact A].
    destruct (assign_scopes reserved r) as [[rest gens]|]; [discriminate | congruence]. }
  destruct (assign_scopes reserved scopes) as [[globals gens]|]; [|congruence].
  destruct (assign_locals _ _ _ _) eqn:L; [discriminate|]. exfalso. eapply assign_locals_total; exact L.
Qed.

End Scope.
