(* MacroSubst.v — invoking an object-like macro yields its replacement list: in a token list whose other tokens name
   no macro and hold no `##`, the (single) use of an object-like macro with such a replacement list is replaced by
   that list, and nothing else changes.  Generic in the paste function and in the rest of the macro table. *)
From Coq Require Import List NArith Bool String Arith Lia.
From RV Require Import Macro MacroProofs.
Import ListNotations.
Local Open Scope list_scope.

Section Subst.
Variable paste : mtok -> mtok -> option mtok.
Variable defs : list macro.

Definition is_name (x : string) : bool := existsb (fun m => String.eqb x (m_name m)) defs.

(* a token that cannot start or take part in an expansion *)
Definition plainb (t : mtok) : bool :=
  match t with MId x => negb (is_name x) | MConcat => false | MArg _ => false | _ => true end.
Definition plain (l : list mtok) : Prop := forallb plainb l = true.

Lemma plain_app a b : plain a -> plain b -> plain (a ++ b).
Proof. unfold plain. intros Ha Hb. rewrite forallb_app, Ha, Hb. reflexivity. Qed.

Lemma pick_none dis x after i next lastfn :
  forall ds mi0, existsb (fun m => String.eqb x (m_name m)) ds = false ->
  pick_macro ds dis mi0 x after i next lastfn = None.
Proof.
  induction ds as [|m r IH]; intros mi0 H; cbn [pick_macro]; [reflexivity|].
  cbn [existsb] in H. apply orb_false_elim in H as [Hm Hr]. rewrite Hm, (IH (S mi0) Hr).
  destruct (nth mi0 dis false); [reflexivity|]. destruct (_ && _); reflexivity.
Qed.

Lemma find_from_plain dis next lastfn : forall l before i,
  plain l -> find_from defs dis before l i next lastfn = FNone.
Proof.
  induction l as [|t r IH]; intros before i H; cbn [find_from]; [reflexivity|].
  unfold plain in H. cbn [forallb] in H. apply andb_prop in H as [Ht Hr].
  destruct t; try discriminate Ht; try (apply IH; exact Hr).
  cbn [plainb] in Ht. rewrite (pick_none dis s r i next lastfn defs 0); [apply IH; exact Hr|].
  unfold is_name in Ht. destruct (existsb _ defs); [discriminate | reflexivity].
Qed.

Lemma find_from_skip dis next lastfn : forall pre l before i,
  plain pre ->
  find_from defs dis before (pre ++ l) i next lastfn = find_from defs dis (rev pre ++ before) l (i + List.length pre) next lastfn.
Proof.
  induction pre as [|t r IH]; intros l before i H; cbn [app rev List.length].
  - rewrite Nat.add_0_r. reflexivity.
  - unfold plain in H. cbn [forallb] in H. apply andb_prop in H as [Ht Hr].
    replace (i + S (List.length r)) with (S i + List.length r) by lia.
    rewrite <- app_assoc. cbn [app].
    destruct t; try discriminate Ht; cbn [find_from]; try (apply IH; exact Hr).
    cbn [plainb] in Ht. rewrite (pick_none dis s (r ++ l) i next lastfn defs 0); [apply IH; exact Hr|].
    unfold is_name in Ht. destruct (existsb _ defs); [discriminate | reflexivity].
Qed.

Lemma nth_all_false {A} (l : list A) i : nth i (map (fun _ => false) l) false = false.
Proof. revert i; induction l as [|x r IH]; intros [|i]; cbn; try reflexivity. apply IH. Qed.

(* the first macro of that name, object-like, is the one picked *)
Lemma pick_first x after i : forall ds mi0 k m,
  nth_error ds k = Some m -> m_name m = x -> m_fn m = false ->
  (forall j m', j < k -> nth_error ds j = Some m' -> String.eqb x (m_name m') = false) ->
  pick_macro ds (map (fun _ => false) defs) mi0 x after i 0 None = Some (mi0 + k).
Proof.
  induction ds as [|m0 r IH]; intros mi0 k m Hn Hx Hf Hfirst; [destruct k; discriminate|].
  cbn [pick_macro]. rewrite nth_all_false. cbn [andb].
  destruct k as [|k].
  - cbn in Hn. inversion Hn; subst m0. rewrite Hx, String.eqb_refl, Hf. cbn. rewrite Nat.add_0_r. reflexivity.
  - rewrite (Hfirst 0 m0 ltac:(lia) eq_refl).
    replace (mi0 + S k) with (S mi0 + k) by lia.
    apply (IH (S mi0) k m Hn Hx Hf). intros j m' Hj Hn'. apply (Hfirst (S j) m'); [lia | exact Hn'].
Qed.

Lemma subst_plain body : plain body -> forall args, subst body args = body.
Proof.
  induction body as [|t r IH]; intros H args; [reflexivity|].
  unfold plain in H. cbn [forallb] in H. apply andb_prop in H as [Ht Hr].
  destruct t; try discriminate Ht; cbn [subst]; rewrite (IH Hr); reflexivity.
Qed.

(* a plain list is left as it is, whatever is disabled and wherever the scan starts *)
Lemma expand_plain d dis n toks next early lastfn :
  plain toks -> early <= List.length toks ->
  expand paste defs (S d) dis (S n) toks next early lastfn = XOk toks.
Proof.
  intros H He. rewrite expand_eq. unfold loop_step.
  destruct (Nat.leb (List.length toks) next); [reflexivity|].
  unfold find. rewrite find_from_plain; [reflexivity|].
  unfold plain in *. rewrite <- (firstn_skipn early toks), forallb_app in H. apply andb_prop in H as [_ H]. exact H.
Qed.

Theorem plain_text_unchanged toks : plain toks -> apply_macros paste defs toks = XOk toks.
Proof. intros H. unfold apply_macros. apply expand_plain; [exact H | lia]. Qed.

Theorem object_macro_is_replaced mi m pre post :
  nth_error defs mi = Some m -> m_fn m = false ->
  (forall j m', j < mi -> nth_error defs j = Some m' -> String.eqb (m_name m) (m_name m') = false) ->
  plain pre -> plain post -> plain (m_body m) ->
  apply_macros paste defs (pre ++ MId (m_name m) :: post) = XOk (pre ++ m_body m ++ post).
Proof.
  intros Hn Hf Hfirst Hpre Hpost Hbody.
  unfold apply_macros.
  set (toks := pre ++ MId (m_name m) :: post).
  assert (Hlen : List.length toks = List.length pre + S (List.length post))
    by (unfold toks; rewrite app_length; reflexivity).
  rewrite expand_eq. unfold loop_step.
  destruct (Nat.leb_spec (List.length toks) 0) as [Hz|_]; [lia|].
  unfold find. change (firstn 0 toks) with (@nil mtok). change (skipn 0 toks) with toks. cbn [rev]. unfold toks at 1.
  rewrite find_from_skip by exact Hpre. cbn [find_from Nat.add].
  rewrite (pick_first (m_name m) post (List.length pre) defs 0 mi m Hn eq_refl Hf Hfirst). cbn [Nat.add].
  rewrite Hn, Hf. cbn [map all_ok rev].
  rewrite (subst_plain _ Hbody).
  destruct (List.length defs) as [|nd] eqn:Hnd.
  { destruct defs; [destruct mi; discriminate | discriminate]. }
  rewrite (expand_plain nd _ (List.length (m_body m)) (m_body m) 0 0 None Hbody ltac:(lia)).
  assert (Hfn : firstn (List.length pre) toks = pre) by (unfold toks; apply firstn_app_length_eq).
  assert (Hsk : skipn (S (List.length pre)) toks = post).
  { unfold toks. replace (S (List.length pre)) with (List.length (pre ++ [MId (m_name m)])) by (rewrite app_length; cbn; lia).
    replace (pre ++ MId (m_name m) :: post) with ((pre ++ [MId (m_name m)]) ++ post) by (rewrite <- app_assoc; reflexivity).
    apply skipn_app_length_eq. }
  rewrite Hfn, Hsk.
  destruct (List.length toks) as [|nt] eqn:Hnt; [lia|].
  apply expand_plain.
  - apply plain_app; [exact Hpre | apply plain_app; [exact Hbody | exact Hpost]].
  - rewrite app_length. lia.
Qed.

(* ---------- function-like macros: arguments with balanced parentheses, commas only inside them ---------- *)
(* the parenthesis depth after the tokens of an argument; None where a `,` or `)` of the call itself would be met *)
Fixpoint depth_after (d : nat) (a : list mtok) : option nat :=
  match a with
  | [] => Some d
  | MLP :: r => depth_after (S d) r
  | MRP :: r => match d with O => None | S d' => depth_after d' r end
  | MComma :: r => if Nat.eqb d 0 then None else depth_after d r
  | _ :: r => depth_after d r
  end.
Definition simple (a : list mtok) : Prop := plain a /\ depth_after 0 a = Some 0.

Lemma simple_plain l : simple l -> plain l.
Proof. intros [H _]. exact H. Qed.

(* the text between the parentheses *)
Fixpoint commas (args : list (list mtok)) : list mtok :=
  match args with
  | [] => []
  | [a] => a
  | a :: r => a ++ MComma :: commas r
  end.

Lemma split_go_depth : forall a d d' rest cur acc, depth_after d a = Some d' ->
  split_args_go (a ++ rest) cur d acc = split_args_go rest (rev a ++ cur) d' acc.
Proof.
  induction a as [|t r IH]; intros d d' rest cur acc H; cbn [depth_after] in H.
  - inversion H. reflexivity.
  - cbn [app rev]. rewrite <- app_assoc. cbn [app].
    destruct t; cbn [split_args_go]; try (apply IH; exact H).
    + destruct d as [|d0]; [discriminate|]. apply IH; exact H.
    + destruct (Nat.eqb d 0); [discriminate|]. apply IH; exact H.
Qed.

Lemma split_go_simple a rest cur acc : simple a ->
  split_args_go (a ++ rest) cur 0 acc = split_args_go rest (rev a ++ cur) 0 acc.
Proof. intros [_ H]. apply split_go_depth. exact H. Qed.

Lemma split_go_commas : forall args post acc, args <> [] -> Forall simple args ->
  split_args_go (commas args ++ MRP :: post) [] 0 acc = Some (post, rev acc ++ map trim args).
Proof.
  induction args as [|a r IH]; intros post acc Hne Hs; [congruence|].
  inversion Hs as [|? ? Ha Hr]; subst.
  destruct r as [|b r'].
  - cbn [commas map]. rewrite (split_go_simple a (MRP :: post) [] acc Ha). cbn [split_args_go].
    rewrite app_nil_r, rev_involutive. cbn [rev]. reflexivity.
  - change (commas (a :: b :: r')) with (a ++ MComma :: commas (b :: r')).
    rewrite <- app_assoc. cbn [app].
    rewrite (split_go_simple a _ [] acc Ha). cbn [split_args_go Nat.eqb].
    rewrite app_nil_r, rev_involutive.
    rewrite (IH post (trim a :: acc) ltac:(discriminate) Hr).
    cbn [rev map]. rewrite <- app_assoc. reflexivity.
Qed.

Definition bodyb (t : mtok) : bool := match t with MArg _ => true | _ => plainb t end.

Lemma plain_nil : plain [].
Proof. reflexivity. Qed.

Lemma subst_is_plain body args : forallb bodyb body = true -> Forall plain args -> plain (subst body args).
Proof.
  intros Hb Ha. induction body as [|t r IH]; [reflexivity|].
  cbn [forallb] in Hb. apply andb_prop in Hb as [Ht Hr]. specialize (IH Hr).
  destruct t; cbn [subst]; try (unfold plain in *; cbn [forallb]; rewrite IH, andb_true_r; exact Ht).
  apply plain_app; [|exact IH].
  clear Ht IH. revert i. induction Ha as [|a l Hp Hl IHl]; intros [|i]; cbn [nth]; try apply plain_nil; [exact Hp | apply IHl].
Qed.

Lemma plain_suffix a b : plain (a ++ b) -> plain b.
Proof. unfold plain. rewrite forallb_app. intros H. apply andb_prop in H as [_ H]. exact H. Qed.
Lemma plain_rev a : plain a -> plain (rev a).
Proof.
  unfold plain. intros H. rewrite forallb_forall in *. intros x Hx. apply H. apply in_rev. exact Hx.
Qed.
Lemma plain_trim_start a : plain a -> plain (trim_start a).
Proof. intros H. destruct (trim_start_spec a) as [p Hp]. rewrite Hp in H. apply (plain_suffix p). exact H. Qed.
Lemma plain_trim a : plain a -> plain (trim a).
Proof. intros H. unfold trim, trim_end. apply plain_rev, plain_trim_start, plain_rev, plain_trim_start, H. Qed.

Lemma all_ok_oks l : forall acc, all_ok (map XOk l) acc = inr (rev acc ++ l).
Proof.
  induction l as [|a r IH]; intros acc; cbn [map all_ok]; [rewrite app_nil_r; reflexivity|].
  rewrite IH. cbn [rev]. rewrite <- app_assoc. reflexivity.
Qed.

Lemma pick_first_fn x post i : forall ds mi0 k m,
  nth_error ds k = Some m -> m_name m = x -> m_fn m = true ->
  (forall j m', j < k -> nth_error ds j = Some m' -> String.eqb x (m_name m') = false) ->
  pick_macro ds (map (fun _ => false) defs) mi0 x (MLP :: post) i 0 None = Some (mi0 + k).
Proof.
  induction ds as [|m0 r IH]; intros mi0 k m Hn Hx Hf Hfirst; [destruct k; discriminate|].
  cbn [pick_macro]. rewrite nth_all_false. cbn [andb].
  destruct k as [|k].
  - cbn in Hn. inversion Hn; subst m0. rewrite Hx, String.eqb_refl, Hf.
    cbn [first_non_ws_inline is_ws]. rewrite Nat.sub_diag. cbn. rewrite Nat.add_0_r. reflexivity.
  - rewrite (Hfirst 0 m0 ltac:(lia) eq_refl).
    replace (mi0 + S k) with (S mi0 + k) by lia.
    apply (IH (S mi0) k m Hn Hx Hf). intros j m' Hj Hn'. apply (Hfirst (S j) m'); [lia | exact Hn'].
Qed.

Theorem function_macro_is_substituted mi m pre args post :
  nth_error defs mi = Some m -> m_fn m = true ->
  (forall j m', j < mi -> nth_error defs j = Some m' -> String.eqb (m_name m) (m_name m') = false) ->
  args <> [] -> List.length args = m_params m -> Forall simple args ->
  plain pre -> plain post -> forallb bodyb (m_body m) = true ->
  apply_macros paste defs (pre ++ MId (m_name m) :: MLP :: commas args ++ MRP :: post) =
  XOk (pre ++ subst (m_body m) (map trim args) ++ post).
Proof.
  intros Hn Hf Hfirst Hne Hlen Hs Hpre Hpost Hbody.
  unfold apply_macros.
  set (call := MLP :: commas args ++ MRP :: post).
  set (toks := pre ++ MId (m_name m) :: call).
  assert (Hl : List.length toks = List.length pre + S (List.length call))
    by (unfold toks; rewrite app_length; reflexivity).
  rewrite expand_eq. unfold loop_step.
  destruct (Nat.leb_spec (List.length toks) 0) as [Hz|_]; [lia|].
  unfold find. change (firstn 0 toks) with (@nil mtok). change (skipn 0 toks) with toks. cbn [rev]. unfold toks at 1.
  rewrite find_from_skip by exact Hpre. cbn [find_from Nat.add]. unfold call at 1.
  rewrite (pick_first_fn (m_name m) _ (List.length pre) defs 0 mi m Hn eq_refl Hf Hfirst). cbn [Nat.add].
  rewrite Hn, Hf.
  assert (Hsk : skipn (S (List.length pre)) toks = call).
  { unfold toks. replace (S (List.length pre)) with (List.length (pre ++ [MId (m_name m)])) by (rewrite app_length; cbn; lia).
    replace (pre ++ MId (m_name m) :: call) with ((pre ++ [MId (m_name m)]) ++ call) by (rewrite <- app_assoc; reflexivity).
    apply skipn_app_length_eq. }
  assert (Hfn : firstn (List.length pre) toks = pre) by (unfold toks; apply firstn_app_length_eq).
  rewrite Hsk, Hfn. unfold call at 1. unfold split_args. cbn [trim_start_all is_ws].
  rewrite (split_go_commas args post [] Hne Hs). cbn [rev app].
  assert (Hp0 : Nat.eqb (m_params m) 0 = false).
  { apply Nat.eqb_neq. rewrite <- Hlen. destruct args; [congruence | cbn; lia]. }
  rewrite Hp0, map_length, Hlen, Nat.eqb_refl.
  destruct (List.length defs) as [|nd] eqn:Hnd.
  { destruct defs; [destruct mi; discriminate | discriminate]. }
  destruct (List.length toks) as [|nt] eqn:Hnt; [lia|].
  assert (Hargs : map (fun a => expand paste defs (S (S nd)) (map (fun _ => false) defs) (S nt) a 0 0 None) (map trim args)
                  = map XOk (map trim args)).
  { apply map_ext_in. intros a Ha. apply expand_plain; [|lia].
    apply in_map_iff in Ha as (a0 & <- & Ha0). apply plain_trim, simple_plain.
    rewrite Forall_forall in Hs. apply Hs, Ha0. }
  rewrite Hargs, all_ok_oks. cbn [rev app].
  assert (Hsub : plain (subst (m_body m) (map trim args))).
  { apply subst_is_plain; [exact Hbody|]. rewrite Forall_forall. intros a Ha.
    apply in_map_iff in Ha as (a0 & <- & Ha0). apply plain_trim, simple_plain.
    rewrite Forall_forall in Hs. apply Hs, Ha0. }
  rewrite (expand_plain nd _ _ _ 0 0 None Hsub ltac:(lia)).
  apply expand_plain.
  - apply plain_app; [exact Hpre | apply plain_app; [exact Hsub | exact Hpost]].
  - rewrite app_length. lia.
Qed.

End Subst.
