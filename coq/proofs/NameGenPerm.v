(* NameGenPerm.v — NameMap::build walks two hash maps (the scopes, and the names of one scope): the names it assigns
   do not depend on the order of either walk. *)
From Coq Require Import List NArith Bool String Ascii Lia Arith Permutation Sorting.Sorted.
From RV Require Import Wire NameGen NameGenProofs Perm PermProofs.
Import ListNotations.
Local Open Scope list_scope.

(* ---------- String.leb is a total order ---------- *)
Lemma ascii_compare_N a b : Ascii.compare a b = N.compare (N_of_ascii a) (N_of_ascii b).
Proof. reflexivity. Qed.

Lemma string_compare_trans_lt : forall a b c, String.compare a b = Lt -> String.compare b c = Lt -> String.compare a c = Lt.
Proof.
  induction a as [|x a IH]; intros [|y b] [|z c]; cbn [String.compare]; try discriminate; try reflexivity.
  rewrite !ascii_compare_N.
  destruct (N.compare_spec (N_of_ascii x) (N_of_ascii y)) as [E1|L1|G1]; try discriminate;
  destruct (N.compare_spec (N_of_ascii y) (N_of_ascii z)) as [E2|L2|G2]; try discriminate; intros H1 H2.
  - rewrite E1, E2, N.compare_refl. apply (IH b c); assumption.
  - rewrite E1. apply N.compare_lt_iff in L2. rewrite (proj2 (N.compare_lt_iff _ _) L2). reflexivity.
  - rewrite <- E2. rewrite (proj2 (N.compare_lt_iff _ _) L1). reflexivity.
  - assert (L : (N_of_ascii x < N_of_ascii z)%N) by lia. rewrite (proj2 (N.compare_lt_iff _ _) L). reflexivity.
Qed.

Lemma string_compare_refl c : String.compare c c = Eq.
Proof. induction c as [|x c IH]; cbn [String.compare]; [reflexivity|]. rewrite ascii_compare_N, N.compare_refl. exact IH. Qed.

Lemma string_leb_trans a b c : String.leb a b = true -> String.leb b c = true -> String.leb a c = true.
Proof.
  unfold String.leb.
  destruct (String.compare a b) eqn:E1; try discriminate; destruct (String.compare b c) eqn:E2; try discriminate; intros _ _.
  - apply String.compare_eq_iff in E1, E2. subst.
    rewrite string_compare_refl. reflexivity.
  - apply String.compare_eq_iff in E1. subst. rewrite E2. reflexivity.
  - apply String.compare_eq_iff in E2. subst. rewrite E1. reflexivity.
  - rewrite (string_compare_trans_lt a b c E1 E2). reflexivity.
Qed.

Definition entry_leb (a b : entry) : bool := String.leb (e_name a) (e_name b).

Lemma sort_entries_isort l : sort_entries l = isort entry_leb l.
Proof.
  unfold sort_entries, isort. induction l as [|x r IH]; [reflexivity|]. cbn [fold_right]. rewrite IH.
  generalize (fold_right (insert entry_leb) [] r). intros m. induction m as [|y m IHm]; [reflexivity|].
  cbn [insert_entry insert]. unfold entry_leb at 1. destruct (String.leb (e_name x) (e_name y)); [reflexivity|]. rewrite IHm. reflexivity.
Qed.

Lemma name_injective_on (l : list entry) x y : NoDup (map e_name l) -> In x l -> In y l -> e_name x = e_name y -> x = y.
Proof.
  induction l as [|a r IH]; intros Hnd Hx Hy Hk; [destruct Hx|].
  cbn [map] in Hnd. inversion Hnd as [|? ? Hnotin Hnd']; subst.
  destruct Hx as [->|Hx], Hy as [->|Hy]; try reflexivity.
  - exfalso. apply Hnotin. rewrite Hk. apply in_map, Hy.
  - exfalso. apply Hnotin. rewrite <- Hk. apply in_map, Hx.
  - apply IH; assumption.
Qed.

(* the names of one scope are keys of a hash map, hence distinct: sorting removes the order of the walk *)
Theorem sort_entries_order_irrelevant es es' :
  NoDup (map e_name es) -> Permutation es es' -> sort_entries es = sort_entries es'.
Proof.
  intros Hnd Hp. rewrite !sort_entries_isort. apply sort_order_irrelevant; try assumption.
  - intros x y. apply String.leb_total.
  - intros x y z. apply string_leb_trans.
  - intros x y Hx Hy H1 H2. apply (name_injective_on es); try assumption.
    apply String.leb_antisym; assumption.
Qed.

(* ---------- used-name sets: only membership and size matter ---------- *)
Definition equiv (u u' : list string) : Prop := List.length u = List.length u' /\ forall c, in_str c u = in_str c u'.

Lemma equiv_cons c u u' : equiv u u' -> equiv (c :: u) (c :: u').
Proof. intros [H1 H2]. split; [cbn; lia|]. intros d. unfold in_str in *. cbn [existsb]. rewrite H2. reflexivity. Qed.

Lemma in_str_perm c u u' : Permutation u u' -> in_str c u = in_str c u'.
Proof.
  intros Hp. destruct (in_str c u) eqn:E, (in_str c u') eqn:E'; try reflexivity.
  - apply in_str_In in E. apply (Permutation_in _ Hp) in E. apply in_str_In in E. congruence.
  - apply in_str_In in E'. apply (Permutation_in _ (Permutation_sym Hp)) in E'. apply in_str_In in E'. congruence.
Qed.

Lemma equiv_perm u u' : Permutation u u' -> equiv u u'.
Proof. intros Hp. split; [apply Permutation_length, Hp | intros c; apply in_str_perm, Hp]. Qed.

Section Scope.
Variable reserved : list string.

Lemma gen_syms_equiv name syms : forall u u' out u1 out1,
  equiv u u' -> gen_syms name syms u out = Some (u1, out1) ->
  exists u1', gen_syms name syms u' out = Some (u1', out1) /\ equiv u1 u1'.
Proof.
  induction syms as [|s r IH]; intros u u' out u1 out1 He H; cbn [gen_syms] in *.
  - inversion H; subst. exists u'. split; [reflexivity | exact He].
  - destruct He as [Hl Hm].
    rewrite <- Hl. rewrite <- (find_free_ext (fun c => negb (in_str c u)) (fun c => negb (in_str c u')))
      by (intros c; rewrite Hm; reflexivity).
    destruct (find_free _ name 0%N (S (List.length u))) as [c|]; [|discriminate].
    apply (IH (c :: u) (c :: u') _ _ _ (equiv_cons c u u' (conj Hl Hm)) H).
Qed.

Lemma gen_entries_equiv es : forall u u' out u1 out1,
  equiv u u' -> gen_entries reserved es u out = Some (u1, out1) ->
  exists u1', gen_entries reserved es u' out = Some (u1', out1) /\ equiv u1 u1'.
Proof.
  induction es as [|e r IH]; intros u u' out u1 out1 He H; cbn [gen_entries] in *.
  - inversion H; subst. exists u'. split; [reflexivity | exact He].
  - destruct (is_kept reserved e); [apply (IH _ _ _ _ _ He H)|].
    destruct (gen_syms (e_name e) (e_syms e) u out) as [[u2 out2]|] eqn:G; [|discriminate].
    destruct (gen_syms_equiv _ _ _ _ _ _ _ He G) as (u2' & G' & He2). rewrite G'.
    apply (IH _ _ _ _ _ He2 H).
Qed.

Lemma kept_names_perm es es' : Permutation es es' -> Permutation (kept_names reserved es) (kept_names reserved es').
Proof.
  intros Hp. unfold kept_names. apply Permutation_map.
  induction Hp as [|x l l' Hp IH|x y l|l l' l'' H1 IH1 H2 IH2]; cbn [filter].
  - constructor.
  - destruct (is_kept reserved x); [apply perm_skip, IH | exact IH].
  - destruct (is_kept reserved x), (is_kept reserved y); try apply Permutation_refl. apply perm_swap.
  - etransitivity; eassumption.
Qed.

Lemma kept_assignments_perm es es' : Permutation es es' -> Permutation (kept_assignments reserved es) (kept_assignments reserved es').
Proof.
  intros Hp. unfold kept_assignments.
  induction Hp as [|x l l' Hp IH|x y l|l l' l'' H1 IH1 H2 IH2]; cbn [flat_map].
  - constructor.
  - apply Permutation_app_head, IH.
  - rewrite !app_assoc. apply Permutation_app_tail, Permutation_app_comm.
  - etransitivity; eassumption.
Qed.

(* the walk over the names of one scope *)
Theorem assign_scope_order_irrelevant es es' k g :
  NoDup (map e_name es) -> Permutation es es' -> assign_scope reserved es = Some (k, g) ->
  exists k', assign_scope reserved es' = Some (k', g) /\ Permutation k k'.
Proof.
  intros Hnd Hp H. unfold assign_scope in *.
  rewrite <- (sort_entries_order_irrelevant es es' Hnd Hp).
  destruct (gen_entries reserved (sort_entries es) (kept_names reserved es ++ reserved) []) as [[u gen]|] eqn:G; [|discriminate].
  inversion H; subst k g.
  assert (He : equiv (kept_names reserved es ++ reserved) (kept_names reserved es' ++ reserved)).
  { apply equiv_perm, Permutation_app_tail, kept_names_perm, Hp. }
  destruct (gen_entries_equiv _ _ _ _ _ _ He G) as (u' & G' & _). rewrite G'.
  exists (kept_assignments reserved es'). split; [reflexivity | apply kept_assignments_perm, Hp].
Qed.

(* the walk over the scopes *)
Theorem assign_scopes_order_irrelevant scopes scopes' g gens :
  Permutation scopes scopes' -> assign_scopes reserved scopes = Some (g, gens) ->
  exists g' gens', assign_scopes reserved scopes' = Some (g', gens') /\ Permutation g g' /\ Permutation gens gens'.
Proof.
  intros Hp. revert g gens.
  induction Hp as [|x l l' Hp IH|x y l|l l' l'' H1 IH1 H2 IH2]; intros g gens H.
  - exists g, gens. repeat split; try assumption; apply Permutation_refl.
  - cbn [assign_scopes] in *. destruct (assign_scope reserved x) as [[k ge]|]; [|discriminate].
    destruct (assign_scopes reserved l) as [[rest gs]|] eqn:E; [|discriminate]. inversion H; subst g gens.
    destruct (IH _ _ eq_refl) as (rest' & gs' & -> & P1 & P2).
    eexists _, _. split; [reflexivity|]. split.
    + apply Permutation_app_head, Permutation_app_head, P1.
    + apply Permutation_app_head, P2.
  - cbn [assign_scopes] in *.
    destruct (assign_scope reserved y) as [[ky gy]|]; [|discriminate].
    destruct (assign_scope reserved x) as [[kx gx]|]; [|destruct (assign_scopes reserved l) as [[? ?]|]; discriminate].
    destruct (assign_scopes reserved l) as [[rest gs]|]; [|discriminate]. inversion H; subst g gens.
    eexists _, _. split; [reflexivity|]. split.
    + replace (ky ++ gy ++ kx ++ gx ++ rest) with ((ky ++ gy) ++ (kx ++ gx) ++ rest) by (rewrite <- !app_assoc; reflexivity).
      replace (kx ++ gx ++ ky ++ gy ++ rest) with ((kx ++ gx) ++ (ky ++ gy) ++ rest) by (rewrite <- !app_assoc; reflexivity).
      rewrite (app_assoc (ky ++ gy)), (app_assoc (kx ++ gx)). apply Permutation_app_tail, Permutation_app_comm.
    + rewrite !app_assoc. apply Permutation_app_tail, Permutation_app_comm.
  - destruct (IH1 _ _ H) as (g1 & gs1 & E1 & P1 & Q1). destruct (IH2 _ _ E1) as (g2 & gs2 & E2 & P2 & Q2).
    exists g2, gs2. repeat split; [exact E2 | etransitivity; eassumption | etransitivity; eassumption].
Qed.

Lemma assign_locals_equiv locals : forall all u u' out res,
  equiv u u' -> assign_locals locals all u out = Some res -> assign_locals locals all u' out = Some res.
Proof.
  induction locals as [|[id name] r IH]; intros all u u' out res He H; cbn [assign_locals] in *; [exact H|].
  destruct He as [Hl Hm]. rewrite <- Hm. destruct (in_str name u).
  - rewrite <- Hl.
    rewrite <- (find_free_ext (fun c => negb (in_str c all) && negb (in_str c u)) (fun c => negb (in_str c all) && negb (in_str c u')))
      by (intros c; rewrite Hm; reflexivity).
    destruct (find_free _ name 0%N _) as [c|]; [|discriminate].
    apply (IH all (c :: u) (c :: u') _ _ (equiv_cons c u u' (conj Hl Hm)) H).
  - apply (IH all u u' _ _ (conj Hl Hm) H).
Qed.

Lemma filter_perm {A} (f : A -> bool) l l' : Permutation l l' -> Permutation (filter f l) (filter f l').
Proof.
  induction 1 as [|x l l' _ IH|x y l|l l' l'' _ IH1 _ IH2]; cbn [filter].
  - constructor.
  - destruct (f x); [constructor|]; exact IH.
  - destruct (f x), (f y); try constructor; apply Permutation_refl.
  - eapply Permutation_trans; eassumption.
Qed.

Lemma gvar_names_perm g g' : Permutation g g' -> Permutation (gvar_names g) (gvar_names g').
Proof. intros H. unfold gvar_names. apply Permutation_map, filter_perm, H. Qed.

(* the whole name map: the same name for every local variable, the same (symbol, name) pairs for global symbols *)
Theorem build_order_irrelevant scopes scopes' locals g ls :
  Permutation scopes scopes' -> build reserved scopes locals = Some (g, ls) ->
  exists g', build reserved scopes' locals = Some (g', ls) /\ Permutation g g'.
Proof.
  intros Hp H. unfold build in *.
  destruct (assign_scopes reserved scopes) as [[gl gens]|] eqn:E; [|discriminate].
  destruct (assign_scopes_order_irrelevant _ _ _ _ Hp E) as (g' & gens' & E' & P1 & P2). rewrite E'.
  destruct (assign_locals locals (map snd locals) (gvar_names gl ++ gens ++ reserved) []) as [res|] eqn:L; [|discriminate].
  inversion H; subst g ls.
  rewrite (assign_locals_equiv locals _ (gvar_names gl ++ gens ++ reserved) (gvar_names g' ++ gens' ++ reserved) [] res);
    [|apply equiv_perm, Permutation_app; [apply gvar_names_perm, P1|apply Permutation_app_tail, P2]|exact L].
  exists g'. split; [reflexivity | exact P1].
Qed.

End Scope.
