(* LexerTrivia7.v — trivia at any number of token boundaries at once.  A text is described as a list of elements: tokens,
   each read the same in front of every character of a set `ok` that holds the character actually following it, and
   trivia pieces.  Behind a token whose `ok` holds every character a trivia piece can begin with (`insertable`), any
   run of pieces may be inserted - at as many tokens as one likes - and the tokens that are not whitespace stay the
   same, whatever follows the described text. *)
From Coq Require Import List NArith Bool String Ascii Arith Lia.
From RV Require Import Lexer LexerProofs LexerTrivia LexerTrivia2 LexerTrivia3.
From RV Require Import LexerTriviaNum LexerTrivia4.
Import ListNotations.
Local Open Scope string_scope.

Inductive elem :=
| ETok (c : ascii) (a' : string) (t : tok) (insertable : bool)
| ETriv (x : string).

Definition etxt (e : elem) : string := match e with ETok c a' _ _ => String c a' | ETriv x => x end.
Fixpoint txt (es : list elem) : string := match es with [] => "" | e :: r => etxt e ++ txt r end.

Definition tstart (w : ascii) : Prop := blank w \/ w = "\"%char \/ w = "/"%char.

Section Trivia7.
Variable keywords : list (string * string).
Variable reserved_words : list string.
Variable symbols : list (N * string * option string * option string).
Variable int_suffixes : list (list (list N) * string).
Variable float_suffixes : list (list N * string).
Variable float_is_zero : string -> bool.
Variable utf8_ok : string -> bool.

Notation tok_at := (tok_at keywords reserved_words symbols int_suffixes float_suffixes float_is_zero utf8_ok).
Notation Lexes := (Lexes keywords reserved_words symbols int_suffixes float_suffixes float_is_zero utf8_ok).
Notation lex_file := (lex_file keywords reserved_words symbols int_suffixes float_suffixes float_is_zero utf8_ok).

Inductive Good (nxt : ascii) : list elem -> Prop :=
| GNil : Good nxt []
| GTok c a' t ins (ok : ascii -> Prop) es :
    (forall w r, ok w -> tok_at false (String c a' ++ String w r) = LOk t (slen (String c a'))) ->
    ok (next_char nxt (txt es)) ->
    (ins = true -> forall w, tstart w -> ok w) ->
    Good nxt es -> Good nxt (ETok c a' t ins :: es)
| GTriv x es : Piece x -> Good nxt es -> Good nxt (ETriv x :: es).

(* trivia added behind insertable tokens *)
Inductive Ins : list elem -> list elem -> Prop :=
| INil : Ins [] []
| ITriv x es es' : Ins es es' -> Ins (ETriv x :: es) (ETriv x :: es')
| ITok c a' t ins es es' xs :
    Forall Piece xs -> (ins = true \/ xs = []) -> Ins es es' ->
    Ins (ETok c a' t ins :: es) (ETok c a' t ins :: (map ETriv xs ++ es')%list).

Lemma ins_next_char nxt es es' : Good nxt es -> Ins es es' -> next_char nxt (txt es') = next_char nxt (txt es).
Proof.
  intros G I. destruct I as [|x es es' I|c a' t ins es es' xs Fx Hx I]; [reflexivity| |reflexivity].
  cbn [txt etxt]. inversion G; subst.
  destruct (piece_head x H1) as (w & x' & -> & _). reflexivity.
Qed.

(* the tokens of a described text in front of any continuation that begins with nxt *)
Definition LexFact (nxt : ascii) (p : string) (tp : list tok) : Prop :=
  forall r last l0 tr, Lexes (String nxt r) l0 tr ->
  exists l1 tr', Lexes (p ++ String nxt r) last (tp ++ tr') /\ Lexes (String nxt r) l1 tr' /\ strip tr' = strip tr.

Lemma lexfact_nil nxt : LexFact nxt "" [].
Proof.
  intros r last l0 tr Lr.
  destruct (lexes_flag keywords reserved_words symbols int_suffixes float_suffixes float_is_zero utf8_ok _ l0 tr Lr last) as (tr' & L' & S').
  exists last, tr'. cbn [append app]. repeat split; assumption.
Qed.

Lemma lexfact_tok nxt c a' t p tp :
  (forall r, tok_at false (String c a' ++ (p ++ String nxt r)) = LOk t (slen (String c a'))) ->
  LexFact nxt p tp -> LexFact nxt (String c a' ++ p) (t :: tp).
Proof.
  intros T IH r last l0 tr Lr.
  destruct (IH r (is_endline t) l0 tr Lr) as (l1 & tr' & Lp & Lr' & Sr').
  exists l1, tr'. repeat split; [|exact Lr'|exact Sr'].
  rewrite sapp_assoc. cbn [append app].
  change (String c (a' ++ (p ++ String nxt r))) with (String c a' ++ (p ++ String nxt r)).
  apply (LexTok _ _ _ _ _ _ _ c (a' ++ (p ++ String nxt r)) last t (slen (String c a')) (tp ++ tr')); [apply T|].
  change (String c (a' ++ (p ++ String nxt r))) with (String c a' ++ (p ++ String nxt r)). rewrite drop_app. exact Lp.
Qed.

Lemma lexfact_piece nxt x p tp : Piece x -> LexFact nxt p tp ->
  exists ws, Forall (fun t => is_ws t = true) ws /\ LexFact nxt (x ++ p) (ws ++ tp)%list.
Proof.
  intros Px IH.
  destruct (piece_lexes2 keywords reserved_words symbols int_suffixes float_suffixes float_is_zero utf8_ok x Px) as (ws & Fw & Hx).
  exists ws. split; [exact Fw|]. intros r last l0 tr Lr.
  destruct (Hx (p ++ String nxt r) last) as (l1 & Hx').
  destruct (IH r l1 l0 tr Lr) as (l2 & tr' & Lp & Lr' & Sr').
  exists l2, tr'. repeat split; [|exact Lr'|exact Sr'].
  rewrite sapp_assoc, <- app_assoc. apply Hx'. exact Lp.
Qed.

Lemma lexfact_pieces nxt xs : Forall Piece xs -> forall p tp, LexFact nxt p tp ->
  exists ws, Forall (fun t => is_ws t = true) ws /\ LexFact nxt (txt (map ETriv xs) ++ p) (ws ++ tp)%list.
Proof.
  induction 1 as [|x xs Px Fx IH]; intros p tp Hp.
  - exists []. split; [constructor | exact Hp].
  - destruct (IH p tp Hp) as (ws & Fw & Hws).
    destruct (lexfact_piece nxt x _ _ Px Hws) as (ws1 & Fw1 & H1).
    exists (ws1 ++ ws)%list. split; [apply Forall_app; split; assumption|].
    cbn [map txt etxt]. rewrite sapp_assoc, <- app_assoc. exact H1.
Qed.

Lemma txt_app a b : txt (a ++ b)%list = txt a ++ txt b.
Proof. induction a as [|e a IH]; [reflexivity|]. cbn [app txt]. rewrite IH, sapp_assoc. reflexivity. Qed.

Lemma good_pieces nxt xs es : Forall Piece xs -> Good nxt es -> Good nxt (map ETriv xs ++ es)%list.
Proof. induction 1 as [|x xs Px Fx IH]; intros G; [exact G|]. cbn [map app]. apply GTriv; [exact Px | apply IH; exact G]. Qed.

Lemma strip_cons_ws ws l : Forall (fun t => is_ws t = true) ws -> strip (ws ++ l) = strip l.
Proof. apply strip_ws. Qed.

(* the token in front of the rest of a described text *)
Lemma good_tok_fact nxt c a' t (ok : ascii -> Prop) q :
  (forall w r, ok w -> tok_at false (String c a' ++ String w r) = LOk t (slen (String c a'))) ->
  ok (next_char nxt q) ->
  forall r, tok_at false (String c a' ++ (q ++ String nxt r)) = LOk t (slen (String c a')).
Proof.
  intros St Hok r. destruct q as [|w q']; cbn [next_char append] in *; apply St; exact Hok.
Qed.

Theorem ins_lexes nxt es es' : Good nxt es -> Ins es es' ->
  Good nxt es' /\ exists tp tp', strip tp = strip tp' /\ LexFact nxt (txt es) tp /\ LexFact nxt (txt es') tp'.
Proof.
  intros G I. induction I as [|x es es' I IH|c a' t ins es es' xs Fx Hx I IH].
  - split; [constructor|]. exists [], []. repeat split; apply lexfact_nil.
  - inversion G as [| |x0 es0 Px G0]; subst.
    destruct (IH G0) as (G' & tp & tp' & Hs & F & F').
    split; [apply GTriv; assumption|].
    destruct (piece_lexes2 keywords reserved_words symbols int_suffixes float_suffixes float_is_zero utf8_ok x Px) as (ws & Fw & Hxw).
    exists (ws ++ tp)%list, (ws ++ tp')%list. split; [rewrite !(strip_ws ws) by exact Fw; exact Hs|].
    cbn [txt etxt]. split.
    + intros r last l0 tr Lr. destruct (Hxw (txt es ++ String nxt r) last) as (l1 & Hx').
      destruct (F r l1 l0 tr Lr) as (l2 & tr' & Lp & Lr' & Sr').
      exists l2, tr'. repeat split; [|exact Lr'|exact Sr']. rewrite sapp_assoc, <- app_assoc. apply Hx'. exact Lp.
    + intros r last l0 tr Lr. destruct (Hxw (txt es' ++ String nxt r) last) as (l1 & Hx').
      destruct (F' r l1 l0 tr Lr) as (l2 & tr' & Lp & Lr' & Sr').
      exists l2, tr'. repeat split; [|exact Lr'|exact Sr']. rewrite sapp_assoc, <- app_assoc. apply Hx'. exact Lp.
  - inversion G as [|c0 a0 t0 ins0 ok es0 St Hok Hins G0|]; subst.
    destruct (IH G0) as (G' & tp & tp' & Hs & F & F').
    assert (Gp : Good nxt (map ETriv xs ++ es')%list) by (apply good_pieces; assumption).
    assert (Hok' : ok (next_char nxt (txt (map ETriv xs ++ es')%list))).
    { destruct xs as [|x xs'].
      - cbn [map app]. rewrite (ins_next_char nxt es es' G0 I). exact Hok.
      - destruct Hx as [Hi|Hx]; [|discriminate].
        inversion Fx as [|? ? Px _]; subst. cbn [map app txt etxt].
        destruct (piece_head x Px) as (w & x' & -> & Hw). cbn [append next_char]. apply (Hins eq_refl). exact Hw. }
    split; [apply (GTok nxt c a' t ins ok); assumption|].
    destruct (lexfact_pieces nxt xs Fx (txt es') tp' F') as (ws & Fw & Fws).
    exists (t :: tp), (t :: ws ++ tp')%list. split.
    { unfold strip in *. cbn [filter]. rewrite filter_app.
      assert (Z : filter (fun t1 => negb (is_ws t1)) ws = []).
      { clear -Fw. induction Fw as [|y l Hy _ IHl]; [reflexivity|]. cbn [filter]. rewrite Hy. exact IHl. }
      rewrite Z. cbn [app]. rewrite Hs. reflexivity. }
    cbn [txt etxt]. split.
    + apply lexfact_tok; [|exact F]. apply (good_tok_fact nxt c a' t ok (txt es) St Hok).
    + rewrite txt_app. apply lexfact_tok; [|exact Fws].
      rewrite <- txt_app. apply (good_tok_fact nxt c a' t ok _ St Hok').
Qed.

Lemma good_pre2 nxt es : Good nxt es ->
  Pre2 keywords reserved_words symbols int_suffixes float_suffixes float_is_zero utf8_ok nxt (txt es).
Proof.
  induction 1 as [|c a' t ins ok es St Hok Hins G IH|x es Px G IH]; cbn [txt etxt].
  - constructor.
  - apply (Pre2Tok _ _ _ _ _ _ _ nxt c a' t (txt es)); [|exact IH]. apply (good_tok_fact nxt c a' t ok (txt es) St Hok).
  - apply Pre2Trivia; assumption.
Qed.

(* ---- trivia behind any number of insertable tokens of a described text, whatever follows the text ---- *)
Theorem trivia_at_many_boundaries nxt r0 es es' spans :
  Good nxt es -> Ins es es' ->
  lex_file (txt es ++ String nxt r0) = SOk spans ->
  exists spans', lex_file (txt es' ++ String nxt r0) = SOk spans' /\ strip (toks spans') = strip (toks spans).
Proof.
  intros G I H. unfold Lexer.lex_file in *.
  destruct (lex_all_sound _ _ _ _ _ _ _ _ _ _ _ _ _ H) as (l & E & L). cbn [rev toks map app] in E.
  destruct (pre2_lexes_inv keywords reserved_words symbols int_suffixes float_suffixes float_is_zero utf8_ok nxt (txt es) (good_pre2 nxt es G) r0 true l L)
    as (tp0 & l1 & tr & El & Lr).
  destruct (ins_lexes nxt es es' G I) as (G' & tp & tp' & Hs & F & F').
  destruct (F r0 true l1 tr Lr) as (l2 & tr1 & Lp & _ & S1).
  destruct (F' r0 true l1 tr Lr) as (l3 & tr2 & Lp' & _ & S2).
  pose proof (lexes_det _ _ _ _ _ _ _ _ _ _ L _ Lp) as Eold.
  destruct (lex_all_complete _ _ _ _ _ _ _ _ _ _ Lp' (S (slen (txt es' ++ String nxt r0))) 0 [] ltac:(lia)) as (sp & E' & M').
  exists sp. split; [exact E'|]. cbn [rev toks map app] in M'. rewrite M', E, Eold.
  unfold strip in *. rewrite !filter_app. rewrite S1, S2, Hs. reflexivity.
Qed.

End Trivia7.
