(* FixpointProofs.v — the two bookkeeping passes of the exporter are idempotent on their own output: a name map whose
   names are already pairwise distinct and not reserved is kept as it is, and declarations that carry their assigned
   group explicitly are given the same slots again, whatever the default group. *)
From Coq Require Import List NArith Bool String Lia Permutation.
From RV Require Import Wire NameGen NameGenProofs Bindings BindingsProofs.
Import ListNotations.

(* ---------- names ---------- *)
Section Names.
Variable reserved : list string.

Lemma gen_entries_all_kept l : Forall (fun e => is_kept reserved e = true) l ->
  forall used out, gen_entries reserved l used out = Some (used, out).
Proof.
  induction 1 as [|e r He Hr IH]; intros used out; cbn [gen_entries]; [reflexivity|]. rewrite He. apply IH.
Qed.

(* every name of the scope stands for one symbol and is not reserved: nothing is renamed *)
Theorem assign_scope_identity es :
  Forall (fun e => is_kept reserved e = true) es ->
  assign_scope reserved es = Some (kept_assignments reserved es, []).
Proof.
  intros H. unfold assign_scope.
  assert (Hs : Forall (fun e => is_kept reserved e = true) (sort_entries es)).
  { rewrite Forall_forall in *. intros e He. apply H. apply (Permutation_in _ (sort_entries_perm es)). exact He. }
  rewrite (gen_entries_all_kept _ Hs). reflexivity.
Qed.

Lemma assign_scopes_identity scopes :
  Forall (Forall (fun e => is_kept reserved e = true)) scopes ->
  assign_scopes reserved scopes = Some (flat_map (kept_assignments reserved) scopes, []).
Proof.
  induction 1 as [|es r He Hr IH]; cbn [assign_scopes flat_map]; [reflexivity|].
  rewrite (assign_scope_identity es He), IH. cbn [map app]. rewrite app_nil_r || idtac. reflexivity.
Qed.

Lemma assign_locals_identity locals : forall all used out,
  (forall id n, In (id, n) locals -> in_str n used = false) ->
  assign_locals locals all used out = Some (rev out ++ locals).
Proof.
  induction locals as [|[id n] r IH]; intros all used out H; cbn [assign_locals].
  - rewrite app_nil_r. reflexivity.
  - rewrite (H id n (or_introl eq_refl)). rewrite IH by (intros i m Hi; apply (H i m); right; exact Hi).
    cbn [rev]. rewrite <- app_assoc. reflexivity.
Qed.

(* the whole name map of a program whose global names are unique per scope and not reserved, and whose local names
   are not reserved: every symbol and every local keeps its name *)
Theorem build_identity scopes locals :
  Forall (Forall (fun e => is_kept reserved e = true)) scopes ->
  (forall id n, In (id, n) locals ->
     in_str n (gvar_names (flat_map (kept_assignments reserved) scopes) ++ reserved) = false) ->
  build reserved scopes locals = Some (flat_map (kept_assignments reserved) scopes, locals).
Proof.
  intros Hs Hl. unfold build. rewrite (assign_scopes_identity scopes Hs). cbn [app].
  rewrite (assign_locals_identity locals (map snd locals) _ [] Hl). reflexivity.
Qed.

(* the scope as the second compilation sees it: every symbol under the name it was given, one symbol per name *)
Definition reentries (a : list (sym * string)) : list entry := map (fun p => mkEntry (snd p) [fst p]) a.

Lemma reentries_kept a :
  (forall n, In n (map snd a) -> ~ In n reserved) -> Forall (fun e => is_kept reserved e = true) (reentries a).
Proof.
  intros H. unfold reentries. rewrite Forall_map. rewrite Forall_forall. intros [s n] Hin.
  unfold is_kept. cbn [e_syms e_name fst snd]. apply negb_true_iff, in_str_false. apply H.
  apply in_map_iff. exists (s, n). split; [reflexivity | exact Hin].
Qed.

Lemma kept_assignments_reentries a :
  (forall n, In n (map snd a) -> ~ In n reserved) -> kept_assignments reserved (reentries a) = a.
Proof.
  induction a as [|[s n] r IH]; intros H; [reflexivity|].
  unfold reentries. cbn [map kept_assignments flat_map]. unfold is_kept at 1. cbn [e_syms e_name fst snd].
  assert (E : in_str n reserved = false). { apply in_str_false. apply H. left. reflexivity. }
  rewrite E. cbn [negb map app]. f_equal. apply IH. intros m Hm. apply H. right. exact Hm.
Qed.

(* the names given to a scope, read back as a scope, are all kept and nothing is generated: the second generation of
   names is the first *)
Theorem second_generation_scope es K G :
  NoDup (map e_name es) -> assign_scope reserved es = Some (K, G) ->
  assign_scope reserved (reentries (K ++ G)) = Some (K ++ G, []).
Proof.
  intros Hnd Ha. destruct (assign_scope_spec reserved es K G Hnd Ha) as (_ & Hres & _).
  rewrite (assign_scope_identity _ (reentries_kept _ Hres)). rewrite (kept_assignments_reentries _ Hres). reflexivity.
Qed.
End Names.

(* ---------- binding slots ---------- *)
Section Slots.
Variable okind : Type.
Variable metal2 is_addr : okind -> bool.

Notation decl := (Bindings.decl okind).
Notation step := (Bindings.step okind metal2 is_addr).
Notation assign_from := (Bindings.assign_from okind metal2 is_addr).
Notation assign := (Bindings.assign okind metal2 is_addr).

(* the declaration as the exporter prints it: the group it was assigned to is written out *)
Definition with_group (dflt : N) (d : decl) : decl :=
  mkDecl (d_kind d) (d_array d) (Some (match d_set d with Some s => s | None => dflt end)) (d_static_sampler d) (d_extern d).

Lemma step_with_group p dflt dflt' st d : step p dflt' st (with_group dflt d) = step p dflt st d.
Proof.
  unfold Bindings.step, with_group. cbn [d_kind d_set d_extern].
  unfold Bindings.skipped_sampler, Bindings.takes_inline, Bindings.slot_count, Bindings.array_count, Bindings.decl_is_addr.
  cbn [d_kind d_array d_static_sampler d_set d_extern]. reflexivity.
Qed.

Lemma assign_from_with_group p dflt dflt' ds : forall st,
  assign_from p dflt' st (map (with_group dflt) ds) = assign_from p dflt st ds.
Proof.
  induction ds as [|d r IH]; intros st; cbn [map Bindings.assign_from]; [reflexivity|].
  rewrite step_with_group. destruct (step p dflt st d) as [b st1]. rewrite IH. reflexivity.
Qed.

(* recompiling the emitted declarations (groups explicit, any default group) reproduces every slot and every inline block *)
Theorem assign_with_explicit_groups p dflt dflt' (ds : list decl) :
  assign p dflt' (map (with_group dflt) ds) = assign p dflt ds.
Proof. unfold Bindings.assign. rewrite assign_from_with_group. reflexivity. Qed.

(* the DirectX exporter also prints some object kinds as others (BufferAddress as ByteAddressBuffer); without the Metal
   slot layout and without inline buffer addresses the kind of an object does not matter to the slots *)
Definition emitted (rek : okind -> okind) (dflt : N) (d : decl) : decl :=
  mkDecl (match d_kind d with KObj o => KObj (rek o) | k => k end) (d_array d)
         (Some (match d_set d with Some s => s | None => dflt end)) (d_static_sampler d) (d_extern d).

Lemma step_emitted rek p dflt dflt' st d :
  metal_slot_layout p = false -> support_buffer_address p = false ->
  step p dflt' st (emitted rek dflt d) = step p dflt st d.
Proof.
  intros Hm Hs. unfold Bindings.step, emitted. cbn [d_kind d_set d_extern].
  destruct (d_kind d) as [|o|] eqn:Ek; try reflexivity.
  unfold Bindings.skipped_sampler, Bindings.takes_inline, Bindings.slot_count, Bindings.array_count, Bindings.slice_cost.
  cbn [d_kind d_array d_static_sampler d_set d_extern]. rewrite Ek, Hm, Hs. cbn [andb]. reflexivity.
Qed.

Theorem assign_emitted_directx rek p dflt dflt' (ds : list decl) :
  metal_slot_layout p = false -> support_buffer_address p = false ->
  assign p dflt' (map (emitted rek dflt) ds) = assign p dflt ds.
Proof.
  intros Hm Hs. unfold Bindings.assign.
  assert (E : forall st, assign_from p dflt' st (map (emitted rek dflt) ds) = assign_from p dflt st ds).
  { induction ds as [|d r IH]; intros st; cbn [map Bindings.assign_from]; [reflexivity|].
    rewrite (step_emitted rek p dflt dflt' st d Hm Hs). destruct (step p dflt st d) as [b st1]. rewrite IH. reflexivity. }
  rewrite E. reflexivity.
Qed.
End Slots.
