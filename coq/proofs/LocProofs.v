(* LocProofs.v — location decoding: inserting whole lines shifts the line by their number and keeps the column;
   a location handed out for file i decodes to file i's name and to the line/column inside that file; loading more
   files never changes what an earlier location decodes to. *)
From Coq Require Import List NArith Bool String Lia Arith.
From RV Require Import Loc.
Import ListNotations.
Local Open Scope N_scope.

Lemma advance_app a b n line col :
  advance (a ++ b) (List.length a + n) line col =
  let '(l, c) := advance a (List.length a) line col in advance b n l c.
Proof.
  revert line col. induction a as [|x a IH]; intros line col; cbn [app List.length Nat.add advance]; [reflexivity|].
  destruct (x =? nl); apply IH.
Qed.

Lemma advance_lines l : forall line col, fst (advance l (List.length l) line col) = line + count_nl l.
Proof.
  unfold count_nl. induction l as [|x l IH]; intros line col; cbn [List.length advance filter]; [cbn; lia|].
  destruct (x =? nl); rewrite IH; cbn [List.length]; lia.
Qed.

Lemma advance_whole_lines ins line col :
  (ins = [] \/ last ins 0 = nl) -> col = 1 ->
  advance ins (List.length ins) line col = (line + count_nl ins, 1).
Proof.
  intros Hlast ->. pose proof (advance_lines ins line 1) as H1.
  destruct (advance ins (List.length ins) line 1) as [l c] eqn:E. cbn [fst] in H1. subst l. f_equal.
  destruct Hlast as [->|Hl]; [cbn in E; inversion E; reflexivity|].
  destruct ins as [|x r]; [cbn in E; inversion E; reflexivity|].
  assert (Hne : x :: r <> []) by discriminate.
  rewrite (app_removelast_last 0 Hne) in E. rewrite Hl in E.
  rewrite app_length in E. cbn [List.length] in E. rewrite advance_app in E.
  destruct (advance (removelast (x :: r)) (List.length (removelast (x :: r))) line 1) as [l' c'].
  cbn in E. inversion E. reflexivity.
Qed.

Lemma advance_line_shift b n k line col :
  advance b n (line + k) col = let '(l, c) := advance b n line col in (l + k, c).
Proof.
  revert n line col. induction b as [|x b IH]; intros [|n] line col; cbn [advance]; try reflexivity.
  destruct (x =? nl).
  - replace (line + k + 1) with (line + 1 + k) by lia. apply IH.
  - apply IH.
Qed.

(* inserting k whole lines (text ending with a line feed) at the start of a line: every later position keeps its
   column and moves down by k lines *)
Theorem line_shift a ins b j :
  (a = [] \/ last a 0 = nl) -> (ins = [] \/ last ins 0 = nl) ->
  line_col (a ++ ins ++ b) (List.length a + (List.length ins + j)) =
  let '(l, c) := line_col (a ++ b) (List.length a + j) in (l + count_nl ins, c).
Proof.
  intros Ha Hi. unfold line_col. rewrite !advance_app.
  rewrite (advance_whole_lines a 1 1 Ha eq_refl). cbv zeta.
  rewrite advance_app. rewrite (advance_whole_lines ins _ 1 Hi eq_refl). cbv zeta.
  rewrite advance_line_shift. destruct (advance b j (1 + count_nl a) 1). reflexivity.
Qed.

(* ---------- files ---------- *)
Lemma locate_shift fs cur loc : locate fs cur (cur + loc) = locate fs 0 loc.
Proof.
  revert cur loc. induction fs as [|f r IH]; intros cur loc; cbn [locate]; [reflexivity|].
  replace (cur + loc <? cur + slots f) with (loc <? 0 + slots f).
  - destruct (loc <? 0 + slots f) eqn:H.
    + replace (cur + loc - cur) with (loc - 0) by lia. reflexivity.
    + apply N.ltb_ge in H.
      replace (cur + loc) with (cur + slots f + (loc - slots f)) by lia.
      rewrite IH. replace loc with (0 + slots f + (loc - slots f)) at 2 by lia. rewrite IH. reflexivity.
  - destruct (N.ltb_spec loc (0 + slots f)), (N.ltb_spec (cur + loc) (cur + slots f)); try reflexivity; lia.
Qed.

(* a location handed out for offset `off` of file i decodes to that file's name and to the line and column of the
   offset inside that file's own text *)
Theorem location_names_its_file : forall fs i f off,
  nth_error fs i = Some f -> (off <= List.length (f_bytes f))%nat ->
  locate fs 0 (location_of fs i off) = Some (f_name f, fst (line_col (f_bytes f) off), snd (line_col (f_bytes f) off)).
Proof.
  induction fs as [|g r IH]; intros i f off Hn Hoff; [destruct i; discriminate|].
  destruct i as [|j].
  - cbn in Hn. inversion Hn; subst g. unfold location_of. cbn [base_of locate].
    assert (H : (0 + N.of_nat off <? 0 + slots f) = true) by (apply N.ltb_lt; unfold slots; lia).
    rewrite H. replace (N.to_nat (0 + N.of_nat off - 0)) with off by lia.
    destruct (line_col (f_bytes f) off). reflexivity.
  - cbn [nth_error] in Hn. unfold location_of. cbn [base_of locate].
    assert (H : (slots g + base_of r j + N.of_nat off <? 0 + slots g) = false) by (apply N.ltb_ge; lia).
    rewrite H. replace (slots g + base_of r j + N.of_nat off) with (0 + slots g + (base_of r j + N.of_nat off)) by lia.
    rewrite locate_shift. apply (IH j f off Hn Hoff).
Qed.

(* the ranges of different files are disjoint: file i owns [base i, base i + length + 1) *)
Theorem file_ranges_disjoint : forall fs i j fi fj,
  nth_error fs i = Some fi -> nth_error fs j = Some fj -> (i < j)%nat ->
  base_of fs i + slots fi <= base_of fs j.
Proof.
  induction fs as [|g r IH]; intros i j fi fj Hi Hj Hlt; [destruct i; discriminate|].
  destruct j as [|j']; [lia|]. destruct i as [|i'].
  - cbn in Hi. inversion Hi; subst g. cbn [base_of]. lia.
  - cbn [nth_error base_of] in *. specialize (IH i' j' fi fj Hi Hj ltac:(lia)). lia.
Qed.

(* files loaded later (further includes, ## scratch files) do not change what an earlier location decodes to *)
Theorem later_files_do_not_matter : forall fs more cur loc,
  cur <= loc -> loc < cur + total fs -> locate (fs ++ more) cur loc = locate fs cur loc.
Proof.
  induction fs as [|f r IH]; intros more cur loc Hc H; cbn [total fold_right] in H.
  - exfalso. lia.
  - cbn [app locate]. destruct (loc <? cur + slots f) eqn:E; [reflexivity|].
    apply N.ltb_ge in E. apply IH; [lia|]. fold (total r) in H. lia.
Qed.
