(* EnumValsProofs.v — an enumerator without an initialiser is its predecessor plus one, exactly: the typed bookkeeping
   of the type checker never wraps, and the conversion to the selected underlying type changes no value. *)
From Coq Require Import List ZArith Bool Lia.
From RV Require Import EvalSem.
From RV Require Import EnumVals.
Import ListNotations.
Local Open Scope Z_scope.

Lemma enum_next_int c : enum_first_ok c = true ->
  exists c', enum_next c = Some c' /\ enum_first_ok c' = true /\
             exists z, enum_int c = Some z /\ enum_int c' = Some (z + 1).
Proof.
  destruct c as [b|k v| | |]; try discriminate; intros H.
  - eexists. split; [reflexivity|]. split; [reflexivity|]. exists (if b then 1 else 0). split; reflexivity.
  - destruct k; try discriminate; cbn [enum_next enum_first_ok] in *.
    + eexists. split; [reflexivity|]. split; [reflexivity|]. exists v. split; reflexivity.
    + destruct (in_range KInt32 (v + 1)) eqn:R; eexists; (split; [reflexivity|]); (split; [cbn; try exact R; reflexivity|]);
        exists v; split; reflexivity.
    + destruct (in_range KUInt32 (v + 1)) eqn:R; eexists; (split; [reflexivity|]); (split; [cbn; try exact R; reflexivity|]);
        exists v; split; reflexivity.
Qed.

Lemma enum_fill_ints n : forall c z, enum_first_ok c = true -> enum_int c = Some z ->
  exists cs, enum_fill c n = Some cs /\
             all_some (map enum_int cs) = Some (map (fun i => z + Z.of_nat i) (seq 0 (S n))).
Proof.
  induction n as [|n IH]; intros c z Hok Hz.
  - exists [c]. split; [reflexivity|]. cbn [map seq all_some]. rewrite Hz. cbn. rewrite Z.add_0_r. reflexivity.
  - destruct (enum_next_int c Hok) as (c' & Hn & Hok' & z' & Hz' & Hz1). rewrite Hz in Hz'. inversion Hz'; subst z'.
    destruct (IH c' (z + 1) Hok' Hz1) as (cs & Hf & Ha).
    exists (c :: cs). split.
    + cbn [enum_fill]. rewrite Hn, Hf. reflexivity.
    + cbn [map all_some]. rewrite Hz, Ha. cbn [option_map]. f_equal.
      change (seq 0 (S (S n))) with (0%nat :: seq 1 (S n)). cbn [map]. rewrite Z.add_0_r. f_equal.
      rewrite <- seq_shift, map_map. apply map_ext. intros i. lia.
Qed.

Lemma fold_min_le zs : forall z, In z zs -> fold_right Z.min 0 zs <= z.
Proof. induction zs as [|a r IH]; intros z Hz; [destruct Hz|]. destruct Hz as [<-|H]; cbn [fold_right]; [lia|specialize (IH z H); lia]. Qed.
Lemma fold_max_ge zs : forall z, In z zs -> z <= fold_right Z.max 0 zs.
Proof. induction zs as [|a r IH]; intros z Hz; [destruct Hz|]. destruct Hz as [<-|H]; cbn [fold_right]; [lia|specialize (IH z H); lia]. Qed.

Lemma wrap_id k z : in_range k z = true -> wrap k z = z.
Proof.
  unfold in_range, wrap. intros H. apply andb_true_iff in H as [H1 H2]. apply Z.leb_le in H1, H2.
  assert (Hb : hi k - lo k = 2 ^ bits k - 1) by (unfold hi, lo; destruct (signed k); destruct k; cbn; lia).
  rewrite Z.mod_small; lia.
Qed.

Lemma enum_type_range zs k : enum_type zs = Some k -> forall z, In z zs -> in_range k z = true.
Proof.
  unfold enum_type. intros H z Hz. pose proof (fold_min_le zs z Hz). pose proof (fold_max_ge zs z Hz).
  destruct ((lo KInt32 <=? fold_right Z.min 0 zs) && (fold_right Z.max 0 zs <=? hi KInt32)) eqn:A.
  - inversion H; subst. apply andb_true_iff in A as [A1 A2]. apply Z.leb_le in A1, A2.
    unfold in_range. apply andb_true_iff. split; apply Z.leb_le; lia.
  - destruct ((lo KUInt32 <=? fold_right Z.min 0 zs) && (fold_right Z.max 0 zs <=? hi KUInt32)) eqn:B; [|discriminate].
    inversion H; subst. apply andb_true_iff in B as [B1 B2]. apply Z.leb_le in B1, B2.
    unfold in_range. apply andb_true_iff. split; apply Z.leb_le; lia.
Qed.

Theorem enum_values_exact first n : enum_first_ok first = true -> enum_impl first n = enum_ref first n.
Proof.
  intros Hok. destruct (enum_next_int first Hok) as (_ & _ & _ & z & Hz & _).
  destruct (enum_fill_ints n first z Hok Hz) as (cs & Hf & Ha).
  unfold enum_impl, enum_ref. rewrite Hf, Ha, Hz.
  destruct (enum_type _) as [k|] eqn:T; [|reflexivity]. f_equal.
  rewrite <- (map_id (map (fun i => z + Z.of_nat i) (seq 0 (S n)))) at 2. apply map_ext_in.
  intros x Hx. apply wrap_id. eapply enum_type_range; eassumption.
Qed.
