(* MacroProofs.v — macro expansion (Macro.v) always terminates with a verdict, never reaches the loop's missing
   increment, and leaves no unprocessed `##`; #include equals running the included items in place; initial defines
   equal #define lines before the first line.  Generic in the paste function and the macro table. *)
From Coq Require Import List NArith Bool String Arith Lia.
From RV Require Import Macro.
Import ListNotations.
Local Open Scope list_scope.

Definition noc (l : list mtok) : Prop := Forall (fun t => t <> MConcat) l.

(* ---------- trimming ---------- *)
Lemma trim_start_spec l : exists pre, l = pre ++ trim_start l.
Proof.
  induction l as [|t r IH]; [exists []; reflexivity|]. cbn [trim_start].
  destruct (is_ws_inline t); [|exists []; reflexivity]. destruct IH as [pre H]. exists (t :: pre). cbn. f_equal. exact H.
Qed.

Lemma trim_start_len l : List.length (trim_start l) <= List.length l.
Proof. destruct (trim_start_spec l) as [pre H]. rewrite H at 2. rewrite app_length. lia. Qed.

Lemma trim_len l : List.length (trim l) <= List.length l.
Proof.
  unfold trim, trim_end. rewrite rev_length. etransitivity; [apply trim_start_len|]. rewrite rev_length. apply trim_start_len.
Qed.

(* ---------- split_macro_args ---------- *)
Lemma split_go_spec : forall l cur depth acc rest args,
  split_args_go l cur depth acc = Some (rest, args) ->
  List.length rest < List.length l /\
  forall a, In a args -> In a acc \/ List.length a <= List.length l + List.length cur.
Proof.
  induction l as [|t r IH]; intros cur depth acc rest args H; [discriminate|].
  assert (Hgen : forall cur' depth', split_args_go r cur' depth' acc = Some (rest, args) ->
                   List.length cur' <= S (List.length cur) ->
                   List.length rest < List.length (t :: r) /\
                   forall a, In a args -> In a acc \/ List.length a <= List.length (t :: r) + List.length cur).
  { intros cur' depth' H' Hc. destruct (IH _ _ _ _ _ H') as [H1 H2]. split; [cbn; lia|].
    intros a Ha. destruct (H2 a Ha) as [Hin|Hl]; [left; exact Hin | right; cbn; lia]. }
  destruct t; cbn [split_args_go] in H; try (apply (Hgen _ _ H); cbn; lia).
  - (* MRP *)
    destruct depth as [|d'].
    + inversion H; subst rest args. split; [cbn; lia|].
      intros a Ha. apply in_app_or in Ha. destruct Ha as [Ha|[<-|[]]]; [left; rewrite in_rev; exact Ha|].
      right. etransitivity; [apply trim_len|]. rewrite rev_length. lia.
    + apply (Hgen _ _ H). cbn. lia.
  - (* MComma *)
    destruct (Nat.eqb depth 0).
    + destruct (IH _ _ _ _ _ H) as [H1 H2]. split; [cbn; lia|].
      intros a Ha. destruct (H2 a Ha) as [[<-|Hin]|Hl]; [ | left; exact Hin | right; cbn in *; lia].
      right. etransitivity; [apply trim_len|]. rewrite rev_length. lia.
    + apply (Hgen _ _ H). cbn. lia.
Qed.

Lemma fnwi_ge l k : k <= first_non_ws_inline l k <= k + List.length l.
Proof.
  revert k. induction l as [|t r IH]; intros k; cbn [first_non_ws_inline List.length]; [lia|].
  destruct (is_ws t); [|lia]. specialize (IH (S k)). lia.
Qed.

Lemma trim_start_fnwi l k t :
  nth_error l (first_non_ws_inline l k - k) = Some t -> is_ws t = false ->
  trim_start_all l = t :: skipn (S (first_non_ws_inline l k - k)) l.
Proof.
  revert k. induction l as [|u r IH]; intros k H Ht; cbn [first_non_ws_inline] in *.
  - destruct (k - k); discriminate.
  - cbn [trim_start_all]. destruct (is_ws u) eqn:Hu.
    + pose proof (fnwi_ge r (S k)) as Hb.
      replace (first_non_ws_inline r (S k) - k) with (S (first_non_ws_inline r (S k) - S k)) in * by lia.
      cbn [nth_error skipn] in *. apply (IH (S k)); assumption.
    + replace (k - k) with 0 in * by lia. cbn in H. inversion H; subst u. reflexivity.
Qed.

(* an invocation found with its parenthesis at absolute position ap: what split_args returns is strictly inside *)
Lemma split_args_bound after k rest args :
  nth_error after (first_non_ws_inline after k - k) = Some MLP ->
  split_args after = SOk rest args ->
  let inner := List.length after - (first_non_ws_inline after k - k) - 1 in
  List.length rest < inner /\ forall a, In a args -> List.length a <= inner.
Proof.
  intros Hn Hs. unfold split_args in Hs. rewrite (trim_start_fnwi after k MLP Hn eq_refl) in Hs.
  destruct (split_args_go _ [] 0 []) as [[r a]|] eqn:Hg; [|discriminate]. inversion Hs; subst r a.
  destruct (split_go_spec _ _ _ _ _ _ Hg) as [H1 H2].
  assert (Hlen : List.length (skipn (S (first_non_ws_inline after k - k)) after)
                 = List.length after - (first_non_ws_inline after k - k) - 1).
  { rewrite skipn_length. lia. }
  cbv zeta. rewrite <- Hlen. split; [exact H1|].
  intros a Ha. destruct (H2 a Ha) as [[]|Hl]. cbn [List.length] in Hl. lia.
Qed.

(* ---------- find_single_macro ---------- *)
Lemma first_non_ws_bound : forall l k d, first_non_ws l k = Some d -> k <= d < k + List.length l.
Proof.
  induction l as [|t r IH]; intros k d H; cbn [first_non_ws] in H; [discriminate|].
  destruct (is_ws t).
  - specialize (IH _ _ H). cbn [List.length]. lia.
  - inversion H; subst. cbn [List.length]. lia.
Qed.

Lemma pick_spec dis : forall ds mi0 x after i next lastfn mi,
  pick_macro ds dis mi0 x after i next lastfn = Some mi ->
  exists m, nth_error ds (mi - mi0) = Some m /\ mi0 <= mi /\ nth mi dis false = false /\
    (m_fn m = false -> next <= i) /\
    (m_fn m = true -> nth_error after (first_non_ws_inline after (S i) - S i) = Some MLP /\
                      next <= first_non_ws_inline after (S i)).
Proof.
  induction ds as [|m rest IH]; intros mi0 x after i next lastfn mi H; cbn [pick_macro] in H; [discriminate|].
  assert (Hskip : pick_macro rest dis (S mi0) x after i next lastfn = Some mi ->
                  exists m0, nth_error (m :: rest) (mi - mi0) = Some m0 /\ mi0 <= mi /\ nth mi dis false = false /\
                    (m_fn m0 = false -> next <= i) /\
                    (m_fn m0 = true -> nth_error after (first_non_ws_inline after (S i) - S i) = Some MLP /\
                                       next <= first_non_ws_inline after (S i))).
  { intros H'. destruct (IH _ _ _ _ _ _ _ H') as (m0 & Hn & Hle & Hd & Ho & Hf).
    exists m0. replace (mi - mi0) with (S (mi - S mi0)) by lia. cbn [nth_error].
    split; [exact Hn | split; [lia | split; [exact Hd | split; [exact Ho | exact Hf]]]]. }
  destruct (nth mi0 dis false) eqn:Hdis; [apply Hskip, H|].
  destruct ((match lastfn with Some k => Nat.eqb k mi0 | None => false end) && Nat.ltb i next); [apply Hskip, H|].
  destruct (String.eqb x (m_name m)); [|apply Hskip, H].
  destruct (m_fn m) eqn:Hfn.
  - destruct (nth_error after (first_non_ws_inline after (S i) - S i)) as [[]|] eqn:Hn; try (apply Hskip, H).
    destruct (Nat.ltb_spec (first_non_ws_inline after (S i)) next); [apply Hskip, H|].
    inversion H; subst mi. exists m. rewrite Nat.sub_diag. cbn [nth_error].
    split; [reflexivity | split; [lia | split; [exact Hdis | split; [congruence | intros _; split; [reflexivity | lia]]]]].
  - destruct (Nat.ltb_spec i next); [apply Hskip, H|].
    inversion H; subst mi. exists m. rewrite Nat.sub_diag. cbn [nth_error].
    split; [reflexivity | split; [lia | split; [exact Hdis | split; [intros _; lia | congruence]]]].
Qed.

Lemma find_from_spec defs dis next lastfn : forall l before i,
  match find_from defs dis before l i next lastfn with
  | FUser mi pos => exists mid x tail, l = mid ++ MId x :: tail /\ pos = i + List.length mid /\ noc mid /\
                      pick_macro defs dis 0 x tail pos next lastfn = Some mi
  | FConcat lp rp => exists mid tail dl dr, l = mid ++ MConcat :: tail /\ noc mid /\ next <= i + List.length mid /\
                      first_non_ws (rev mid ++ before) 0 = Some dl /\ lp = i + List.length mid - dl - 1 /\
                      first_non_ws tail 0 = Some dr /\ rp = i + List.length mid + dr + 1
  | FNone => noc l
  | FHang => exists mid tail, l = mid ++ MConcat :: tail /\ i + List.length mid < next
  | FErr _ => True
  end.
Proof.
  induction l as [|t r IH]; intros before i; cbn [find_from]; [constructor|].
  assert (Hrec : t <> MConcat ->
    match find_from defs dis (t :: before) r (S i) next lastfn with
    | FUser mi pos => exists mid x tail, t :: r = mid ++ MId x :: tail /\ pos = i + List.length mid /\ noc mid /\
                        pick_macro defs dis 0 x tail pos next lastfn = Some mi
    | FConcat lp rp => exists mid tail dl dr, t :: r = mid ++ MConcat :: tail /\ noc mid /\ next <= i + List.length mid /\
                        first_non_ws (rev mid ++ before) 0 = Some dl /\ lp = i + List.length mid - dl - 1 /\
                        first_non_ws tail 0 = Some dr /\ rp = i + List.length mid + dr + 1
    | FNone => noc (t :: r)
    | FHang => exists mid tail, t :: r = mid ++ MConcat :: tail /\ i + List.length mid < next
    | FErr _ => True
    end).
  { intros Ht. specialize (IH (t :: before) (S i)). destruct (find_from defs dis (t :: before) r (S i) next lastfn).
    - destruct IH as (mid & x & tail & -> & -> & Hn & Hp). exists (t :: mid), x, tail.
      repeat split; [cbn; lia | constructor; assumption | replace (i + List.length (t :: mid)) with (S i + List.length mid) by (cbn; lia); exact Hp].
    - destruct IH as (mid & tail & dl & dr & -> & Hn & Hle & Hl & -> & Hr & ->). exists (t :: mid), tail, dl, dr.
      repeat split; try assumption; try (cbn [List.length]; lia); [constructor; assumption|].
      cbn [rev]. rewrite <- app_assoc. exact Hl.
    - constructor; assumption.
    - exact Logic.I.
    - destruct IH as (mid & tail & -> & Hlt). exists (t :: mid), tail. split; [reflexivity | cbn [List.length]; lia]. }
  destruct t; try (apply Hrec; discriminate).
  - (* MId *)
    destruct (pick_macro defs dis 0 s r i next lastfn) as [mi|] eqn:Hp; [|apply Hrec; discriminate].
    exists [], s, r. repeat split; [cbn; lia | constructor | exact Hp].
  - (* MConcat *)
    destruct (Nat.ltb_spec i next).
    + exists [], r. split; [reflexivity | cbn; lia].
    + destruct (first_non_ws before 0) as [dl|] eqn:Hl; [|exact Logic.I].
      destruct (first_non_ws r 0) as [dr|] eqn:Hr; [|exact Logic.I].
      exists [], r, dl, dr. cbn [List.length app rev]. repeat split; try assumption; try lia. constructor.
Qed.

(* ---------- termination ---------- *)
Definition good (r : xres) : Prop :=
  match r with XOk out => noc out | XErr _ => True | XFuel => False | XHang => False end.

Lemma noc_app a b : noc a -> noc b -> noc (a ++ b).
Proof. intros. apply Forall_app. split; assumption. Qed.

Lemma firstn_app_length_eq {A} (a b : list A) : firstn (List.length a) (a ++ b) = a.
Proof. induction a as [|x a IH]; cbn; [destruct b; reflexivity | f_equal; exact IH]. Qed.

Lemma skipn_app_length_eq {A} (a b : list A) : skipn (List.length a) (a ++ b) = b.
Proof. induction a as [|x a IH]; cbn; [reflexivity | exact IH]. Qed.

Lemma split_at {A} (l a : list A) x t p :
  l = a ++ x :: t -> List.length a = p -> skipn (S p) l = t /\ firstn p l = a /\ List.length l = p + 1 + List.length t.
Proof.
  intros -> <-. repeat split.
  - replace (a ++ x :: t) with ((a ++ [x]) ++ t) by (rewrite <- app_assoc; reflexivity).
    replace (S (List.length a)) with (List.length (a ++ [x])) by (rewrite app_length; cbn; lia).
    apply skipn_app_length_eq.
  - apply firstn_app_length_eq.
  - rewrite app_length. cbn [List.length]. lia.
Qed.

Lemma firstn_In' {A} (n : nat) (l : list A) x : In x (firstn n l) -> In x l.
Proof. revert l. induction n; intros [|a l] H; cbn in *; try contradiction; destruct H; auto. Qed.

Lemma noc_firstn n l : noc l -> noc (firstn n l).
Proof. intros H. unfold noc in *. rewrite Forall_forall in *. intros x Hx. apply H. eapply firstn_In'. exact Hx. Qed.

Lemma all_ok_good (f : list mtok -> xres) args acc :
  (forall a, In a args -> good (f a)) -> Forall noc acc ->
  match all_ok (map f args) acc with
  | inl e => exists err, e = XErr err
  | inr l => Forall noc l
  end.
Proof.
  revert acc. induction args as [|a r IH]; intros acc Hf Hacc; cbn [map all_ok].
  - apply Forall_rev. exact Hacc.
  - pose proof (Hf a (or_introl eq_refl)) as Ha. destruct (f a); cbn [good] in Ha.
    + apply IH; [intros b Hb; apply Hf; right; exact Hb | constructor; assumption].
    + eexists; reflexivity.
    + destruct Ha.
    + destruct Ha.
Qed.

Section Term.
Variable paste : mtok -> mtok -> option mtok.
Variable defs : list macro.

Lemma loop_step_good self inner dis toks next early lastfn :
  (forall toks' next' early' lf',
      early' <= next' -> noc (firstn next' toks') ->
      List.length toks' - next' < List.length toks - next -> good (self toks' next' early' lf')) ->
  (forall mi out', mi < List.length defs -> nth mi dis false = false -> good (inner mi out')) ->
  early <= next -> noc (firstn next toks) ->
  good (loop_step paste defs self inner dis toks next early lastfn).
Proof.
  intros Hself Hinner Hen Hnoc. unfold loop_step.
  destruct (Nat.leb_spec (List.length toks) next) as [Hle|Hlt].
  { cbn [good]. rewrite firstn_all2 in Hnoc by exact Hle. exact Hnoc. }
  unfold find.
  pose proof (find_from_spec defs dis next lastfn (skipn early toks) (rev (firstn early toks)) early) as Hspec.
  assert (Hsplit : toks = firstn early toks ++ skipn early toks) by (symmetry; apply firstn_skipn).
  assert (Hfl : List.length (firstn early toks) = early) by (apply firstn_length_le; lia).
  assert (Hpre : noc (firstn early toks)).
  { replace (firstn early toks) with (firstn early (firstn next toks)).
    - apply noc_firstn. exact Hnoc.
    - rewrite firstn_firstn. f_equal. lia. }
  destruct (find_from defs dis (rev (firstn early toks)) (skipn early toks) early next lastfn) as [mi pos|lp rp| |e|].
  - (* a macro invocation *)
    destruct Hspec as (mid & x & tail & Hl & Hpos & Hmid & Hpick).
    destruct (pick_spec dis defs 0 x tail pos next lastfn mi Hpick) as (m & Hm & _ & Hdis & Hobj & Hfn).
    rewrite Nat.sub_0_r in Hm. rewrite Hm.
    assert (Hmi : mi < List.length defs) by (apply nth_error_Some; congruence).
    assert (Htoks : toks = (firstn early toks ++ mid) ++ MId x :: tail).
    { rewrite <- app_assoc. rewrite <- Hl. exact Hsplit. }
    assert (Hposlen : List.length (firstn early toks ++ mid) = pos) by (rewrite app_length; lia).
    destruct (split_at toks _ _ _ pos Htoks Hposlen) as (Hafter & Hfirst & Hlen).
    assert (Hnocpos : noc (firstn pos toks)) by (rewrite Hfirst; apply noc_app; assumption).
    rewrite Hafter.
    (* the common continuation *)
    assert (Hstep : forall rest args,
              List.length rest < List.length toks - next ->
              (forall a, In a args -> List.length a < List.length toks - next) ->
              good (match all_ok (map (fun a => self a 0 0 None) args) [] with
                    | inl e => e
                    | inr args' =>
                        match inner mi (subst (m_body m) args') with
                        | XOk out => self (firstn pos toks ++ out ++ rest) (pos + List.length out) pos
                                          (if m_fn m then Some mi else None)
                        | e => e
                        end
                    end)).
    { intros rest args Hrest Hargs.
      pose proof (all_ok_good (fun a => self a 0 0 None) args []) as Hall.
      destruct (all_ok (map (fun a => self a 0 0 None) args) []) as [e|args'].
      - assert (He : exists err, e = XErr err).
        { apply Hall; [|constructor]. intros a Ha. apply Hself; [lia | constructor | specialize (Hargs a Ha); lia]. }
        destruct He as [err ->]. exact Logic.I.
      - pose proof (Hinner mi (subst (m_body m) args') Hmi Hdis) as Hin.
        destruct (inner mi (subst (m_body m) args')) as [out| | |]; cbn [good] in Hin; try exact Hin.
        apply Hself.
        + lia.
        + replace (firstn (pos + List.length out) (firstn pos toks ++ out ++ rest)) with (firstn pos toks ++ out).
          * apply noc_app; assumption.
          * rewrite app_assoc. symmetry.
            replace (pos + List.length out) with (List.length (firstn pos toks ++ out))
              by (rewrite app_length, Hfirst, Hposlen; reflexivity).
            apply firstn_app_length_eq.
        + rewrite !app_length. rewrite Hfirst, Hposlen. lia. }
    destruct (m_fn m) eqn:Hfnm.
    + destruct (Hfn eq_refl) as [Hlp Hnext].
      destruct (split_args tail) as [rest args|e] eqn:Hsa; [|exact Logic.I].
      destruct (split_args_bound tail (S pos) rest args Hlp Hsa) as [Hr Ha].
      pose proof (fnwi_ge tail (S pos)) as Hb.
      assert (Hr' : List.length rest < List.length toks - next) by lia.
      assert (Ha' : forall a, In a args -> List.length a < List.length toks - next).
      { intros a Hin. specialize (Ha a Hin). lia. }
      destruct (Nat.eqb (m_params m) 0).
      * destruct args as [|a0 [|a1 ar]]; try exact Logic.I.
        destruct (forallb is_ws a0); [|exact Logic.I].
        apply Hstep; [exact Hr' | intros a []].
      * destruct (Nat.eqb (List.length args) (m_params m)); [|exact Logic.I].
        apply Hstep; assumption.
    + specialize (Hobj eq_refl). apply Hstep; [lia | intros a []].
  - (* ## *)
    destruct Hspec as (mid & tail & dl & dr & Hl & Hmid & Hnext & Hdl & -> & Hdr & ->).
    pose proof (first_non_ws_bound _ _ _ Hdl) as Bl. pose proof (first_non_ws_bound _ _ _ Hdr) as Br.
    rewrite app_length, rev_length, rev_length, Hfl in Bl.
    set (c := early + List.length mid) in *.
    assert (Htoks : toks = (firstn early toks ++ mid) ++ MConcat :: tail).
    { rewrite <- app_assoc. rewrite <- Hl. exact Hsplit. }
    assert (Hclen : List.length (firstn early toks ++ mid) = c) by (rewrite app_length; unfold c; lia).
    destruct (split_at toks _ _ _ c Htoks Hclen) as (_ & Hfirstc & Hlen).
    destruct (nth_error toks (c - dl - 1)) as [a|] eqn:Ha; [|apply nth_error_None in Ha; lia].
    destruct (nth_error toks (c + dr + 1)) as [b|] eqn:Hb; [|apply nth_error_None in Hb; lia].
    destruct (paste a b) as [t|]; [|exact Logic.I].
    apply Hself.
    + lia.
    + replace (firstn (c - dl - 1) (firstn (c - dl - 1) toks ++ t :: skipn (S (c + dr + 1)) toks))
        with (firstn (c - dl - 1) toks).
      * replace (firstn (c - dl - 1) toks) with (firstn (c - dl - 1) (firstn early toks ++ mid)).
        -- apply noc_firstn, noc_app; assumption.
        -- rewrite <- Hfirstc. rewrite firstn_firstn. f_equal. lia.
      * symmetry.
        replace (c - dl - 1) with (List.length (firstn (c - dl - 1) toks)) at 1 by (apply firstn_length_le; lia).
        apply firstn_app_length_eq.
    + rewrite app_length. cbn [List.length]. rewrite skipn_length, firstn_length_le by lia. lia.
  - cbn [good]. rewrite Hsplit. apply noc_app; assumption.
  - exact Logic.I.
  - (* the skipped increment is unreachable: no ## lies between early and next *)
    destruct Hspec as (mid & tail & Hl & Hlt').
    exfalso.
    assert (Hin : In MConcat (firstn next toks)).
    { rewrite Hsplit, Hl. rewrite firstn_app. apply in_or_app. right. rewrite Hfl.
      rewrite firstn_app. apply in_or_app. right.
      replace (next - early - List.length mid) with (S (next - early - List.length mid - 1)) by lia.
      cbn [firstn]. left. reflexivity. }
    unfold noc in Hnoc. rewrite Forall_forall in Hnoc. exact (Hnoc _ Hin eq_refl).
Qed.

End Term.

Section Term2.
Variable paste : mtok -> mtok -> option mtok.
Variable defs : list macro.

Definition enabled (dis : list bool) : nat := List.length (filter negb dis).

Lemma enabled_set dis mi : nth mi dis false = false -> mi < List.length dis ->
  S (enabled (set_nth dis mi true)) = enabled dis /\ List.length (set_nth dis mi true) = List.length dis.
Proof.
  revert mi. induction dis as [|b r IH]; intros mi Hn Hlt; [cbn in Hlt; lia|].
  destruct mi as [|j].
  - cbn in Hn. subst b. cbn. split; reflexivity.
  - cbn [nth] in Hn. cbn [List.length] in Hlt. destruct (IH j Hn ltac:(lia)) as [H1 H2].
    cbn [set_nth]. unfold enabled in *. cbn [filter List.length]. destruct b; cbn [negb List.length]; split; lia.
Qed.

Lemma expand_eq d dis n toks next early lastfn :
  expand paste defs (S d) dis (S n) toks next early lastfn =
  loop_step paste defs (expand paste defs (S d) dis n)
            (fun mi out => expand paste defs d (set_nth dis mi true) (S (List.length out)) out 0 0 None)
            dis toks next early lastfn.
Proof. reflexivity. Qed.

Lemma expand_good : forall d dis, List.length dis = List.length defs -> enabled dis < d ->
  forall n toks next early lastfn, early <= next -> noc (firstn next toks) -> List.length toks - next < n ->
  good (expand paste defs d dis n toks next early lastfn).
Proof.
  induction d as [|d IHd]; intros dis Hlen Hen; [lia|].
  induction n as [|n IHn]; intros toks next early lastfn Hle Hnoc Hm; [lia|].
  rewrite expand_eq. apply loop_step_good; try assumption.
  - intros toks' next' early' lf' H1 H2 H3. apply IHn; try assumption. lia.
  - intros mi out Hmi Hdis.
    destruct (enabled_set dis mi Hdis ltac:(lia)) as [He Hl].
    apply IHd; try lia.
    + constructor.
Qed.

Theorem apply_macros_good toks : good (apply_macros paste defs toks).
Proof.
  unfold apply_macros. apply expand_good; try lia.
  - rewrite map_length. reflexivity.
  - unfold enabled. assert (H : forall l : list macro, List.length (filter negb (map (fun _ => false) l)) = List.length l).
    { induction l as [|x r IH]; cbn; [reflexivity | rewrite IH; reflexivity]. }
    rewrite H. lia.
  - constructor.
Qed.

End Term2.

(* ---------- the file-level driver ---------- *)
Section DriverProofs.
Variable paste : mtok -> mtok -> option mtok.
Variable files : string -> option (list item).

Notation Run := (run paste files).

Fixpoint no_once (its : list item) : bool :=
  match its with
  | [] => true
  | IPragmaOnce :: _ => false
  | _ :: r => no_once r
  end.

(* more fuel never changes a verdict *)
Lemma run_mono : forall fuel self its st r, Run fuel self its st = inl r -> Run (S fuel) self its st = inl r.
Proof.
  induction fuel as [|fuel IH]; intros self its st r H; [discriminate|].
  cbn [run] in H. change (Run (S (S fuel)) self its st) with
    (match its with
     | [] => inl st
     | it :: rest =>
         match it with
         | IText ts =>
             match apply_macros paste (ps_macros st) ts with
             | XOk out => Run (S fuel) self rest {| ps_macros := ps_macros st; ps_once := ps_once st; ps_out := ps_out st ++ out |}
             | XErr e => inr (PMacro e) | XFuel => inr PFuel | XHang => inr PHang
             end
         | IDefine cmd =>
             match parse_define cmd with
             | Some m => Run (S fuel) self rest {| ps_macros := remove_macro (m_name m) (ps_macros st) ++ [m];
                                                   ps_once := ps_once st; ps_out := ps_out st |}
             | None => inr PInvalidDefine
             end
         | IUndef x => Run (S fuel) self rest {| ps_macros := remove_macro x (ps_macros st); ps_once := ps_once st; ps_out := ps_out st |}
         | IPragmaOnce => Run (S fuel) self rest {| ps_macros := ps_macros st; ps_once := self :: ps_once st; ps_out := ps_out st |}
         | IInclude f =>
             match files f with
             | None => inr PMissingFile
             | Some body =>
                 let body' := if existsb (String.eqb f) (ps_once st) then [] else body in
                 match Run (S fuel) f body' st with
                 | inl st' => Run (S fuel) self rest st'
                 | inr e => inr e
                 end
             end
         end
     end).
  destruct its as [|it rest]; [exact H|].
  destruct it as [ts|cmd|x|f|].
  - destruct (apply_macros paste (ps_macros st) ts); try discriminate. apply IH. exact H.
  - destruct (parse_define cmd); [|discriminate]. apply IH. exact H.
  - apply IH. exact H.
  - destruct (files f) as [body|]; [|discriminate]. cbv zeta in *.
    destruct (Run fuel f (if existsb (String.eqb f) (ps_once st) then [] else body) st) as [st'|e] eqn:H1; [|discriminate].
    rewrite (IH _ _ _ _ H1). apply IH. exact H.
  - apply IH. exact H.
Qed.

Lemma run_mono_le fuel fuel' self its st r : fuel <= fuel' -> Run fuel self its st = inl r -> Run fuel' self its st = inl r.
Proof. intros Hle Hr. induction Hle as [|k Hle IH]; [exact Hr | apply run_mono; exact IH]. Qed.

(* the name of the current file only matters for #pragma once *)
Lemma run_self_irrelevant : forall fuel self self' its st, no_once its = true -> Run fuel self its st = Run fuel self' its st.
Proof.
  induction fuel as [|fuel IH]; intros self self' its st Hn; [reflexivity|].
  destruct its as [|it rest]; [reflexivity|]. cbn [run].
  destruct it as [ts|cmd|x|f|]; cbn [no_once] in Hn; try discriminate.
  - destruct (apply_macros paste (ps_macros st) ts); try reflexivity. apply IH. exact Hn.
  - destruct (parse_define cmd); [|reflexivity]. apply IH. exact Hn.
  - apply IH. exact Hn.
  - destruct (files f) as [body|]; [|reflexivity]. cbv zeta.
    destruct (Run fuel f _ st); [|reflexivity]. apply IH. exact Hn.
Qed.

(* running a ++ b is running a and then b *)
Lemma run_app : forall f1 f2 self a b st st1 r,
  Run f1 self a st = inl st1 -> Run f2 self b st1 = inl r -> Run (f1 + f2) self (a ++ b) st = inl r.
Proof.
  induction f1 as [|f1 IH]; intros f2 self a b st st1 r Ha Hb; [discriminate|].
  destruct a as [|it rest].
  - cbn in Ha. inversion Ha; subst st1. cbn [app]. apply (run_mono_le f2); [lia | exact Hb].
  - cbn [run] in Ha. cbn [app Nat.add run].
    destruct it as [ts|cmd|x|f|].
    + destruct (apply_macros paste (ps_macros st) ts) as [out| | |]; try discriminate.
      apply (IH f2 self rest b _ st1 r Ha Hb).
    + destruct (parse_define cmd); [|discriminate]. apply (IH f2 self rest b _ st1 r Ha Hb).
    + apply (IH f2 self rest b _ st1 r Ha Hb).
    + destruct (files f) as [body|]; [|discriminate]. cbv zeta in *.
      destruct (Run f1 f (if existsb (String.eqb f) (ps_once st) then [] else body) st) as [st'|e] eqn:H1; [|discriminate].
      rewrite (run_mono_le f1 (f1 + f2) _ _ _ _ ltac:(lia) H1).
      apply (IH f2 self rest b _ st1 r Ha Hb).
    + apply (IH f2 self rest b _ st1 r Ha Hb).
Qed.

(* #include "f" is the items of f run in place (a file without #pragma once) *)
Theorem include_is_paste fuel self f body rest st st1 st2 :
  files f = Some body -> existsb (String.eqb f) (ps_once st) = false -> no_once body = true ->
  Run fuel f body st = inl st1 -> Run fuel self rest st1 = inl st2 ->
  Run (S fuel) self (IInclude f :: rest) st = inl st2 /\ Run (fuel + fuel) self (body ++ rest) st = inl st2.
Proof.
  intros Hf Ho Hn H1 H2. split.
  - cbn [run]. rewrite Hf, Ho. cbv zeta. rewrite H1. exact H2.
  - apply (run_app fuel fuel self body rest st st1 st2); [|exact H2].
    rewrite (run_self_irrelevant fuel self f body st Hn). exact H1.
Qed.

(* a file that was marked #pragma once contributes nothing when it is included again *)
Theorem pragma_once_second_time fuel self f body rest st :
  files f = Some body -> existsb (String.eqb f) (ps_once st) = true ->
  Run (S (S fuel)) self (IInclude f :: rest) st = Run (S fuel) self rest st.
Proof. intros Hf Ho. cbn [run]. rewrite Hf, Ho. reflexivity. Qed.

(* ... and a file with #pragma once at its top level is marked when it has been run *)
Lemma run_once_grows : forall fuel self its st st', Run fuel self its st = inl st' ->
  forall g, existsb (String.eqb g) (ps_once st) = true -> existsb (String.eqb g) (ps_once st') = true.
Proof.
  induction fuel as [|fuel IH]; intros self its st st' H g Hg; [discriminate|].
  destruct its as [|it rest]; cbn [run] in H; [inversion H; subst; exact Hg|].
  destruct it as [ts|cmd|x|f|].
  - destruct (apply_macros paste (ps_macros st) ts); try discriminate. apply (IH _ _ _ _ H). exact Hg.
  - destruct (parse_define cmd); [|discriminate]. apply (IH _ _ _ _ H). exact Hg.
  - apply (IH _ _ _ _ H). exact Hg.
  - destruct (files f) as [body|]; [|discriminate]. cbv zeta in H.
    destruct (Run fuel f _ st) as [st1|] eqn:H1; [|discriminate].
    apply (IH _ _ _ _ H). apply (IH _ _ _ _ H1). exact Hg.
  - apply (IH _ _ _ _ H). cbn [ps_once existsb]. rewrite Hg. apply orb_true_r.
Qed.

Theorem pragma_once_marks fuel f pre post st st' :
  Run fuel f (pre ++ IPragmaOnce :: post) st = inl st' -> no_once pre = true ->
  (forall g, In (IInclude g) pre -> False) ->
  existsb (String.eqb f) (ps_once st') = true.
Proof.
  revert fuel st. induction pre as [|it pre IH]; intros fuel st H Hn Hinc.
  - destruct fuel; [discriminate|]. cbn [app run] in H.
    apply (run_once_grows _ _ _ _ _ H). cbn [ps_once existsb]. rewrite String.eqb_refl. reflexivity.
  - destruct fuel; [discriminate|]. cbn [app run] in H.
    destruct it as [ts|cmd|x|g|]; cbn [no_once] in Hn; try discriminate.
    + destruct (apply_macros paste (ps_macros st) ts); try discriminate.
      apply (IH _ _ H Hn). intros g Hg. apply (Hinc g). right. exact Hg.
    + destruct (parse_define cmd); [|discriminate]. apply (IH _ _ H Hn). intros g Hg. apply (Hinc g). right. exact Hg.
    + apply (IH _ _ H Hn). intros g Hg. apply (Hinc g). right. exact Hg.
    + exfalso. apply (Hinc g). left. reflexivity.
Qed.

(* initial defines are #define lines run before the first line of the entry file *)
Theorem defines_are_define_lines fuel defines entry its r :
  no_once defines = true ->
  run_with_defines paste files fuel defines entry its = inl r ->
  Run (fuel + fuel) entry (defines ++ its) {| ps_macros := []; ps_once := []; ps_out := [] |} = inl r.
Proof.
  intros Hn H. unfold run_with_defines in H.
  destruct (Run fuel "<initial defines>"%string defines _) as [st|e] eqn:H1; [|discriminate].
  apply (run_app fuel fuel entry defines its _ st r); [|exact H].
  rewrite (run_self_irrelevant fuel entry "<initial defines>"%string defines _ Hn). exact H1.
Qed.

End DriverProofs.
