(* CondSubst.v — conditions with macros and `defined`: macro substitution followed by the condition parser gives the
   reference value of the condition in which every defined macro stands for its value, every other identifier for 0
   and `defined X` / `defined(X)` for 1 or 0. *)
From Coq Require Import List NArith Bool String Lia.
From RV Require Import Cond CondParserProofs.
Import ListNotations.
Local Open Scope list_scope.

Inductive dexpr :=
| DNum (n : N) | DTrue | DFalse
| DId (x : string)
| DDefined (x : string) (paren : bool)
| DNot (e : dexpr)
| DBin (op : binop) (l r : dexpr).

(* what the identifiers stand for *)
Fixpoint resolve (e : env) (d : dexpr) : cexpr :=
  match d with
  | DNum n => ENum n
  | DTrue => ETrue
  | DFalse => EFalse
  | DId x => match lookup e x with Some (Some v) => ENum v | _ => EId x end
  | DDefined x _ => ENum (b2n (defined e x))
  | DNot a => ENot (resolve e a)
  | DBin op l r => EBin op (resolve e l) (resolve e r)
  end.

Definition drank (d : dexpr) : nat := match d with DBin op _ _ => rank op | _ => 0 end.

(* the condition as written: minimal parentheses, as `raw` *)
Fixpoint rawd (d : dexpr) : list ctok :=
  let prd := fun (j : nat) (x : dexpr) =>
    if Nat.leb (drank x) j then rawd x else KLP :: rawd x ++ [KRP] in
  match d with
  | DNum n => [KNum n]
  | DTrue => [KTrue]
  | DFalse => [KFalse]
  | DId x => [KId x]
  | DDefined x false => [KId "defined"; KId x]
  | DDefined x true => [KId "defined"; KLP; KId x; KRP]
  | DNot x => KNot :: prd 0%nat x
  | DBin op l r => prd (rank op) l ++ optok op :: prd (Nat.pred (rank op)) r
  end.

(* identifiers used as values are not the word `defined` and not macros with an empty replacement list *)
Fixpoint dwf (e : env) (d : dexpr) : Prop :=
  match d with
  | DId x => String.eqb x "defined" = false /\ lookup e x <> Some None
  | DNot a => dwf e a
  | DBin _ l r => dwf e l /\ dwf e r
  | _ => True
  end.

Lemma erank_resolve e d : erank (resolve e d) = drank d.
Proof. destruct d; cbn [resolve erank drank]; try reflexivity. destruct (lookup e x) as [[v|]|]; reflexivity. Qed.

Lemma subst_cons_plain e t r :
  (forall x, t <> KId x) -> subst e (t :: r) = option_map (cons t) (subst e r).
Proof. intros H. destruct t; try reflexivity. exfalso. apply (H s). reflexivity. Qed.

Lemma optok_not_id op x : optok op <> KId x.
Proof. destruct op; discriminate. Qed.

Lemma subst_rawd e : forall d rest, dwf e d ->
  subst e (rawd d ++ rest) = option_map (app (raw (resolve e d))) (subst e rest).
Proof.
  assert (Hopt : forall (a b : list ctok) (o : option (list ctok)),
            option_map (app a) (option_map (app b) o) = option_map (app (a ++ b)) o).
  { intros a b [o|]; cbn; [rewrite app_assoc; reflexivity | reflexivity]. }
  assert (Hcons : forall (t : ctok) (a : list ctok) (o : option (list ctok)),
            option_map (cons t) (option_map (app a) o) = option_map (app (t :: a)) o).
  { intros t a [o|]; reflexivity. }
  induction d as [n| | |x|x p|a IH|op l IHl r IHr]; intros rest W.
  - cbn [rawd resolve raw app]. rewrite subst_cons_plain by discriminate. destruct (subst e rest); reflexivity.
  - cbn [rawd resolve raw app]. rewrite subst_cons_plain by discriminate. destruct (subst e rest); reflexivity.
  - cbn [rawd resolve raw app]. rewrite subst_cons_plain by discriminate. destruct (subst e rest); reflexivity.
  - cbn [rawd resolve app]. destruct W as [Wd Wl]. cbn [subst]. rewrite Wd.
    destruct (lookup e x) as [[v|]|]; cbn [raw]; try (destruct (subst e rest); reflexivity). congruence.
  - destruct p; cbn [rawd resolve raw app subst]; rewrite String.eqb_refl; destruct (subst e rest); reflexivity.
  - cbn [rawd resolve raw]. cbn [dwf] in W. rewrite erank_resolve.
    destruct (Nat.leb (drank a) 0).
    + cbn [app]. rewrite subst_cons_plain by discriminate. rewrite (IH rest W). apply Hcons.
    + cbn [app]. rewrite subst_cons_plain by discriminate. rewrite subst_cons_plain by discriminate.
      rewrite <- app_assoc. rewrite (IH ([KRP] ++ rest) W). cbn [app].
      rewrite subst_cons_plain by discriminate.
      destruct (subst e rest) as [o|]; cbn [option_map]; [|reflexivity].
      rewrite <- app_assoc. reflexivity.
  - cbn [rawd resolve raw]. destruct W as [Wl Wr]. rewrite !erank_resolve.
    assert (Hl : forall rest', subst e ((if Nat.leb (drank l) (rank op) then rawd l else KLP :: rawd l ++ [KRP]) ++ rest') =
                 option_map (app (if Nat.leb (drank l) (rank op) then raw (resolve e l) else KLP :: raw (resolve e l) ++ [KRP])) (subst e rest')).
    { intros rest'. destruct (Nat.leb (drank l) (rank op)); [apply (IHl rest' Wl)|].
      cbn [app]. rewrite subst_cons_plain by discriminate. rewrite <- app_assoc. rewrite (IHl _ Wl). cbn [app].
      rewrite subst_cons_plain by discriminate.
      destruct (subst e rest') as [o|]; cbn [option_map]; [|reflexivity]. rewrite <- app_assoc. reflexivity. }
    assert (Hr : forall rest', subst e ((if Nat.leb (drank r) (Nat.pred (rank op)) then rawd r else KLP :: rawd r ++ [KRP]) ++ rest') =
                 option_map (app (if Nat.leb (drank r) (Nat.pred (rank op)) then raw (resolve e r) else KLP :: raw (resolve e r) ++ [KRP])) (subst e rest')).
    { intros rest'. destruct (Nat.leb (drank r) (Nat.pred (rank op))); [apply (IHr rest' Wr)|].
      cbn [app]. rewrite subst_cons_plain by discriminate. rewrite <- app_assoc. rewrite (IHr _ Wr). cbn [app].
      rewrite subst_cons_plain by discriminate.
      destruct (subst e rest') as [o|]; cbn [option_map]; [|reflexivity]. rewrite <- app_assoc. reflexivity. }
    rewrite <- app_assoc. rewrite Hl. cbn [app].
    rewrite subst_cons_plain by (intros x; apply optok_not_id).
    rewrite Hr.
    destruct (subst e rest) as [o|]; cbn [option_map]; [|reflexivity].
    rewrite <- app_assoc. reflexivity.
Qed.

Theorem eval_cond_correct e d : dwf e d ->
  eval_cond e (rawd d) = inl (negb (N.eqb (ceval (resolve e d)) 0)).
Proof.
  intros W. unfold eval_cond.
  pose proof (subst_rawd e d [] W) as H. rewrite app_nil_r in H. rewrite H. cbn [subst option_map].
  rewrite app_nil_r. rewrite cond_parse_correct. reflexivity.
Qed.
