(* NameGenEquiv.v — renaming a scope's identifiers to other fresh identifiers renames the generated names and nothing else.
   "Fresh" is what the property means by it: the names of the scope are pairwise distinct, none of them has the form
   m_k for a name m of the scope, and no m_k is reserved.  For such a scope the generator has a closed form: a name
   that is unique and not reserved is kept, and the i-th symbol of any other name n gets n_i.  The closed form does not
   look at the spelling of a name except to ask whether it is reserved, so a renaming that keeps "reserved" as it was
   carries the result of the scope to the result of the renamed scope. *)
From Coq Require Import List NArith Bool String Ascii Arith Lia Permutation DecimalString DecimalN.
From RV Require Import Wire NameGen NameGenProofs.
Import ListNotations.
Local Open Scope string_scope.

(* ---------- n_k determines n and k ---------- *)
Fixpoint has_us (s : string) : bool :=
  match s with EmptyString => false | String c r => Ascii.eqb c "_" || has_us r end.

Lemma has_us_app a b : has_us (a ++ b) = has_us a || has_us b.
Proof. induction a as [|c a IH]; [reflexivity|]. cbn [append has_us]. rewrite IH, orb_assoc. reflexivity. Qed.

Lemma uint_no_us d : has_us (DecimalString.NilEmpty.string_of_uint d) = false.
Proof. induction d; cbn [DecimalString.NilEmpty.string_of_uint has_us]; try exact IHd; reflexivity. Qed.

Lemma show_N_no_us k : has_us (show_N k) = false.
Proof.
  unfold show_N, NilZero.string_of_uint. destruct (N.to_uint k); try reflexivity; apply (uint_no_us (_ u)) || idtac.
  all: cbn [DecimalString.NilEmpty.string_of_uint has_us]; cbn; apply uint_no_us.
Qed.

Lemma split_at_last_us : forall n m dk di, has_us dk = false -> has_us di = false ->
  n ++ "_" ++ dk = m ++ "_" ++ di -> n = m /\ dk = di.
Proof.
  induction n as [|c n IH]; intros m dk di Hk Hi E.
  - destruct m as [|c' m]; cbn [append] in E.
    + inversion E. split; reflexivity.
    + exfalso. inversion E as [[Hc Hr]]. subst dk. rewrite has_us_app in Hk. cbn [append has_us] in Hk.
      rewrite Ascii.eqb_refl in Hk. cbn in Hk. rewrite orb_true_r in Hk. discriminate.
  - destruct m as [|c' m]; cbn [append] in E.
    + exfalso. inversion E as [[Hc Hr]]. subst di. rewrite has_us_app in Hi. cbn [append has_us] in Hi.
      rewrite Ascii.eqb_refl in Hi. cbn in Hi. rewrite orb_true_r in Hi. discriminate.
    + inversion E as [[Hc Hr]]. destruct (IH m dk di Hk Hi Hr) as [-> ->]. split; reflexivity.
Qed.

Lemma cand_inj2 n m k i : cand n k = cand m i -> n = m /\ k = i.
Proof.
  unfold cand. intros E. destruct (split_at_last_us n m (show_N k) (show_N i) (show_N_no_us k) (show_N_no_us i) E) as [-> H].
  split; [reflexivity|apply show_N_inj; exact H].
Qed.

(* ---------- the search finds the first free candidate ---------- *)
Lemma find_free_first free name : forall d k fuel,
  (forall j, (j < d)%nat -> free (cand name (k + N.of_nat j)) = false) ->
  free (cand name (k + N.of_nat d)) = true -> (d < fuel)%nat ->
  find_free free name k fuel = Some (cand name (k + N.of_nat d)).
Proof.
  induction d as [|d IH]; intros k fuel Hb Hf Hl; (destruct fuel as [|fuel]; [lia|]); cbn [find_free].
  - rewrite N.add_0_r in Hf. rewrite Hf. rewrite N.add_0_r. reflexivity.
  - assert (F0 := Hb 0%nat ltac:(lia)). rewrite N.add_0_r in F0. rewrite F0.
    replace (k + N.of_nat (S d))%N with (k + 1 + N.of_nat d)%N in * by lia.
    apply IH; [|exact Hf|lia].
    intros j Hj. specialize (Hb (S j) ltac:(lia)). replace (k + N.of_nat (S j))%N with (k + 1 + N.of_nat j)%N in Hb by lia. exact Hb.
Qed.

Section Equiv.
Variable reserved : list string.

Notation is_kept := (is_kept reserved).
Notation kept_names := (kept_names reserved).
Notation gen_entries := (gen_entries reserved).
Notation assign_scope := (assign_scope reserved).
Notation kept_assignments := (kept_assignments reserved).

Definition names (es : list entry) : list string := map e_name es.

Definition Fresh (es : list entry) : Prop :=
  NoDup (names es) /\
  (forall n m k, In n (names es) -> In m (names es) -> n <> cand m k) /\
  (forall m k, In m (names es) -> ~ In (cand m k) reserved).

(* the closed form: the i-th symbol of a name that is not kept gets name_i *)
Fixpoint number (name : string) (k : N) (syms : list sym) : list (sym * string) :=
  match syms with [] => [] | s :: r => (s, cand name k) :: number name (k + 1) r end.
Definition closed_entry (e : entry) : list (sym * string) :=
  if is_kept e then [] else number (e_name e) 0 (e_syms e).
Definition closed_gen (es : list entry) : list (sym * string) := flat_map closed_entry es.

Lemma gen_syms_closed n syms : forall j used out,
  (forall k, In (cand n k) used <-> (k < j)%N) -> (N.to_nat j <= List.length used)%nat ->
  gen_syms n syms used out =
    Some ((rev (map snd (number n j syms)) ++ used)%list, (rev (number n j syms) ++ out)%list).
Proof.
  induction syms as [|s r IH]; intros j used out Hu Hl; cbn [NameGen.gen_syms number map rev app]; [reflexivity|].
  assert (F : find_free (fun c => negb (in_str c used)) n 0 (S (List.length used)) = Some (cand n j)).
  { assert (E : cand n j = cand n (0 + N.of_nat (N.to_nat j))) by (f_equal; lia). rewrite E.
    apply find_free_first; [| |lia].
    - intros i Hi. apply negb_false_iff, in_str_In. apply Hu. lia.
    - apply negb_true_iff, in_str_false. rewrite Hu. lia. }
  rewrite F. rewrite (IH (j + 1)%N (cand n j :: used) ((s, cand n j) :: out)).
  - rewrite <- !app_assoc. reflexivity.
  - intros k. cbn [In]. rewrite Hu. split.
    + intros [E|H]; [apply cand_inj in E; lia|lia].
    + intros H. destruct (N.eq_dec k j) as [->|Ne]; [left; reflexivity|right; lia].
  - cbn [List.length]. lia.
Qed.

Lemma number_names n : forall syms j x, In x (map snd (number n j syms)) -> exists k, x = cand n k.
Proof.
  induction syms as [|s r IH]; intros j x H; cbn [number map In] in H; [contradiction|].
  destruct H as [<-|H]; [eexists; reflexivity|eapply IH; exact H].
Qed.

Lemma gen_entries_closed es : forall used out,
  NoDup (names es) ->
  (forall e k, In e es -> ~ In (cand (e_name e) k) used) ->
  gen_entries es used out =
    Some ((rev (map snd (closed_gen es)) ++ used)%list, (rev (closed_gen es) ++ out)%list).
Proof.
  induction es as [|e r IH]; intros used out Hnd Hc; [reflexivity|].
  change (closed_gen (e :: r)) with (closed_entry e ++ closed_gen r)%list.
  cbn [NameGen.gen_entries].
  inversion Hnd as [|x l Hx Hr]; subst.
  assert (CE : closed_entry e = if is_kept e then [] else number (e_name e) 0 (e_syms e)) by reflexivity.
  destruct (is_kept e) eqn:K; rewrite CE.
  - cbn [app]. apply IH; [exact Hr|]. intros e' k He'. apply Hc. right. exact He'.
  - rewrite (gen_syms_closed (e_name e) (e_syms e) 0%N used out).
    + rewrite IH; [|exact Hr|].
      * rewrite !map_app, !rev_app_distr, <- !app_assoc. reflexivity.
      * intros e' k He' Hin. apply in_app_iff in Hin as [Hin|Hin].
        -- apply in_rev in Hin. apply number_names in Hin as (i & E). apply cand_inj2 in E as [E _].
           apply Hx. unfold names. rewrite <- E. apply in_map. exact He'.
        -- apply (Hc e' k (or_intror He') Hin).
    + intros k. split; [intros H; exfalso; apply (Hc e k (or_introl eq_refl) H)|lia].
    + cbn. lia.
Qed.

Theorem assign_scope_fresh es : Fresh es ->
  assign_scope es = Some (kept_assignments es, closed_gen (sort_entries es)).
Proof.
  intros (Hnd & Hform & Hres). unfold NameGen.assign_scope.
  assert (P := sort_entries_perm es).
  rewrite (gen_entries_closed (sort_entries es) (kept_names es ++ reserved)%list []).
  - rewrite app_nil_r, rev_involutive. reflexivity.
  - unfold names. apply (Permutation_NoDup (l := map e_name es)); [apply Permutation_map, Permutation_sym, P|exact Hnd].
  - intros e k He Hin. apply (Permutation_in _ P) in He.
    assert (Hn : In (e_name e) (names es)) by (apply in_map; exact He).
    apply in_app_iff in Hin as [Hin|Hin].
    + unfold NameGen.kept_names in Hin. apply in_map_iff in Hin as (e' & E & He'). apply filter_In in He' as [He' _].
      apply (Hform (e_name e') (e_name e) k); [apply in_map; exact He'|exact Hn|exact E].
    + apply (Hres (e_name e) k Hn Hin).
Qed.

(* ---------- renaming ---------- *)
Definition ren_entry (f : string -> string) (e : entry) : entry := mkEntry (f (e_name e)) (e_syms e).
Definition ren (f : string -> string) (es : list entry) : list entry := map (ren_entry f) es.

(* what the closed form of the renamed scope is, written over the original scope *)
Definition ren_closed_entry (f : string -> string) (e : entry) : list (sym * string) :=
  if is_kept e then [] else number (f (e_name e)) 0 (e_syms e).
Definition ren_closed_gen (f : string -> string) (es : list entry) : list (sym * string) := flat_map (ren_closed_entry f) es.

Definition keeps_reserved (f : string -> string) (es : list entry) : Prop :=
  forall n, In n (names es) -> in_str (f n) reserved = in_str n reserved.

Lemma is_kept_ren f es e : keeps_reserved f es -> In e es -> is_kept (ren_entry f e) = is_kept e.
Proof.
  intros H He. unfold NameGen.is_kept, ren_entry. cbn [e_syms e_name].
  destruct (e_syms e) as [|s [|s' r]]; try reflexivity. rewrite (H (e_name e) (in_map e_name es e He)). reflexivity.
Qed.

Lemma kept_assignments_ren f es : keeps_reserved f es ->
  kept_assignments (ren f es) = map (fun p => (fst p, f (snd p))) (kept_assignments es).
Proof.
  intros H. unfold NameGen.kept_assignments, ren.
  assert (G : forall l, incl l es ->
    flat_map (fun e => if is_kept e then map (fun s => (s, e_name e)) (e_syms e) else []) (map (ren_entry f) l) =
    map (fun p => (fst p, f (snd p))) (flat_map (fun e => if is_kept e then map (fun s => (s, e_name e)) (e_syms e) else []) l)).
  { induction l as [|e l IH]; intros Hi; [reflexivity|]. cbn [map flat_map]. rewrite map_app.
    rewrite IH by (intros x Hx; apply Hi; right; exact Hx). f_equal.
    rewrite (is_kept_ren f es e H (Hi e (or_introl eq_refl))). destruct (is_kept e); [|reflexivity].
    cbn [ren_entry e_syms e_name]. rewrite map_map. reflexivity. }
  apply G. apply incl_refl.
Qed.

Lemma closed_gen_ren f es l : keeps_reserved f es -> incl l es ->
  closed_gen (ren f l) = ren_closed_gen f l.
Proof.
  intros H. induction l as [|e l IH]; intros Hi; [reflexivity|].
  unfold closed_gen, ren_closed_gen, ren in *. cbn [map flat_map].
  rewrite IH by (intros x Hx; apply Hi; right; exact Hx). f_equal.
  unfold closed_entry, ren_closed_entry. rewrite (is_kept_ren f es e H (Hi e (or_introl eq_refl))). reflexivity.
Qed.

Lemma flat_map_perm {A B} (g : A -> list B) l l' : Permutation l l' -> Permutation (flat_map g l) (flat_map g l').
Proof.
  induction 1 as [|x l l' P IH|x y l|l l' l'' P1 IH1 P2 IH2]; cbn [flat_map].
  - constructor.
  - apply Permutation_app_head. exact IH.
  - rewrite !app_assoc. apply Permutation_app_tail. apply Permutation_app_comm.
  - eapply Permutation_trans; eassumption.
Qed.

(* the scope and the renamed scope: same kept symbols with renamed names, same numbered symbols with the same numbers
   on the renamed base names *)
Theorem rename_equivariant f es :
  Fresh es -> Fresh (ren f es) -> keeps_reserved f es ->
  exists G G',
    assign_scope es = Some (kept_assignments es, G) /\
    assign_scope (ren f es) = Some (map (fun p => (fst p, f (snd p))) (kept_assignments es), G') /\
    Permutation G (closed_gen es) /\ Permutation G' (ren_closed_gen f es).
Proof.
  intros F1 F2 Hk.
  exists (closed_gen (sort_entries es)), (closed_gen (sort_entries (ren f es))).
  split; [apply assign_scope_fresh; exact F1|].
  split; [rewrite (assign_scope_fresh (ren f es) F2), (kept_assignments_ren f es Hk); reflexivity|].
  split.
  - apply flat_map_perm. apply sort_entries_perm.
  - rewrite <- (closed_gen_ren f es es Hk (incl_refl es)). apply flat_map_perm. apply sort_entries_perm.
Qed.

End Equiv.

(* ---------- a sufficient test for freshness: no name and no reserved word looks like a generated name ---------- *)
Definition is_dig (c : ascii) : bool := (48 <=? N_of_ascii c)%N && (N_of_ascii c <=? 57)%N.
Fixpoint all_digits (s : string) : bool :=
  match s with EmptyString => true | String c r => is_dig c && all_digits r end.
Definition nonempty (s : string) : bool := match s with EmptyString => false | _ => true end.

(* s = a ++ "_" ++ d for some a and some non-empty string of digits d *)
Fixpoint gen_shaped (s : string) : bool :=
  match s with
  | EmptyString => false
  | String c r => (Ascii.eqb c "_" && nonempty r && all_digits r) || gen_shaped r
  end.

Lemma uint_all_digits d : all_digits (DecimalString.NilEmpty.string_of_uint d) = true.
Proof. induction d; cbn [DecimalString.NilEmpty.string_of_uint all_digits]; try exact IHd; reflexivity. Qed.

Lemma show_N_digits k : all_digits (show_N k) = true /\ nonempty (show_N k) = true.
Proof.
  unfold show_N, NilZero.string_of_uint. destruct (N.to_uint k) eqn:E; cbn [DecimalString.NilEmpty.string_of_uint all_digits nonempty];
    try (split; [apply uint_all_digits|reflexivity]). split; reflexivity.
Qed.

Lemma cand_gen_shaped m k : gen_shaped (cand m k) = true.
Proof.
  unfold cand. induction m as [|c m IH].
  - cbn [append gen_shaped]. destruct (show_N_digits k) as [D Ne]. rewrite D, Ne. reflexivity.
  - change (String c m ++ "_" ++ show_N k) with (String c (m ++ "_" ++ show_N k)). cbn [gen_shaped].
    rewrite IH. apply orb_true_r.
Qed.

Definition plain_names (l : list string) : bool := forallb (fun n => negb (gen_shaped n)) l.

Lemma plain_not_cand l n m k : plain_names l = true -> In n l -> n <> cand m k.
Proof.
  intros P Hn E. unfold plain_names in P. rewrite forallb_forall in P. specialize (P n Hn).
  rewrite E, cand_gen_shaped in P. discriminate.
Qed.

Theorem fresh_intro reserved es :
  NoDup (names es) -> plain_names (names es) = true -> plain_names reserved = true -> Fresh reserved es.
Proof.
  intros Hnd Pn Pr. repeat split.
  - exact Hnd.
  - intros n m k Hn _. apply (plain_not_cand (names es)); assumption.
  - intros m k _ Hin. apply (plain_not_cand reserved (cand m k) m k Pr Hin). reflexivity.
Qed.

(* ---------- local variables ---------- *)
(* how many of the locals already named had this name and were renamed *)
Fixpoint occ (used0 : list string) (done : list (N * string)) (n : string) : N :=
  match done with
  | [] => 0%N
  | (_, m) :: r => ((if String.eqb m n && in_str m used0 then 1 else 0) + occ used0 r n)%N
  end.

(* the closed form: a local whose name is taken gets name_j, j counting the earlier renamed locals of that name *)
Fixpoint closed_locals (f : string -> string) (used0 : list string) (done locals : list (N * string)) : list (N * string) :=
  match locals with
  | [] => []
  | (id, n) :: r =>
      (id, if in_str n used0 then cand (f n) (occ used0 done n) else f n) :: closed_locals f used0 ((id, n) :: done) r
  end.

Definition LocalsFresh (locals : list (N * string)) (used0 : list string) : Prop :=
  (forall n m k, In n (map snd locals) -> n <> cand m k) /\
  (forall n k, In n (map snd locals) -> ~ In (cand n k) used0).

Lemma assign_locals_closed (S : list string) (all used0 : list string) :
  (forall n m k, In n S -> n <> cand m k) ->
  (forall n k, In n S -> ~ In (cand n k) used0) ->
  incl all S ->
  forall locals done used out,
    incl (map snd locals) S ->
    (forall n, In n S -> in_str n used = in_str n used0) ->
    (forall n k, In n S -> (In (cand n k) used <-> (k < occ used0 done n)%N)) ->
    (forall n, (N.to_nat (occ used0 done n) + List.length used0 <= List.length used)%nat) ->
    assign_locals locals all used out = Some (rev out ++ closed_locals (fun x => x) used0 done locals)%list.
Proof.
  intros HA HB Hall.
  induction locals as [|[id n] r IH]; intros done used out Hin I1 I2 I3; cbn [NameGen.assign_locals closed_locals].
  - rewrite app_nil_r. reflexivity.
  - assert (Hn : In n S) by (apply Hin; left; reflexivity).
    assert (Hr : incl (map snd r) S) by (intros x Hx; apply Hin; right; exact Hx).
    rewrite (I1 n Hn). destruct (in_str n used0) eqn:U.
    + set (j := occ used0 done n).
      assert (F : find_free (fun c => negb (in_str c all) && negb (in_str c used)) n 0
                    (Datatypes.S (List.length all + List.length used)) = Some (cand n j)).
      { assert (E : cand n j = cand n (0 + N.of_nat (N.to_nat j))) by (f_equal; lia). rewrite E.
        apply find_free_first.
        - intros i Hi. apply andb_false_iff. right. apply negb_false_iff, in_str_In. apply (I2 n _ Hn). unfold j in Hi. lia.
        - apply andb_true_iff. split; apply negb_true_iff, in_str_false.
          + intros Hc. apply (HA _ n (0 + N.of_nat (N.to_nat j))%N (Hall _ Hc)). reflexivity.
          + rewrite (I2 n _ Hn). fold j. lia.
        - specialize (I3 n). fold j in I3. lia. }
      rewrite F.
      rewrite (IH ((id, n) :: done) (cand n j :: used) ((id, cand n j) :: out) Hr).
      * cbn [rev]. rewrite <- app_assoc. reflexivity.
      * intros m Hm. cbn [in_str existsb]. fold (in_str m used).
        replace (String.eqb m (cand n j)) with false; [apply I1; exact Hm|].
        symmetry. apply String.eqb_neq. apply HA. exact Hm.
      * intros m k Hm. cbn [In occ]. rewrite (I2 m k Hm). rewrite U, andb_true_r.
        destruct (String.eqb n m) eqn:E.
        -- apply String.eqb_eq in E. subst m. fold j. split.
           ++ intros [Hc|Hlt]; [apply cand_inj in Hc; lia|lia].
           ++ intros Hlt. destruct (N.eq_dec k j) as [->|Ne]; [left; reflexivity|right; lia].
        -- apply String.eqb_neq in E. split.
           ++ intros [Hc|Hlt]; [apply cand_inj2 in Hc as [Hc _]; congruence|lia].
           ++ intros Hlt. right. lia.
      * intros m. cbn [occ List.length]. specialize (I3 m). destruct (String.eqb n m && in_str n used0); lia.
    + rewrite (IH ((id, n) :: done) used ((id, n) :: out) Hr).
      * cbn [rev]. rewrite <- app_assoc. reflexivity.
      * exact I1.
      * intros m k Hm. cbn [occ]. rewrite U, andb_false_r. rewrite (I2 m k Hm). reflexivity.
      * intros m. cbn [occ]. rewrite U, andb_false_r. apply I3.
Qed.

Theorem assign_locals_fresh locals used0 :
  LocalsFresh locals used0 ->
  assign_locals locals (map snd locals) used0 [] = Some (closed_locals (fun x => x) used0 [] locals).
Proof.
  intros [HA HB].
  rewrite (assign_locals_closed (map snd locals) (map snd locals) used0 HA HB (incl_refl _) locals [] used0 []).
  - reflexivity.
  - apply incl_refl.
  - intros n _. reflexivity.
  - intros n k Hn. cbn [occ]. split; [intros H; exfalso; apply (HB n k Hn H)|lia].
  - intros n. cbn. lia.
Qed.

(* renaming the locals *)
Definition ren_locals (f : string -> string) (locals : list (N * string)) : list (N * string) :=
  map (fun p => (fst p, f (snd p))) locals.

Lemma occ_ren f used0 used0' (S : list string) :
  (forall a b, In a S -> In b S -> f a = f b -> a = b) ->
  (forall n, In n S -> in_str (f n) used0' = in_str n used0) ->
  forall done n, incl (map snd done) S -> In n S ->
  occ used0' (ren_locals f done) (f n) = occ used0 done n.
Proof.
  intros Hinj Hmem. induction done as [|[id m] r IH]; intros n Hd Hn; [reflexivity|].
  cbn [ren_locals map occ fst snd].
  assert (Hm : In m S) by (apply Hd; left; reflexivity).
  rewrite (Hmem m Hm). fold (ren_locals f r). rewrite (IH n (fun x Hx => Hd x (or_intror Hx)) Hn).
  replace (String.eqb (f m) (f n)) with (String.eqb m n); [reflexivity|].
  destruct (String.eqb m n) eqn:E.
  - apply String.eqb_eq in E. subst. symmetry. apply String.eqb_refl.
  - symmetry. apply String.eqb_neq. intros Hf. apply String.eqb_neq in E. apply E. apply Hinj; assumption.
Qed.

Lemma closed_locals_ren f used0 used0' (S : list string) :
  (forall a b, In a S -> In b S -> f a = f b -> a = b) ->
  (forall n, In n S -> in_str (f n) used0' = in_str n used0) ->
  forall locals done, incl (map snd done) S -> incl (map snd locals) S ->
  closed_locals (fun x => x) used0' (ren_locals f done) (ren_locals f locals) = closed_locals f used0 done locals.
Proof.
  intros Hinj Hmem. induction locals as [|[id n] r IH]; intros done Hd Hl; [reflexivity|].
  cbn [ren_locals map closed_locals fst snd].
  assert (Hn : In n S) by (apply Hl; left; reflexivity).
  rewrite (Hmem n Hn). fold (ren_locals f done). rewrite (occ_ren f used0 used0' S Hinj Hmem done n Hd Hn).
  f_equal. fold (ren_locals f r).
  change ((id, f n) :: ren_locals f done) with (ren_locals f ((id, n) :: done)).
  apply IH; [|intros x Hx; apply Hl; right; exact Hx].
  intros x [<-|Hx]; [exact Hn|apply Hd; exact Hx].
Qed.

(* the locals and the renamed locals: a local that kept its name keeps the renamed name, the j-th renamed local of a
   name n, which got n_j, gets (f n)_j *)
Theorem rename_locals_equivariant f locals used0 used0' :
  LocalsFresh locals used0 -> LocalsFresh (ren_locals f locals) used0' ->
  (forall a b, In a (map snd locals) -> In b (map snd locals) -> f a = f b -> a = b) ->
  (forall n, In n (map snd locals) -> in_str (f n) used0' = in_str n used0) ->
  assign_locals locals (map snd locals) used0 [] = Some (closed_locals (fun x => x) used0 [] locals) /\
  assign_locals (ren_locals f locals) (map snd (ren_locals f locals)) used0' [] = Some (closed_locals f used0 [] locals).
Proof.
  intros F1 F2 Hinj Hmem. split; [apply assign_locals_fresh; exact F1|].
  rewrite (assign_locals_fresh _ _ F2).
  rewrite <- (closed_locals_ren f used0 used0' (map snd locals) Hinj Hmem locals [] (fun x (H : In x []) => match H with end) (incl_refl _)).
  reflexivity.
Qed.
