(* EvaluatorProofs.v — the table-driven evaluator equals the reference evaluator, for any arm
   tables that pass the (decidable) agreement checks. *)
From Coq Require Import List ZArith NArith Bool String Lia.
From Flocq Require Import Core IEEE754.BinarySingleNaN.
From RV Require Import EvalSem Evaluator.
Import ListNotations.
Local Open Scope Z_scope.

Definition arith_eqb (a b : arith) : bool :=
  match a, b with
  | OAdd, OAdd | OSub, OSub | OMul, OMul | ODiv, ODiv | ORem, ORem | OShl, OShl | OShr, OShr
  | OAnd, OAnd | OOr, OOr | OXor, OXor | ONeg, ONeg => true
  | _, _ => false
  end.
Definition cmp_eqb (a b : cmp) : bool :=
  match a, b with CLt, CLt | CLe, CLe | CGt, CGt | CGe, CGe => true | _, _ => false end.
Definition is_wrapping (f : flavour) : bool := match f with FWrapping => true | _ => false end.
Definition is_checked (f : flavour) : bool := match f with FChecked | FExact => true | _ => false end.
Definition is_exact (f : flavour) : bool := match f with FExact => true | _ => false end.
Definition is_bare (f : flavour) : bool := match f with FBare => true | _ => false end.
Definition is_lit (k : ckind) : bool := match k with KIntLiteral => true | _ => false end.

Lemma ckind_eqb_eq a b : ckind_eqb a b = true -> a = b.
Proof. destruct a, b; cbn; intros H; try reflexivity; discriminate. Qed.
Lemma arith_eqb_eq a b : arith_eqb a b = true -> a = b.
Proof. destruct a, b; cbn; intros H; try reflexivity; discriminate. Qed.
Lemma cmp_eqb_eq a b : cmp_eqb a b = true -> a = b.
Proof. destruct a, b; cbn; intros H; try reflexivity; discriminate. Qed.

(* which Rust operator flavours have HLSL semantics, for each operand kind and operation *)
Definition good_arith (k : ckind) (f : flavour) (o : arith) (zc : bool) : bool :=
  match o with
  | OAdd | OSub | OMul => negb zc && (if is_lit k then is_checked f else is_wrapping f)
  | ODiv => is_checked f
  | ORem => if is_lit k then is_checked f else zc && (is_wrapping f || (is_bare f && negb (signed k)))
  | OShl => negb zc && (if is_lit k then is_exact f else is_wrapping f)
  | OShr => negb zc && (if is_lit k then is_checked f && negb (is_exact f) else is_wrapping f)
  | OAnd | OOr | OXor => negb zc
  | ONeg => false
  end.

Lemma wrap_id k z : in_range k z = true -> wrap k z = z.
Proof.
  unfold in_range, wrap. intros H. apply andb_true_iff in H as [H1 H2]. apply Z.leb_le in H1, H2.
  assert (B : hi k - lo k + 1 = 2 ^ bits k).
  { unfold hi, lo. destruct (signed k).
    - replace (2 ^ bits k) with (2 * 2 ^ (bits k - 1)); [lia|].
      rewrite <- Z.pow_succ_r by (destruct k; cbn; lia). f_equal. lia.
    - lia. }
  rewrite Z.mod_small by lia. lia.
Qed.

Lemma good_arith_sound k f o zc :
  arith_int k = true -> good_arith k f o zc = true ->
  forall debug a b, rust_arith debug k f o zc a b = ref_arith k o a b.
Proof.
  intros Hk Hg debug a b.
  destruct k; try discriminate; destruct o, f, zc; try discriminate; cbn in Hg; try discriminate;
    unfold rust_arith, ref_arith; cbn [andb is_lit bits];
    repeat match goal with
           | |- context [if ?c then _ else _] => destruct c eqn:?
           end; try reflexivity; try discriminate;
    try (unfold shift; rewrite wrap_id; [reflexivity|]);
    try match goal with H : (_ && _)%bool = true |- _ => apply andb_true_iff in H; destruct H end;
    try assumption; try congruence.
Qed.

(* tag-level agreement between an arm of the implementation's table and the reference *)
Definition agree_bin (sp : option ssem) (s : option bsem) (t : btag) : bool :=
  match sp with
  | Some SEq => match t with TEq => true | _ => false end
  | Some SNe => match t with TNe => true | _ => false end
  | None =>
      match s, t with
      | Some (BArith k f o zc), TArith k' o' => ckind_eqb k k' && arith_eqb o o' && good_arith k f o zc
      | Some (BCmp c), TCmp c' => cmp_eqb c c'
      | Some BBoolAnd, TBoolAnd | Some BBoolOr, TBoolOr => true
      | Some BNotConst, TBNone | None, TBNone => true
      | _, _ => false
      end
  end.

Definition agree_un (s : option usem) (t : utag) : bool :=
  match s, t with
  | Some (UStep k f o), TStep k' o' => ckind_eqb k k' && arith_eqb o o' && is_wrapping f
  | Some (UNeg k f), TNeg k' => ckind_eqb k k' && (if is_lit k then is_checked f else is_wrapping f)
  | Some (UNeg k _), TFNeg k' => ckind_eqb k k'
  | Some (UNot k), TLNot => ckind_eqb k KBool
  | Some (UNot k), TBNot k' => ckind_eqb k k'
  | Some UClone, TPlus => true
  | Some UPanic, TUPanic => true
  | Some UNotConst, TUNone | None, TUNone => true
  | _, _ => false
  end.

Definition agree_cast (s : option csem) (t : ctag) (k : ckind) : bool :=
  match s, t with
  | Some (CKeep k'), TToBool => ckind_eqb k KBool
  | Some CNonZero, TToBool => is_int_kind k
  | Some CFNonZero, TToBool => is_f64_kind k || is_f32_kind k
  | Some (CAs k' (Ri32 | Ru32)), TToInt k'' => ckind_eqb k' k'' && negb (ckind_eqb k k')
  | Some (CKeep k'), TToInt k'' => ckind_eqb k' k'' && ckind_eqb k k'
  | Some (CAs k' Rf32), TToF32 k'' => ckind_eqb k' k'' && negb (ckind_eqb k KBool)
  | Some (CKeep k'), TToF32 k'' => ckind_eqb k' k'' && is_f32_kind k
  | Some (CBoolToFloat k'), TToF32 k'' => ckind_eqb k' k'' && ckind_eqb k KBool && is_f32_kind k'
  | Some (CAs k' Rf64), TToF64 k'' => ckind_eqb k' k'' && negb (ckind_eqb k KBool)
  | Some (CKeep k'), TToF64 k'' => ckind_eqb k' k'' && is_f64_kind k
  | Some (CBoolToFloat k'), TToF64 k'' => ckind_eqb k' k'' && ckind_eqb k KBool && is_f64_kind k'
  | Some CNotConst, TCNone | None, TCNone => true
  | _, _ => false
  end.

(* shape consistency of constants: the payload shape matches the kind tag; enum payloads are plain integers *)
Definition wfc0 (c : const) : Prop :=
  match c with
  | VBool _ => True
  | VInt k _ => is_int_kind k = true
  | VF64 k _ => is_f64_kind k = true
  | VF32 k _ => is_f32_kind k = true
  | VEnum _ _ => False
  end.
Definition wfc (c : const) : Prop := match c with VEnum _ u => wfc0 u | _ => wfc0 c end.
Definition wfr (r : res) : Prop := match r with ROk c => wfc c | _ => True end.
Definition wfr0 (r : res) : Prop := match r with ROk c => wfc0 c | _ => True end.

Definition value_kinds : list ckind :=
  [KBool; KIntLiteral; KInt32; KUInt32; KInt64; KUInt64; KFloatLiteral; KFloat16; KFloat32; KFloat64].

Lemma wfc0_kind c : wfc0 c -> In (kind_of c) value_kinds.
Proof.
  destruct c as [b|k z|k x|k x|i u]; cbn; intros H; try tauto; destruct k; cbn in H; try discriminate; cbn; tauto.
Qed.

Section Main.
Variable unary_table : list (string * option ckind * usem).
Variable binary_table : list (string * option ckind * option ckind * bsem).
Variable special_table : list (string * ssem).
Variable enum_drop : list string.
Variable cast_table : list (string * option ckind * csem).

Notation find_un := (find_un unary_table).
Notation find_bin := (find_bin binary_table).
Notation find_cast := (find_cast cast_table).
Notation find_special := (find_special special_table).
Notation impl_sem := (impl_sem unary_table binary_table special_table enum_drop cast_table).

(* the decidable table obligations *)
Definition tables_agree : bool :=
  forallb (fun op =>
    forallb (fun k => agree_un (find_un op k) (ref_un_tag op k)) value_kinds &&
    forallb (fun k1 => forallb (fun k2 =>
      agree_bin (find_special op) (find_bin op k1 k2) (ref_bin_tag op k1 k2)) value_kinds) value_kinds &&
    Bool.eqb (existsb (String.eqb op) enum_drop) (drops_enum ref_sem op)) known_ops &&
  forallb (fun t => forallb (fun k => agree_cast (find_cast t k) (ref_cast_tag t k) k) value_kinds) known_scalars.

Hypothesis Hagree : tables_agree = true.

Lemma agree_un_at op k : In op known_ops -> In k value_kinds -> agree_un (find_un op k) (ref_un_tag op k) = true.
Proof.
  intros Ho Hk. unfold tables_agree in Hagree. apply andb_true_iff in Hagree as [H _].
  rewrite forallb_forall in H. specialize (H op Ho). apply andb_true_iff in H as [H _].
  apply andb_true_iff in H as [H _]. rewrite forallb_forall in H. apply H. exact Hk.
Qed.

Lemma agree_bin_at op k1 k2 : In op known_ops -> In k1 value_kinds -> In k2 value_kinds ->
  agree_bin (find_special op) (find_bin op k1 k2) (ref_bin_tag op k1 k2) = true.
Proof.
  intros Ho H1 H2. unfold tables_agree in Hagree. apply andb_true_iff in Hagree as [H _].
  rewrite forallb_forall in H. specialize (H op Ho). apply andb_true_iff in H as [H _].
  apply andb_true_iff in H as [_ H]. rewrite forallb_forall in H. specialize (H k1 H1).
  rewrite forallb_forall in H. apply H. exact H2.
Qed.

Lemma agree_drop_at op : In op known_ops -> existsb (String.eqb op) enum_drop = drops_enum ref_sem op.
Proof.
  intros Ho. unfold tables_agree in Hagree. apply andb_true_iff in Hagree as [H _].
  rewrite forallb_forall in H. specialize (H op Ho). apply andb_true_iff in H as [_ H].
  apply Bool.eqb_prop in H. exact H.
Qed.

Lemma agree_cast_at t k : In t known_scalars -> In k value_kinds ->
  agree_cast (find_cast t k) (ref_cast_tag t k) k = true.
Proof.
  intros Ht Hk. unfold tables_agree in Hagree. apply andb_true_iff in Hagree as [_ H].
  rewrite forallb_forall in H. specialize (H t Ht). rewrite forallb_forall in H. apply H. exact Hk.
Qed.

Variable debug : bool.

(* ---- operator-level equalities ---- *)
Lemma ref_un_tag_inv op k :
  match ref_un_tag op k with
  | TStep k' o => k' = k /\ typed_int k = true /\ (o = OAdd \/ o = OSub)
  | TNeg k' => k' = k /\ (k = KInt32 \/ k = KIntLiteral)
  | TFNeg k' => k' = k /\ (is_f64_kind k || is_f32_kind k)%bool = true
  | TLNot => k = KBool
  | TBNot k' => k' = k /\ arith_int k = true
  | _ => True
  end.
Proof.
  unfold ref_un_tag.
  repeat match goal with |- context [if ?c then _ else _] => destruct c eqn:? end; try exact I; auto.
  - split; [reflexivity|].
    match goal with H : (ckind_eqb k KInt32 || ckind_eqb k KIntLiteral)%bool = true |- _ =>
      apply orb_true_iff in H as [H|H]; apply ckind_eqb_eq in H; auto end.
  - apply ckind_eqb_eq. assumption.
Qed.

Lemma un_equal op c : In op known_ops -> wfc0 c ->
  sem_un (impl_sem debug) op c = sem_un ref_sem op c.
Proof.
  intros Ho Hc. assert (A := agree_un_at op (kind_of c) Ho (wfc0_kind c Hc)).
  assert (I := ref_un_tag_inv op (kind_of c)).
  cbn [sem_un Evaluator.impl_sem ref_sem]. unfold ref_un.
  destruct (find_un op (kind_of c)) as [s|], (ref_un_tag op (kind_of c)) as [k o|k|k| |k| | |];
    cbn in A; try discriminate; try reflexivity.
  all: destruct s; cbn in A; try discriminate; try reflexivity.
  all: repeat match goal with H : (_ && _)%bool = true |- _ => apply andb_true_iff in H; destruct H end.
  all: repeat match goal with
              | H : ckind_eqb _ _ = true |- _ => apply ckind_eqb_eq in H; subst
              | H : arith_eqb _ _ = true |- _ => apply arith_eqb_eq in H; subst
              end.
  all: destruct c as [b|k' z|k' x|k' x|i u]; cbn [kind_of wfc0] in Hc, I; try contradiction;
       cbn [apply_un interp_un]; try reflexivity.
  (* the remaining combinations pair a tag with a payload shape; the tag's side conditions decide them *)
  all: try match type of I with _ /\ _ => destruct I as [I1 I2]; subst end.
  all: try match type of I with _ = KBool => subst; cbn in Hc; try discriminate end.
  all: try match goal with H : typed_int _ = true /\ _ |- _ => destruct H as [I2 I3] end.
  all: try (destruct k'; cbn in Hc, I2; try discriminate; try congruence; fail).
  all: try (destruct k'; cbn in Hc, I; try discriminate; try congruence; fail).
  all: try (cbn in I2; discriminate).
  all: try (destruct f; cbn in *; try discriminate; destruct I3; subst; reflexivity).
  all: try (unfold rust_neg, ref_neg; destruct I2; subst; destruct f; cbn in *; try discriminate; reflexivity).
Qed.

Lemma ref_bin_tag_inv op k1 k2 :
  match ref_bin_tag op k1 k2 with
  | TArith k _ => k = k1 /\ k1 = k2 /\ arith_int k1 = true
  | TCmp _ => k1 = k2 /\ cmp_kind k1 = true
  | TBoolAnd | TBoolOr => k1 = KBool /\ k2 = KBool
  | _ => True
  end.
Proof.
  unfold ref_bin_tag.
  repeat match goal with |- context [if ?c then _ else _] => destruct c eqn:? end; try exact I;
    try (destruct (op_arith op)); try (destruct (op_cmp op));
    repeat match goal with |- context [if ?c then _ else _] => destruct c eqn:? end; try exact I.
  all: repeat match goal with H : (_ && _)%bool = true |- _ => apply andb_true_iff in H; destruct H end.
  all: repeat match goal with H : ckind_eqb _ _ = true |- _ => apply ckind_eqb_eq in H end.
  all: auto.
Qed.

Lemma bin_equal op a b : In op known_ops -> wfc0 a -> wfc0 b ->
  sem_bin (impl_sem debug) op a b = sem_bin ref_sem op a b.
Proof.
  intros Ho Ha Hb.
  assert (A := agree_bin_at op (kind_of a) (kind_of b) Ho (wfc0_kind a Ha) (wfc0_kind b Hb)).
  assert (I := ref_bin_tag_inv op (kind_of a) (kind_of b)).
  cbn [sem_bin Evaluator.impl_sem ref_sem]. unfold ref_bin.
  destruct (find_special op) as [[|]|]; cbn in A.
  - destruct (ref_bin_tag op (kind_of a) (kind_of b)); try discriminate. reflexivity.
  - destruct (ref_bin_tag op (kind_of a) (kind_of b)); try discriminate. reflexivity.
  - destruct (find_bin op (kind_of a) (kind_of b)) as [s|]; [destruct s|];
      destruct (ref_bin_tag op (kind_of a) (kind_of b)) as [k0 o0|c0| | | | |]; cbn in A; try discriminate; try reflexivity.
    + (* arithmetic *)
      apply andb_true_iff in A as [A G]. apply andb_true_iff in A as [A1 A2].
      apply ckind_eqb_eq in A1. apply arith_eqb_eq in A2. subst. destruct I as (Ka & Kb & Hk).
      destruct a as [?|ka x|ka x|ka x|? ?], b as [?|kb y|kb y|kb y|? ?]; cbn [kind_of wfc0] in Ka, Kb, Ha, Hb; subst;
        try contradiction; try (cbn in Hk; discriminate); try (destruct kb; cbn in *; discriminate).
      cbn [apply_bin interp_bin]. rewrite (good_arith_sound _ _ _ _ Hk G). reflexivity.
    + (* comparison *)
      apply cmp_eqb_eq in A. subst. destruct I as (Kab & Hk).
      destruct a as [?|ka x|ka x|ka x|? ?], b as [?|kb y|kb y|kb y|? ?]; cbn [kind_of wfc0] in Kab, Ha, Hb; subst;
        try contradiction; try reflexivity; try (cbn in Ha, Hb; discriminate);
        try (destruct kb; cbn in *; discriminate); try (destruct ka; cbn in *; discriminate).
    + destruct I as (Ka & Kb).
      destruct a as [?|ka x|ka x|ka x|? ?], b as [?|kb y|kb y|kb y|? ?]; cbn [kind_of wfc0] in Ka, Kb, Ha, Hb; subst;
        try contradiction; try discriminate; reflexivity.
    + destruct I as (Ka & Kb).
      destruct a as [?|ka x|ka x|ka x|? ?], b as [?|kb y|kb y|kb y|? ?]; cbn [kind_of wfc0] in Ka, Kb, Ha, Hb; subst;
        try contradiction; try discriminate; reflexivity.
Qed.

Lemma ref_cast_tag_inv t k :
  match ref_cast_tag t k with
  | TCNone => True
  | TToInt k' => convertible k = true /\ typed_int k' = true
  | TToF32 k' => convertible k = true /\ is_f32_kind k' = true
  | TToF64 k' => convertible k = true /\ is_f64_kind k' = true
  | TToBool => convertible k = true
  end.
Proof.
  unfold ref_cast_tag.
  repeat match goal with |- context [if ?c then _ else _] => destruct c eqn:? end; try exact I;
    match goal with H : negb (convertible k) = false |- _ => apply negb_false_iff in H end; auto.
Qed.

Lemma cast_equal t c : In t known_scalars -> wfc0 c ->
  sem_cast (impl_sem debug) t c = sem_cast ref_sem t c.
Proof.
  intros Ht Hc. assert (A := agree_cast_at t (kind_of c) Ht (wfc0_kind c Hc)).
  assert (I := ref_cast_tag_inv t (kind_of c)).
  cbn [sem_cast Evaluator.impl_sem ref_sem]. unfold ref_cast.
  destruct (find_cast t (kind_of c)) as [s|], (ref_cast_tag t (kind_of c)) as [|k|k|k|];
    cbn in A; try discriminate; try reflexivity.
  all: destruct s as [k1|k1 r| | |k1| |]; try destruct r; cbn in A; try discriminate; try reflexivity.
  all: repeat match goal with H : (_ && _)%bool = true |- _ => apply andb_true_iff in H; destruct H end.
  all: repeat match goal with H : ckind_eqb _ _ = true |- _ => apply ckind_eqb_eq in H end.
  all: destruct c as [b|k' z|k' x|k' x|i u]; cbn [kind_of wfc0] in *; try contradiction; subst;
       cbn [apply_cast interp_cast]; try reflexivity; try discriminate.
  all: try (destruct k'; cbn in *; try discriminate; reflexivity).
  all: try (destruct k; cbn in *; try discriminate; reflexivity).
  all: try (destruct I as [I1 I2]; cbn in I2; discriminate).
  all: try (destruct I as [I1 I2]; destruct k; cbn in *; try discriminate; reflexivity).
  all: try (match goal with H : negb (ckind_eqb ?a ?b) = true |- _ =>
              destruct (ckind_eqb b a) eqn:E; [apply ckind_eqb_eq in E; subst; destruct a; cbn in H; discriminate | reflexivity] end).
Qed.

(* ---- shape preservation of the reference semantics ---- *)
Lemma wfc0_wfc c : wfc0 c -> wfc c.
Proof. destruct c; cbn; tauto. Qed.
Lemma wfr0_wfr r : wfr0 r -> wfr r.
Proof. destruct r; cbn; [apply wfc0_wfc | tauto | tauto]. Qed.
Lemma wfc_unwrap c : wfc c -> wfc0 (unwrap c).
Proof. destruct c; cbn; tauto. Qed.

Lemma zres_to_wf k z : is_int_kind k = true -> wfr0 (zres_to k z).
Proof. destruct z; cbn; auto. Qed.

Lemma ref_un_wf op c : wfc0 c -> wfr0 (sem_un ref_sem op c).
Proof.
  intros Hc. cbn [sem_un ref_sem]. unfold ref_un. assert (I := ref_un_tag_inv op (kind_of c)).
  destruct (ref_un_tag op (kind_of c)) as [k o|k|k| |k| | |]; destruct c as [b|k' z|k' x|k' x|i u];
    cbn [kind_of wfc0 interp_un wfr0] in *; try exact I; try tauto.
  - destruct I as (-> & I2 & _). cbn. destruct k'; cbn in *; congruence.
  - destruct I as (-> & I2). apply zres_to_wf. exact Hc.
  - destruct I as (-> & _). exact Hc.
  - destruct I as (-> & _). exact Hc.
  - destruct I as (-> & _). exact Hc.
Qed.

Lemma ref_bin_wf op a b : wfc0 a -> wfc0 b -> wfr0 (sem_bin ref_sem op a b).
Proof.
  intros Ha Hb. cbn [sem_bin ref_sem]. unfold ref_bin. assert (I := ref_bin_tag_inv op (kind_of a) (kind_of b)).
  destruct (ref_bin_tag op (kind_of a) (kind_of b)) as [k o|c| | | | |];
    destruct a as [?|ka x|ka x|ka x|? ?], b as [?|kb y|kb y|kb y|? ?];
    cbn [kind_of wfc0 interp_bin wfr0] in *; try exact I; try tauto.
  destruct I as (-> & _ & _). apply zres_to_wf. exact Ha.
Qed.

Lemma ref_cast_wf t c : wfc0 c -> wfr0 (sem_cast ref_sem t c).
Proof.
  intros Hc. cbn [sem_cast ref_sem]. unfold ref_cast. assert (I := ref_cast_tag_inv t (kind_of c)).
  destruct (ref_cast_tag t (kind_of c)) as [|k|k|k|]; destruct c as [b|k' z|k' x|k' x|i u];
    cbn [kind_of wfc0 interp_cast wfr0] in *; try exact I; try tauto;
    destruct I as (_ & I2); try exact I2; destruct k; cbn in *; congruence.
Qed.

(* ---- expressions ---- *)
Definition wf_cty (t : cty) : Prop :=
  match t with TS s => In s known_scalars | TE _ u => In u known_scalars | TOther => True end.

Fixpoint wf_expr (e : expr) : Prop :=
  match e with
  | ELit c => wfc c
  | ECast t e => wf_cty t /\ wf_expr e
  | EUn op e => In op known_ops /\ wf_expr e
  | EBin op l r => In op known_ops /\ wf_expr l /\ wf_expr r
  | ESizeOf _ | ENotConst => True
  end.

Lemma rewrap_equal op w r :
  In op known_ops -> rewrap (impl_sem debug) op w r = rewrap ref_sem op w r.
Proof.
  intros Ho. unfold rewrap. destruct r; try reflexivity. destruct w; try reflexivity.
  cbn [drops_enum Evaluator.impl_sem]. rewrite (agree_drop_at op Ho). reflexivity.
Qed.

Lemma rewrap_wf op w r : wfr0 r -> wfr (rewrap ref_sem op w r).
Proof.
  intros H. unfold rewrap. destruct r as [c| |]; try exact I. destruct w; [|apply wfc0_wfc; exact H].
  destruct (drops_enum ref_sem op); [apply wfc0_wfc; exact H | exact H].
Qed.

Lemma wfc_cases c : wfc c -> (exists i u, c = VEnum i u /\ wfc0 u) \/ wfc0 c.
Proof. destruct c; cbn; intros H; try (right; exact H). left. eauto. Qed.

Theorem impl_eval_is_ref_eval (e : expr) :
  wf_expr e -> eval (impl_sem debug) e = eval ref_sem e /\ wfr (eval ref_sem e).
Proof.
  induction e as [c|t e IH|op e IH|op l IHl r IHr|z|]; cbn [wf_expr eval]; intros W.
  - split; [reflexivity | exact W].
  - destruct W as [Wt We]. destruct (IH We) as [E Wf]. rewrite E.
    destruct (eval ref_sem e) as [v| |]; try (split; [reflexivity | exact I]).
    cbn [wfr] in Wf. assert (U := wfc_unwrap v Wf).
    destruct t as [s|id u|]; cbn [eval_cast wf_cty] in *.
    + rewrite (cast_equal s _ Wt U). split; [reflexivity | apply wfr0_wfr, ref_cast_wf; exact U].
    + rewrite (cast_equal u _ Wt U). assert (P := ref_cast_wf u _ U).
      destruct (sem_cast ref_sem u (unwrap v)); cbn in *; auto.
    + split; [reflexivity | exact I].
  - destruct W as [Wo We]. destruct (IH We) as [E Wf]. rewrite E.
    destruct (eval ref_sem e) as [v| |]; try (split; [reflexivity | exact I]).
    cbn [wfr] in Wf. destruct (wfc_cases v Wf) as [(i & u & -> & Hu)|Hv].
    + rewrite (un_equal op u Wo Hu), rewrap_equal by exact Wo.
      split; [reflexivity | apply rewrap_wf, ref_un_wf; exact Hu].
    + destruct v; try contradiction; rewrite (un_equal op _ Wo Hv);
        (split; [reflexivity | apply wfr0_wfr, ref_un_wf; exact Hv]).
  - destruct W as (Wo & Wl & Wr). destruct (IHl Wl) as [El Wfl]. destruct (IHr Wr) as [Er Wfr].
    rewrite El, Er.
    destruct (eval ref_sem l) as [a| |]; try (split; [reflexivity | exact I]).
    destruct (eval ref_sem r) as [b| |]; try (split; [reflexivity | exact I]).
    cbn [wfr] in Wfl, Wfr.
    destruct (wfc_cases a Wfl) as [(i & x & -> & Hx)|Ha], (wfc_cases b Wfr) as [(j & y & -> & Hy)|Hb].
    + destruct (N.eqb i j); [|split; [reflexivity | exact I]].
      rewrite (bin_equal op x y Wo Hx Hy), rewrap_equal by exact Wo.
      split; [reflexivity | apply rewrap_wf, ref_bin_wf; assumption].
    + destruct b; try contradiction; (split; [reflexivity | exact I]).
    + destruct a; try contradiction; rewrite (bin_equal op _ y Wo Ha Hy), rewrap_equal by exact Wo;
        (split; [reflexivity | apply rewrap_wf, ref_bin_wf; assumption]).
    + destruct a, b; try contradiction; rewrite (bin_equal op _ _ Wo Ha Hb);
        (split; [reflexivity | apply wfr0_wfr, ref_bin_wf; assumption]).
  - destruct z; split; try reflexivity; cbn; auto.
  - split; [reflexivity | exact I].
Qed.

(* no arm of the tables can abort on overflow, an out-of-range shift, or a zero divisor *)
Lemma good_arith_no_panic k f o zc debug' a b :
  arith_int k = true -> good_arith k f o zc = true -> rust_arith debug' k f o zc a b <> ZPanic.
Proof.
  intros Hk Hg. rewrite (good_arith_sound k f o zc Hk Hg).
  unfold ref_arith. destruct k; try discriminate; destruct o;
    repeat match goal with |- context [if ?c then _ else _] => destruct c end; discriminate.
Qed.

End Main.
