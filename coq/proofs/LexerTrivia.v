(* LexerTrivia.v — a blank after a complete token does not change the token.
   For identifiers, keywords, reserved words, operator symbols and strings: if the lexer reads the token t from the
   front of a ++ b and t is exactly a, it reads the same t, of the same length, from a ++ (blank :: b') for every
   blank (space, tab, line feed) and every b'.  Lifted to the token stream: inserting a blank after such a token
   leaves the sequence of tokens that are not whitespace unchanged.  (`<` and `>` record whether a token follows
   them directly - the exception the property names; numeric literals are not covered here.) *)
From Coq Require Import List NArith Bool String Ascii Arith Lia.
From RV Require Import Lexer LexerProofs.
Import ListNotations.
Local Open Scope string_scope.

Fixpoint all (p : ascii -> bool) (s : string) : bool :=
  match s with EmptyString => true | String c r => p c && all p r end.

Lemma slen_app a b : slen (a ++ b) = slen a + slen b.
Proof. induction a as [|c a IH]; cbn; [reflexivity|]. unfold slen in *. cbn. rewrite IH. reflexivity. Qed.

(* the span ends exactly where a ends: every character of a passes *)
Lemma span_exact p a b : slen (fst (span p (a ++ b))) = slen a -> all p a = true.
Proof.
  revert b. induction a as [|c a IH]; intros b H; [reflexivity|]. cbn [append span all] in *.
  destruct (p c) eqn:E.
  - destruct (span p (a ++ b)) as [x y] eqn:S. cbn [fst] in H. rewrite !slen_cons in H.
    cbn. apply (IH b). rewrite S. cbn [fst]. lia.
  - cbn [fst] in H. rewrite slen_cons in H. cbn in H. discriminate.
Qed.

Lemma span_stop p a w b : all p a = true -> p w = false -> span p (a ++ String w b) = (a, String w b).
Proof.
  induction a as [|c a IH]; intros A W; cbn [append span all] in *; [rewrite W; reflexivity|].
  apply andb_true_iff in A as [A1 A2]. rewrite A1, (IH A2 W). reflexivity.
Qed.

Lemma span_fst_all p s : all p (fst (span p s)) = true.
Proof.
  induction s as [|c r IH]; [reflexivity|]. cbn [span]. destruct (p c) eqn:E; [|reflexivity].
  destruct (span p r) as [x y]. cbn [fst all] in *. rewrite E, IH. reflexivity.
Qed.

(* a prefix of a ++ b of the length of a is a *)
Lemma prefix_exact x y a b : (x ++ y = a ++ b) -> slen x = slen a -> x = a.
Proof.
  revert a. induction x as [|c x IH]; intros [|d a] E L; cbn in *; try reflexivity; try discriminate.
  inversion E; subst. f_equal. apply (IH a); [assumption|]. unfold slen in *. cbn in L. lia.
Qed.

Definition blank (w : ascii) : Prop := w = " "%char \/ w = "009"%char \/ w = "010"%char.

Lemma blank_not_ident w : blank w -> is_ident_char w = false.
Proof. intros [ -> | [ -> | -> ] ]; reflexivity. Qed.

(* index_of inside the first part *)
Lemma index_of_app c a b n : index_of c (a ++ b) = Some n -> n < slen a -> forall x, index_of c (a ++ x) = Some n.
Proof.
  revert n. induction a as [|d a IH]; intros n H L x; [cbn in L; lia|]. cbn [append index_of] in *.
  destruct (Ascii.eqb c d); [exact H|].
  destruct (index_of c (a ++ b)) as [m|] eqn:E; [|discriminate]. cbn in H. inversion H; subst.
  rewrite slen_cons in L. rewrite (IH m eq_refl ltac:(lia) x). reflexivity.
Qed.

Lemma substring_app m a x : m <= slen a -> substring 0 m (a ++ x) = substring 0 m a.
Proof.
  revert a. induction m as [|m IH]; intros a L; [destruct a, x; reflexivity|].
  destruct a as [|c a]; [cbn in L; lia|]. cbn [append substring]. rewrite slen_cons in L. rewrite IH by lia. reflexivity.
Qed.

Lemma starts1 c d x y : starts_with (String c "") (String d x) = starts_with (String c "") (String d y).
Proof. unfold starts_with. cbn [String.prefix]. destruct (ascii_dec c d); [destruct x, y|]; reflexivity. Qed.

Definition solid (t : tok) : bool :=
  match t with TId _ | TKeyword _ | TReserved _ | TSym _ | TString _ => true | _ => false end.

Section Trivia.
Variable keywords : list (string * string).
Variable reserved_words : list string.
Variable symbols : list (N * string * option string * option string).
Variable int_suffixes : list (list (list N) * string).
Variable float_suffixes : list (list N * string).
Variable float_is_zero : string -> bool.
Variable utf8_ok : string -> bool.

Notation tok_at := (tok_at keywords reserved_words symbols int_suffixes float_suffixes float_is_zero utf8_ok).
Notation lex_all := (lex_all keywords reserved_words symbols int_suffixes float_suffixes float_is_zero utf8_ok).
Notation lex_int := (lex_int int_suffixes).
Notation lex_float := (lex_float float_suffixes float_is_zero).
Notation lex_word := (lex_word keywords reserved_words).
Notation lex_symbol := (lex_symbol symbols).

Lemma lex_float_not_solid s t n : lex_float s = LOk t n -> solid t = false.
Proof.
  unfold Lexer.lex_float. destruct (span is_digit s) as [whole r1].
  destruct (match r1 with
            | String d r2 => if Ascii.eqb d "." then let (fr, _) := span is_digit r2 in (true, slen whole + 1 + slen fr) else (false, slen whole)
            | EmptyString => (false, slen whole)
            end) as [hf ml].
  intros H.
  repeat match type of H with
         | context [match ?x with _ => _ end] => destruct x eqn:?; try discriminate
         | context [if ?x then _ else _] => destruct x eqn:?; try discriminate
         end; inversion H; reflexivity.
Qed.

Lemma lex_int_not_solid s t n : lex_int s = LOk t n -> solid t = false.
Proof.
  assert (G : forall skip base dv,
    (let body := drop skip s in
     let (ds, rest) := span (fun c => match dv c with Some _ => true | None => false end) body in
     match ds with
     | EmptyString => match body with EmptyString => LErr EndOfStream (slen s) | _ => LErr UnexpectedBytes skip end
     | _ => match accum base dv ds 0%N with
            | None => LErr IntegerLiteralTooLarge skip
            | Some v =>
                let suf := Lexer.int_suffix int_suffixes rest in
                match int_token (option_map fst suf) v with
                | Some t => LOk t (skip + slen ds + match suf with Some (_, n) => n | None => 0 end)
                | None => LErr IntegerLiteralTooLarge skip
                end
            end
     end) = LOk t n -> solid t = false).
  { intros skip base dv. cbv zeta. destruct (span _ (drop skip s)) as [ds rest].
    destruct ds as [|d ds]; [destruct (drop skip s); discriminate|].
    destruct (accum base dv (String d ds) 0%N) as [v|]; [|discriminate].
    destruct (int_token _ v) as [t0|] eqn:T; [|discriminate]. intros H; inversion H; subst.
    unfold int_token in T. destruct (option_map fst _) as [k|]; [|inversion T; reflexivity].
    repeat match type of T with context [if ?x then _ else _] => destruct x end; inversion T; reflexivity. }
  unfold Lexer.lex_int. destruct (starts_with "0x" s); [apply G|].
  destruct s as [|z [|c r]]; try apply G. destruct (Ascii.eqb z "0" && is_octal c); apply G.
Qed.

Lemma lex_symbol_sym c r t n : lex_symbol c r = Some (t, n) -> exists v, t = TSym v.
Proof.
  unfold Lexer.lex_symbol. destruct (find _ symbols) as [[[[bb t1] teq] tdbl]|]; [|discriminate].
  intros H.
  repeat match type of H with
         | context [match ?x with _ => _ end] => destruct x
         | context [if ?x then _ else _] => destruct x
         end; inversion H; eexists; reflexivity.
Qed.

Lemma lex_symbol_local c a' b v w b' :
  lex_symbol c (a' ++ b) = Some (TSym v, S (slen a')) ->
  Ascii.eqb w "=" = false -> Ascii.eqb w c = false ->
  lex_symbol c (a' ++ String w b') = Some (TSym v, S (slen a')).
Proof.
  unfold Lexer.lex_symbol. destruct (find _ symbols) as [[[[bb t1] teq] tdbl]|]; [|discriminate].
  intros H W1 W2. destruct a' as [|d a'']; cbn [append slen String.length] in *.
  - (* the token is the one character: whatever follows did not extend it, a blank does not either *)
    assert (R : Some (TSym t1, 1) = Some (TSym v, 1)).
    { destruct b as [|d r]; [exact H|].
      destruct teq as [t|]; [destruct (Ascii.eqb d "="); [inversion H|]|];
        destruct tdbl as [t2|]; try exact H; destruct (Ascii.eqb d c); try exact H; inversion H. }
    rewrite W1. destruct teq, tdbl; rewrite ?W2; exact R.
  - (* two characters: decided by the second one, which is part of the token *)
    destruct teq as [t|]; [destruct (Ascii.eqb d "="); [exact H|]|];
      destruct tdbl as [t2|]; try exact H; destruct (Ascii.eqb d c); exact H.
Qed.

Theorem solid_token_ignores_following_blank a b t w b' :
  tok_at false (a ++ b) = LOk t (slen a) -> solid t = true -> blank w ->
  tok_at false (a ++ String w b') = LOk t (slen a).
Proof.
  intros H St Bw. destruct a as [|c a'].
  { (* a token is never empty *)
    destruct b as [|c r]; [cbn in H; discriminate|].
    assert (Bd := tok_at_bounded keywords reserved_words symbols int_suffixes float_suffixes float_is_zero utf8_ok false (String c r) ltac:(discriminate)).
    change ("" ++ String c r) with (String c r) in H. rewrite H in Bd. cbn in Bd. lia. }
  cbn [append] in *. cbn [Lexer.tok_at] in *.
  destruct (is_digit c) eqn:Hd.
  { exfalso. destruct (lex_float (String c (a' ++ b))) as [t0 n0|e k] eqn:F.
    - inversion H; subst. rewrite (lex_float_not_solid _ _ _ F) in St. discriminate.
    - destruct e; try discriminate. rewrite (lex_int_not_solid _ _ _ H) in St. discriminate. }
  destruct (is_alpha_ c) eqn:Ha.
  { (* a word: the span of identifier characters is exactly a, and stops at the blank *)
    unfold Lexer.lex_word in *.
    assert (Hi : is_ident_char c = true) by (unfold is_ident_char; rewrite Ha; reflexivity).
    destruct (span is_ident_char (String c (a' ++ b))) as [w0 r0] eqn:Sp.
    inversion H as [[Ht Hl]].
    assert (A : all is_ident_char (String c a') = true).
    { apply (span_exact is_ident_char (String c a') b). cbn [append]. rewrite Sp. exact Hl. }
    assert (W0 : w0 = String c a').
    { apply (prefix_exact w0 r0 (String c a') b); [|exact Hl].
      pose proof (span_app is_ident_char (String c (a' ++ b))) as E. rewrite Sp in E. cbn [fst snd] in E. symmetry. exact E. }
    change (String c (a' ++ String w b')) with (String c a' ++ String w b').
    rewrite (span_stop is_ident_char (String c a') w b' A (blank_not_ident w Bw)). subst w0. reflexivity. }
  cbn [andb] in *.
  destruct (Ascii.eqb c " " || Ascii.eqb c "009") eqn:W1; [inversion H; subst; discriminate|].
  destruct (Ascii.eqb c "010") eqn:W2; [inversion H; subst; discriminate|].
  destruct (Ascii.eqb c "013").
  { exfalso. destruct a' as [|d a'']; cbn [append] in H.
    - destruct b as [|d r]; [discriminate|]. destruct (Ascii.eqb d "010"); inversion H; subst; discriminate.
    - destruct (Ascii.eqb d "010"); inversion H; subst; discriminate. }
  destruct (Ascii.eqb c "\").
  { exfalso. revert H. generalize (a' ++ b). intros r H. destruct r as [|d r']; [discriminate|].
    destruct (Ascii.eqb d "010"); [inversion H; subst; discriminate|].
    destruct r' as [|e r'']; [discriminate|]. destruct (Ascii.eqb d "013" && Ascii.eqb e "010"); inversion H; subst; discriminate. }
  destruct (Ascii.eqb c "/" && starts_with "/" (a' ++ b)) eqn:C1; [inversion H; subst; discriminate|].
  destruct (Ascii.eqb c "/" && starts_with "*" (a' ++ b)) eqn:C2.
  { exfalso. destruct (block_end (drop 1 (a' ++ b))); inversion H; subst; discriminate. }
  assert (Wc : Ascii.eqb w c = false).
  { apply orb_false_iff in W1 as [X1 X2]. destruct Bw as [ -> | [ -> | -> ] ].
    - rewrite Ascii.eqb_sym. exact X1.
    - rewrite Ascii.eqb_sym. exact X2.
    - rewrite Ascii.eqb_sym. exact W2. }
  assert (We : Ascii.eqb w "=" = false) by (destruct Bw as [ -> | [ -> | -> ] ]; reflexivity).
  assert (C1' : Ascii.eqb c "/" && starts_with "/" (a' ++ String w b') = false).
  { destruct (Ascii.eqb c "/"); [|reflexivity]. cbn [andb] in *. destruct a' as [|d a'']; [|cbn [append] in *; rewrite (starts1 _ d _ (a'' ++ b)); exact C1].
    cbn [append]. destruct Bw as [ -> | [ -> | -> ] ]; reflexivity. }
  assert (C2' : Ascii.eqb c "/" && starts_with "*" (a' ++ String w b') = false).
  { destruct (Ascii.eqb c "/"); [|reflexivity]. cbn [andb] in *. destruct a' as [|d a'']; [|cbn [append] in *; rewrite (starts1 _ d _ (a'' ++ b)); exact C2].
    cbn [append]. destruct Bw as [ -> | [ -> | -> ] ]; reflexivity. }
  rewrite C1', C2'.
  destruct (Ascii.eqb c """") eqn:Q.
  { (* a string: the closing quote is the last character of a *)
    unfold Lexer.lex_quoted in *. cbn [drop] in *.
    destruct (index_of """" (a' ++ b)) as [pos|] eqn:I; [|discriminate].
    assert (P : pos + 2 = S (slen a')).
    { destruct (negb (utf8_ok (substring 1 pos (String c (a' ++ b))))); [discriminate|].
      destruct (contains "010" (substring 1 pos (String c (a' ++ b)))); [discriminate|]. inversion H as [[Ht Hl]]. unfold slen in *. cbn [String.length] in *. lia. }
    rewrite (index_of_app """" a' b pos I ltac:(lia) (String w b')).
    cbn [substring] in *. rewrite (substring_app pos a' (String w b')) by lia. rewrite (substring_app pos a' b) in H by lia.
    exact H. }
  destruct (Ascii.eqb c "<"); [inversion H; subst; discriminate|].
  destruct (Ascii.eqb c ">"); [inversion H; subst; discriminate|].
  destruct (lex_symbol c (a' ++ b)) as [[t0 n0]|] eqn:Y; [|discriminate].
  inversion H; subst. rewrite slen_cons in *.
  destruct (lex_symbol_sym _ _ _ _ Y) as [v ->].
  rewrite (lex_symbol_local c a' b v w b' Y We Wc). reflexivity.
Qed.

End Trivia.

(* ---- the token stream ---- *)
Section Stream.
Variable keywords : list (string * string).
Variable reserved_words : list string.
Variable symbols : list (N * string * option string * option string).
Variable int_suffixes : list (list (list N) * string).
Variable float_suffixes : list (list N * string).
Variable float_is_zero : string -> bool.
Variable utf8_ok : string -> bool.

Notation tok_at := (tok_at keywords reserved_words symbols int_suffixes float_suffixes float_is_zero utf8_ok).
Notation lex_all := (lex_all keywords reserved_words symbols int_suffixes float_suffixes float_is_zero utf8_ok).
Notation lex_file := (lex_file keywords reserved_words symbols int_suffixes float_suffixes float_is_zero utf8_ok).

Definition is_endline (t : tok) : bool := match t with TEndline => true | _ => false end.

(* TokenStream::read_to_end without the spans *)
Inductive Lexes : string -> bool -> list tok -> Prop :=
| LexEnd last : Lexes "" last (if last then [] else [TEndline])
| LexTok c r last t n ts :
    tok_at false (String c r) = LOk t n -> Lexes (drop n (String c r)) (is_endline t) ts -> Lexes (String c r) last (t :: ts).

Definition toks (ts : list (tok * nat * nat)) : list tok := map (fun x => fst (fst x)) ts.
Definition strip (l : list tok) : list tok := filter (fun t => negb (is_ws t)) l.

Lemma lex_all_sound fuel : forall s off last acc ts,
  lex_all fuel s off last acc = SOk ts -> exists l, toks ts = (toks (rev acc) ++ l)%list /\ Lexes s last l.
Proof.
  induction fuel as [|fuel IH]; intros s off last acc ts H; [discriminate|]. cbn [Lexer.lex_all] in H.
  destruct s as [|c r].
  - destruct last; inversion H; subst.
    + exists []. split; [rewrite app_nil_r; reflexivity|apply (LexEnd true)].
    + exists [TEndline]. split; [cbn [rev]; unfold toks; rewrite map_app; reflexivity|apply (LexEnd false)].
  - destruct (tok_at false (String c r)) as [t n|e k] eqn:T; [|discriminate].
    apply IH in H as (l & E & L). exists (t :: l). split.
    + rewrite E. cbn [rev]. unfold toks. rewrite map_app. cbn [map fst]. rewrite <- app_assoc. reflexivity.
    + eapply LexTok; [exact T|]. destruct t; exact L.
Qed.

Lemma lex_all_complete s last l : Lexes s last l -> forall fuel off acc, slen s < fuel ->
  exists ts, lex_all fuel s off last acc = SOk ts /\ toks ts = (toks (rev acc) ++ l)%list.
Proof.
  induction 1 as [last|c r last t n ts T L IH]; intros fuel off acc Hf.
  - destruct fuel as [|fuel]; [lia|]. cbn [Lexer.lex_all]. destruct last; eexists; split; try reflexivity.
    + rewrite app_nil_r. reflexivity.
    + cbn [rev]. unfold toks. rewrite map_app. reflexivity.
  - destruct fuel as [|fuel]; [lia|]. cbn [Lexer.lex_all]. rewrite T.
    assert (B := tok_at_bounded keywords reserved_words symbols int_suffixes float_suffixes float_is_zero utf8_ok false (String c r) ltac:(discriminate)).
    rewrite T in B. cbn [bounded] in B.
    destruct (IH fuel (off + n) ((t, off, off + n) :: acc)) as (ts' & E & M).
    { rewrite drop_len. lia. }
    exists ts'. split.
    + rewrite <- E. destruct t; reflexivity.
    + rewrite M. cbn [rev]. unfold toks. rewrite map_app. cbn [map fst]. rewrite <- app_assoc. reflexivity.
Qed.

(* the flag only decides whether an empty rest gets the synthetic line end *)
Lemma lexes_flag s l1 ts : Lexes s l1 ts -> forall l2, exists ts', Lexes s l2 ts' /\ strip ts' = strip ts.
Proof.
  destruct 1 as [last|c r last t n ts T L]; intros l2.
  - exists (if l2 then [] else [TEndline]). split; [constructor|]. destruct last, l2; reflexivity.
  - exists (t :: ts). split; [econstructor; eassumption|reflexivity].
Qed.

Lemma drop_app a b : drop (slen a) (a ++ b) = b.
Proof. induction a as [|c a IH]; [reflexivity|]. cbn [append]. rewrite slen_cons. cbn [drop]. exact IH. Qed.

Lemma blank_token w b : blank w -> exists t, tok_at false (String w b) = LOk t 1 /\ is_ws t = true.
Proof.
  intros [ -> | [ -> | -> ] ]; cbn [Lexer.tok_at]; cbn; eexists; split; reflexivity.
Qed.

(* from a token boundary on: a blank after a solid token changes nothing but whitespace *)
Theorem blank_after_solid_token a b last t ts w :
  tok_at false (a ++ b) = LOk t (slen a) -> solid t = true -> blank w ->
  Lexes (a ++ b) last (t :: ts) ->
  exists ts', Lexes (a ++ String w b) last (t :: ts') /\ strip ts' = strip ts.
Proof.
  intros T St Bw L.
  pose proof (solid_token_ignores_following_blank keywords reserved_words symbols int_suffixes float_suffixes float_is_zero utf8_ok a b t w b T St Bw) as T'.
  destruct a as [|c a'].
  { exfalso. change ("" ++ String w b) with (String w b) in T'. destruct (blank_token w b Bw) as (tw & Tw & _).
    rewrite Tw in T'. inversion T'. }
  inversion L as [|c0 r0 last0 t0 n0 ts0 T0 L0]; subst.
  change (String c (a' ++ b)) with (String c a' ++ b) in *. rewrite T in T0. inversion T0; subst n0.
  change (S (slen a')) with (slen (String c a')) in L0. rewrite drop_app in L0.
  destruct (blank_token w b Bw) as (tw & Tw & Ww).
  destruct (lexes_flag b (is_endline t) ts L0 (is_endline tw)) as (ts2 & L2 & S2).
  exists (tw :: ts2). split.
  - change (String c (a' ++ String w b)) with (String c a' ++ String w b).
    apply (LexTok c (a' ++ String w b) last t (slen (String c a')) (tw :: ts2)); [exact T'|].
    change (String c (a' ++ String w b)) with (String c a' ++ String w b). rewrite drop_app.
    apply (LexTok w b (is_endline t) tw 1 ts2); [exact Tw|]. cbn [drop]. exact L2.
  - unfold strip in *. cbn [filter]. rewrite Ww. cbn [negb]. exact S2.
Qed.

(* for a whole file that starts with the token *)
Corollary blank_after_first_token a b t w spans :
  tok_at false (a ++ b) = LOk t (slen a) -> solid t = true -> blank w ->
  lex_file (a ++ b) = SOk spans ->
  exists spans', lex_file (a ++ String w b) = SOk spans' /\ strip (toks spans') = strip (toks spans).
Proof.
  intros T St Bw H. unfold Lexer.lex_file in *.
  destruct (lex_all_sound _ _ _ _ _ _ H) as (l & E & L). cbn [rev toks map app] in E.
  destruct l as [|t0 ts0].
  { exfalso. inversion L as [last0 Hs Hl Hn|]. rewrite <- Hs in T. cbn in T. discriminate. }
  assert (t0 = t).
  { inversion L as [|c0 r0 last0 t1 n0 ts1 T0 L0 Hs]; subst. rewrite Hs in T0. rewrite T in T0. inversion T0. reflexivity. }
  subst t0.
  destruct (blank_after_solid_token a b true t ts0 w T St Bw L) as (ts' & L' & S').
  destruct (lex_all_complete _ _ _ L' (S (slen (a ++ String w b))) 0 [] ltac:(lia)) as (sp & E' & M').
  exists sp. split; [exact E'|]. cbn [rev toks map app] in M'. rewrite M', E.
  unfold strip in *. cbn [filter]. destruct (negb (is_ws t)); [f_equal|]; exact S'.
Qed.

End Stream.
