(* SyntaxProofs.v — the parser model of Syntax.v reads back every expression tree from the token text of
   the level-directed printer `pr` (parenthesise exactly when the operand's level exceeds the level its
   position can parse).  Generic in the operator tables; SyntaxBridge.v shows that the printer model with the
   generated numeric precedences is this printer. *)
From Coq Require Import List NArith Bool String Ascii Lia Arith.
From RV Require Import Syntax.
Import ListNotations.
Local Open Scope list_scope.

Definition sy (s : string) : tok := TSym s.

Section Proofs.
(* ---- parser tables ---- *)
Variable G : string -> bool.
Variable prefix_of : string -> option string.
Variable postfix_of : string -> option string.
Variable bin_at : nat -> string -> option string.
(* ---- operator tables as the printer sees them ---- *)
Variable uop : string -> bool.        (* a known UnaryOp *)
Variable upost : string -> bool.
Variable usp : string -> string.
Variable bop : string -> bool.        (* a known BinOp *)
Variable blv : string -> nat.         (* 3..12 binary levels, 13 assignment, 14 sequence *)
Variable bsp : string -> string.

(* expr_pN of a level: 3..12 are themselves, 13 (assignment + conditional) is expr_p14, 14 is expr_p15 *)
Definition pN (l : nat) : nat := if Nat.leb l 12 then l else S l.

(* level of a node: 0 atom, 1 postfix, 2 prefix, 3..12 binary, 13 assignment/conditional, 14 sequence *)
Definition el (e : expr) : nat :=
  match e with
  | EId _ | ELit _ _ => 0
  | EUn o _ => if upost o then 1 else 2
  | EBin o _ _ => blv o
  | ETern _ _ _ => 13
  | ESub _ _ | EMem _ _ | ECall _ _ => 1
  | ECast _ _ => 2
  end.

Definition lctx (o : string) : nat := if Nat.eqb (blv o) 13 then 12 else blv o.
Definition rctx (o : string) : nat := if Nat.eqb (blv o) 13 then 13 else Nat.pred (blv o).

Definition wrap (c : nat) (a : expr) (r : list tok) : list tok :=
  if Nat.leb (el a) c then r else sy "(" :: r ++ [sy ")"].

Fixpoint commas (l : list (list tok)) : list tok :=
  match l with
  | [] => []
  | [x] => x
  | x :: r => x ++ sy "," :: commas r
  end.

Fixpoint raw (e : expr) : list tok :=
  match e with
  | EId x => [TId x]
  | ELit i x => [TLit i x]
  | EUn o a => if upost o then wrap 1 a (raw a) ++ [sy (usp o)] else sy (usp o) :: wrap 2 a (raw a)
  | EBin o a b => wrap (lctx o) a (raw a) ++ sy (bsp o) :: wrap (rctx o) b (raw b)
  | ETern c a b => wrap 12 c (raw c) ++ sy "?" :: wrap 13 a (raw a) ++ sy ":" :: wrap 13 b (raw b)
  | ESub a i => wrap 1 a (raw a) ++ sy "[" :: wrap 1 i (raw i) ++ [sy "]"]
  | EMem a m =>
      (match a with ELit true _ => sy "(" :: raw a ++ [sy ")"] | _ => wrap 1 a (raw a) end) ++ [sy "."; TId m]
  | ECall f args => wrap 1 f (raw f) ++ sy "(" :: commas (map (fun a => wrap 13 a (raw a)) args) ++ [sy ")"]
  | ECast t a => sy "(" :: TId t :: sy ")" :: wrap 2 a (raw a)
  end.

Definition pr (c : nat) (e : expr) : list tok := wrap c e (raw e).

(* ---- well-formed trees: known operators, identifiers that are not type names, cast types that are ---- *)
Fixpoint wf (e : expr) : Prop :=
  match e with
  | EId x => G x = false
  | ELit _ _ => True
  | EUn o a => uop o = true /\ wf a
  | EBin o a b => bop o = true /\ wf a /\ wf b
  | ETern c a b => wf c /\ wf a /\ wf b
  | ESub a i => wf a /\ wf i
  | EMem a _ => wf a
  | ECall f args => wf f /\ (fix all (l : list expr) : Prop := match l with [] => True | x :: r => wf x /\ all r end) args
  | ECast t a => G t = true /\ wf a
  end.

(* ---- hypotheses on the tables (each is a finite check on the generated tables) ---- *)
Definition special (s : string) : bool :=
  existsb (String.eqb s) ["("; ")"; "["; "]"; "."; "?"; ":"]%string.

Hypothesis Hprefix : forall o, uop o = true -> upost o = false -> prefix_of (usp o) = Some o.
Hypothesis Hpostfix : forall o, uop o = true -> upost o = true -> postfix_of (usp o) = Some o.
Hypothesis Hpostfix_inv : forall s o, postfix_of s = Some o -> special s = false /\ (forall n, bin_at n s = None).
Hypothesis Hprefix_paren : prefix_of "(" = None.
Hypothesis Hbin : forall o, bop o = true -> 3 <= blv o <= 14 /\ bin_at (pN (blv o)) (bsp o) = Some o /\ special (bsp o) = false.
Hypothesis Hbin_inv : forall n s o, bin_at n s = Some o -> bop o = true /\ bsp o = s /\ n = pN (blv o).
Hypothesis Hbin_level : forall o o', bop o = true -> bop o' = true -> bsp o = bsp o' -> blv o = blv o'.
Hypothesis Hcomma : forall o, bop o = true -> (blv o = 14 <-> bsp o = ","%string).
Hypothesis Huop_special : forall o, uop o = true -> special (usp o) = false.
Hypothesis Hpostfix_comma : postfix_of "," = None.
Hypothesis Hlt : forall o, bop o = true -> bsp o = "<"%string -> 3 <= blv o <= 12.

(* ---- the rank of the token that follows an operand ---- *)
Definition infix_go (s : string) :=
  fix go (n : nat) : option nat :=
    match n with
    | O => None
    | S n' => match bin_at (pN n) s with Some _ => Some n | None => go n' end
    end.
Definition infix_lv (s : string) : option nat := infix_go s 14.

Definition postfix_start (s : string) : bool :=
  match postfix_of s with Some _ => true | None => existsb (String.eqb s) ["."; "["; "("]%string end.

Definition trank (t : tok) : nat :=
  match t with
  | TSym s =>
      match infix_lv s with
      | Some l => l
      | None => if postfix_start s then 1 else if String.eqb s "?" then 13 else 0
      end
  | _ => 0
  end.
Definition hrank (k : list tok) : nat := match k with t :: _ => trank t | [] => 0 end.

(* no operator that binds tighter than level c starts the continuation (level 13 groups to the right, so an
   operator of level 13 may not follow either) *)
Definition ok (c : nat) (k : list tok) : Prop :=
  hrank k = 0 \/ (if Nat.eqb c 13 then c < hrank k else c <= hrank k).

(* ---- the parser at nesting fuel S f ---- *)
Definition E' (f : nat) := Y G prefix_of postfix_of bin_at f 12.
Definition A' (f : nat) := Y G prefix_of postfix_of bin_at f 11.
Definition Lf (f : nat) := Ylev G prefix_of postfix_of bin_at (E' f) (A' f).
Definition P1 (f : nat) := p1 postfix_of (E' f) (A' f).
Definition P2 (f : nat) := p2 G prefix_of postfix_of (E' f) (A' f).
Definition POST (f : nat) := post postfix_of (A' f).
Definition P14 (f : nat) := p14 bin_at (Lf f 10).

Lemma Y_S f l : Y G prefix_of postfix_of bin_at (S f) l = Lf f l.
Proof. reflexivity. Qed.
Lemma Lf_0 f ts : Lf f 0 ts = P2 f (S (List.length ts)) ts.
Proof. reflexivity. Qed.
Lemma Lf_bin f l ts : 1 <= l <= 10 -> Lf f l ts = level (bin_at (l + 2)) (Lf f (Nat.pred l)) ts.
Proof.
  intros H. destruct l as [|l']; [lia|]. unfold Lf. cbn [Ylev Nat.pred].
  destruct (Nat.leb_spec (S l') 10); [reflexivity | lia].
Qed.
Lemma Lf_11 f ts : Lf f 11 ts = P14 f (S (List.length ts)) ts.
Proof. reflexivity. Qed.
Lemma Lf_12 f ts : Lf f 12 ts = level (bin_at 15) (Lf f 11) ts.
Proof. reflexivity. Qed.

(* the parser entry for an operand position of level c *)
Definition PY (f c n : nat) (ts : list tok) : res :=
  match c with
  | 0 => leaf (E' f) ts
  | 1 => P1 f ts
  | 2 => P2 f n ts
  | _ => if Nat.eqb c 13 then P14 f n ts else if Nat.eqb c 14 then Lf f 12 ts else Lf f (c - 2) ts
  end.

(* operator recogniser and operand parser of a left-associative binary level (3..12, 14) *)
Definition opfn (c : nat) : string -> option string := bin_at (pN c).
Definition opnd (f c : nat) : list tok -> res := if Nat.eqb c 14 then Lf f 11 else Lf f (c - 3).

(* what the parser does after an operand e has been read in a position of level c *)
Definition cont (c f : nat) (e : expr) (k : list tok) (r : res) : Prop :=
  if Nat.eqb c 1 then forall n, List.length k < n -> POST f n e k = r
  else if (Nat.leb 3 c && Nat.leb c 12) || Nat.eqb c 14 then
    forall n, List.length k < n -> rights (opfn c) (opnd f c) n e k = r
  else r = Ok e k.

(* ================= ranks ================= *)
Lemma pN_inj a b : pN a = pN b -> a = b.
Proof. unfold pN. destruct (Nat.leb_spec a 12), (Nat.leb_spec b 12); lia. Qed.

Lemma special_no_bin s n : special s = true -> bin_at n s = None.
Proof.
  intros Hs. destruct (bin_at n s) as [o|] eqn:Hb; [|reflexivity].
  destruct (Hbin_inv _ _ _ Hb) as (Ho & Hsp & _). destruct (Hbin o Ho) as (_ & _ & Hns).
  rewrite Hsp in Hns. congruence.
Qed.

Lemma special_no_postfix s : special s = true -> postfix_of s = None.
Proof.
  intros Hs. destruct (postfix_of s) as [o|] eqn:Hp; [|reflexivity].
  destruct (Hpostfix_inv _ _ Hp) as (Hn & _). congruence.
Qed.

Lemma infix_go_some s c o : bin_at (pN c) s = Some o -> 1 <= c -> forall m, c <= m -> infix_go s m = Some c.
Proof.
  intros Hb Hc. destruct (Hbin_inv _ _ _ Hb) as (Ho & Hsp & Hn). apply pN_inj in Hn.
  induction m as [|m IH]; intros Hm; [lia|].
  cbn [infix_go]. destruct (bin_at (pN (S m)) s) as [o'|] eqn:Hb'.
  - destruct (Hbin_inv _ _ _ Hb') as (Ho' & Hsp' & Hn'). apply pN_inj in Hn'.
    assert (blv o = blv o') by (apply Hbin_level; congruence). f_equal. lia.
  - destruct (Nat.eq_dec c (S m)) as [->|Hne]; [congruence|]. apply IH. lia.
Qed.

Lemma infix_lv_some s c o : bin_at (pN c) s = Some o -> 1 <= c <= 14 -> infix_lv s = Some c.
Proof. intros Hb Hc. apply (infix_go_some s c o Hb); lia. Qed.

Lemma infix_go_none s : (forall n, bin_at n s = None) -> forall m, infix_go s m = None.
Proof. intros H. induction m as [|m IH]; [reflexivity|]. cbn [infix_go]. rewrite H. exact IH. Qed.

Lemma infix_lv_none s : (forall n, bin_at n s = None) -> infix_lv s = None.
Proof. intros H. apply (infix_go_none s H). Qed.

Lemma infix_go_inv s : forall m l, infix_go s m = Some l -> exists o, bin_at (pN l) s = Some o.
Proof.
  induction m as [|m IH]; intros l H; [discriminate|]. cbn [infix_go] in H.
  destruct (bin_at (pN (S m)) s) as [o|] eqn:Hb.
  - inversion H; subst l. exists o. exact Hb.
  - apply IH. exact H.
Qed.

Lemma infix_lv_inv s l : infix_lv s = Some l -> exists o, bop o = true /\ bsp o = s /\ l = blv o.
Proof.
  intros H. destruct (infix_go_inv s 14 l H) as [o Hb]. exists o.
  destruct (Hbin_inv _ _ _ Hb) as (Ho & Hsp & Hn). apply pN_inj in Hn. auto.
Qed.

Lemma trank_bin o : bop o = true -> trank (TSym (bsp o)) = blv o.
Proof.
  intros Ho. destruct (Hbin o Ho) as (Hr & Hb & _). unfold trank.
  rewrite (infix_lv_some _ _ _ Hb) by lia. reflexivity.
Qed.

Lemma trank_special s : special s = true ->
  trank (TSym s) = if existsb (String.eqb s) ["."; "["; "("]%string then 1 else if String.eqb s "?" then 13 else 0.
Proof.
  intros Hs. unfold trank. rewrite infix_lv_none by (intros n; apply special_no_bin; exact Hs).
  unfold postfix_start. rewrite (special_no_postfix s Hs). reflexivity.
Qed.

Lemma trank_postfix s o : postfix_of s = Some o -> trank (TSym s) = 1.
Proof.
  intros Hp. destruct (Hpostfix_inv _ _ Hp) as (_ & Hn). unfold trank.
  rewrite infix_lv_none by exact Hn. unfold postfix_start. rewrite Hp. reflexivity.
Qed.

Lemma trank_comma : trank (TSym ",") = 0 \/ trank (TSym ",") = 14.
Proof.
  unfold trank. destruct (infix_lv ",") as [l|] eqn:Hl.
  - right. destruct (infix_lv_inv _ _ Hl) as (o & Ho & Hsp & ->). apply (Hcomma o Ho). exact Hsp.
  - left. unfold postfix_start. rewrite Hpostfix_comma. reflexivity.
Qed.

(* ================= loops stop at a continuation of looser rank ================= *)
Lemma gt_paren_tl t r : gt_paren (t :: r) = false -> gt_paren r = false.
Proof.
  cbn [gt_paren]. destruct t as [x|i x|a]; try (intros H; exact H).
  destruct r as [|[y|j y|b] r']; try (intros H; exact H).
  intros H. apply orb_false_iff in H. exact (proj2 H).
Qed.

Lemma gt_paren_app a b : gt_paren (a ++ b) = false -> gt_paren b = false.
Proof. induction a as [|t a IH]; cbn [app]; intros H; [exact H|]. apply IH. exact (gt_paren_tl _ _ H). Qed.

Lemma str_eqb_refl s : String.eqb s s = true.
Proof. apply String.eqb_refl. Qed.

Lemma post_stop f n e k :
  hrank k = 0 \/ 1 < hrank k -> gt_paren k = false -> POST f (S n) e k = Ok e k.
Proof.
  intros Hr Hg. unfold POST. cbn [post]. destruct k as [|[x|i x|s] r]; try reflexivity.
  cbn [hrank] in Hr.
  destruct (postfix_of s) as [o|] eqn:Hp.
  { rewrite (trank_postfix _ _ Hp) in Hr. lia. }
  destruct (String.eqb s ".") eqn:E1.
  { apply String.eqb_eq in E1; subst s. rewrite trank_special in Hr by reflexivity. cbn in Hr. lia. }
  destruct (String.eqb s "[") eqn:E2.
  { apply String.eqb_eq in E2; subst s. rewrite trank_special in Hr by reflexivity. cbn in Hr. lia. }
  destruct (String.eqb s "(") eqn:E3.
  { apply String.eqb_eq in E3; subst s. rewrite trank_special in Hr by reflexivity. cbn in Hr. lia. }
  destruct (String.eqb s "<") eqn:E4; [|reflexivity].
  rewrite (gt_paren_tl _ _ Hg). reflexivity.
Qed.

Lemma rights_stop c fn n e k :
  1 <= c <= 14 -> hrank k = 0 \/ c < hrank k -> rights (opfn c) fn (S n) e k = Ok e k.
Proof.
  intros Hc Hr. cbn [rights]. destruct k as [|[x|i x|s] r]; try reflexivity.
  unfold opfn. destruct (bin_at (pN c) s) as [o|] eqn:Hb; [|reflexivity].
  cbn [hrank] in Hr. unfold trank in Hr. rewrite (infix_lv_some _ _ _ Hb Hc) in Hr. lia.
Qed.

Lemma tail14_stop rec e k : hrank k = 0 \/ 13 < hrank k -> tail14 bin_at rec e k = Ok e k.
Proof.
  intros Hr. unfold tail14. destruct k as [|[x|i x|s] r]; try reflexivity.
  cbn [hrank] in Hr.
  destruct (String.eqb s "?") eqn:E1.
  { apply String.eqb_eq in E1; subst s. rewrite trank_special in Hr by reflexivity. cbn in Hr. lia. }
  destruct (bin_at 14 s) as [o|] eqn:Hb; [|reflexivity].
  unfold trank in Hr. rewrite (infix_lv_some s 13 o) in Hr by (try exact Hb; lia). lia.
Qed.

Lemma cont_stop c f e k :
  c <= 14 -> hrank k = 0 \/ c < hrank k -> gt_paren k = false -> cont c f e k (Ok e k).
Proof.
  intros Hc Hr Hg. unfold cont.
  destruct (Nat.eqb_spec c 1) as [->|H1].
  { intros n Hn. destruct n; [lia|]. apply post_stop; assumption. }
  destruct ((Nat.leb 3 c && Nat.leb c 12) || Nat.eqb c 14) eqn:Hb; [|reflexivity].
  intros n Hn. destruct n; [lia|]. apply rights_stop; [|exact Hr].
  apply orb_true_iff in Hb. destruct Hb as [Hb|Hb].
  - apply andb_true_iff in Hb. destruct Hb as [Ha Hb]. apply Nat.leb_le in Ha. lia.
  - apply Nat.eqb_eq in Hb. lia.
Qed.

Lemma ok_weaken c c' k : ok c k -> c' <= c -> ok c' k.
Proof.
  unfold ok. intros [H|H] L; [left; exact H|]. right.
  destruct (Nat.eqb_spec c 13), (Nat.eqb_spec c' 13); lia.
Qed.

Lemma ok_below c c' k : ok c k -> c' < c -> hrank k = 0 \/ c' < hrank k.
Proof. unfold ok. intros [H|H] L; [left; exact H|]. right. destruct (Nat.eqb_spec c 13); lia. Qed.

(* ================= handing an operand up the levels ================= *)
Definition plain (ts : list tok) : Prop :=
  match ts with
  | TId _ :: _ | TLit _ _ :: _ => True
  | TSym s :: r => s = "("%string /\ match r with TId t :: _ => G t = false | [] => False | _ => True end
  | [] => False
  end.

Lemma P2_plain f n ts : plain ts -> P2 f (S n) ts = P1 f ts.
Proof.
  unfold P2, P1. cbn [p2]. destruct ts as [|[x|i x|s] r]; cbn [plain]; intros H; try reflexivity.
  destruct H as [-> H]. rewrite Hprefix_paren.
  destruct r as [|[t|i t|a] r']; try reflexivity.
  destruct r' as [|[y|j y|c] r2]; try reflexivity.
  rewrite H, andb_false_r. reflexivity.
Qed.

Lemma step_up f j ts e k res :
  j < 14 ->
  (forall n, List.length ts < n -> PY f j n ts = Ok e k) ->
  List.length k <= List.length ts ->
  (j = 1 -> plain ts) ->
  ok (S j) k ->
  cont (S j) f e k res ->
  forall n, List.length ts < n -> PY f (S j) n ts = res.
Proof.
  intros Hj Hi Hlen Hplain Hok Hc n Hn.
  assert (Hi0 := Hi (S (List.length ts)) ltac:(lia)).
  destruct j as [|[|j]].
  - (* 0 -> 1 *)
    cbn [PY] in *. unfold P1, p1. unfold cont in Hc. cbn in Hc. rewrite Hi0. apply (Hc (S (List.length k))). lia.
  - (* 1 -> 2 *)
    cbn [PY] in *. destruct n; [lia|]. rewrite (P2_plain f n ts (Hplain eq_refl)).
    unfold cont in Hc. cbn in Hc. subst res. exact Hi0.
  - (* S (S j) -> S (S (S j)), levels 3 .. 14 *)
    destruct (Nat.eq_dec j 10) as [->|N10].
    { (* 12 -> 13 *)
      change (PY f 12 (S (List.length ts)) ts) with (Lf f 10 ts) in Hi0.
      change (PY f 13 n ts) with (P14 f n ts).
      unfold P14 in *. destruct n; [lia|]. cbn [p14]. rewrite Hi0.
      unfold cont in Hc. cbn in Hc. subst res. apply tail14_stop.
      unfold ok in Hok. cbn in Hok. exact Hok. }
    destruct (Nat.eq_dec j 11) as [->|N11].
    { (* 13 -> 14 *)
      change (PY f 13 (S (List.length ts)) ts) with (P14 f (S (List.length ts)) ts) in Hi0.
      change (PY f 14 n ts) with (Lf f 12 ts).
      rewrite Lf_12. unfold level. rewrite Lf_11. rewrite Hi0.
      unfold cont in Hc. cbn in Hc. apply (Hc (S (List.length k))). lia. }
    (* binary level c = j + 3 in 3 .. 12 *)
    assert (Hj9 : j <= 9) by lia.
    assert (HPY : PY f (S (S (S j))) n ts = Lf f (S j) ts).
    { cbn [PY]. destruct (Nat.eqb_spec (S (S (S j))) 13); [lia|]. destruct (Nat.eqb_spec (S (S (S j))) 14); [lia|].
      f_equal. }
    rewrite HPY. rewrite Lf_bin by lia. unfold level. cbn [Nat.pred].
    assert (Hopnd : Lf f j ts = Ok e k).
    { destruct j as [|j'].
      - rewrite Lf_0. exact Hi0.
      - revert Hi0. cbn [PY].
        destruct (Nat.eqb_spec (S (S (S j'))) 13); [lia|]. destruct (Nat.eqb_spec (S (S (S j'))) 14); [lia|].
        cbn [Nat.sub]. intros Hi0; exact Hi0. }
    rewrite Hopnd.
    unfold cont in Hc.
    destruct (Nat.eqb_spec (S (S (S j))) 1); [lia|].
    replace ((Nat.leb 3 (S (S (S j))) && Nat.leb (S (S (S j))) 12) || Nat.eqb (S (S (S j))) 14) with true in Hc
      by (symmetry; apply orb_true_iff; left; apply andb_true_iff; split; apply Nat.leb_le; lia).
    unfold opfn, opnd, pN in Hc. destruct (Nat.leb_spec (S (S (S j))) 12); [|lia].
    destruct (Nat.eqb_spec (S (S (S j))) 14); [lia|].
    replace (S j + 2) with (S (S (S j))) by lia. replace (S (S (S j)) - 3) with j in Hc by lia.
    apply (Hc (S (List.length k))). lia.
Qed.

Lemma lift f i ts e k :
  (forall n, List.length ts < n -> PY f i n ts = Ok e k) ->
  List.length k <= List.length ts -> gt_paren k = false -> (i <= 1 -> plain ts) ->
  forall j res, i < j <= 14 -> ok j k -> cont j f e k res ->
  forall n, List.length ts < n -> PY f j n ts = res.
Proof.
  intros Hi Hlen Hg Hplain j. induction j as [|j IH]; intros res Hj Hok Hc; [lia|].
  destruct (Nat.eq_dec i j) as [->|Hne].
  - apply (step_up f j ts e k); try assumption; try lia. intros ->. apply Hplain. lia.
  - assert (Hj' : forall n, List.length ts < n -> PY f j n ts = Ok e k).
    { apply IH; [lia | eapply ok_weaken; [exact Hok | lia] |].
      apply cont_stop; [lia | eapply ok_below; [exact Hok | lia] | exact Hg]. }
    apply (step_up f j ts e k); try assumption; try lia. intros ->. apply Hplain. lia.
Qed.

Lemma from_level f i ts e k :
  (forall res, cont i f e k res -> forall n, List.length ts < n -> PY f i n ts = res) ->
  List.length k <= List.length ts -> gt_paren k = false -> (i <= 1 -> plain ts) ->
  forall c res, i <= c <= 14 -> ok c k -> cont c f e k res ->
  forall n, List.length ts < n -> PY f c n ts = res.
Proof.
  intros Hi Hlen Hg Hplain c res Hc Hok Hcont.
  destruct (Nat.eq_dec i c) as [->|Hne]; [apply Hi; exact Hcont|].
  apply (lift f i ts e k); try assumption; [|lia].
  apply Hi. apply cont_stop; [lia | eapply ok_below; [exact Hok | lia] | exact Hg].
Qed.

(* ================= the first token of printed text ================= *)
Definition goodhd (ts : list tok) : Prop :=
  match ts with
  | TId t :: _ => G t = false
  | TLit _ _ :: _ => True
  | TSym s :: _ => s <> ")"%string
  | [] => False
  end.

Lemma goodhd_app a b : goodhd a -> goodhd (a ++ b).
Proof. destruct a as [|[x|i x|s] r]; cbn; intros H; try exact H. destruct H. Qed.

Lemma wrap_app c a r k : wrap c a r ++ k = if Nat.leb (el a) c then r ++ k else sy "(" :: r ++ sy ")" :: k.
Proof. unfold wrap. destruct (Nat.leb (el a) c); [reflexivity|]. cbn [app]. rewrite <- app_assoc. reflexivity. Qed.

Lemma goodhd_wrap c a r : goodhd r -> goodhd (wrap c a r).
Proof. unfold wrap. destruct (Nat.leb (el a) c); [auto|]. intros _. cbn. discriminate. Qed.

Lemma goodhd_raw e : wf e -> goodhd (raw e).
Proof.
  induction e as [x|i x|o a IH|o a IHa b IHb|c IHc a IHa b IHb|a IHa i IHi|a IHa m|fn IHf args|t a IH]; cbn [wf raw]; intros H.
  - exact H.
  - exact Logic.I.
  - destruct H as [Ho Ha]. destruct (upost o).
    + apply goodhd_app, goodhd_wrap, IH, Ha.
    + cbn. intros E. pose proof (Huop_special o Ho) as Hs. rewrite E in Hs. discriminate.
  - destruct H as (Ho & Ha & Hb). apply goodhd_app, goodhd_wrap, IHa, Ha.
  - destruct H as (Hc & Ha & Hb). apply goodhd_app, goodhd_wrap, IHc, Hc.
  - destruct H as (Ha & Hi). apply goodhd_app, goodhd_wrap, IHa, Ha.
  - apply goodhd_app. destruct a as [x|[|] x|o a'|o a' b'|c' a' b'|a' i'|a' m'|f' l'|t' a']; try (apply goodhd_wrap, IHa, H).
    cbn. discriminate.
  - destruct H as (Hf & _). apply goodhd_app, goodhd_wrap, IHf, Hf.
  - cbn. discriminate.
Qed.

Lemma goodhd_pr c e : wf e -> goodhd (pr c e).
Proof. intros H. apply goodhd_wrap, goodhd_raw, H. Qed.

Lemma plain_app a b : plain a -> plain (a ++ b).
Proof.
  destruct a as [|[x|i x|s] r]; cbn; intros H; try exact H; [destruct H|]. destruct H as [-> H]. split; [reflexivity|].
  destruct r as [|[t|j t|c] r']; cbn; auto. destruct H.
Qed.

Lemma plain_paren r k : goodhd r -> plain (sy "(" :: r ++ k).
Proof.
  intros H. cbn. split; [reflexivity|]. destruct r as [|[t|j t|c] r']; cbn in *; auto. destruct H.
Qed.

Lemma plain_wrap1 a : wf a -> (el a <= 1 -> plain (raw a)) -> plain (wrap 1 a (raw a)).
Proof.
  intros Hw Hp. unfold wrap. destruct (Nat.leb_spec (el a) 1); [apply Hp; assumption|].
  apply (plain_paren (raw a) [sy ")"]). apply goodhd_raw, Hw.
Qed.

Lemma plain_raw e : wf e -> el e <= 1 -> plain (raw e).
Proof.
  induction e as [x|i x|o a IH|o a IHa b IHb|c IHc a IHa b IHb|a IHa i IHi|a IHa m|fn IHf args|t a IH]; cbn [wf raw el]; intros H Hl.
  - exact Logic.I.
  - exact Logic.I.
  - destruct H as [Ho Ha]. destruct (upost o); [|lia]. apply plain_app, plain_wrap1; [exact Ha | apply IH, Ha].
  - destruct H as (Ho & _). destruct (Hbin o Ho) as (Hr & _). lia.
  - lia.
  - destruct H as (Ha & Hi). apply plain_app, plain_wrap1; [exact Ha | apply IHa, Ha].
  - apply plain_app. destruct a as [x|[|] x|o a'|o a' b'|c' a' b'|a' i'|a' m'|f' l'|t' a']; try (apply plain_wrap1; [exact H | apply IHa, H]).
    cbn. split; [reflexivity | exact Logic.I].
  - destruct H as (Hf & _). apply plain_app, plain_wrap1; [exact Hf | apply IHf, Hf].
  - lia.
Qed.

(* ================= nesting depth (fuel) ================= *)
Fixpoint dep (e : expr) : nat :=
  let d := fun (c : nat) (a : expr) => if Nat.leb (el a) c then dep a else S (dep a) in
  match e with
  | EId _ | ELit _ _ => 0
  | EUn o a => if upost o then d 1 a else d 2 a
  | EBin o a b => Nat.max (d (lctx o) a) (d (rctx o) b)
  | ETern c a b => Nat.max (d 12 c) (Nat.max (d 13 a) (d 13 b))
  | ESub a i => Nat.max (d 1 a) (S (d 1 i))
  | EMem a m => match a with ELit true _ => 1 | _ => d 1 a end
  | ECall f args => Nat.max (d 1 f) (S (fold_right (fun a m => Nat.max (d 13 a) m) 0 args))
  | ECast t a => d 2 a
  end.
Definition depc (c : nat) (e : expr) : nat := if Nat.leb (el e) c then dep e else S (dep e).

Definition claim (e : expr) : Prop :=
  forall f c k res, c <= 14 -> depc c e <= f -> ok c k -> gt_paren (pr c e ++ k) = false ->
    cont c f e k res -> forall n, List.length (pr c e ++ k) < n -> PY f c n (pr c e ++ k) = res.

Lemma trank_close : trank (TSym ")") = 0.
Proof. rewrite trank_special by reflexivity. reflexivity. Qed.

(* the statement at the node's own level implies the claim in every position *)
Lemma paren_case e :
  wf e -> el e <= 14 ->
  (forall f k res, dep e <= f -> ok (el e) k -> gt_paren (raw e ++ k) = false -> cont (el e) f e k res ->
     forall n, List.length (raw e ++ k) < n -> PY f (el e) n (raw e ++ k) = res) ->
  claim e.
Proof.
  intros Hw Hel Hraw f c k res Hc Hf Hok Hg Hcont.
  unfold pr, depc in *. rewrite wrap_app in *.
  destruct (Nat.leb_spec (el e) c) as [Hle|Hgt].
  - apply (from_level f (el e) (raw e ++ k) e k); try assumption; try lia.
    + intros res' Hc' n Hn. apply Hraw; try assumption. eapply ok_weaken; [exact Hok | exact Hle].
    + rewrite app_length. lia.
    + apply (gt_paren_app _ _ Hg).
    + intros H1. apply plain_app, plain_raw; assumption.
  - destruct f as [|f']; [lia|].
    assert (Hleaf : forall n, List.length (sy "(" :: raw e ++ sy ")" :: k) < n ->
                      PY (S f') 0 n (sy "(" :: raw e ++ sy ")" :: k) = Ok e k).
    { intros n _.
      assert (HE : PY f' 14 (S (List.length (raw e ++ TSym ")" :: k))) (raw e ++ TSym ")" :: k) = Ok e (TSym ")" :: k)).
      { apply (from_level f' (el e) (raw e ++ TSym ")" :: k) e (TSym ")" :: k)); try lia.
        - intros res' Hc' n' Hn'. apply Hraw; try assumption; try lia.
          + left. cbn [hrank]. apply trank_close.
          + apply (gt_paren_tl _ _ Hg).
        - rewrite app_length. lia.
        - apply (gt_paren_app (sy "(" :: raw e)). exact Hg.
        - intros H1. apply plain_app, plain_raw; assumption.
        - left. cbn [hrank]. apply trank_close.
        - apply cont_stop; [lia | left; cbn [hrank]; apply trank_close |].
          apply (gt_paren_app (sy "(" :: raw e)). exact Hg. }
      change (Lf f' 12 (raw e ++ TSym ")" :: k) = Ok e (TSym ")" :: k)) in HE.
      unfold sy. cbn [PY leaf]. change (String.eqb "(" "(") with true. cbv iota. unfold E'. rewrite Y_S. rewrite HE.
      change (String.eqb ")" ")") with true. cbv iota. reflexivity. }
    apply (from_level (S f') 0 (sy "(" :: raw e ++ sy ")" :: k) e k); try assumption; try lia.
    + intros res' Hc' n Hn. unfold cont in Hc'. cbn in Hc'. subst res'. apply Hleaf. exact Hn.
    + cbn [List.length]. rewrite app_length. cbn [List.length]. lia.
    + apply (gt_paren_app (sy "(" :: raw e ++ [sy ")"])). cbn [app]. rewrite <- app_assoc. exact Hg.
    + intros _. apply plain_paren, goodhd_raw, Hw.
Qed.

(* ================= induction principle with the argument lists ================= *)
Lemma expr_ind' (P : expr -> Prop) :
  (forall x, P (EId x)) -> (forall i x, P (ELit i x)) ->
  (forall o a, P a -> P (EUn o a)) -> (forall o a b, P a -> P b -> P (EBin o a b)) ->
  (forall c a b, P c -> P a -> P b -> P (ETern c a b)) -> (forall a i, P a -> P i -> P (ESub a i)) ->
  (forall a m, P a -> P (EMem a m)) -> (forall f args, P f -> Forall P args -> P (ECall f args)) ->
  (forall t a, P a -> P (ECast t a)) -> forall e, P e.
Proof.
  intros H1 H2 H3 H4 H5 H6 H7 H8 H9.
  fix IH 1. intros [x|i x|o a|o a b|c a b|a i|a m|f args|t a].
  - apply H1.
  - apply H2.
  - apply H3, IH.
  - apply H4; apply IH.
  - apply H5; apply IH.
  - apply H6; apply IH.
  - apply H7, IH.
  - apply H8; [apply IH|]. induction args as [|x r IHr]; constructor; [apply IH | exact IHr].
  - apply H9, IH.
Qed.

Fixpoint wf_all (l : list expr) : Prop := match l with [] => True | x :: r => wf x /\ wf_all r end.
Lemma wf_call f args : wf (ECall f args) <-> wf f /\ wf_all args.
Proof.
  cbn [wf]. split; intros [Hf Ha]; (split; [exact Hf|]); induction args as [|x r IH]; cbn in *; auto;
    destruct Ha as [Hx Hr]; split; auto.
Qed.

Lemma el_le e : wf e -> el e <= 14.
Proof.
  destruct e; cbn [el wf]; intros H; try lia.
  - destruct (upost o); lia.
  - destruct H as (Ho & _). destruct (Hbin o Ho) as (Hr & _). lia.
Qed.

Lemma depc_eq c e : depc c e = if Nat.leb (el e) c then dep e else S (dep e).
Proof. reflexivity. Qed.

Lemma pr_app c e k : pr c e ++ k = wrap c e (raw e) ++ k.
Proof. reflexivity. Qed.

Lemma use_claim a c f k res n :
  claim a -> c <= 14 -> depc c a <= f -> ok c k -> gt_paren (wrap c a (raw a) ++ k) = false ->
  cont c f a k res -> List.length (wrap c a (raw a) ++ k) < n -> PY f c n (wrap c a (raw a) ++ k) = res.
Proof. intros H H1 H2 H3 H4 H5 H6. apply (H f c k res); assumption. Qed.

Lemma bsp_not_q o : bop o = true -> String.eqb (bsp o) "?" = false.
Proof.
  intros Ho. destruct (Hbin o Ho) as (_ & _ & Hs). destruct (String.eqb (bsp o) "?") eqn:E; [|reflexivity].
  apply String.eqb_eq in E. rewrite E in Hs. discriminate.
Qed.

Lemma opnd_PY f L ts : (3 <= L <= 12 \/ L = 14) -> opnd f L ts = PY f (Nat.pred L) (S (List.length ts)) ts.
Proof.
  intros H. unfold opnd. destruct (Nat.eqb_spec L 14) as [->|N14].
  - cbn [Nat.pred]. change (PY f 13 (S (List.length ts)) ts) with (P14 f (S (List.length ts)) ts). apply Lf_11.
  - destruct (Nat.eq_dec L 3) as [->|N3].
    + cbn [Nat.pred Nat.sub]. change (PY f 2 (S (List.length ts)) ts) with (P2 f (S (List.length ts)) ts). apply Lf_0.
    + destruct L as [|[|[|[|L']]]]; try lia. cbn [Nat.pred PY].
      destruct (Nat.eqb_spec (S (S (S L'))) 13); [lia|]. destruct (Nat.eqb_spec (S (S (S L'))) 14); [lia|].
      f_equal.
Qed.

Lemma cont_refl c f e k : (c = 0 \/ c = 2 \/ c = 13) -> cont c f e k (Ok e k).
Proof. intros [->|[->| ->]]; reflexivity. Qed.

(* ================= one lemma per node kind ================= *)
Lemma claim_id x : G x = false -> claim (EId x).
Proof.
  intros Hx. apply paren_case; [exact Hx | cbn; lia |].
  intros f k res _ _ _ Hc n _. cbn in Hc. subst res. reflexivity.
Qed.

Lemma claim_lit i x : claim (ELit i x).
Proof.
  apply paren_case; [exact Logic.I | cbn; lia |].
  intros f k res _ _ _ Hc n _. cbn in Hc. subst res. reflexivity.
Qed.

Lemma claim_un o a : wf (EUn o a) -> claim a -> claim (EUn o a).
Proof.
  intros Hw IHa. pose proof Hw as [Ho Ha]. apply paren_case; [exact Hw | apply el_le, Hw |].
  intros f k res Hd Hok Hg Hcont n Hn. cbn [el raw dep] in *. destruct (upost o) eqn:Hpo.
  - (* postfix *)
    rewrite <- app_assoc in *. cbn [app] in *.
    apply (use_claim a 1 f (sy (usp o) :: k) res n IHa); try assumption; try lia.
    + right. cbn [hrank]. unfold sy. rewrite (trank_postfix _ o (Hpostfix o Ho Hpo)). cbn. lia.
    + unfold cont. cbn [Nat.eqb]. intros m Hm. destruct m; [cbn in Hm; lia|].
      unfold POST, sy. cbn [post]. rewrite (Hpostfix o Ho Hpo).
      unfold cont in Hcont. cbn [Nat.eqb] in Hcont. apply Hcont. cbn [List.length] in Hm. lia.
  - (* prefix *)
    cbn [app] in *. unfold cont in Hcont. cbn in Hcont. subst res.
    destruct n; [lia|]. cbn [PY]. unfold P2, sy. cbn [p2]. rewrite (Hprefix o Ho Hpo).
    change (p2 G prefix_of postfix_of (E' f) (A' f) n) with (PY f 2 n).
    rewrite (use_claim a 2 f k (Ok a k) n IHa); try assumption; try lia; try reflexivity.
    + apply (gt_paren_tl _ _ Hg).
    + cbn [List.length] in Hn. lia.
Qed.

Lemma claim_cast t a : wf (ECast t a) -> claim a -> claim (ECast t a).
Proof.
  intros Hw IHa. pose proof Hw as [Ht Ha]. apply paren_case; [exact Hw | apply el_le, Hw |].
  intros f k res Hd Hok Hg Hcont n Hn. cbn [el raw dep app] in *.
  unfold cont in Hcont. cbn in Hcont. subst res.
  destruct n; [lia|]. cbn [PY]. unfold P2, sy. cbn [p2]. rewrite Hprefix_paren. rewrite Ht.
  change (String.eqb "(" "(") with true. change (String.eqb ")" ")") with true. cbn [andb].
  change (p2 G prefix_of postfix_of (E' f) (A' f) n) with (PY f 2 n).
  rewrite (use_claim a 2 f k (Ok a k) n IHa); try assumption; try lia; try reflexivity.
  - apply (gt_paren_app [sy "("; TId t; sy ")"]). exact Hg.
  - cbn [List.length] in Hn. lia.
Qed.

Lemma cont_bin c f e k r :
  (3 <= c <= 12 \/ c = 14) ->
  cont c f e k r = (forall n, List.length k < n -> rights (opfn c) (opnd f c) n e k = r).
Proof.
  intros H. unfold cont. destruct (Nat.eqb_spec c 1); [lia|].
  replace ((Nat.leb 3 c && Nat.leb c 12) || Nat.eqb c 14) with true; [reflexivity|].
  symmetry. apply orb_true_iff. destruct H as [H| ->]; [left | right; reflexivity].
  apply andb_true_iff; split; apply Nat.leb_le; lia.
Qed.

Lemma claim_bin o a b : wf (EBin o a b) -> claim a -> claim b -> claim (EBin o a b).
Proof.
  intros Hw IHa IHb. pose proof Hw as (Ho & Ha & Hb). apply paren_case; [exact Hw | apply el_le, Hw |].
  intros f k res Hd Hok Hg Hcont n Hn. cbn [el raw dep] in *.
  destruct (Hbin o Ho) as (Hr & Hat & Hsp).
  rewrite <- app_assoc in *. cbn [app] in *.
  unfold lctx, rctx in *. destruct (Nat.eqb_spec (blv o) 13) as [E13|N13].
  - (* assignment: level 13, groups to the right *)
    rewrite E13 in *.
    assert (Hda : depc 12 a <= f) by (unfold depc; lia).
    assert (Hdb : depc 13 b <= f) by (unfold depc; lia).
    unfold cont in Hcont. cbn in Hcont. subst res.
    change (PY f 13 n) with (P14 f n). unfold P14. destruct n; [lia|]. cbn [p14].
    change (Lf f 10) with (fun ts => PY f 12 (S (List.length ts)) ts). cbv beta.
    rewrite (use_claim a 12 f (sy (bsp o) :: wrap 13 b (raw b) ++ k) (Ok a (sy (bsp o) :: wrap 13 b (raw b) ++ k)) _ IHa);
      try assumption; try lia.
    + unfold tail14, sy. rewrite (bsp_not_q o Ho). change (bin_at 14 (bsp o)) with (bin_at (pN 13) (bsp o)). rewrite Hat.
      change (p14 bin_at (fun ts => PY f 12 (S (List.length ts)) ts) n) with (PY f 13 n).
      rewrite (use_claim b 13 f k (Ok b k) n IHb); try assumption; try lia; try reflexivity.
      * apply (gt_paren_app (wrap 12 a (raw a) ++ [sy (bsp o)])). rewrite <- app_assoc. exact Hg.
      * rewrite app_length in Hn. cbn [List.length] in Hn. lia.
    + right. cbn [hrank Nat.eqb]. unfold sy. rewrite (trank_bin o Ho). lia.
    + apply cont_stop; [lia | | apply (gt_paren_app _ _ Hg)].
      right. cbn [hrank]. unfold sy. rewrite (trank_bin o Ho). lia.
  - (* left-associative level *)
    set (L := blv o) in *.
    assert (HL : 3 <= L <= 12 \/ L = 14) by lia.
    assert (Hda : depc L a <= f) by (unfold depc; lia).
    assert (Hdb : depc (Nat.pred L) b <= f) by (unfold depc; lia).
    rewrite (cont_bin L f _ k res HL) in Hcont.
    apply (use_claim a L f (sy (bsp o) :: wrap (Nat.pred L) b (raw b) ++ k) res n IHa); try assumption; try lia.
    + right. cbn [hrank]. unfold sy. rewrite (trank_bin o Ho). fold L. destruct (Nat.eqb_spec L 13); lia.
    + rewrite (cont_bin L f a _ res HL). intros m Hm. destruct m; [cbn in Hm; lia|].
      unfold sy. cbn [rights]. unfold opfn at 1. fold L in Hat. rewrite Hat.
      rewrite (opnd_PY f L _ HL).
      assert (HgK : gt_paren (wrap (Nat.pred L) b (raw b) ++ k) = false).
      { apply (gt_paren_app (wrap L a (raw a) ++ [sy (bsp o)])). rewrite <- app_assoc. exact Hg. }
      rewrite (use_claim b (Nat.pred L) f k (Ok b k) _ IHb); try assumption; try lia.
      * apply Hcont. cbn [List.length] in Hm. rewrite app_length in Hm. lia.
      * eapply ok_weaken; [exact Hok | lia].
      * apply cont_stop; [lia | eapply ok_below; [exact Hok | lia] | apply (gt_paren_app _ _ HgK)].
Qed.

Lemma tail14_tern rec c a b r0 r1 k :
  rec r0 = Ok a (TSym ":" :: r1) -> rec r1 = Ok b k ->
  (forall s r' o, k = TSym s :: r' -> bin_at 14 s = Some o -> False) ->
  tail14 bin_at rec c (TSym "?" :: r0) = Ok (ETern c a b) k.
Proof.
  intros H0 H1 Hk. unfold tail14. change (String.eqb "?" "?") with true. cbv iota. rewrite H0.
  change (String.eqb ":" ":") with true. cbv iota. rewrite H1.
  destruct k as [|[x|i x|s] r]; try reflexivity.
  destruct (bin_at 14 s) as [o|] eqn:Hb; [|reflexivity]. exfalso. exact (Hk s r o eq_refl Hb).
Qed.

Lemma claim_tern c a b : wf (ETern c a b) -> claim c -> claim a -> claim b -> claim (ETern c a b).
Proof.
  intros Hw IHc IHa IHb. pose proof Hw as (Hc & Ha & Hb). apply paren_case; [exact Hw | cbn; lia |].
  intros f k res Hd Hok Hg Hcont n Hn. cbn [el raw dep] in *.
  repeat (rewrite <- app_assoc in *; cbn [app] in * ).
  assert (Hdc : depc 12 c <= f) by (unfold depc; lia).
  assert (Hda : depc 13 a <= f) by (unfold depc; lia).
  assert (Hdb : depc 13 b <= f) by (unfold depc; lia).
  unfold cont in Hcont. cbn in Hcont. subst res.
  change (PY f 13 n) with (P14 f n). unfold P14. destruct n; [lia|]. cbn [p14].
  change (Lf f 10) with (fun ts => PY f 12 (S (List.length ts)) ts). cbv beta.
  set (k2 := sy ":" :: wrap 13 b (raw b) ++ k) in *.
  set (k1 := sy "?" :: wrap 13 a (raw a) ++ k2) in *.
  assert (Hg1 : gt_paren k1 = false) by apply (gt_paren_app _ _ Hg).
  assert (Hg2 : gt_paren k2 = false) by apply (gt_paren_app (sy "?" :: wrap 13 a (raw a)) _ Hg1).
  assert (Hg3 : gt_paren (wrap 13 b (raw b) ++ k) = false) by apply (gt_paren_tl _ _ Hg2).
  rewrite (use_claim c 12 f k1 (Ok c k1) _ IHc); try assumption; try lia.
  - unfold k1 at 1. unfold sy at 1.
    change (p14 bin_at (fun ts => PY f 12 (S (List.length ts)) ts) n) with (PY f 13 n).
    assert (Hlen : List.length (wrap 13 a (raw a) ++ k2) < n).
    { unfold k1 in Hn. rewrite app_length in Hn. cbn [List.length] in Hn. lia. }
    apply (tail14_tern (PY f 13 n) c a b _ (wrap 13 b (raw b) ++ k) k).
    + apply (use_claim a 13 f k2 (Ok a k2) n IHa); try assumption; try lia; try reflexivity.
      * left. unfold k2. cbn [hrank]. unfold sy. rewrite trank_special by reflexivity. reflexivity.
      * apply (gt_paren_tl _ _ Hg1).
    + apply (use_claim b 13 f k (Ok b k) n IHb); try assumption; try lia; try reflexivity.
      unfold k2 in Hlen. rewrite app_length in Hlen. cbn [List.length] in Hlen. lia.
    + intros s r' o -> Hb14. unfold ok in Hok. cbn [hrank Nat.eqb] in Hok. unfold trank in Hok.
      rewrite (infix_lv_some s 13 o) in Hok by (try exact Hb14; lia). lia.
  - right. unfold k1. cbn [hrank Nat.eqb]. unfold sy. rewrite trank_special by reflexivity. cbn. lia.
  - apply cont_stop; [lia | | exact Hg1].
    right. unfold k1. cbn [hrank]. unfold sy. rewrite trank_special by reflexivity. cbn. lia.
Qed.

(* an operand printed for a position of level <= 13 and parsed by the comma-free grammar one nesting level down *)
Lemma nested13 a c f k :
  claim a -> wf a -> c <= 13 -> (c <= 1 \/ c = 13) -> depc c a <= f ->
  hrank k = 0 \/ 13 < hrank k -> gt_paren (wrap c a (raw a) ++ k) = false ->
  A' (S f) (wrap c a (raw a) ++ k) = Ok a k.
Proof.
  intros IHa Hw Hc Hc' Hd Hr Hg. unfold A'. rewrite Y_S. rewrite Lf_11.
  change (P14 f (S (List.length (wrap c a (raw a) ++ k))) (wrap c a (raw a) ++ k))
    with (PY f 13 (S (List.length (wrap c a (raw a) ++ k))) (wrap c a (raw a) ++ k)).
  apply (from_level f c (wrap c a (raw a) ++ k) a k); try lia.
  - intros res Hcont n Hn. apply (use_claim a c f k res n IHa); try assumption; try lia.
    unfold ok. destruct Hr as [Hr|Hr]; [left; exact Hr | right; destruct (Nat.eqb_spec c 13); lia].
  - rewrite app_length. lia.
  - apply (gt_paren_app _ _ Hg).
  - intros H1. destruct Hc' as [Hc'|Hc']; [|lia].
    rewrite wrap_app. destruct (Nat.leb_spec (el a) c).
    + apply plain_app, plain_raw; [exact Hw | lia].
    + apply (plain_paren (raw a) (sy ")" :: k)). apply goodhd_raw. exact Hw.
  - unfold ok. destruct Hr as [Hr|Hr]; [left; exact Hr | right; cbn; exact Hr].
  - apply cont_refl. auto.
Qed.

Lemma trank_rbracket : trank (TSym "]") = 0.
Proof. rewrite trank_special by reflexivity. reflexivity. Qed.

Lemma claim_sub a i : wf (ESub a i) -> claim a -> claim i -> claim (ESub a i).
Proof.
  intros Hw IHa IHi. pose proof Hw as (Ha & Hi). apply paren_case; [exact Hw | cbn; lia |].
  intros f k res Hd Hok Hg Hcont n Hn. cbn [el raw dep] in *.
  repeat (rewrite <- app_assoc in *; cbn [app] in * ).
  assert (Hda : depc 1 a <= f) by (unfold depc; lia).
  destruct f as [|f']; [lia|].
  assert (Hdi : depc 1 i <= f') by (unfold depc; lia).
  apply (use_claim a 1 (S f') (sy "[" :: wrap 1 i (raw i) ++ sy "]" :: k) res n IHa); try assumption; try lia.
  - right. cbn [hrank Nat.eqb]. unfold sy. rewrite trank_special by reflexivity. cbn. lia.
  - unfold cont. cbn [Nat.eqb]. intros m Hm. destruct m; [cbn in Hm; lia|].
    unfold POST, sy. cbn [post]. rewrite (special_no_postfix "[") by reflexivity.
    change (String.eqb "[" ".") with false. change (String.eqb "[" "[") with true. cbv iota.
    rewrite (nested13 i 1 f' (TSym "]" :: k) IHi Hi); try lia.
    + change (String.eqb "]" "]") with true. cbv iota.
      unfold cont in Hcont. cbn [Nat.eqb] in Hcont. apply Hcont.
      cbn [List.length] in Hm. rewrite app_length in Hm. cbn [List.length] in Hm. lia.
    + left. cbn [hrank]. apply trank_rbracket.
    + apply (gt_paren_app (wrap 1 a (raw a) ++ [sy "["])). rewrite <- app_assoc. exact Hg.
Qed.

Lemma claim_mem a m : wf (EMem a m) -> claim a -> claim (EMem a m).
Proof.
  intros Hw IHa. pose proof Hw as Ha. cbn [wf] in Ha. apply paren_case; [exact Hw | cbn; lia |].
  intros f k res Hd Hok Hg Hcont n Hn.
  assert (Hstep : forall f m', POST f (S m') a (TSym "." :: TId m :: k) = POST f m' (EMem a m) k).
  { intros f0 m'. unfold POST. cbn [post]. rewrite (special_no_postfix ".") by reflexivity.
    change (String.eqb "." ".") with true. cbv iota. reflexivity. }
  assert (Hlit : (exists x, a = ELit true x) \/
                 (raw (EMem a m) = wrap 1 a (raw a) ++ [sy "."; TId m] /\ dep (EMem a m) = depc 1 a)).
  { destruct a as [x|[|] x|o a'|o a' b'|c' a' b'|a' i'|a' m'|f' l'|t' a']; try (right; split; reflexivity).
    left. exists x. reflexivity. }
  destruct Hlit as [[x ->]|[Hraw Hdep]].
  - (* a parenthesised integer literal *)
    cbn [el raw dep app] in *. destruct f as [|f']; [lia|].
    change (PY (S f') 1 n) with (P1 (S f')). unfold P1, p1, sy. cbn [leaf].
    change (String.eqb "(" "(") with true. cbv iota. unfold E'. rewrite Y_S.
    assert (HE : Lf f' 12 (TLit true x :: TSym ")" :: TSym "." :: TId m :: k) = Ok (ELit true x) (TSym ")" :: TSym "." :: TId m :: k)).
    { change (Lf f' 12 ?ts) with (PY f' 14 (S (List.length ts)) ts).
      apply (from_level f' 0 _ (ELit true x) (TSym ")" :: TSym "." :: TId m :: k)); try lia.
      - intros res' Hc' n' _. cbn in Hc'. subst res'. reflexivity.
      - cbn [List.length]. lia.
      - apply (gt_paren_app [sy "("; TLit true x]). exact Hg.
      - intros _. exact Logic.I.
      - left. cbn [hrank]. apply trank_close.
      - apply cont_stop; [lia | left; cbn [hrank]; apply trank_close |].
        apply (gt_paren_app [sy "("; TLit true x]). exact Hg. }
    rewrite HE. change (String.eqb ")" ")") with true. cbv iota.
    fold (POST (S f')). cbn [List.length].
    rewrite Hstep.
    unfold cont in Hcont. cbn [Nat.eqb] in Hcont. apply Hcont. lia.
  - rewrite Hraw in *. cbn [el] in *. rewrite Hdep in Hd.
    rewrite <- app_assoc in *. cbn [app] in *.
    apply (use_claim a 1 f (sy "." :: TId m :: k) res n IHa); try assumption; try lia.
    + right. cbn [hrank Nat.eqb]. unfold sy. rewrite trank_special by reflexivity. cbn. lia.
    + unfold cont. cbn [Nat.eqb]. intros m' Hm. destruct m'; [cbn in Hm; lia|].
      unfold sy. rewrite Hstep.
      unfold cont in Hcont. cbn [Nat.eqb] in Hcont. apply Hcont. cbn [List.length] in Hm. lia.
Qed.

(* ---- call arguments ---- *)
Definition sep (l : list expr) : list tok := flat_map (fun a => TSym "," :: wrap 13 a (raw a)) l.
Definition argdep (l : list expr) : nat := fold_right (fun a m => Nat.max (depc 13 a) m) 0 l.

Lemma commas_cons a rest :
  commas (map (fun a => wrap 13 a (raw a)) (a :: rest)) = wrap 13 a (raw a) ++ sep rest.
Proof.
  revert a. induction rest as [|b r IH]; intros a.
  - cbn. rewrite app_nil_r. reflexivity.
  - change (map (fun a0 => wrap 13 a0 (raw a0)) (a :: b :: r))
      with (wrap 13 a (raw a) :: map (fun a0 => wrap 13 a0 (raw a0)) (b :: r)).
    cbn [commas]. rewrite IH. reflexivity.
Qed.

Lemma hrank_sep rest k : hrank (sep rest ++ TSym ")" :: k) = 0 \/ 13 < hrank (sep rest ++ TSym ")" :: k).
Proof.
  destruct rest as [|a r]; cbn [sep flat_map app hrank].
  - left. apply trank_close.
  - unfold sy. destruct trank_comma as [H|H]; rewrite H; [left; reflexivity | right; lia].
Qed.

Lemma more_ok f k : forall rest,
  Forall claim rest -> wf_all rest -> argdep rest <= f -> gt_paren (sep rest ++ TSym ")" :: k) = false ->
  forall n, List.length (sep rest ++ TSym ")" :: k) < n ->
  more_args (A' (S f)) n (sep rest ++ TSym ")" :: k) = AOk rest k.
Proof.
  induction rest as [|a r IH]; intros Hcl Hw Hd Hg n Hn.
  - destruct n; [lia|]. reflexivity.
  - inversion Hcl as [|? ? Ha Hr]; subst. destruct Hw as [Hwa Hwr]. cbn [argdep fold_right] in Hd.
    destruct n; [lia|]. cbn [sep flat_map app] in *. unfold sy in *. rewrite <- app_assoc in *. cbn [more_args].
    change (String.eqb "," ")") with false. change (String.eqb "," ",") with true. cbv iota.
    fold (sep r) in *.
    rewrite (nested13 a 13 f (sep r ++ TSym ")" :: k) Ha Hwa); try lia.
    + rewrite IH; try assumption; try reflexivity.
      * fold (argdep r) in Hd. lia.
      * apply (gt_paren_app (TSym "," :: wrap 13 a (raw a))). exact Hg.
      * cbn [List.length] in Hn. rewrite app_length in Hn. lia.
    + apply hrank_sep.
    + apply (gt_paren_tl _ _ Hg).
Qed.

Lemma call_args_first A ts : goodhd ts -> call_args A ts = first_arg A ts.
Proof.
  destruct ts as [|[x|i x|s] r]; cbn [goodhd call_args]; intros H; try reflexivity.
  destruct (String.eqb_spec s ")"); [contradiction | reflexivity].
Qed.

Lemma call_args_ok f k args :
  Forall claim args -> wf_all args -> argdep args <= f ->
  gt_paren (commas (map (fun a => wrap 13 a (raw a)) args) ++ TSym ")" :: k) = false ->
  call_args (A' (S f)) (commas (map (fun a => wrap 13 a (raw a)) args) ++ TSym ")" :: k) = AOk args k.
Proof.
  intros Hcl Hw Hd Hg. destruct args as [|a rest].
  - reflexivity.
  - rewrite commas_cons in *. rewrite <- app_assoc in *.
    inversion Hcl as [|? ? Ha Hr]; subst. destruct Hw as [Hwa Hwr]. cbn [argdep fold_right] in Hd.
    fold (argdep rest) in Hd.
    rewrite call_args_first by (apply goodhd_app, goodhd_wrap, goodhd_raw, Hwa).
    unfold first_arg.
    rewrite (nested13 a 13 f (sep rest ++ TSym ")" :: k) Ha Hwa); try lia.
    + rewrite more_ok; try assumption; try reflexivity; try lia.
      apply (gt_paren_app _ _ Hg).
    + apply hrank_sep.
    + exact Hg.
Qed.

Lemma claim_call fn args : wf (ECall fn args) -> claim fn -> Forall claim args -> claim (ECall fn args).
Proof.
  intros Hw IHf IHargs. pose proof (proj1 (wf_call fn args) Hw) as [Hf Hargs].
  apply paren_case; [exact Hw | cbn; lia |].
  intros f k res Hd Hok Hg Hcont n Hn. cbn [el raw dep] in *.
  repeat (rewrite <- app_assoc in *; cbn [app] in * ).
  assert (Hdf : depc 1 fn <= f) by (unfold depc; lia).
  destruct f as [|f']; [lia|].
  assert (Hda : argdep args <= f').
  { unfold argdep, depc. lia. }
  apply (use_claim fn 1 (S f') (sy "(" :: commas (map (fun a => wrap 13 a (raw a)) args) ++ sy ")" :: k) res n IHf);
    try assumption; try lia.
  - right. cbn [hrank Nat.eqb]. unfold sy. rewrite trank_special by reflexivity. cbn. lia.
  - unfold cont. cbn [Nat.eqb]. intros m Hm. destruct m; [cbn in Hm; lia|].
    unfold POST, sy. cbn [post]. rewrite (special_no_postfix "(") by reflexivity.
    change (String.eqb "(" ".") with false. change (String.eqb "(" "[") with false.
    change (String.eqb "(" "(") with true. cbv iota.
    rewrite (call_args_ok f' k args IHargs Hargs Hda).
    + unfold cont in Hcont. cbn [Nat.eqb] in Hcont. apply Hcont.
      cbn [List.length] in Hm. rewrite app_length in Hm. cbn [List.length] in Hm. lia.
    + apply (gt_paren_app (wrap 1 fn (raw fn) ++ [sy "("])). rewrite <- app_assoc. exact Hg.
Qed.

(* ================= every well-formed tree ================= *)
Theorem claim_all : forall e, wf e -> claim e.
Proof.
  induction e as [x|i x|o a IHa|o a b IHa IHb|c a b IHc IHa IHb|a i IHa IHi|a m IHa|fn args IHf IHargs|t a IHa]
    using expr_ind'; intros Hw.
  - apply claim_id. exact Hw.
  - apply claim_lit.
  - apply claim_un; [exact Hw | apply IHa, Hw].
  - apply claim_bin; [exact Hw | apply IHa, Hw | apply IHb, Hw].
  - apply claim_tern; [exact Hw | apply IHc, Hw | apply IHa, Hw | apply IHb, Hw].
  - apply claim_sub; [exact Hw | apply IHa, Hw | apply IHi, Hw].
  - apply claim_mem; [exact Hw | apply IHa, Hw].
  - pose proof (proj1 (wf_call fn args) Hw) as [Hf Hargs].
    apply claim_call; [exact Hw | apply IHf, Hf |].
    clear Hw Hf IHf. induction args as [|x r IHr]; constructor.
    + inversion IHargs; subst. destruct Hargs. auto.
    + inversion IHargs; subst. destruct Hargs. apply IHr; assumption.
  - apply claim_cast; [exact Hw | apply IHa, Hw].
Qed.

(* ================= enough fuel: the nesting depth is at most the number of tokens ================= *)
Lemma depc_le c e : dep e <= List.length (raw e) -> depc c e <= List.length (wrap c e (raw e)).
Proof.
  intros H. unfold depc, wrap. destruct (Nat.leb (el e) c); [exact H|].
  cbn [List.length]. rewrite app_length. cbn [List.length]. lia.
Qed.

Lemma argdep_le args :
  Forall (fun e => dep e <= List.length (raw e)) args ->
  argdep args <= List.length (commas (map (fun a => wrap 13 a (raw a)) args)).
Proof.
  induction 1 as [|a r Ha Hr IH]; [cbn; lia|].
  rewrite commas_cons. cbn [argdep fold_right]. fold (argdep r). rewrite app_length.
  pose proof (depc_le 13 a Ha).
  destruct r as [|b r']; [cbn in *; lia|].
  rewrite commas_cons in IH. rewrite app_length in IH. change (sep (b :: r')) with ((TSym "," :: wrap 13 b (raw b)) ++ sep r').
  rewrite app_length. cbn [List.length]. lia.
Qed.

Lemma dep_le : forall e, dep e <= List.length (raw e).
Proof.
  induction e as [x|i x|o a IHa|o a b IHa IHb|c a b IHc IHa IHb|a i IHa IHi|a m IHa|fn args IHf IHargs|t a IHa]
    using expr_ind'; cbn [dep raw].
  - cbn. lia.
  - cbn. lia.
  - destruct (upost o).
    + pose proof (depc_le 1 a IHa) as H. unfold depc in H. rewrite app_length. cbn [List.length]. lia.
    + pose proof (depc_le 2 a IHa) as H. unfold depc in H. cbn [List.length]. lia.
  - pose proof (depc_le (lctx o) a IHa) as H1. pose proof (depc_le (rctx o) b IHb) as H2. unfold depc in *.
    rewrite app_length. cbn [List.length]. lia.
  - pose proof (depc_le 12 c IHc) as H0. pose proof (depc_le 13 a IHa) as H1. pose proof (depc_le 13 b IHb) as H2.
    unfold depc in *. rewrite app_length. cbn [List.length]. rewrite app_length. cbn [List.length]. lia.
  - pose proof (depc_le 1 a IHa) as H1. pose proof (depc_le 1 i IHi) as H2. unfold depc in *.
    rewrite app_length. cbn [List.length]. rewrite app_length. cbn [List.length]. lia.
  - pose proof (depc_le 1 a IHa) as H1. unfold depc in H1.
    destruct a as [x|[|] x|o a'|o a' b'|c' a' b'|a' i'|a' m'|f' l'|t' a'];
      rewrite app_length; cbn [List.length]; try lia.
  - pose proof (depc_le 1 fn IHf) as H1. pose proof (argdep_le args IHargs) as H2. unfold depc in H1.
    change (fold_right (fun a m => Nat.max (if Nat.leb (el a) 13 then dep a else S (dep a)) m) 0 args) with (argdep args).
    rewrite app_length. cbn [List.length]. rewrite app_length. cbn [List.length]. lia.
  - pose proof (depc_le 2 a IHa) as H. unfold depc in H. cbn [List.length]. lia.
Qed.

(* ================= the parser inverts the printer ================= *)
Theorem parse_print e :
  wf e -> gt_paren (raw e) = false ->
  parse_top G prefix_of postfix_of bin_at (raw e) = Ok e [].
Proof.
  intros Hw Hg. unfold parse_top. rewrite Y_S.
  change (Lf (List.length (raw e)) 12 (raw e))
    with (PY (List.length (raw e)) 14 (S (List.length (raw e))) (raw e)).
  pose proof (claim_all e Hw (List.length (raw e)) 14 [] (Ok e [])) as H.
  unfold pr, wrap, depc in H. pose proof (el_le e Hw) as Hel.
  destruct (Nat.leb_spec (el e) 14); [|lia]. rewrite app_nil_r in H.
  apply H; try lia.
  - apply dep_le.
  - left. reflexivity.
  - exact Hg.
  - apply cont_stop; [lia | left; reflexivity | reflexivity].
Qed.

End Proofs.
