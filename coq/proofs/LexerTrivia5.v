(* LexerTrivia5.v — numeric literals of every form (decimal, hexadecimal, octal, with suffixes, exponents, #INF) in the
   trivia theorems: in front of a character that ends a number the literal is read the same whatever that character
   and the text after it are, so it may stand in a `Pre2` prefix and in front of inserted trivia. *)
From Coq Require Import List NArith Bool String Ascii Arith Lia.
From RV Require Import Lexer LexerProofs LexerTrivia LexerTrivia2 LexerTrivia3.
From RV Require Import LexerTriviaNum LexerTrivia4 LexerTriviaFloat LexerNumTail.
Import ListNotations.
Local Open Scope string_scope.

Section Trivia5.
Variable keywords : list (string * string).
Variable reserved_words : list string.
Variable symbols : list (N * string * option string * option string).
Variable int_suffixes : list (list (list N) * string).
Variable float_suffixes : list (list N * string).
Variable float_is_zero : string -> bool.
Variable utf8_ok : string -> bool.

Notation tok_at := (tok_at keywords reserved_words symbols int_suffixes float_suffixes float_is_zero utf8_ok).
Notation lex_file := (lex_file keywords reserved_words symbols int_suffixes float_suffixes float_is_zero utf8_ok).
Notation Pre2 := (Pre2 keywords reserved_words symbols int_suffixes float_suffixes float_is_zero utf8_ok).

Lemma trivia_start_stop u w : (blank w \/ w = "\"%char \/ w = "/"%char) -> stopb u w = true.
Proof. intros [[ -> | [ -> | -> ] ]|[ -> | -> ]]; reflexivity. Qed.

Theorem number_stable c a' t w0 r0 :
  suffixes_alpha_all int_suffixes = true -> fsuffixes_alpha float_suffixes = true ->
  is_digit c = true -> stopb (String c a') w0 = true ->
  tok_at false (String c a' ++ String w0 r0) = LOk t (slen (String c a')) ->
  forall w r, stopb (String c a') w = true -> tok_at false (String c a' ++ String w r) = LOk t (slen (String c a')).
Proof.
  intros Hs Hfs Hc H0 T w r Hw.
  rewrite (numeric_token_ignores_tail keywords reserved_words symbols int_suffixes float_suffixes float_is_zero utf8_ok
             c a' w r w0 r0 Hs Hfs Hc Hw H0). exact T.
Qed.

(* a numeric literal in a prefix *)
Lemma pre2_number nxt c a' t w0 r0 p :
  suffixes_alpha_all int_suffixes = true -> fsuffixes_alpha float_suffixes = true ->
  is_digit c = true -> stopb (String c a') w0 = true ->
  tok_at false (String c a' ++ String w0 r0) = LOk t (slen (String c a')) ->
  stopb (String c a') (next_char nxt p) = true ->
  Pre2 nxt p -> Pre2 nxt (String c a' ++ p).
Proof.
  intros Hs Hfs Hc H0 T He Pp. apply (Pre2Tok _ _ _ _ _ _ _ nxt c a' t p); [|exact Pp].
  intros r. destruct p as [|w p']; cbn [next_char append] in *.
  - apply (number_stable c a' t w0 r0 Hs Hfs Hc H0 T nxt r He).
  - apply (number_stable c a' t w0 r0 Hs Hfs Hc H0 T w (p' ++ String nxt r) He).
Qed.

(* trivia between a numeric literal and the character that ends it, behind a Pre2 prefix *)
Theorem trivia_after_number_behind_prefix2 p c a' t w0 r0 x spans :
  suffixes_alpha_all int_suffixes = true -> fsuffixes_alpha float_suffixes = true ->
  Pre2 c p -> is_digit c = true -> stopb (String c a') w0 = true ->
  tok_at false (String c a' ++ String w0 r0) = LOk t (slen (String c a')) ->
  Trivia x ->
  lex_file (p ++ String c a' ++ String w0 r0) = SOk spans ->
  exists spans', lex_file (p ++ String c a' ++ x ++ String w0 r0) = SOk spans' /\ strip (toks spans') = strip (toks spans).
Proof.
  intros Hs Hfs Pp Hc H0 T Tx H.
  apply (trivia_behind_prefix2 keywords reserved_words symbols int_suffixes float_suffixes float_is_zero utf8_ok
           p c a' t (String w0 r0) x spans Pp T); [|exact Tx|exact H].
  intros w r Hw. apply (number_stable c a' t w0 r0 Hs Hfs Hc H0 T w r). apply trivia_start_stop. exact Hw.
Qed.

End Trivia5.
