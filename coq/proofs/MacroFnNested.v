(* MacroFnNested.v — a replacement list that invokes a function-like macro: `#define L preL f(args) postL` with
   `#define f(params) body`; a use of L gives preL body[args/params] postL. *)
From Coq Require Import List NArith Bool String Arith Lia.
From RV Require Import Macro MacroProofs MacroSubst MacroChain.
Import ListNotations.
Local Open Scope list_scope.

Section FnNested.
Variable paste : mtok -> mtok -> option mtok.
Variable defs : list macro.
Notation plain := (plain defs).
Notation simple := (simple defs).

Lemma pick_first_fn_dis dis x post i : forall ds mi0 k m,
  nth_error ds k = Some m -> m_name m = x -> m_fn m = true -> nth (mi0 + k) dis false = false ->
  (forall j m', j < k -> nth_error ds j = Some m' -> String.eqb x (m_name m') = false) ->
  pick_macro ds dis mi0 x (MLP :: post) i 0 None = Some (mi0 + k).
Proof.
  induction ds as [|m0 r IH]; intros mi0 k m Hn Hx Hf Hd Hfirst; [destruct k; discriminate|].
  cbn [pick_macro]. cbn [andb].
  destruct k as [|k].
  - cbn in Hn. inversion Hn; subst m0. rewrite Nat.add_0_r in *. rewrite Hd, Hx, String.eqb_refl, Hf.
    cbn [first_non_ws_inline is_ws]. rewrite Nat.sub_diag. cbn. reflexivity.
  - rewrite (Hfirst 0 m0 ltac:(lia) eq_refl).
    replace (mi0 + S k) with (S mi0 + k) in * by lia.
    rewrite (IH (S mi0) k m Hn Hx Hf Hd).
    + destruct (nth mi0 dis false); reflexivity.
    + intros j m' Hj Hn'. apply (Hfirst (S j) m'); [lia | exact Hn'].
Qed.

(* one function-like invocation in plain surroundings, under any disabled set that leaves the macro enabled *)
Lemma expand_function d dis n mi m pre args post out :
  nth_error defs mi = Some m -> m_fn m = true -> nth mi dis false = false ->
  (forall j m', j < mi -> nth_error defs j = Some m' -> String.eqb (m_name m) (m_name m') = false) ->
  args <> [] -> List.length args = m_params m -> Forall simple args ->
  plain pre -> plain post ->
  (let sb := subst (m_body m) (map trim args) in
   expand paste defs (S d) (set_nth dis mi true) (S (List.length sb)) sb 0 0 None = XOk out) ->
  plain out ->
  List.length (pre ++ MId (m_name m) :: MLP :: commas args ++ MRP :: post) <= S n ->
  expand paste defs (S (S d)) dis (S (S n)) (pre ++ MId (m_name m) :: MLP :: commas args ++ MRP :: post) 0 0 None =
  XOk (pre ++ out ++ post).
Proof.
  intros Hn Hf Hd Hfirst Hne Hlen Hs Hpre Hpost Hinner Hout Hfuel.
  set (call := MLP :: commas args ++ MRP :: post).
  set (toks := pre ++ MId (m_name m) :: call).
  fold call in Hfuel. fold toks in Hfuel.
  assert (Hl : List.length toks = List.length pre + S (List.length call))
    by (unfold toks; rewrite app_length; reflexivity).
  rewrite expand_eq. unfold loop_step.
  destruct (Nat.leb_spec (List.length toks) 0) as [Hz|_]; [lia|].
  unfold find. change (firstn 0 toks) with (@nil mtok). change (skipn 0 toks) with toks. cbn [rev]. unfold toks at 1.
  rewrite find_from_skip by exact Hpre. cbn [find_from Nat.add]. unfold call at 1.
  rewrite (pick_first_fn_dis dis (m_name m) _ (List.length pre) defs 0 mi m Hn eq_refl Hf Hd Hfirst). cbn [Nat.add].
  rewrite Hn, Hf.
  assert (Hsk : skipn (S (List.length pre)) toks = call).
  { unfold toks. replace (S (List.length pre)) with (List.length (pre ++ [MId (m_name m)])) by (rewrite app_length; cbn; lia).
    replace (pre ++ MId (m_name m) :: call) with ((pre ++ [MId (m_name m)]) ++ call) by (rewrite <- app_assoc; reflexivity).
    apply skipn_app_length_eq. }
  assert (Hfn : firstn (List.length pre) toks = pre) by (unfold toks; apply firstn_app_length_eq).
  rewrite Hsk, Hfn. unfold call at 1. unfold split_args. cbn [trim_start_all is_ws].
  rewrite (split_go_commas defs args post [] Hne Hs). cbn [rev app].
  assert (Hp0 : Nat.eqb (m_params m) 0 = false).
  { apply Nat.eqb_neq. rewrite <- Hlen. destruct args; [congruence | cbn; lia]. }
  rewrite Hp0, map_length, Hlen, Nat.eqb_refl.
  assert (Hargs : map (fun a => expand paste defs (S (S d)) dis (S n) a 0 0 None) (map trim args) = map XOk (map trim args)).
  { apply map_ext_in. intros a Ha. apply expand_plain; [|lia].
    apply in_map_iff in Ha as (a0 & <- & Ha0). apply plain_trim, simple_plain.
    rewrite Forall_forall in Hs. apply Hs, Ha0. }
  rewrite Hargs, all_ok_oks. cbn [rev app].
  cbv zeta in Hinner. rewrite Hinner.
  apply expand_plain.
  - apply plain_app; [exact Hpre | apply plain_app; [exact Hout | exact Hpost]].
  - rewrite app_length. lia.
Qed.

Lemma noarg_app a b : noarg a -> noarg b -> noarg (a ++ b).
Proof. intros Ha Hb i Hi. apply in_app_or in Hi as [Hi|Hi]; [apply (Ha i Hi) | apply (Hb i Hi)]. Qed.

Lemma noarg_commas args : Forall simple args -> noarg (commas args).
Proof.
  induction 1 as [|a r Ha _ IH]; [intros i []|].
  destruct r as [|b r'].
  - cbn [commas]. apply (plain_noarg defs). apply simple_plain. exact Ha.
  - change (commas (a :: b :: r')) with (a ++ MComma :: commas (b :: r')).
    apply noarg_app; [apply (plain_noarg defs), simple_plain, Ha|].
    intros i [Hi|Hi]; [discriminate | apply (IH i Hi)].
Qed.

Theorem replacement_invokes_function il l fi f pre post preL args postL :
  nth_error defs il = Some l -> m_fn l = false ->
  nth_error defs fi = Some f -> m_fn f = true ->
  m_body l = preL ++ MId (m_name f) :: MLP :: commas args ++ MRP :: postL ->
  String.eqb (m_name l) (m_name f) = false ->
  (forall j m', j < il -> nth_error defs j = Some m' -> String.eqb (m_name l) (m_name m') = false) ->
  (forall j m', j < fi -> nth_error defs j = Some m' -> String.eqb (m_name f) (m_name m') = false) ->
  args <> [] -> List.length args = m_params f -> Forall simple args ->
  forallb (bodyb defs) (m_body f) = true ->
  plain pre -> plain post -> plain preL -> plain postL ->
  apply_macros paste defs (pre ++ MId (m_name l) :: post) =
  XOk (pre ++ (preL ++ subst (m_body f) (map trim args) ++ postL) ++ post).
Proof.
  intros Hl Hfl Hf Hff Hbody Hlf Hfirstl Hfirstf Hne Hlen Hs Hbf Hpre Hpost HpreL HpostL.
  assert (Hneq : il <> fi).
  { intros E. subst fi. rewrite Hl in Hf. inversion Hf; subst f. rewrite String.eqb_refl in Hlf. discriminate. }
  assert (Hli : il < List.length defs) by (apply nth_error_Some; congruence).
  assert (Hfi : fi < List.length defs) by (apply nth_error_Some; congruence).
  destruct (List.length defs) as [|[|nd]] eqn:Hnd; [lia | lia |].
  unfold apply_macros. rewrite Hnd.
  set (dis0 := map (fun _ : macro => false) defs).
  assert (Hsub : plain (subst (m_body f) (map trim args))).
  { apply subst_is_plain; [exact Hbf|]. rewrite Forall_forall. intros a Ha.
    apply in_map_iff in Ha as (a0 & <- & Ha0). apply plain_trim, simple_plain.
    rewrite Forall_forall in Hs. apply Hs, Ha0. }
  assert (Hnoarg : noarg (m_body l)).
  { rewrite Hbody. apply noarg_app; [apply (plain_noarg defs _ HpreL)|].
    intros i [Hi|[Hi|Hi]]; try discriminate.
    apply in_app_or in Hi as [Hi|[Hi|Hi]]; try discriminate.
    - apply (noarg_commas args Hs i Hi).
    - apply (plain_noarg defs _ HpostL i Hi). }
  destruct (List.length (pre ++ MId (m_name l) :: post)) as [|nt] eqn:Hnt.
  { rewrite app_length in Hnt. cbn in Hnt. lia. }
  apply (expand_object paste defs (S nd) dis0 nt il l pre post _ Hl Hfl).
  - apply nth_all_false.
  - exact Hfirstl.
  - exact Hpre.
  - exact Hpost.
  - exact Hnoarg.
  - rewrite Hbody.
    destruct (List.length (preL ++ MId (m_name f) :: MLP :: commas args ++ MRP :: postL)) as [|nb] eqn:Hnb.
    { rewrite app_length in Hnb. cbn in Hnb. lia. }
    apply (expand_function nd (set_nth dis0 il true) nb fi f preL args postL _ Hf Hff).
    + rewrite nth_set_other by exact Hneq. apply nth_all_false.
    + exact Hfirstf.
    + exact Hne.
    + exact Hlen.
    + exact Hs.
    + exact HpreL.
    + exact HpostL.
    + cbv zeta. apply expand_plain; [exact Hsub | lia].
    + exact Hsub.
    + rewrite Hnb. lia.
  - apply plain_app; [exact HpreL | apply plain_app; [exact Hsub | exact HpostL]].
  - rewrite Hnt. lia.
Qed.

End FnNested.
