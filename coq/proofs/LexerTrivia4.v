(* LexerTrivia4.v — prefixes that may hold decimal integer literals.  `Pre2 nxt p`: p is made of trivia pieces and of
   tokens each of which is read the same whatever follows the prefix (as long as that begins with nxt): the tokens of
   `Pre` (identifiers, keywords, operators, strings) and decimal integer literals in front of a character that ends a
   number.  Trivia behind a token or a decimal integer literal behind such a prefix leaves the tokens that are not
   whitespace unchanged. *)
From Coq Require Import List NArith Bool String Ascii Arith Lia.
From RV Require Import Lexer LexerProofs LexerTrivia LexerTrivia2 LexerTrivia3.
From RV Require Import LexerTriviaNum.
Import ListNotations.
Local Open Scope string_scope.

Section Trivia4.
Variable keywords : list (string * string).
Variable reserved_words : list string.
Variable symbols : list (N * string * option string * option string).
Variable int_suffixes : list (list (list N) * string).
Variable float_suffixes : list (list N * string).
Variable float_is_zero : string -> bool.
Variable utf8_ok : string -> bool.

Notation tok_at := (tok_at keywords reserved_words symbols int_suffixes float_suffixes float_is_zero utf8_ok).
Notation Lexes := (Lexes keywords reserved_words symbols int_suffixes float_suffixes float_is_zero utf8_ok).
Notation lex_file := (lex_file keywords reserved_words symbols int_suffixes float_suffixes float_is_zero utf8_ok).
Notation Pre := (Pre keywords reserved_words symbols int_suffixes float_suffixes float_is_zero utf8_ok).

Inductive Pre2 (nxt : ascii) : string -> Prop :=
| Pre2Nil : Pre2 nxt ""
| Pre2Tok c a' t p :
    (forall r, tok_at false (String c a' ++ (p ++ String nxt r)) = LOk t (slen (String c a'))) ->
    Pre2 nxt p -> Pre2 nxt (String c a' ++ p)
| Pre2Trivia x p : Piece x -> Pre2 nxt p -> Pre2 nxt (x ++ p).

Lemma pre_pre2 nxt p : Pre nxt p -> Pre2 nxt p.
Proof.
  induction 1 as [|c a' t p T St F Pp IH|x p Px Pp IH].
  - constructor.
  - apply (Pre2Tok nxt c a' t p); [|exact IH]. intros r.
    apply (pre_token keywords reserved_words symbols int_suffixes float_suffixes float_is_zero utf8_ok nxt c a' t p r T St F).
  - apply Pre2Trivia; assumption.
Qed.

(* a token of `Pre` in the prefix *)
Lemma pre2_solid nxt c a' t p :
  tok_at false (String c a' ++ String " " "") = LOk t (slen (String c a')) -> solid t = true ->
  follows_tok c (next_char nxt p) -> Pre2 nxt p -> Pre2 nxt (String c a' ++ p).
Proof.
  intros T St F Pp. apply (Pre2Tok nxt c a' t p); [|exact Pp]. intros r.
  apply (pre_token keywords reserved_words symbols int_suffixes float_suffixes float_is_zero utf8_ok nxt c a' t p r T St F).
Qed.

(* a decimal integer literal in the prefix *)
Lemma pre2_decimal_int nxt c a' v p :
  suffixes_alpha int_suffixes = true ->
  all is_digit (String c a') = true -> (Ascii.eqb c "0" = true -> a' = "") ->
  accum 10 dec_val (String c a') 0 = Some v ->
  ends_number (next_char nxt p) ->
  Pre2 nxt p -> Pre2 nxt (String c a' ++ p).
Proof.
  intros Hs Ha Hz Hv He Pp. apply (Pre2Tok nxt c a' (TInt "LiteralInt" v) p); [|exact Pp].
  intros r. destruct p as [|w p']; cbn [next_char append] in *.
  - apply (decimal_int_token keywords reserved_words symbols int_suffixes float_suffixes float_is_zero utf8_ok c a' v nxt r Hs Ha Hz Hv He).
  - apply (decimal_int_token keywords reserved_words symbols int_suffixes float_suffixes float_is_zero utf8_ok c a' v w (p' ++ String nxt r) Hs Ha Hz Hv He).
Qed.

Lemma pre2_lexes nxt p : Pre2 nxt p -> exists tp, forall r last l0 tr,
  Lexes (String nxt r) l0 tr ->
  exists l1 tr', Lexes (p ++ String nxt r) last (tp ++ tr') /\ Lexes (String nxt r) l1 tr' /\ strip tr' = strip tr.
Proof.
  induction 1 as [|c a' t p T Pp IH|x p Px Pp IH].
  - exists []. intros r last l0 tr Lr.
    destruct (lexes_flag keywords reserved_words symbols int_suffixes float_suffixes float_is_zero utf8_ok _ l0 tr Lr last) as (tr' & L' & S').
    exists last, tr'. cbn [append app]. repeat split; assumption.
  - destruct IH as (tp & IH). exists (t :: tp). intros r last l0 tr Lr.
    pose proof (T r) as T'.
    destruct (IH r (is_endline t) l0 tr Lr) as (l1 & tr' & Lp & Lr' & Sr').
    exists l1, tr'. repeat split; [|exact Lr'|exact Sr'].
    rewrite sapp_assoc. cbn [append app].
    change (String c (a' ++ (p ++ String nxt r))) with (String c a' ++ (p ++ String nxt r)).
    apply (LexTok _ _ _ _ _ _ _ c (a' ++ (p ++ String nxt r)) last t (slen (String c a')) (tp ++ tr')); [exact T'|].
    change (String c (a' ++ (p ++ String nxt r))) with (String c a' ++ (p ++ String nxt r)). rewrite drop_app. exact Lp.
  - destruct IH as (tp & IH).
    destruct (piece_lexes2 keywords reserved_words symbols int_suffixes float_suffixes float_is_zero utf8_ok x Px) as (ws & Fw & Hx).
    exists (ws ++ tp)%list. intros r last l0 tr Lr.
    destruct (Hx (p ++ String nxt r) last) as (l1 & Hx').
    destruct (IH r l1 l0 tr Lr) as (l2 & tr' & Lp & Lr' & Sr').
    exists l2, tr'. repeat split; [|exact Lr'|exact Sr'].
    rewrite sapp_assoc, <- app_assoc. apply Hx'. exact Lp.
Qed.

Lemma pre2_lexes_inv nxt p : Pre2 nxt p -> forall r last l,
  Lexes (p ++ String nxt r) last l ->
  exists tp l1 tr, l = (tp ++ tr)%list /\ Lexes (String nxt r) l1 tr.
Proof.
  induction 1 as [|c a' t p T Pp IH|x p Px Pp IH]; intros r last l L.
  - exists [], last, l. cbn [append app] in *. split; [reflexivity|exact L].
  - pose proof (T r) as T'.
    rewrite sapp_assoc in L. cbn [append] in L.
    inversion L as [|c0 r0 last0 t0 n0 ts0 T0 L0]; subst.
    change (String c (a' ++ (p ++ String nxt r))) with (String c a' ++ (p ++ String nxt r)) in *.
    rewrite T' in T0. inversion T0; subst t0 n0. change (S (slen a')) with (slen (String c a')) in L0. rewrite drop_app in L0.
    destruct (IH r (is_endline t) ts0 L0) as (tp & l1 & tr & -> & Lr).
    exists (t :: tp), l1, tr. split; [reflexivity|exact Lr].
  - rewrite sapp_assoc in L.
    destruct (piece_lexes_inv keywords reserved_words symbols int_suffixes float_suffixes float_is_zero utf8_ok x Px (p ++ String nxt r) last l L) as (ws & l1 & tr0 & -> & Fw & L0).
    destruct (IH r l1 tr0 L0) as (tp & l2 & tr & -> & Lr).
    exists (ws ++ tp)%list, l2, tr. split; [rewrite app_assoc; reflexivity|exact Lr].
Qed.

(* trivia behind a token that is read the same whatever trivia follows it, behind a Pre2 prefix *)
Theorem trivia_behind_prefix2 p c a' t b x spans :
  Pre2 c p ->
  tok_at false (String c a' ++ b) = LOk t (slen (String c a')) ->
  (forall w r, (blank w \/ w = "\"%char \/ w = "/"%char) -> tok_at false (String c a' ++ String w r) = LOk t (slen (String c a'))) ->
  Trivia x ->
  lex_file (p ++ String c a' ++ b) = SOk spans ->
  exists spans', lex_file (p ++ String c a' ++ x ++ b) = SOk spans' /\ strip (toks spans') = strip (toks spans).
Proof.
  intros Pp T Stable Tx H. unfold Lexer.lex_file in *.
  destruct (lex_all_sound _ _ _ _ _ _ _ _ _ _ _ _ _ H) as (l & E & L). cbn [rev toks map app] in E.
  change (String c a' ++ b) with (String c (a' ++ b)) in L.
  destruct (pre2_lexes_inv c p Pp (a' ++ b) true l L) as (tp0 & l1 & tr & El & Lr).
  assert (exists tsr, tr = t :: tsr) as (tsr & ->).
  { inversion Lr as [|c0 r0 last0 t1 n0 ts1 T0 L0]; subst. change (String c (a' ++ b)) with (String c a' ++ b) in T0.
    rewrite T in T0. inversion T0; subst. eexists. reflexivity. }
  change (String c (a' ++ b)) with (String c a' ++ b) in Lr.
  destruct (trivia_after_stable_token keywords reserved_words symbols int_suffixes float_suffixes float_is_zero utf8_ok c a' b l1 t tsr x T Stable Tx Lr) as (ts' & L' & S').
  destruct (pre2_lexes c p Pp) as (tp & Hp).
  change (String c a' ++ x ++ b) with (String c (a' ++ x ++ b)) in L'.
  destruct (Hp (a' ++ x ++ b) true l1 (t :: ts') L') as (l2 & trn & Lnew & _ & Sn).
  change (String c a' ++ b) with (String c (a' ++ b)) in Lr.
  destruct (Hp (a' ++ b) true l1 (t :: tsr) Lr) as (l3 & tro & Lold & _ & So).
  pose proof (lexes_det _ _ _ _ _ _ _ _ _ _ L _ Lold) as Eold.
  change (String c (a' ++ x ++ b)) with (String c a' ++ x ++ b) in Lnew.
  destruct (lex_all_complete _ _ _ _ _ _ _ _ _ _ Lnew (S (slen (p ++ String c a' ++ x ++ b))) 0 [] ltac:(lia)) as (sp & E' & M').
  exists sp. split; [exact E'|]. cbn [rev toks map app] in M'. rewrite M', E, Eold.
  unfold strip in *. rewrite !filter_app. rewrite Sn, So. cbn [filter].
  destruct (negb (is_ws t)); [f_equal; f_equal|f_equal]; exact S'.
Qed.

(* ... in front of the insertion point a decimal integer literal *)
Corollary trivia_after_decimal_int_behind_prefix2 p c a' v b x spans :
  suffixes_alpha int_suffixes = true ->
  Pre2 c p ->
  all is_digit (String c a') = true -> (Ascii.eqb c "0" = true -> a' = "") ->
  accum 10 dec_val (String c a') 0 = Some v ->
  tok_at false (String c a' ++ b) = LOk (TInt "LiteralInt" v) (slen (String c a')) ->
  Trivia x ->
  lex_file (p ++ String c a' ++ b) = SOk spans ->
  exists spans', lex_file (p ++ String c a' ++ x ++ b) = SOk spans' /\ strip (toks spans') = strip (toks spans).
Proof.
  intros Hs Pp Ha Hz Hv T Tx H.
  apply (trivia_behind_prefix2 p c a' (TInt "LiteralInt" v) b x spans Pp T); [|exact Tx|exact H].
  intros w r Hw. apply (decimal_int_token keywords reserved_words symbols int_suffixes float_suffixes float_is_zero utf8_ok c a' v w r Hs Ha Hz Hv).
  apply trivia_start_ends_number. exact Hw.
Qed.

(* ... or an identifier, keyword, operator or string *)
Corollary trivia_after_token_behind_prefix2 p c a' t b x spans :
  Pre2 c p ->
  tok_at false (String c a' ++ b) = LOk t (slen (String c a')) -> solid t = true -> Ascii.eqb c "/" = false -> Trivia x ->
  lex_file (p ++ String c a' ++ b) = SOk spans ->
  exists spans', lex_file (p ++ String c a' ++ x ++ b) = SOk spans' /\ strip (toks spans') = strip (toks spans).
Proof.
  intros Pp T St Cs Tx H.
  apply (trivia_behind_prefix2 p c a' t b x spans Pp T); [|exact Tx|exact H].
  intros w r Hw.
  destruct (solid_first_char keywords reserved_words symbols int_suffixes float_suffixes float_is_zero utf8_ok c (a' ++ b) t _ T St) as (F1 & F2 & F3).
  apply (solid_token_ignores_what_follows keywords reserved_words symbols int_suffixes float_suffixes float_is_zero utf8_ok c a' b t w r T St).
  destruct Hw as [Bw|[->| ->]].
  - apply blank_follows_ok; assumption.
  - unfold follows_ok. repeat split; try reflexivity. rewrite Ascii.eqb_sym. exact F3.
  - unfold follows_ok. repeat split; try reflexivity. rewrite Ascii.eqb_sym. exact Cs.
Qed.

End Trivia4.
