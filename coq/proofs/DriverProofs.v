(* DriverProofs.v — the depth-limited driver never reports exhaustion, and whatever it computes is what the fuelled
   driver of the C12 model computes. *)
From Coq Require Import List NArith Bool String Lia.
From RV Require Import Macro MacroProofs Driver.
Import ListNotations.

Section P.
Variable paste : mtok -> mtok -> option mtok.
Variable files : string -> option (list item).
Notation run_d := (run_d paste files).
Notation Run := (run paste files).

Lemma run_d_unfold depth self its st :
  run_d depth self its st =
    match its with
    | [] => inl st
    | it :: rest =>
        match it with
        | IText ts =>
            match apply_macros paste (ps_macros st) ts with
            | XOk out => run_d depth self rest {| ps_macros := ps_macros st; ps_once := ps_once st; ps_out := ps_out st ++ out |}
            | XErr e => inr (DMacro e) | XFuel => inr DFuel | XHang => inr DHang
            end
        | IDefine cmd =>
            match parse_define cmd with
            | Some m => run_d depth self rest {| ps_macros := remove_macro (m_name m) (ps_macros st) ++ [m];
                                                ps_once := ps_once st; ps_out := ps_out st |}
            | None => inr DInvalidDefine
            end
        | IUndef x => run_d depth self rest {| ps_macros := remove_macro x (ps_macros st); ps_once := ps_once st; ps_out := ps_out st |}
        | IPragmaOnce => run_d depth self rest {| ps_macros := ps_macros st; ps_once := self :: ps_once st; ps_out := ps_out st |}
        | IInclude f =>
            match files f with
            | None => inr DMissingFile
            | Some body =>
                match depth with
                | O => inr DTooDeep
                | S d =>
                    match run_d d f (if existsb (String.eqb f) (ps_once st) then [] else body) st with
                    | inl st' => run_d depth self rest st'
                    | inr e => inr e
                    end
                end
            end
        end
    end.
Proof. destruct depth; destruct its; reflexivity. Qed.

(* no exhaustion: the only failures are diagnostics *)
Theorem run_d_never_exhausted : forall depth self its st,
  run_d depth self its st <> inr DFuel /\ run_d depth self its st <> inr DHang.
Proof.
  induction depth as [|d IHd]; intros self its; induction its as [|it rest IH]; intros st; rewrite run_d_unfold;
    try (split; discriminate).
  - destruct it as [ts|cmd|x|f|].
    + pose proof (apply_macros_good paste (ps_macros st) ts) as G.
      destruct (apply_macros paste (ps_macros st) ts); try contradiction; [apply IH | split; discriminate].
    + destruct (parse_define cmd); [apply IH | split; discriminate].
    + apply IH.
    + destruct (files f); split; discriminate.
    + apply IH.
  - destruct it as [ts|cmd|x|f|].
    + pose proof (apply_macros_good paste (ps_macros st) ts) as G.
      destruct (apply_macros paste (ps_macros st) ts); try contradiction; [apply IH | split; discriminate].
    + destruct (parse_define cmd); [apply IH | split; discriminate].
    + apply IH.
    + destruct (files f) as [body|]; [|split; discriminate].
      destruct (run_d d f (if existsb (String.eqb f) (ps_once st) then [] else body) st) as [st'|e] eqn:E.
      * apply IH.
      * pose proof (IHd f (if existsb (String.eqb f) (ps_once st) then [] else body) st) as [H1 H2].
        rewrite E in H1, H2. split; congruence.
    + apply IH.
Qed.

(* soundness with respect to the C12 driver: a result of the depth-limited driver is a result of the fuelled one *)
Theorem run_d_refines_run : forall depth self its st r,
  run_d depth self its st = inl r -> exists fuel, Run fuel self its st = inl r.
Proof.
  induction depth as [|d IHd]; intros self its; induction its as [|it rest IH]; intros st r H; rewrite run_d_unfold in H.
  - exists 1. cbn. congruence.
  - destruct it as [ts|cmd|x|f|].
    + destruct (apply_macros paste (ps_macros st) ts) as [out| | |] eqn:E; try discriminate.
      destruct (IH _ _ H) as [fuel Hf]. exists (S fuel). cbn [run]. rewrite E. exact Hf.
    + destruct (parse_define cmd) as [m|] eqn:E; [|discriminate].
      destruct (IH _ _ H) as [fuel Hf]. exists (S fuel). cbn [run]. rewrite E. exact Hf.
    + destruct (IH _ _ H) as [fuel Hf]. exists (S fuel). cbn [run]. exact Hf.
    + destruct (files f); discriminate.
    + destruct (IH _ _ H) as [fuel Hf]. exists (S fuel). cbn [run]. exact Hf.
  - exists 1. cbn. congruence.
  - destruct it as [ts|cmd|x|f|].
    + destruct (apply_macros paste (ps_macros st) ts) as [out| | |] eqn:E; try discriminate.
      destruct (IH _ _ H) as [fuel Hf]. exists (S fuel). cbn [run]. rewrite E. exact Hf.
    + destruct (parse_define cmd) as [m|] eqn:E; [|discriminate].
      destruct (IH _ _ H) as [fuel Hf]. exists (S fuel). cbn [run]. rewrite E. exact Hf.
    + destruct (IH _ _ H) as [fuel Hf]. exists (S fuel). cbn [run]. exact Hf.
    + destruct (files f) as [body|] eqn:Ef; [|discriminate].
      destruct (run_d d f (if existsb (String.eqb f) (ps_once st) then [] else body) st) as [st'|e] eqn:E; [|discriminate].
      destruct (IHd _ _ _ _ E) as [f1 H1]. destruct (IH _ _ H) as [f2 H2].
      exists (S (f1 + f2)). cbn [run]. rewrite Ef. cbv zeta.
      rewrite (run_mono_le paste files f1 (f1 + f2) _ _ _ _ ltac:(lia) H1).
      exact (run_mono_le paste files f2 (f1 + f2) _ _ _ _ ltac:(lia) H2).
    + destruct (IH _ _ H) as [fuel Hf]. exists (S fuel). cbn [run]. exact Hf.
Qed.
End P.
