(* CondInclProofs.v — #include, #pragma and unknown directives under conditional compilation:
   nothing inside a skipped group has any effect, the model is conservative over Cond.v, and an
   included file is its lines run in place (the condition chain is shared across the file boundary). *)
From Coq Require Import List NArith Bool String Lia.
From RV Require Import Cond CondProofs.
From RV Require Import CondIncl.
Import ListNotations.
Local Open Scope list_scope.

Section Proofs.
Variable switch : cstate -> bool -> cstate.
Variable evalc : env -> list ctok -> bool + cerr.
Variable files : string -> option (list xline).

Notation xrun := (CondIncl.xrun switch evalc files).
Notation step := (Cond.step switch evalc).
Notation run := (Cond.run switch evalc).

Lemma xrun_nil d self st : xrun d self [] st = inl st.
Proof. destruct d; reflexivity. Qed.

Lemma xrun_cons d self l r st :
  xrun d self (l :: r) st =
  let skip := negb (is_active (p_stack (x_p st))) in
  match l with
  | XL l0 =>
      match step (x_p st) l0 with
      | inl p => xrun d self r (mkX p (x_once st))
      | inr e => inr (XE e)
      end
  | XInclude f =>
      if skip then xrun d self r st
      else match files f with
           | None => inr XFailedToFindFile
           | Some body =>
               match d with
               | O => inr XIncludeDepthExceeded
               | S d' =>
                   match xrun d' f (if marked st f then [] else body) st with
                   | inl st' => xrun d self r st'
                   | inr e => inr e
                   end
               end
           end
  | XPragmaOnce => if skip then xrun d self r st else xrun d self r (mkX (x_p st) (self :: x_once st))
  | XPragmaWarning => xrun d self r st
  | XPragmaOther => if skip then xrun d self r st else inr XUnknownPragma
  | XUnknown => if skip then xrun d self r st else inr XUnknownCommand
  end.
Proof. destruct d; reflexivity. Qed.

Lemma xrun_app d self a b st :
  xrun d self (a ++ b) st = match xrun d self a st with inl st' => xrun d self b st' | inr e => inr e end.
Proof.
  revert st; induction a as [|l a IH]; intros st; cbn [app].
  - rewrite xrun_nil. reflexivity.
  - rewrite !xrun_cons. cbv zeta.
    destruct l as [l0|f| | | |].
    + destruct (step (x_p st) l0); [apply IH | reflexivity].
    + destruct (negb (is_active (p_stack (x_p st)))); [apply IH|].
      destruct (files f); [|reflexivity]. destruct d; [reflexivity|].
      destruct (xrun d f _ st); [apply IH | reflexivity].
    + destruct (negb _); apply IH.
    + apply IH.
    + destruct (negb _); [apply IH | reflexivity].
    + destruct (negb _); [apply IH | reflexivity].
Qed.

Lemma active_app a b : is_active (a ++ b) = is_active a && is_active b.
Proof. unfold is_active. apply forallb_app. Qed.

Lemma inactive_app a b : is_active b = false -> is_active (a ++ b) = false.
Proof. intros H. rewrite active_app, H. apply andb_false_r. Qed.

(* ---- nothing inside a skipped group has any effect ---- *)
Lemma skipped_lines d self ls :
  forall (extra stk : list cstate) (e : env) (o : list otok) (once : list string),
    is_active stk = false -> xgroup (List.length extra) ls = true ->
    xrun d self ls (mkX (mkP (extra ++ stk) e o) once) = inl (mkX (mkP stk e o) once).
Proof.
  induction ls as [|l r IH]; intros extra stk e o once Hd Hg.
  - destruct extra; [|discriminate]. rewrite xrun_nil. reflexivity.
  - rewrite xrun_cons. cbv zeta. cbn [x_p x_once p_stack].
    pose proof (inactive_app extra stk Hd) as Hi.
    destruct l as [l0|f| | | |]; try (rewrite Hi; cbn [negb]; apply IH; [exact Hd | exact Hg]).
    + destruct l0; cbn [Cond.step p_stack p_env p_out]; rewrite ?Hi; cbn [negb];
        try (apply IH; [exact Hd | exact Hg]).
      * (* #if *) apply (IH (DisabledInner :: extra)); [exact Hd | exact Hg].
      * apply (IH (DisabledInner :: extra)); [exact Hd | exact Hg].
      * apply (IH (DisabledInner :: extra)); [exact Hd | exact Hg].
      * (* #elif *) destruct extra as [|top extra']; [discriminate Hg|]. cbn [app].
        rewrite (inactive_app extra' stk Hd), andb_false_r.
        apply (IH (switch top false :: extra')); [exact Hd | exact Hg].
      * (* #else *) destruct extra as [|top extra']; [discriminate Hg|]. cbn [app].
        apply (IH (switch top true :: extra')); [exact Hd | exact Hg].
      * (* #endif *) destruct extra as [|top extra']; [discriminate Hg|]. cbn [app].
        apply (IH extra'); [exact Hd | exact Hg].
    + apply IH; [exact Hd | exact Hg].
Qed.

Theorem skipped_group_has_no_effect d self body rest (stk : list cstate) (e : env) (o : list otok) (once : list string) :
  is_active stk = false -> xgroup 0 body = true ->
  xrun d self (body ++ rest) (mkX (mkP stk e o) once) = xrun d self rest (mkX (mkP stk e o) once).
Proof.
  intros Hd Hg. rewrite xrun_app. pose proof (skipped_lines d self body [] stk e o once Hd Hg) as H.
  cbn [app] in H. rewrite H. reflexivity.
Qed.

(* a whole conditional whose only group is not selected: #if <false> ... #endif, at any nesting *)
Theorem false_conditional_has_no_effect d self c body rest st :
  (is_active (p_stack (x_p st)) = true -> evalc (p_env (x_p st)) c = inl false) ->
  xgroup 0 body = true ->
  xrun d self (XL (LIf c) :: body ++ XL LEndif :: rest) st = xrun d self rest st.
Proof.
  intros Hc Hg. destruct st as [[stk e o] once]. cbn [x_p p_stack p_env] in Hc.
  rewrite xrun_cons. cbv zeta. cbn [x_p x_once Cond.step p_stack p_env p_out].
  assert (Hpush : (if negb (is_active stk)
                   then @inl pstate perr (mkP (DisabledInner :: stk) e o)
                   else match evalc e c with
                        | inl b => inl (mkP ((if b then Enabled else DisabledInner) :: stk) e o)
                        | inr e1 => inr (cerr_to_perr e1)
                        end) = inl (mkP (DisabledInner :: stk) e o)).
  { destruct (is_active stk) eqn:Ha; cbn [negb]; [rewrite (Hc eq_refl)|]; reflexivity. }
  rewrite Hpush.
  rewrite (skipped_group_has_no_effect d self body (XL LEndif :: rest) (DisabledInner :: stk) e o once eq_refl Hg).
  rewrite xrun_cons. reflexivity.
Qed.

(* ---- conservative over Cond.v: without the new lines the two models agree ---- *)
Theorem xrun_conservative d self ls st :
  xrun d self (map XL ls) st =
  match run (x_p st) ls with inl p => inl (mkX p (x_once st)) | inr e => inr (XE e) end.
Proof.
  revert st; induction ls as [|l r IH]; intros st; cbn [map Cond.run].
  - rewrite xrun_nil. destruct st; reflexivity.
  - rewrite xrun_cons. destruct (step (x_p st) l) as [p|e]; [|reflexivity].
    rewrite IH. reflexivity.
Qed.

(* ---- an included file is its lines run in place ---- *)
Lemma xrun_self d s1 s2 ls st : no_once ls = true -> xrun d s1 ls st = xrun d s2 ls st.
Proof.
  revert st; induction ls as [|l r IH]; intros st Hn.
  - rewrite !xrun_nil. reflexivity.
  - cbn [no_once forallb] in Hn. apply andb_prop in Hn as [Hl Hr]. fold (no_once r) in Hr.
    rewrite !xrun_cons. cbv zeta.
    destruct l as [l0|f| | | |]; try discriminate Hl.
    + destruct (step (x_p st) l0); [apply IH; exact Hr | reflexivity].
    + destruct (negb _); [apply IH; exact Hr|]. destruct (files f); [|reflexivity].
      destruct d; [reflexivity|]. destruct (xrun d f _ st); [apply IH; exact Hr | reflexivity].
    + apply IH; exact Hr.
    + destruct (negb _); [apply IH; exact Hr | reflexivity].
    + destruct (negb _); [apply IH; exact Hr | reflexivity].
Qed.

Lemma xrun_deeper d : forall self ls st st', xrun d self ls st = inl st' -> xrun (S d) self ls st = inl st'.
Proof.
  induction d as [|d IHd]; intros self ls; induction ls as [|l r IH]; intros st st' H.
  - rewrite xrun_nil in *. exact H.
  - rewrite xrun_cons in *. cbv zeta in *.
    destruct l as [l0|f| | | |].
    + destruct (step (x_p st) l0); [apply IH; exact H | discriminate].
    + destruct (negb _); [apply IH; exact H|]. destruct (files f); discriminate.
    + destruct (negb _); apply IH; exact H.
    + apply IH; exact H.
    + destruct (negb _); [apply IH; exact H | discriminate].
    + destruct (negb _); [apply IH; exact H | discriminate].
  - rewrite xrun_nil in *. exact H.
  - rewrite xrun_cons in H. rewrite xrun_cons. cbv zeta in *.
    destruct l as [l0|f| | | |].
    + destruct (step (x_p st) l0); [apply IH; exact H | discriminate].
    + destruct (negb _); [apply IH; exact H|]. destruct (files f) as [body|]; [|discriminate].
      destruct (xrun d f (if marked st f then [] else body) st) as [st1|] eqn:E; [|discriminate].
      rewrite (IHd _ _ _ _ E). apply IH; exact H.
    + destruct (negb _); apply IH; exact H.
    + apply IH; exact H.
    + destruct (negb _); [apply IH; exact H | discriminate].
    + destruct (negb _); [apply IH; exact H | discriminate].
Qed.

Theorem include_is_paste_under_conditionals d self f body rest st st1 :
  files f = Some body -> marked st f = false -> no_once body = true ->
  is_active (p_stack (x_p st)) = true ->
  xrun d f body st = inl st1 ->
  xrun (S d) self (XInclude f :: rest) st = xrun (S d) self (body ++ rest) st.
Proof.
  intros Hf Hm Hn Ha Hb.
  rewrite xrun_cons. cbv zeta. rewrite Ha, Hf, Hm, Hb. cbn [negb].
  rewrite xrun_app. rewrite (xrun_self (S d) self f body st Hn). rewrite (xrun_deeper d _ _ _ _ Hb). reflexivity.
Qed.

End Proofs.

Section Erase.
Variable switch : cstate -> bool -> cstate.
Variable evalc : env -> list ctok -> bool + cerr.
Variable files : string -> option (list xline).
Notation xrun := (CondIncl.xrun switch evalc files).

(* wherever the chain is inactive after the lines before it, a group's worth of lines can be taken out of the file *)
Theorem skipped_region_erasable d self a body b st st1 :
  xrun d self a st = inl st1 -> is_active (p_stack (x_p st1)) = false -> xgroup 0 body = true ->
  xrun d self (a ++ body ++ b) st = xrun d self (a ++ b) st.
Proof.
  intros Ha Hd Hg. rewrite !(xrun_app switch evalc files d self a), Ha.
  destruct st1 as [[stk e o] once]. cbn [x_p p_stack] in Hd.
  apply (skipped_group_has_no_effect switch evalc files d self body b stk e o once Hd Hg).
Qed.
End Erase.
