From Coq Require Import List NArith Bool String Lia.
From RV Require Import Cond CondProofs CondIncl CondInclProofs XTree.
Import ListNotations.
Local Open Scope list_scope.

Section File.
Variable switch : cstate -> bool -> cstate.
Hypothesis Hsw : switch_ok switch.
Variable evalb : env -> list ctok -> bool.
Variable files : string -> option (list xline).
Notation evalc := (CondProofs.evalc evalb).

(* preprocess_initial_file on an entry file that is a well-nested tree: accepted with exactly the macro table and the
   output of the selected leaves, or rejected with the first rejection among them - never with a chain diagnostic *)
Theorem tree_file depth entry its e0 :
  files entry = Some (xflat_items its) -> ok_items switch evalb files depth entry its ->
  xrun_file switch evalc files depth entry e0 =
  match xsem_items switch evalb files depth entry (e0, [], []) its with
  | inl (e, o, _) => inl (e, o)
  | inr err => inr err
  end.
Proof.
  intros Hf Hok. unfold xrun_file. rewrite Hf.
  change (mkX (mkP [] e0 []) []) with (st_of [] (e0, [], [])).
  rewrite (tree_selects_C_groups switch Hsw evalb files depth entry its (e0, [], []) Hok).
  destruct (xsem_items switch evalb files depth entry (e0, [], []) its) as [[[e o] once]|err]; reflexivity.
Qed.
End File.
