(* MacroPaste.v — `##` pastes its neighbours into one token: the invocation of `#define cat(p,q) p ## q` with two
   single-token arguments yields the one token the paste function makes of them.  Generic in the paste function and
   in the rest of the macro table. *)
From Coq Require Import List NArith Bool String Arith Lia.
From RV Require Import Macro MacroProofs MacroSubst.
Import ListNotations.
Local Open Scope list_scope.

Section Paste.
Variable paste : mtok -> mtok -> option mtok.
Variable defs : list macro.

Notation plain := (plain defs).
Notation simple := (simple defs).

(* the invocation of a function-like macro, given what the rescan of its substituted replacement list yields *)
Lemma function_macro_general mi m pre args post out :
  nth_error defs mi = Some m -> m_fn m = true ->
  (forall j m', j < mi -> nth_error defs j = Some m' -> String.eqb (m_name m) (m_name m') = false) ->
  args <> [] -> List.length args = m_params m -> Forall simple args ->
  plain pre -> plain post ->
  (let sb := subst (m_body m) (map trim args) in
   expand paste defs (List.length defs) (set_nth (map (fun _ => false) defs) mi true) (S (List.length sb)) sb 0 0 None = XOk out) ->
  plain out ->
  apply_macros paste defs (pre ++ MId (m_name m) :: MLP :: commas args ++ MRP :: post) = XOk (pre ++ out ++ post).
Proof.
  intros Hn Hf Hfirst Hne Hlen Hs Hpre Hpost Hinner Hout.
  unfold apply_macros.
  set (call := MLP :: commas args ++ MRP :: post).
  set (toks := pre ++ MId (m_name m) :: call).
  assert (Hl : List.length toks = List.length pre + S (List.length call))
    by (unfold toks; rewrite app_length; reflexivity).
  rewrite expand_eq. unfold loop_step.
  destruct (Nat.leb_spec (List.length toks) 0) as [Hz|_]; [lia|].
  unfold find. change (firstn 0 toks) with (@nil mtok). change (skipn 0 toks) with toks. cbn [rev]. unfold toks at 1.
  rewrite find_from_skip by exact Hpre. cbn [find_from Nat.add]. unfold call at 1.
  rewrite (pick_first_fn defs (m_name m) _ (List.length pre) defs 0 mi m Hn eq_refl Hf Hfirst). cbn [Nat.add].
  rewrite Hn, Hf.
  assert (Hsk : skipn (S (List.length pre)) toks = call).
  { unfold toks. replace (S (List.length pre)) with (List.length (pre ++ [MId (m_name m)])) by (rewrite app_length; cbn; lia).
    replace (pre ++ MId (m_name m) :: call) with ((pre ++ [MId (m_name m)]) ++ call) by (rewrite <- app_assoc; reflexivity).
    apply skipn_app_length_eq. }
  assert (Hfn : firstn (List.length pre) toks = pre) by (unfold toks; apply firstn_app_length_eq).
  rewrite Hsk, Hfn. unfold call at 1. unfold split_args. cbn [trim_start_all is_ws].
  rewrite (split_go_commas defs args post [] Hne Hs). cbn [rev app].
  assert (Hp0 : Nat.eqb (m_params m) 0 = false).
  { apply Nat.eqb_neq. rewrite <- Hlen. destruct args; [congruence | cbn; lia]. }
  rewrite Hp0, map_length, Hlen, Nat.eqb_refl.
  destruct (List.length toks) as [|nt] eqn:Hnt; [lia|].
  assert (Hargs : map (fun a => expand paste defs (S (List.length defs)) (map (fun _ => false) defs) (S nt) a 0 0 None) (map trim args)
                  = map XOk (map trim args)).
  { apply map_ext_in. intros a Ha. apply expand_plain; [|lia].
    apply in_map_iff in Ha as (a0 & <- & Ha0). apply plain_trim, simple_plain.
    rewrite Forall_forall in Hs. apply Hs, Ha0. }
  rewrite Hargs, all_ok_oks. cbn [rev app].
  cbv zeta in Hinner. rewrite Hinner.
  apply expand_plain.
  - apply plain_app; [exact Hpre | apply plain_app; [exact Hout | exact Hpost]].
  - rewrite app_length. lia.
Qed.

Lemma trim_single a : is_ws a = false -> trim [a] = [a].
Proof.
  intros H. unfold trim, trim_end. cbn [trim_start].
  assert (Hi : is_ws_inline a = false) by (destruct a; try reflexivity; discriminate H).
  rewrite Hi. cbn [rev app trim_start]. rewrite Hi. reflexivity.
Qed.

(* `name(a, b)` for `#define name(p,q) p ## q` *)
Theorem paste_macro_pastes mi m pre a b t post :
  nth_error defs mi = Some m -> m_fn m = true -> m_params m = 2 ->
  m_body m = [MArg 0; MWs; MConcat; MWs; MArg 1] ->
  (forall j m', j < mi -> nth_error defs j = Some m' -> String.eqb (m_name m) (m_name m') = false) ->
  simple [a] -> simple [b] -> is_ws a = false -> is_ws b = false ->
  paste a b = Some t -> plain [t] ->
  plain pre -> plain post ->
  apply_macros paste defs (pre ++ MId (m_name m) :: MLP :: a :: MComma :: b :: MRP :: post) = XOk (pre ++ t :: post).
Proof.
  intros Hn Hf Hp Hb Hfirst Ha Hbb Hwa Hwb Hpaste Ht Hpre Hpost.
  change (a :: MComma :: b :: MRP :: post) with (commas [[a]; [b]] ++ MRP :: post).
  change (t :: post) with ([t] ++ post).
  apply (function_macro_general mi m pre [[a]; [b]] post [t] Hn Hf Hfirst); try assumption.
  - discriminate.
  - rewrite Hp. reflexivity.
  - constructor; [exact Ha | constructor; [exact Hbb | constructor]].
  - cbv zeta. rewrite Hb. cbn [map subst nth app]. rewrite (trim_single a Hwa), (trim_single b Hwb). cbn [app List.length].
    destruct (List.length defs) as [|nd] eqn:Hnd.
    { destruct defs; [destruct mi; discriminate | discriminate]. }
    rewrite expand_eq. unfold loop_step. cbn [List.length Nat.leb].
    unfold find. cbn [firstn skipn rev].
    assert (Hpa : plain [a; MWs]).
    { destruct Ha as [Ha _]. unfold MacroSubst.plain in *. cbn [forallb] in *. rewrite andb_true_r in Ha. rewrite Ha. reflexivity. }
    change [a; MWs; MConcat; MWs; b] with ([a; MWs] ++ [MConcat; MWs; b]).
    rewrite (find_from_skip defs _ 0 None [a; MWs] [MConcat; MWs; b] [] 0 Hpa).
    cbn [rev app List.length Nat.add find_from Nat.ltb Nat.leb first_non_ws is_ws].
    rewrite Hwa, Hwb. cbn [Nat.sub Nat.add nth_error].
    rewrite Hpaste. cbn [firstn skipn app].
    apply expand_plain; [exact Ht | cbn; lia].
Qed.

End Paste.
