(* SyntaxBridge.v — the printer model with numeric precedences, associativity and sides (Syntax.fmt) prints,
   token for token, the level-directed text `pr` of SyntaxProofs.v, provided the precedence table orders the
   node kinds the way the parser's levels do.  The provisos are finite checks on the generated tables. *)
From Coq Require Import List NArith Bool String Ascii Lia Arith.
From RV Require Import Syntax SyntaxProofs.
Import ListNotations.
Local Open Scope list_scope.

Section Bridge.
Variable un_prec : string -> N.
Variable un_sp : string -> string.
Variable un_post : string -> bool.
Variable bin_prec : string -> N.
Variable bin_sp : string -> string.
Variable bin_tight : string -> bool.
Variable p_leaf p_tern p_sub p_mem p_call p_cast : N.
Variable call_obj_outer call_arg_outer : N.
Variable assoc_of : N -> assoc.
Variable sep_chars : list ascii.
Variable sides : string -> list side.

Variable uop : string -> bool.
Variable bop : string -> bool.
Variable blv : string -> nat.
Variable lvN : N -> nat.            (* the parser level a printer precedence stands for *)
Variable precs : list N.            (* every precedence a node can have *)

Let Fmt := fmt un_prec un_sp un_post bin_prec bin_sp bin_tight p_leaf p_tern p_sub p_mem p_call p_cast
               call_obj_outer call_arg_outer assoc_of sep_chars sides.
Let Prec := prec un_prec bin_prec p_leaf p_tern p_sub p_mem p_call p_cast.
Let El := el un_post blv.
Let Raw := raw un_post un_sp blv bin_sp.
Let Wrap := wrap un_post blv.

(* in the position (outer precedence, side) exactly the nodes of level <= c are printed without parentheses *)
Definition ctx_ok (outer : N) (s : side) (c : nat) : Prop :=
  forall p, In p precs -> requires_paren assoc_of p outer s = negb (Nat.leb (lvN p) c).

Fixpoint wfops (e : expr) : Prop :=
  match e with
  | EId _ | ELit _ _ => True
  | EUn o a => uop o = true /\ wfops a
  | EBin o a b => bop o = true /\ wfops a /\ wfops b
  | ETern c a b => wfops c /\ wfops a /\ wfops b
  | ESub a i => wfops a /\ wfops i
  | EMem a _ => wfops a
  | ECall f args => wfops f /\ (fix all (l : list expr) : Prop := match l with [] => True | x :: r => wfops x /\ all r end) args
  | ECast _ a => wfops a
  end.

Hypothesis Hleaf : In p_leaf precs /\ lvN p_leaf = 0.
Hypothesis Hun : forall o, uop o = true -> In (un_prec o) precs /\ lvN (un_prec o) = if un_post o then 1 else 2.
Hypothesis Hbinp : forall o, bop o = true -> In (bin_prec o) precs /\ lvN (bin_prec o) = blv o.
Hypothesis Htern : In p_tern precs /\ lvN p_tern = 13.
Hypothesis Hsub : In p_sub precs /\ lvN p_sub = 1.
Hypothesis Hmem : In p_mem precs /\ lvN p_mem = 1.
Hypothesis Hcall : In p_call precs /\ lvN p_call = 1.
Hypothesis Hcast : In p_cast precs /\ lvN p_cast = 2.

Hypothesis Cpost : forall o, uop o = true -> un_post o = true -> ctx_ok (un_prec o) (side_at sides "UnaryOperation" 0) 1.
Hypothesis Cpre : forall o, uop o = true -> un_post o = false -> ctx_ok (un_prec o) (side_at sides "UnaryOperation" 1) 2.
Hypothesis Cbin : forall o, bop o = true ->
  ctx_ok (bin_prec o) (side_at sides "BinaryOperation" 0) (lctx blv o) /\
  ctx_ok (bin_prec o) (side_at sides "BinaryOperation" 1) (rctx blv o).
Hypothesis Ctern : ctx_ok p_tern (side_at sides "TernaryConditional" 0) 12 /\
                   ctx_ok p_tern (side_at sides "TernaryConditional" 1) 13 /\
                   ctx_ok p_tern (side_at sides "TernaryConditional" 2) 13.
Hypothesis Csub : ctx_ok p_sub (side_at sides "ArraySubscript" 0) 1 /\ ctx_ok p_sub (side_at sides "ArraySubscript" 1) 1.
Hypothesis Cmem : ctx_ok p_mem (side_at sides "Member" 0) 1.
Hypothesis Ccall : ctx_ok call_obj_outer (side_at sides "Call" 0) 1 /\ ctx_ok call_arg_outer (side_at sides "Call" 1) 13.
Hypothesis Ccast : ctx_ok p_cast (side_at sides "Cast" 0) 2.

Lemma toks_app a b : toks (a ++ b) = toks a ++ toks b.
Proof. induction a as [|[t|] a IH]; cbn; [reflexivity | rewrite IH; reflexivity | exact IH]. Qed.

Lemma toks_glue op operand : toks (glue_prefix sep_chars op operand) = TSym op :: toks operand.
Proof.
  unfold glue_prefix. destruct (last_char op); [|reflexivity]. destruct (first_char operand); [|reflexivity].
  destruct (Ascii.eqb a a0 && ascii_in a sep_chars); reflexivity.
Qed.

Lemma prec_level e : wfops e -> In (Prec e) precs /\ lvN (Prec e) = El e.
Proof.
  destruct e; cbn [wfops]; intros H; unfold Prec, El; cbn [prec el]; auto.
  - apply Hun. exact (proj1 H).
  - apply Hbinp. exact (proj1 H).
Qed.

Lemma toks_commas (f : expr -> list item) (g : expr -> list tok) args :
  Forall (fun a => toks (f a) = g a) args ->
  toks (comma_list (map f args)) = commas (map g args).
Proof.
  induction 1 as [|a r Ha Hr IH]; [reflexivity|].
  destruct r as [|b r'].
  - cbn. exact Ha.
  - change (comma_list (map f (a :: b :: r'))) with (f a ++ [sym ","; Sp] ++ comma_list (map f (b :: r'))).
    change (commas (map g (a :: b :: r'))) with (g a ++ sy "," :: commas (map g (b :: r'))).
    rewrite toks_app, Ha. cbn [app toks sym]. rewrite IH. reflexivity.
Qed.

Definition bridged (e : expr) : Prop :=
  forall outer s c, ctx_ok outer s c -> toks (Fmt e outer s) = Wrap c e (Raw e).

Lemma bridge_node e body :
  wfops e ->
  (forall outer s, Fmt e outer s = if requires_paren assoc_of (Prec e) outer s then [sym "("] ++ body ++ [sym ")"] else body) ->
  toks body = Raw e -> bridged e.
Proof.
  intros Hw Hf Hb outer s c Hc. rewrite Hf. destruct (prec_level e Hw) as [Hin Hlv].
  rewrite (Hc _ Hin), Hlv. unfold Wrap, wrap. fold El. destruct (Nat.leb (El e) c); cbn [negb].
  - exact Hb.
  - cbn [app toks]. rewrite toks_app, Hb. reflexivity.
Qed.

Theorem bridge_all : forall e, wfops e -> bridged e.
Proof.
  induction e as [x|i x|o a IHa|o a b IHa IHb|c a b IHc IHa IHb|a i IHa IHi|a m IHa|fn args IHf IHargs|t a IHa]
    using expr_ind'; intros Hw.
  - apply (bridge_node _ [I (TId x)]); [exact Hw | reflexivity | reflexivity].
  - apply (bridge_node _ [I (TLit i x)]); [exact Hw | reflexivity | reflexivity].
  - destruct Hw as [Ho Ha]. specialize (IHa Ha).
    destruct (un_post o) eqn:Hpo.
    + apply (bridge_node _ (Fmt a (un_prec o) (side_at sides "UnaryOperation" 0) ++ [sym (un_sp o)])).
      * split; assumption.
      * intros outer s. unfold Fmt. cbn [fmt prec]. rewrite Hpo. reflexivity.
      * rewrite toks_app. rewrite (IHa _ _ 1 (Cpost o Ho Hpo)). unfold Raw. cbn [raw]. rewrite Hpo. reflexivity.
    + apply (bridge_node _ (glue_prefix sep_chars (un_sp o) (Fmt a (un_prec o) (side_at sides "UnaryOperation" 1)))).
      * split; assumption.
      * intros outer s. unfold Fmt. cbn [fmt prec]. rewrite Hpo. reflexivity.
      * rewrite toks_glue. rewrite (IHa _ _ 2 (Cpre o Ho Hpo)). unfold Raw. cbn [raw]. rewrite Hpo. reflexivity.
  - destruct Hw as (Ho & Ha & Hb). specialize (IHa Ha). specialize (IHb Hb). destruct (Cbin o Ho) as [Cl Cr].
    apply (bridge_node _ (Fmt a (bin_prec o) (side_at sides "BinaryOperation" 0) ++ (if bin_tight o then [] else [Sp])
                          ++ [sym (bin_sp o); Sp] ++ Fmt b (bin_prec o) (side_at sides "BinaryOperation" 1))).
    + repeat split; assumption.
    + intros outer s. reflexivity.
    + rewrite !toks_app. rewrite (IHa _ _ _ Cl), (IHb _ _ _ Cr). destruct (bin_tight o); reflexivity.
  - destruct Hw as (Hc & Ha & Hb). specialize (IHc Hc). specialize (IHa Ha). specialize (IHb Hb).
    destruct Ctern as (C0 & C1 & C2).
    apply (bridge_node _ (Fmt c p_tern (side_at sides "TernaryConditional" 0) ++ [Sp; sym "?"; Sp]
                          ++ Fmt a p_tern (side_at sides "TernaryConditional" 1) ++ [Sp; sym ":"; Sp]
                          ++ Fmt b p_tern (side_at sides "TernaryConditional" 2))).
    + repeat split; assumption.
    + intros outer s. reflexivity.
    + rewrite !toks_app. rewrite (IHc _ _ _ C0), (IHa _ _ _ C1), (IHb _ _ _ C2). reflexivity.
  - destruct Hw as (Ha & Hi). specialize (IHa Ha). specialize (IHi Hi). destruct Csub as (C0 & C1).
    apply (bridge_node _ (Fmt a p_sub (side_at sides "ArraySubscript" 0) ++ [sym "["]
                          ++ Fmt i p_sub (side_at sides "ArraySubscript" 1) ++ [sym "]"])).
    + split; assumption.
    + intros outer s. reflexivity.
    + rewrite !toks_app. rewrite (IHa _ _ _ C0), (IHi _ _ _ C1). reflexivity.
  - cbn [wfops] in Hw. specialize (IHa Hw).
    apply (bridge_node _ ((match a with ELit true _ => [sym "("] ++ Fmt a p_mem (side_at sides "Member" 0) ++ [sym ")"]
                                    | _ => Fmt a p_mem (side_at sides "Member" 0) end) ++ [sym "."; I (TId m)])).
    + exact Hw.
    + intros outer s. reflexivity.
    + rewrite toks_app. unfold Raw. cbn [raw]. f_equal.
      pose proof (IHa _ _ 1 Cmem) as H1.
      destruct a as [x|[|] x|o a'|o a' b'|c' a' b'|a' i'|a' m'|f' l'|t' a']; try exact H1.
      cbn [app toks]. rewrite toks_app. rewrite H1. reflexivity.
  - assert (Hw' : wfops fn /\ Forall wfops args).
    { cbn [wfops] in Hw. destruct Hw as [Hf Ha]. split; [exact Hf|]. clear -Ha.
      induction args as [|x r IH]; constructor; [exact (proj1 Ha) | apply IH, (proj2 Ha)]. }
    destruct Hw' as [Hf Hargs]. specialize (IHf Hf). destruct Ccall as (C0 & C1).
    apply (bridge_node _ (Fmt fn call_obj_outer (side_at sides "Call" 0) ++ [sym "("]
                          ++ comma_list (map (fun a => Fmt a call_arg_outer (side_at sides "Call" 1)) args) ++ [sym ")"])).
    + exact Hw.
    + intros outer s. reflexivity.
    + rewrite !toks_app. rewrite (IHf _ _ _ C0).
      rewrite (toks_commas _ (fun a => Wrap 13 a (Raw a))).
      * reflexivity.
      * clear -IHargs Hargs C1. induction args as [|x r IH]; constructor.
        -- inversion IHargs; inversion Hargs; subst. apply H1; assumption.
        -- inversion IHargs; inversion Hargs; subst. apply IH; assumption.
  - cbn [wfops] in Hw. specialize (IHa Hw).
    apply (bridge_node _ ([sym "("; I (TId t); sym ")"] ++ Fmt a p_cast (side_at sides "Cast" 0))).
    + exact Hw.
    + intros outer s. reflexivity.
    + rewrite toks_app. rewrite (IHa _ _ _ Ccast). reflexivity.
Qed.

End Bridge.
