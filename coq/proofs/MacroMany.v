(* MacroMany.v — any number of uses of object-like macros in one token list: each is replaced by its replacement list,
   in order, and the text between them stays (replacement lists that name no macro). *)
From Coq Require Import List NArith Bool String Arith Lia.
From RV Require Import Macro MacroProofs MacroSubst MacroChain.
Import ListNotations.
Local Open Scope list_scope.

Section Many.
Variable paste : mtok -> mtok -> option mtok.
Variable defs : list macro.
Notation plain := (plain defs).

(* (text before the use, index of the macro, the macro) *)
Definition use := (list mtok * nat * macro)%type.
Fixpoint flat_in (us : list use) : list mtok :=
  match us with [] => [] | (p, _, m) :: r => p ++ MId (m_name m) :: flat_in r end.
Fixpoint flat_out (us : list use) : list mtok :=
  match us with [] => [] | (p, _, m) :: r => p ++ m_body m ++ flat_out r end.

Definition use_ok (dis : list bool) (u : use) : Prop :=
  let '(p, mi, m) := u in
  nth_error defs mi = Some m /\ m_fn m = false /\ nth mi dis false = false /\
  (forall j m', j < mi -> nth_error defs j = Some m' -> String.eqb (m_name m) (m_name m') = false) /\
  plain p /\ plain (m_body m).

Lemma pick_first_at dis x after i next lastfn : next <= i -> forall ds mi0 k m,
  nth_error ds k = Some m -> m_name m = x -> m_fn m = false -> nth (mi0 + k) dis false = false ->
  (forall j m', j < k -> nth_error ds j = Some m' -> String.eqb x (m_name m') = false) ->
  pick_macro ds dis mi0 x after i next lastfn = Some (mi0 + k).
Proof.
  intros Hle. assert (Hlt : Nat.ltb i next = false) by (apply Nat.ltb_ge; exact Hle).
  induction ds as [|m0 r IH]; intros mi0 k m Hn Hx Hf Hd Hfirst; [destruct k; discriminate|].
  cbn [pick_macro]. rewrite Hlt, andb_false_r.
  destruct k as [|k].
  - cbn in Hn. inversion Hn; subst m0. rewrite Nat.add_0_r in *. rewrite Hd, Hx, String.eqb_refl, Hf. reflexivity.
  - rewrite (Hfirst 0 m0 ltac:(lia) eq_refl).
    replace (mi0 + S k) with (S mi0 + k) in * by lia.
    rewrite (IH (S mi0) k m Hn Hx Hf Hd).
    + destruct (nth mi0 dis false); reflexivity.
    + intros j m' Hj Hn'. apply (Hfirst (S j) m'); [lia | exact Hn'].
Qed.

Lemma skipn_app_le {A} n (a b : list A) : n <= List.length a -> skipn n (a ++ b) = skipn n a ++ b.
Proof.
  revert a; induction n as [|n IH]; intros a H; [reflexivity|].
  destruct a as [|x a]; cbn in H; [lia|]. cbn [skipn app]. apply IH. lia.
Qed.
Lemma firstn_app_le {A} n (a b : list A) : n <= List.length a -> firstn n (a ++ b) = firstn n a.
Proof.
  revert a; induction n as [|n IH]; intros a H; [reflexivity|].
  destruct a as [|x a]; cbn in H; [lia|]. cbn [firstn app]. f_equal. apply IH. lia.
Qed.
Lemma plain_skipn n a : plain a -> plain (skipn n a).
Proof. intros H. rewrite <- (firstn_skipn n a) in H. apply (plain_suffix defs _ _ H). Qed.

Lemma scan_objects d dis post : plain post ->
  forall us done n next early lastfn,
    plain done -> next <= List.length done -> early <= List.length done -> List.length us < n ->
    Forall (use_ok dis) us ->
    expand paste defs (S (S d)) dis n (done ++ flat_in us ++ post) next early lastfn =
    XOk (done ++ flat_out us ++ post).
Proof.
  intros Hpost. induction us as [|[[p mi] m] r IH]; intros done n next early lastfn Hdone Hnext Hearly Hn Hok.
  - destruct n as [|n]; [cbn in Hn; lia|]. cbn [flat_in flat_out app].
    apply expand_plain; [apply plain_app; assumption | rewrite app_length; lia].
  - destruct n as [|n]; [cbn in Hn; lia|]. cbn [List.length] in Hn.
    inversion Hok as [|? ? Hu Hr]; subst. destruct Hu as (Hnth & Hf & Hd & Hfirst & Hp & Hb).
    cbn [flat_in flat_out].
    set (rest := flat_in r ++ post).
    set (toks := done ++ (p ++ MId (m_name m) :: flat_in r) ++ post).
    assert (Htoks : toks = (done ++ p) ++ MId (m_name m) :: rest).
    { unfold toks, rest. rewrite <- !app_assoc. cbn [app]. reflexivity. }
    assert (Hlen : List.length toks = List.length done + List.length p + S (List.length rest)).
    { rewrite Htoks, !app_length. cbn [List.length]. lia. }
    rewrite expand_eq. unfold loop_step.
    destruct (Nat.leb_spec (List.length toks) next) as [Hz|_]; [lia|].
    unfold find.
    assert (Hsk : skipn early toks = (skipn early done ++ p) ++ MId (m_name m) :: rest).
    { rewrite Htoks, <- app_assoc. rewrite skipn_app_le by exact Hearly. rewrite <- app_assoc. reflexivity. }
    rewrite Hsk.
    rewrite find_from_skip by (apply plain_app; [apply plain_skipn; exact Hdone | exact Hp]).
    assert (Hpos : early + List.length (skipn early done ++ p) = List.length done + List.length p).
    { rewrite app_length, skipn_length. lia. }
    rewrite Hpos. cbn [find_from].
    rewrite (pick_first_at dis (m_name m) rest (List.length done + List.length p) next lastfn ltac:(lia) defs 0 mi m Hnth eq_refl Hf Hd Hfirst).
    cbn [Nat.add]. rewrite Hnth, Hf. cbn [map all_ok rev].
    rewrite (subst_plain defs _ Hb).
    rewrite (expand_plain paste defs d _ _ _ 0 0 None Hb ltac:(lia)).
    assert (Hfn : firstn (List.length done + List.length p) toks = done ++ p).
    { rewrite Htoks. replace (List.length done + List.length p) with (List.length (done ++ p)) by (rewrite app_length; reflexivity).
      apply firstn_app_length_eq. }
    assert (Hsk2 : skipn (S (List.length done + List.length p)) toks = rest).
    { rewrite Htoks. replace (S (List.length done + List.length p)) with (List.length ((done ++ p) ++ [MId (m_name m)]))
        by (rewrite !app_length; cbn; lia).
      replace ((done ++ p) ++ MId (m_name m) :: rest) with (((done ++ p) ++ [MId (m_name m)]) ++ rest)
        by (rewrite <- !app_assoc; reflexivity).
      apply skipn_app_length_eq. }
    rewrite Hfn, Hsk2. unfold rest.
    replace ((done ++ p) ++ m_body m ++ flat_in r ++ post) with ((done ++ p ++ m_body m) ++ flat_in r ++ post)
      by (rewrite <- !app_assoc; reflexivity).
    rewrite (IH (done ++ p ++ m_body m) n _ _ None).
    + rewrite <- !app_assoc. reflexivity.
    + apply plain_app; [exact Hdone | apply plain_app; [exact Hp | exact Hb]].
    + rewrite !app_length. lia.
    + rewrite !app_length. lia.
    + lia.
    + exact Hr.
Qed.

Theorem every_object_use_is_replaced us post :
  Forall (use_ok (map (fun _ => false) defs)) us -> plain post ->
  apply_macros paste defs (flat_in us ++ post) = XOk (flat_out us ++ post).
Proof.
  intros Hok Hpost. unfold apply_macros.
  destruct us as [|u r].
  - cbn [flat_in flat_out app]. apply expand_plain; [exact Hpost | lia].
  - assert (Hnd : exists nd, List.length defs = S nd).
    { inversion Hok as [|? ? Hu _]; subst. destruct u as [[p mi] m]. destruct Hu as (Hn & _).
      destruct defs; [destruct mi; discriminate | eexists; reflexivity]. }
    destruct Hnd as [nd Hnd]. rewrite Hnd.
    apply (scan_objects nd _ post Hpost (u :: r) [] _ 0 0 None); try (cbn; lia); try reflexivity; try exact Hok.
    (* every use takes at least one token *)
    assert (H : forall us, List.length us <= List.length (flat_in us)).
    { induction us as [|[[p mi] m] r' IH]; [reflexivity|]. cbn [flat_in List.length]. rewrite app_length. cbn [List.length]. lia. }
    rewrite app_length. specialize (H (u :: r)). lia.
Qed.

End Many.
