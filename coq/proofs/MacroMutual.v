(* MacroMutual.v — mutually referential object-like macros: `#define A preA B postA` / `#define B preB A postB`;
   a use of A gives preA preB A postB postA: B is replaced on the rescan of A's list, the A inside B's list stays
   (A is disabled there, and afterwards it lies left of the point where the scan resumes). *)
From Coq Require Import List NArith Bool String Arith Lia.
From RV Require Import Macro MacroProofs MacroSubst.
From RV Require Import MacroChain MacroSelf.
Import ListNotations.
Local Open Scope list_scope.

Section Mutual.
Variable paste : mtok -> mtok -> option mtok.
Variable defs : list macro.
Notation plain := (plain defs).

(* tokens that are plain or one of the names in X *)
Definition among (X : list string) (l : list mtok) : Prop :=
  forall t, In t l -> plainb defs t = true \/ exists x, In x X /\ t = MId x.

Lemma find_from_among dis X next lastfn post : plain post ->
  forall seg before i, among X seg ->
  (forall x after j, In x X -> i <= j < i + List.length seg -> pick_macro defs dis 0 x after j next lastfn = None) ->
  find_from defs dis before (seg ++ post) i next lastfn = FNone.
Proof.
  intros Hpost. induction seg as [|t r IH]; intros before i Hseg Hpick; cbn [app].
  - apply find_from_plain. exact Hpost.
  - assert (Hr : forall bef, find_from defs dis bef (r ++ post) (S i) next lastfn = FNone).
    { intros bef. apply IH.
      - intros t' Ht'. apply Hseg. right; exact Ht'.
      - intros x after j Hx Hj. apply Hpick; [exact Hx | cbn [List.length]; lia]. }
    destruct (Hseg t (or_introl eq_refl)) as [Hp|(x & Hx & Heq)]; [|subst t].
    + destruct t; try discriminate Hp; cbn [find_from]; try apply Hr.
      cbn [plainb] in Hp. rewrite (pick_none dis s (r ++ post) i next lastfn defs 0); [apply Hr|].
      unfold is_name in Hp. destruct (existsb _ defs); [discriminate | reflexivity].
    + cbn [find_from]. rewrite (Hpick x) by (try exact Hx; cbn [List.length]; lia). apply Hr.
Qed.

Lemma among_noarg X l : among X l -> noarg l.
Proof. intros H i Hi. destruct (H _ Hi) as [Hp|(x & _ & Hx)]; discriminate. Qed.

(* one object-like invocation whose rescanned replacement list still holds names of object-like macros *)
Lemma expand_object_among d dis n mi m pre post out X :
  nth_error defs mi = Some m -> m_fn m = false -> nth mi dis false = false ->
  (forall j m', j < mi -> nth_error defs j = Some m' -> String.eqb (m_name m) (m_name m') = false) ->
  plain pre -> plain post -> noarg (m_body m) ->
  expand paste defs (S d) (set_nth dis mi true) (S (List.length (m_body m))) (m_body m) 0 0 None = XOk out ->
  among X out ->
  (forall x k m', In x X -> nth_error defs k = Some m' -> String.eqb x (m_name m') = true -> m_fn m' = false) ->
  List.length (pre ++ MId (m_name m) :: post) <= S n ->
  expand paste defs (S (S d)) dis (S (S n)) (pre ++ MId (m_name m) :: post) 0 0 None = XOk (pre ++ out ++ post).
Proof.
  intros Hn Hf Hd Hfirst Hpre Hpost Hna Hinner Hout HX Hlen.
  set (toks := pre ++ MId (m_name m) :: post).
  assert (Hl : List.length toks = List.length pre + S (List.length post))
    by (unfold toks; rewrite app_length; reflexivity).
  rewrite expand_eq. unfold loop_step.
  destruct (Nat.leb_spec (List.length toks) 0) as [Hz|_]; [lia|].
  unfold find. change (firstn 0 toks) with (@nil mtok). change (skipn 0 toks) with toks. cbn [rev]. unfold toks at 1.
  rewrite find_from_skip by exact Hpre. cbn [find_from Nat.add].
  rewrite (pick_first_dis dis (m_name m) post (List.length pre) defs 0 mi m Hn eq_refl Hf Hd Hfirst). cbn [Nat.add].
  rewrite Hn, Hf. cbn [map all_ok rev].
  rewrite (subst_noarg _ [] Hna), Hinner.
  assert (Hfn : firstn (List.length pre) toks = pre) by (unfold toks; apply firstn_app_length_eq).
  assert (Hsk : skipn (S (List.length pre)) toks = post).
  { unfold toks. replace (S (List.length pre)) with (List.length (pre ++ [MId (m_name m)])) by (rewrite app_length; cbn; lia).
    replace (pre ++ MId (m_name m) :: post) with ((pre ++ [MId (m_name m)]) ++ post) by (rewrite <- app_assoc; reflexivity).
    apply skipn_app_length_eq. }
  rewrite Hfn, Hsk.
  rewrite expand_eq. unfold loop_step.
  destruct (Nat.leb _ _); [reflexivity|].
  unfold find. rewrite firstn_app_length_eq, skipn_app_length_eq.
  rewrite (find_from_among dis X (List.length pre + List.length out) None post Hpost out (rev pre) (List.length pre) Hout);
    [reflexivity|].
  intros x after j Hx Hj. apply pick_blocked. intros k m' Hk. cbn [Nat.add].
  destruct (String.eqb x (m_name m')) eqn:E; [|left; reflexivity].
  right; right. split; [apply (HX x k m' Hx Hk E) | lia].
Qed.

Theorem mutual_reference ia a ib b pre post preA postA preB postB :
  nth_error defs ia = Some a -> m_fn a = false ->
  nth_error defs ib = Some b -> m_fn b = false ->
  m_body a = preA ++ MId (m_name b) :: postA ->
  m_body b = preB ++ MId (m_name a) :: postB ->
  String.eqb (m_name a) (m_name b) = false ->
  (forall j m', j <> ia -> nth_error defs j = Some m' -> String.eqb (m_name a) (m_name m') = false) ->
  (forall j m', j < ib -> nth_error defs j = Some m' -> String.eqb (m_name b) (m_name m') = false) ->
  plain pre -> plain post -> plain preA -> plain postA -> plain preB -> plain postB ->
  apply_macros paste defs (pre ++ MId (m_name a) :: post) =
  XOk (pre ++ (preA ++ (preB ++ MId (m_name a) :: postB) ++ postA) ++ post).
Proof.
  intros Ha Hfa Hb Hfb Hba Hbb Hab Huniq Hfirstb Hpre Hpost HpreA HpostA HpreB HpostB.
  assert (Hfirsta : forall j m', j < ia -> nth_error defs j = Some m' -> String.eqb (m_name a) (m_name m') = false)
    by (intros j m' Hj; apply Huniq; lia).
  assert (Hne : ia <> ib).
  { intros E. subst ib. rewrite Ha in Hb. inversion Hb; subst b. rewrite String.eqb_refl in Hab. discriminate. }
  assert (Hla : ia < List.length defs) by (apply nth_error_Some; congruence).
  assert (Hlb : ib < List.length defs) by (apply nth_error_Some; congruence).
  destruct (List.length defs) as [|[|nd]] eqn:Hnd; [lia | lia |].
  unfold apply_macros. rewrite Hnd.
  set (dis0 := map (fun _ : macro => false) defs).
  assert (HX : forall x k m', In x [m_name a] -> nth_error defs k = Some m' -> String.eqb x (m_name m') = true -> m_fn m' = false).
  { intros x k m' [<-|[]] Hk E. destruct (Nat.eq_dec k ia) as [->|Hk'].
    - rewrite Ha in Hk. inversion Hk; subst m'. exact Hfa.
    - rewrite (Huniq k m' Hk' Hk) in E. discriminate. }
  assert (HamB : among [m_name a] (m_body b)).
  { rewrite Hbb. intros t Ht. apply in_app_or in Ht as [Ht|[Ht|Ht]].
    - left. unfold MacroSubst.plain in HpreB. rewrite forallb_forall in HpreB. apply HpreB, Ht.
    - right. exists (m_name a). split; [left; reflexivity | symmetry; exact Ht].
    - left. unfold MacroSubst.plain in HpostB. rewrite forallb_forall in HpostB. apply HpostB, Ht. }
  assert (Hplain_among : forall l, plain l -> among [m_name a] l).
  { intros l Hl t Ht. left. unfold MacroSubst.plain in Hl. rewrite forallb_forall in Hl. apply Hl, Ht. }
  assert (HamA : among [m_name a] (preA ++ m_body b ++ postA)).
  { intros t Ht. apply in_app_or in Ht as [Ht|Ht]; [apply (Hplain_among _ HpreA t Ht)|].
    apply in_app_or in Ht as [Ht|Ht]; [apply (HamB t Ht) | apply (Hplain_among _ HpostA t Ht)]. }
  assert (HnoA : noarg (m_body a)).
  { rewrite Hba. intros i Hi. apply in_app_or in Hi as [Hi|[Hi|Hi]].
    - apply (plain_noarg defs _ HpreA i Hi).
    - discriminate Hi.
    - apply (plain_noarg defs _ HpostA i Hi). }
  destruct (List.length (pre ++ MId (m_name a) :: post)) as [|nt] eqn:Hnt.
  { rewrite app_length in Hnt. cbn in Hnt. lia. }
  rewrite <- Hbb.
  apply (expand_object_among (S nd) dis0 nt ia a pre post (preA ++ m_body b ++ postA) [m_name a] Ha Hfa).
  - apply nth_all_false.
  - exact Hfirsta.
  - exact Hpre.
  - exact Hpost.
  - exact HnoA.
  - (* the rescan of A's list, A disabled: B is replaced *)
    rewrite Hba.
    destruct (List.length (preA ++ MId (m_name b) :: postA)) as [|nb] eqn:Hnb.
    { rewrite app_length in Hnb. cbn in Hnb. lia. }
    apply (expand_object_among nd (set_nth dis0 ia true) nb ib b preA postA (m_body b) [m_name a] Hb Hfb).
    + rewrite nth_set_other by exact Hne. apply nth_all_false.
    + exact Hfirstb.
    + exact HpreA.
    + exact HpostA.
    + apply (among_noarg _ _ HamB).
    + (* the rescan of B's list, A and B disabled: nothing to expand *)
      rewrite expand_eq. unfold loop_step.
      destruct (Nat.leb _ _); [reflexivity|].
      unfold find. cbn [firstn skipn rev].
      rewrite <- (app_nil_r (m_body b)) at 1.
      rewrite (find_from_among (set_nth (set_nth dis0 ia true) ib true) [m_name a] 0 None [] eq_refl (m_body b) [] 0 HamB);
        [reflexivity|].
      intros x after j [<-|[]] _. apply pick_blocked. intros k m' Hk. cbn [Nat.add].
      destruct (Nat.eq_dec k ia) as [->|Hk'].
      * right; left. rewrite nth_set_other by (intros E; apply Hne; symmetry; exact E).
        apply nth_set_same. unfold dis0. rewrite map_length. lia.
      * left. apply (Huniq k m' Hk' Hk).
    + exact HamB.
    + exact HX.
    + rewrite Hnb. lia.
  - exact HamA.
  - exact HX.
  - rewrite Hnt. lia.
Qed.

End Mutual.
