(* MacroSelf.v — a self-referential object-like macro: `#define a pre a post` / `a` gives `pre a post`; the inner name is
   neither expanded during the rescan (the macro is disabled there) nor afterwards (it lies left of the resume point). *)
From Coq Require Import List NArith Bool String Arith Lia.
From RV Require Import Macro MacroProofs MacroSubst.
From RV Require Import MacroChain.
Import ListNotations.
Local Open Scope list_scope.

Section Self.
Variable paste : mtok -> mtok -> option mtok.
Variable defs : list macro.
Notation plain := (plain defs).

Lemma nth_set_same : forall (l : list bool) i, i < List.length l -> nth i (set_nth l i true) false = true.
Proof. induction l as [|b r IH]; intros [|i] H; cbn in *; try lia; try reflexivity. apply IH. lia. Qed.

(* no macro is picked for x at position i when every macro of that name is disabled, or object-like and left of `next` *)
Lemma pick_blocked dis x after i next lastfn : forall ds mi0,
  (forall k m', nth_error ds k = Some m' ->
     String.eqb x (m_name m') = false \/ nth (mi0 + k) dis false = true \/ (m_fn m' = false /\ i < next)) ->
  pick_macro ds dis mi0 x after i next lastfn = None.
Proof.
  induction ds as [|m0 r IH]; intros mi0 H; cbn [pick_macro]; [reflexivity|].
  assert (Hr : pick_macro r dis (S mi0) x after i next lastfn = None).
  { apply IH. intros k m' Hk. replace (S mi0 + k) with (mi0 + S k) by lia. apply (H (S k) m'). exact Hk. }
  rewrite Hr.
  destruct (H 0 m0 eq_refl) as [Hx|[Hd|[Hf Hlt]]].
  - rewrite Hx. destruct (nth mi0 dis false); [reflexivity|]. destruct (_ && _); reflexivity.
  - rewrite Nat.add_0_r in Hd. rewrite Hd. reflexivity.
  - destruct (nth mi0 dis false); [reflexivity|]. destruct (_ && _); [reflexivity|].
    destruct (String.eqb x (m_name m0)); [|reflexivity]. rewrite Hf.
    apply Nat.ltb_lt in Hlt. rewrite Hlt. reflexivity.
Qed.

(* a segment whose tokens are plain or the blocked name, then plain text *)
Lemma find_from_blocked dis x next lastfn post : plain post ->
  forall seg before i,
  (forall t, In t seg -> plainb defs t = true \/ t = MId x) ->
  (forall after j, i <= j < i + List.length seg -> pick_macro defs dis 0 x after j next lastfn = None) ->
  find_from defs dis before (seg ++ post) i next lastfn = FNone.
Proof.
  intros Hpost. induction seg as [|t r IH]; intros before i Hseg Hpick; cbn [app].
  - apply find_from_plain. exact Hpost.
  - assert (Hr : forall bef, find_from defs dis bef (r ++ post) (S i) next lastfn = FNone).
    { intros bef. apply IH.
      - intros t' Ht'. apply Hseg. right; exact Ht'.
      - intros after j Hj. apply Hpick. cbn [List.length]. lia. }
    destruct (Hseg t (or_introl eq_refl)) as [Hp|Heq]; [|subst t].
    + destruct t; try discriminate Hp; cbn [find_from]; try apply Hr.
      cbn [plainb] in Hp. rewrite (pick_none dis s (r ++ post) i next lastfn defs 0); [apply Hr|].
      unfold is_name in Hp. destruct (existsb _ defs); [discriminate | reflexivity].
    + cbn [find_from]. rewrite Hpick by (cbn [List.length]; lia). apply Hr.
Qed.

Theorem self_reference_stays mi m pre post preA postA :
  nth_error defs mi = Some m -> m_fn m = false ->
  (forall j m', j <> mi -> nth_error defs j = Some m' -> String.eqb (m_name m) (m_name m') = false) ->
  m_body m = preA ++ MId (m_name m) :: postA ->
  plain pre -> plain post -> plain preA -> plain postA ->
  apply_macros paste defs (pre ++ MId (m_name m) :: post) = XOk (pre ++ m_body m ++ post).
Proof.
  intros Hn Hf Huniq Hbody Hpre Hpost HpreA HpostA.
  assert (Hfirst : forall j m', j < mi -> nth_error defs j = Some m' -> String.eqb (m_name m) (m_name m') = false)
    by (intros j m' Hj; apply Huniq; lia).
  assert (Hnoarg : noarg (m_body m)).
  { rewrite Hbody. intros i Hi. apply in_app_or in Hi as [Hi|[Hi|Hi]].
    - apply (plain_noarg defs _ HpreA i Hi).
    - discriminate Hi.
    - apply (plain_noarg defs _ HpostA i Hi). }
  assert (Hsegb : forall t, In t (m_body m) -> plainb defs t = true \/ t = MId (m_name m)).
  { rewrite Hbody. intros t Ht. apply in_app_or in Ht as [Ht|[Ht|Ht]].
    - left. unfold MacroSubst.plain in HpreA. rewrite forallb_forall in HpreA. apply HpreA, Ht.
    - right. symmetry. exact Ht.
    - left. unfold MacroSubst.plain in HpostA. rewrite forallb_forall in HpostA. apply HpostA, Ht. }
  unfold apply_macros.
  set (dis0 := map (fun _ : macro => false) defs).
  set (toks := pre ++ MId (m_name m) :: post).
  assert (Hl : List.length toks = List.length pre + S (List.length post))
    by (unfold toks; rewrite app_length; reflexivity).
  destruct (List.length defs) as [|nd] eqn:Hnd.
  { destruct defs; [destruct mi; discriminate | discriminate]. }
  rewrite expand_eq. unfold loop_step.
  destruct (Nat.leb_spec (List.length toks) 0) as [Hz|_]; [lia|].
  unfold find. change (firstn 0 toks) with (@nil mtok). change (skipn 0 toks) with toks. cbn [rev]. unfold toks at 1.
  rewrite find_from_skip by exact Hpre. cbn [find_from Nat.add].
  rewrite (pick_first_dis dis0 (m_name m) post (List.length pre) defs 0 mi m Hn eq_refl Hf (nth_all_false defs mi) Hfirst).
  cbn [Nat.add]. rewrite Hn, Hf. cbn [map all_ok rev].
  rewrite (subst_noarg _ [] Hnoarg).
  (* the rescan, with the macro disabled *)
  assert (Hinner : expand paste defs (S nd) (set_nth dis0 mi true) (S (List.length (m_body m))) (m_body m) 0 0 None = XOk (m_body m)).
  { rewrite expand_eq. unfold loop_step.
    destruct (Nat.leb (List.length (m_body m)) 0); [reflexivity|].
    unfold find. cbn [firstn skipn rev].
    rewrite <- (app_nil_r (m_body m)) at 1.
    rewrite (find_from_blocked (set_nth dis0 mi true) (m_name m) 0 None [] eq_refl (m_body m) [] 0 Hsegb). 2: {
    intros after j _. apply pick_blocked. intros k m' Hk. cbn [Nat.add].
    destruct (Nat.eq_dec k mi) as [->|Hne].
    - right; left. apply nth_set_same. unfold dis0. rewrite map_length. apply nth_error_Some. congruence.
    - left. apply (Huniq k m' Hne Hk). }
    reflexivity. }
  rewrite Hinner.
  assert (Hfn : firstn (List.length pre) toks = pre) by (unfold toks; apply firstn_app_length_eq).
  assert (Hsk : skipn (S (List.length pre)) toks = post).
  { unfold toks. replace (S (List.length pre)) with (List.length (pre ++ [MId (m_name m)])) by (rewrite app_length; cbn; lia).
    replace (pre ++ MId (m_name m) :: post) with ((pre ++ [MId (m_name m)]) ++ post) by (rewrite <- app_assoc; reflexivity).
    apply skipn_app_length_eq. }
  rewrite Hfn, Hsk.
  (* the scan resumes behind the replacement list *)
  destruct (List.length toks) as [|nt] eqn:Hnt; [lia|].
  rewrite expand_eq. unfold loop_step.
  destruct (Nat.leb _ _); [reflexivity|].
  unfold find.
  rewrite firstn_app_length_eq, skipn_app_length_eq.
  rewrite (find_from_blocked dis0 (m_name m) (List.length pre + List.length (m_body m)) None post Hpost (m_body m) (rev pre) (List.length pre) Hsegb);
    [reflexivity|].
  intros after j Hj. apply pick_blocked. intros k m' Hk. cbn [Nat.add].
  destruct (Nat.eq_dec k mi) as [->|Hne].
  - right; right. rewrite Hn in Hk. inversion Hk; subst m'. split; [exact Hf | lia].
  - left. apply (Huniq k m' Hne Hk).
Qed.

End Self.
