(* LayoutProofs.v — soundness of the layout-consistency check (model of
   ir/src/layout_checker.rs) against the reference rules, for any scalar table. *)
From Coq Require Import List NArith Bool Lia.
From RV Require Import Layout.
Import ListNotations.
Local Open Scope N_scope.

Local Arguments N.mul : simpl never.
Local Arguments N.add : simpl never.
Local Arguments N.max : simpl never.
Local Arguments N.ltb : simpl never.
Local Arguments N.eqb : simpl never.
Local Arguments N.to_nat : simpl never.
Local Arguments round_up : simpl never.
Local Arguments pow2ceil : simpl never.

Scheme ty_mind := Induction for ty Sort Prop
  with tys_mind := Induction for tys Sort Prop.
Combined Scheme ty_tys_ind from ty_mind, tys_mind.

Section Proofs.
Variable scalar : Type.
Variable ssize : scalar -> option N.
Variable sbool : scalar -> bool.
Variable amin : N.
Hypothesis amin_one : amin = 1.

Notation ty := (ty scalar).
Notation tys := (tys scalar).
Notation layout := (layout scalar ssize sbool).
Notation layout_members := (layout_members scalar ssize sbool).
Notation offsets := (offsets scalar ssize sbool amin).
Notation offsets_members := (offsets_members scalar ssize sbool amin).
Notation spec_sa := (spec_sa scalar ssize sbool).
Notation spec_members_sa := (spec_members_sa scalar ssize sbool).
Notation spec_fields := (spec_fields scalar ssize sbool).
Notation spec_member_fields := (spec_member_fields scalar ssize sbool).
Notation spec_total := (spec_total scalar ssize sbool).
Notation check := (check scalar ssize sbool amin).
Notation stride := (stride scalar ssize sbool).
Notation scalar_layout := (scalar_layout scalar ssize sbool).


(* unfolding equations (the mutual fixpoints are never unfolded by simpl/cbn in the proofs below) *)
Lemma layout_vec m s n : layout m (TVec s n) =
  match scalar_layout s with
  | None => None
  | Some (z, a) => match m with Hlsl => Some (z * n, a) | Metal => let x := pow2ceil n in Some (z * x, z * x) end
  end.
Proof. reflexivity. Qed.
Lemma layout_struct m ms : layout m (TStruct ms) =
  match layout_members m ms 0 1 with None => None | Some (z, a) => Some (round_up z a, a) end.
Proof. reflexivity. Qed.
Lemma layout_arr m t n : layout m (TArr t n) =
  match layout m t with None => None | Some (z, a) => Some (z * n, a) end.
Proof. reflexivity. Qed.
Lemma layout_members_cons m t r c a : layout_members m (TCons t r) c a =
  match layout m t with None => None | Some (z, a') => layout_members m r (round_up c a' + z) (N.max a a') end.
Proof. reflexivity. Qed.
Lemma spec_vec m s n : spec_sa m (TVec s n) =
  match scalar_layout s with
  | None => None
  | Some (z, a) => match m with Hlsl => Some (n * z, a) | Metal => Some (pow2ceil n * z, pow2ceil n * z) end
  end.
Proof. reflexivity. Qed.
Lemma spec_struct m ms : spec_sa m (TStruct ms) =
  match spec_members_sa m ms 0 1 with None => None | Some (z, a) => Some (round_up z a, a) end.
Proof. reflexivity. Qed.
Lemma spec_arr m t n : spec_sa m (TArr t n) =
  match spec_sa m t with None => None | Some (z, a) => Some (n * z, a) end.
Proof. reflexivity. Qed.
Lemma spec_members_cons m t r c a : spec_members_sa m (TCons t r) c a =
  match spec_sa m t with None => None | Some (z, a') => spec_members_sa m r (round_up c a' + z) (N.max a a') end.
Proof. reflexivity. Qed.
Lemma offsets_struct m ms b : offsets m (TStruct ms) b = offsets_members m ms b 0.
Proof. reflexivity. Qed.
Lemma offsets_arr m t n b : offsets m (TArr t n) b =
  match layout m t with
  | None => []
  | Some (z, _) => offsets m t b ++ (if amin <? n then [b + z] else [])
  end.
Proof. reflexivity. Qed.
Lemma offsets_members_cons m t r b c : offsets_members m (TCons t r) b c =
  match layout m t with
  | None => []
  | Some (z, a) => (b + round_up c a) :: offsets m t (b + round_up c a) ++ offsets_members m r b (round_up c a + z)
  end.
Proof. reflexivity. Qed.
Lemma fields_struct m ms b : spec_fields m (TStruct ms) b = spec_member_fields m ms b 0.
Proof. reflexivity. Qed.
Lemma fields_arr m t n b : spec_fields m (TArr t n) b =
  flat_map (fun i => spec_fields m t (b + N.of_nat i * stride m t)) (seq 0 (N.to_nat n)).
Proof. reflexivity. Qed.
Lemma member_fields_cons m t r b c : spec_member_fields m (TCons t r) b c =
  match spec_sa m t with
  | None => []
  | Some (z, a) => spec_fields m t (b + round_up c a) ++ spec_member_fields m r b (round_up c a + z)
  end.
Proof. reflexivity. Qed.

Ltac unf := rewrite ?layout_vec, ?layout_struct, ?layout_arr, ?layout_members_cons, ?spec_vec, ?spec_struct,
  ?spec_arr, ?spec_members_cons, ?offsets_struct, ?offsets_arr, ?offsets_members_cons, ?fields_struct,
  ?fields_arr, ?member_fields_cons in *.

(* ---- 1. the implementation computes the reference size and alignment ---- *)
Lemma layout_is_spec m :
  (forall t : ty, layout m t = spec_sa m t) /\
  (forall ms : tys, forall c a, layout_members m ms c a = spec_members_sa m ms c a).
Proof.
  apply ty_tys_ind; intros; unf; try reflexivity.
  - destruct (scalar_layout s) as [[z a]|]; [|reflexivity]. destruct m; cbv zeta; rewrite (N.mul_comm z); reflexivity.
  - rewrite H. reflexivity.
  - rewrite H. destruct (spec_sa m t) as [[z a]|]; [|reflexivity]. rewrite N.mul_comm. reflexivity.
  - rewrite H. destruct (spec_sa m t) as [[z a']|]; [|reflexivity]. apply H0.
Qed.

(* ---- 2. whether a layout exists does not depend on the mode ---- *)
Definition some {A} (o : option A) : bool := match o with Some _ => true | None => false end.

Lemma defined_mode_indep :
  (forall t : ty, some (layout Hlsl t) = some (layout Metal t)) /\
  (forall ms : tys, forall c a c' a', some (layout_members Hlsl ms c a) = some (layout_members Metal ms c' a')).
Proof.
  apply ty_tys_ind; intros; unf; try reflexivity.
  - destruct (scalar_layout s) as [[z a]|]; reflexivity.
  - specialize (H 0 1 0 1). destruct (layout_members Hlsl ms 0 1) as [[? ?]|], (layout_members Metal ms 0 1) as [[? ?]|]; cbn in *; congruence.
  - destruct (layout Hlsl t) as [[? ?]|], (layout Metal t) as [[? ?]|]; cbn in *; congruence.
  - destruct (layout Hlsl t) as [[? ?]|], (layout Metal t) as [[? ?]|]; cbn in *; try congruence. apply H0.
Qed.

(* ---- 3. the recorded offset lists have a mode- and base-independent length ---- *)
Lemma offsets_length :
  (forall t : ty, forall b b', length (offsets Hlsl t b) = length (offsets Metal t b')) /\
  (forall ms : tys, forall b c b' c', length (offsets_members Hlsl ms b c) = length (offsets_members Metal ms b' c')).
Proof.
  apply ty_tys_ind; intros; unf; try reflexivity.
  - apply H.
  - assert (D := proj1 defined_mode_indep t).
    destruct (layout Hlsl t) as [[? ?]|], (layout Metal t) as [[? ?]|]; cbn in D; try congruence.
    rewrite !app_length, (H b b'). destruct (amin <? n); reflexivity.
  - assert (D := proj1 defined_mode_indep t).
    destruct (layout Hlsl t) as [[? ?]|], (layout Metal t) as [[? ?]|]; cbn in D; try congruence.
    cbn [length]. rewrite !app_length. f_equal. f_equal; [apply H | apply H0].
Qed.

(* ---- 4. everything is placed relative to the base ---- *)
Lemma offsets_shift m :
  (forall t : ty, forall b d, offsets m t (b + d) = map (fun x => x + d) (offsets m t b)) /\
  (forall ms : tys, forall b c d, offsets_members m ms (b + d) c = map (fun x => x + d) (offsets_members m ms b c)).
Proof.
  apply ty_tys_ind; intros; unf; try reflexivity.
  - apply H.
  - destruct (layout m t) as [[z a]|]; [|reflexivity].
    rewrite map_app, H. f_equal. destruct (amin <? n); cbn [map]; [f_equal; lia | reflexivity].
  - destruct (layout m t) as [[z a]|]; [|reflexivity].
    cbn [map]. rewrite map_app. f_equal; [lia|]. f_equal.
    + replace (b + d + round_up c a) with (b + round_up c a + d) by lia. apply H.
    + apply H0.
Qed.

(* ---- 5. equal recorded offsets imply equal field offsets under the reference rules ---- *)
Lemma app_eq_len {A} (a b c d : list A) : length a = length c -> a ++ b = c ++ d -> a = c /\ b = d.
Proof.
  revert c; induction a as [|x a IH]; intros [|y c] L E; cbn in *; try discriminate; [auto|].
  inversion E; subst. destruct (IH c) as [-> ->]; auto.
Qed.

Lemma fields_from_offsets :
  (forall t : ty, forall b, layout Hlsl t <> None -> offsets Hlsl t b = offsets Metal t b ->
      spec_fields Hlsl t b = spec_fields Metal t b) /\
  (forall ms : tys, forall b cH cM aH, layout_members Hlsl ms cH aH <> None ->
      offsets_members Hlsl ms b cH = offsets_members Metal ms b cM ->
      spec_member_fields Hlsl ms b cH = spec_member_fields Metal ms b cM).
Proof.
  apply ty_tys_ind; intros; unf; try reflexivity.
  - (* struct *)
    unf.
    apply (H b 0 0 1); [|assumption].
    destruct (layout_members Hlsl ms 0 1); congruence.
  - (* array *)
    unf.
    assert (D := proj1 defined_mode_indep t).
    unfold Layout.stride. rewrite <- !(proj1 (layout_is_spec _)).
    destruct (layout Hlsl t) as [[zH aH]|] eqn:LH; [|congruence].
    destruct (layout Metal t) as [[zM aM]|] eqn:LM; [|cbn in D; congruence].
    assert (LH' : layout Hlsl t <> None) by congruence.
    destruct (N.ltb_spec amin n) as [Hn|Hn]; rewrite amin_one in Hn.
    + apply app_eq_len in H1 as [E1 E2]; [|apply (proj1 offsets_length)].
      inversion E2 as [E3]. assert (zH = zM) by lia. subst zM.
      apply flat_map_ext. intros i. apply H; [congruence|].
      rewrite !(proj1 (offsets_shift _)), E1. reflexivity.
    + rewrite !app_nil_r in H1.
      assert (n = 0 \/ n = 1) as [->| ->] by lia; [reflexivity|].
      change (N.to_nat 1) with 1%nat. cbn [seq flat_map N.of_nat]. rewrite !app_nil_r, !N.mul_0_l, !N.add_0_r.
      apply H; [congruence | assumption].
  - (* member list *)
    unf.
    assert (D := proj1 defined_mode_indep t).
    rewrite <- !(proj1 (layout_is_spec _)).
    destruct (layout Hlsl t) as [[zH aH']|] eqn:LH; [|congruence].
    destruct (layout Metal t) as [[zM aM']|] eqn:LM; [|cbn in D; congruence].
    inversion H2 as [[E0 E1]].
    assert (EO : round_up cH aH' = round_up cM aM') by lia. rewrite EO in *.
    apply app_eq_len in E1 as [E2 E3]; [|apply (proj1 offsets_length)].
    f_equal.
    + apply H; [congruence | exact E2].
    + eapply H0; [exact H1 | exact E3].
Qed.

Lemma first_diff_none (a b : list N) : length a = length b -> first_diff a b = None -> a = b.
Proof.
  revert b; induction a as [|x a IH]; intros [|y b] L E; cbn in *; try discriminate; [reflexivity|].
  destruct (N.eqb_spec x y); [|discriminate]. subst. f_equal. apply IH; [lia | exact E].
Qed.

(* ---- the check is sound ---- *)
Theorem check_sound (t : ty) :
  check t = Accept ->
  exists z, spec_total Hlsl t = Some z /\ spec_total Metal t = Some z /\
            spec_fields Hlsl t 0 = spec_fields Metal t 0.
Proof.
  unfold Layout.check, Layout.spec_total. rewrite <- !(proj1 (layout_is_spec _)).
  destruct (layout Hlsl t) as [[hz ha]|] eqn:LH; [|discriminate].
  destruct (layout Metal t) as [[mz ma]|] eqn:LM; [|discriminate].
  destruct (N.eqb_spec (round_up hz ha) (round_up mz ma)) as [E|]; cbn [negb]; [|discriminate].
  destruct (first_diff (offsets Hlsl t 0) (offsets Metal t 0)) as [[x y]|] eqn:FD; [discriminate|].
  intros _. exists (round_up hz ha). rewrite E. repeat split.
  apply (proj1 fields_from_offsets); [congruence|].
  apply first_diff_none; [apply (proj1 offsets_length) | exact FD].
Qed.

(* ---- a rejection reports the true sizes and alignments ---- *)
Theorem check_reports_truth (t : ty) hs ha ms ma :
  check t = Mismatch hs ha ms ma ->
  spec_total Hlsl t = Some hs /\ spec_total Metal t = Some ms /\ hs <> ms /\
  option_map snd (spec_sa Hlsl t) = Some ha /\ option_map snd (spec_sa Metal t) = Some ma.
Proof.
  unfold Layout.check, Layout.spec_total. rewrite <- !(proj1 (layout_is_spec _)).
  destruct (layout Hlsl t) as [[hz ha']|] eqn:LH; [|discriminate].
  destruct (layout Metal t) as [[mz ma']|] eqn:LM; [|discriminate].
  destruct (N.eqb_spec (round_up hz ha') (round_up mz ma')) as [E|NE]; cbn [negb].
  - destruct (first_diff _ _) as [[? ?]|]; discriminate.
  - intros H; inversion H; subst. cbn. auto.
Qed.

(* an offset rejection names two offsets the implementation really computed and that differ *)
Lemma first_diff_some (a b : list N) x y : first_diff a b = Some (x, y) -> x <> y /\ In x a /\ In y b.
Proof.
  revert b; induction a as [|u a IH]; intros [|v b] E; cbn in *; try discriminate.
  destruct (N.eqb_spec u v).
  - destruct (IH _ E) as (? & ? & ?). auto.
  - inversion E; subst. auto.
Qed.

(* ---- with the 32-bit guard the checker accepts less and reports the same ---- *)
Notation check32 := (check32 scalar ssize sbool amin).
Notation fits := (fits scalar ssize sbool).
Lemma check32_cases (t : ty) v : check32 t = v -> v = Unknown \/ check t = v.
Proof. unfold Layout.check32. destruct (fits Hlsl t && fits Metal t); intros <-; [right|left]; reflexivity. Qed.

Theorem check32_sound (t : ty) :
  check32 t = Accept ->
  exists z, spec_total Hlsl t = Some z /\ spec_total Metal t = Some z /\
            spec_fields Hlsl t 0 = spec_fields Metal t 0.
Proof. intros H. destruct (check32_cases t _ H) as [E|E]; [discriminate|]. apply check_sound. exact E. Qed.

Theorem check32_reports_truth (t : ty) hs ha ms ma :
  check32 t = Mismatch hs ha ms ma ->
  spec_total Hlsl t = Some hs /\ spec_total Metal t = Some ms /\ hs <> ms /\
  option_map snd (spec_sa Hlsl t) = Some ha /\ option_map snd (spec_sa Metal t) = Some ma.
Proof. intros H. destruct (check32_cases t _ H) as [E|E]; [discriminate|]. apply check_reports_truth. exact E. Qed.

End Proofs.
