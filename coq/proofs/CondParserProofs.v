(* CondParserProofs.v — the #if condition parser (model of condition_parser.rs) computes the
   reference value of every condition tree printed with minimal parentheses. *)
From Coq Require Import List NArith Bool String Lia Arith.
From RV Require Import Cond.
Import ListNotations.

(* the parser for contexts of rank j: Y f 0 = unary/leaf level, Y f 4 = the whole grammar *)
Definition opd (j : nat) : list ctok -> option (binop * list ctok) :=
  match j with
  | 1 => op6 | 2 => op7 | 3 => op11 | 4 => op12
  | _ => fun _ => None
  end.

Fixpoint Y (f j : nat) : list ctok -> presult :=
  match j with
  | O => p2 (p12 f)
  | S j' => level (opd (S j')) (Y f j')
  end.

Lemma p12_Y f : p12 (S f) = Y f 4.
Proof. reflexivity. Qed.

Definition trank (t : ctok) : nat :=
  match t with
  | KOr => 4 | KAnd => 3 | KEq | KNe => 2 | KLt | KGt | KLe | KGe => 1
  | _ => 0
  end.
Definition hrank (k : list ctok) : nat := match k with t :: _ => trank t | [] => 0 end.

Lemma opd_some op r : opd (rank op) (optok op :: r) = Some (op, r).
Proof. destruct op; reflexivity. Qed.

Lemma trank_optok op : trank (optok op) = rank op.
Proof. destruct op; reflexivity. Qed.

Lemma opd_none j k : hrank k <> j -> opd j k = None.
Proof.
  intros H. destruct j as [|[|[|[|[|j]]]]]; try reflexivity;
    destruct k as [|t r]; try reflexivity; destruct t; cbn in *; try reflexivity; congruence.
Qed.

(* the continuation does not start with an operator that binds tighter than rank j *)
Definition ok (j : nat) (k : list ctok) : Prop := hrank k = 0 \/ j <= hrank k.

(* what happens after an operand of value v has been read in a rank-j context *)
Definition cont (j f : nat) (v : N) (k : list ctok) (res : presult) : Prop :=
  match j with
  | O => res = POk v k
  | S j' => forall n, List.length k < n -> rights (opd j) (Y f j') n v k = res
  end.

Lemma rights_stop op_fn expr_fn n v k : op_fn k = None -> 0 < n -> rights op_fn expr_fn n v k = POk v k.
Proof. intros H Hn. destruct n; [lia|]. cbn [rights]. rewrite H. reflexivity. Qed.

Lemma cont_stop j f v k : hrank k = 0 \/ j < hrank k -> cont j f v k (POk v k).
Proof.
  intros H. destruct j as [|j']; cbn [cont]; [reflexivity|].
  intros n Hn. apply rights_stop; [|lia]. apply opd_none. lia.
Qed.

Lemma ok_weaken j j' k : ok j k -> j' <= j -> ok j' k.
Proof. unfold ok. intros [H|H] L; [left; exact H | right; lia]. Qed.

Lemma level_atom op_fn expr_fn ts v k :
  expr_fn ts = POk v k -> level op_fn expr_fn ts = rights op_fn expr_fn (S (List.length k)) v k.
Proof. intros H. unfold level. rewrite H. reflexivity. Qed.

(* an operand fully read by a tighter level is handed upwards unchanged until rank j *)
Lemma lift f i ts v k : Y f i ts = POk v k ->
  forall j res, i < j -> ok j k -> cont j f v k res -> Y f j ts = res.
Proof.
  intros Hi j. induction j as [|j' IH]; intros res Hlt Hok Hc; [lia|].
  cbn [Y]. cbn [cont] in Hc.
  destruct (Nat.eq_dec i j') as [->|Hne].
  - rewrite (level_atom _ _ _ _ _ Hi). apply Hc. lia.
  - assert (Hj' : Y f j' ts = POk v k).
    { apply IH; [lia | eapply ok_weaken; [exact Hok | lia] |].
      apply cont_stop. destruct Hok as [H|H]; [left; exact H | right; lia]. }
    rewrite (level_atom _ _ _ _ _ Hj'). apply Hc. lia.
Qed.

Lemma from_atom f s v :
  (forall k, Y f 0 (s ++ k) = POk v k) ->
  forall j k res, ok j k -> cont j f v k res -> Y f j (s ++ k) = res.
Proof.
  intros H j k res Hok Hc. destruct j as [|j'].
  - cbn [cont] in Hc. subst res. apply H.
  - eapply lift; [apply H | lia | exact Hok | exact Hc].
Qed.

(* parenthesis nesting depth of the printed text = fuel needed *)
Fixpoint pd (e : cexpr) : nat :=
  let pdp := fun (j : nat) (x : cexpr) => if Nat.leb (erank x) j then pd x else S (pd x) in
  match e with
  | ENot x => pdp 0 x
  | EBin op l r => Nat.max (pdp (rank op) l) (pdp (Nat.pred (rank op)) r)
  | _ => 0
  end.
Definition pdp (j : nat) (x : cexpr) : nat := if Nat.leb (erank x) j then pd x else S (pd x).

Lemma raw_not x : raw (ENot x) = KNot :: pr 0 x.
Proof. reflexivity. Qed.
Lemma raw_bin op l r : raw (EBin op l r) = pr (rank op) l ++ optok op :: pr (Nat.pred (rank op)) r.
Proof. reflexivity. Qed.
Lemma pd_not x : pd (ENot x) = pdp 0 x.
Proof. reflexivity. Qed.
Lemma pd_bin op l r : pd (EBin op l r) = Nat.max (pdp (rank op) l) (pdp (Nat.pred (rank op)) r).
Proof. reflexivity. Qed.

Lemma rank_bounds op : 1 <= rank op <= 4.
Proof. destruct op; cbn; lia. Qed.
Lemma erank_le4 e : erank e <= 4.
Proof. destruct e; cbn; try lia. apply rank_bounds. Qed.

Definition claim (e : cexpr) : Prop :=
  forall f j k res, pdp j e <= f -> ok j k -> cont j f (ceval e) k res -> Y f j (pr j e ++ k) = res.

(* the unparenthesised case implies the parenthesised one *)
Lemma paren_case e :
  (forall f j k res, erank e <= j -> pd e <= f -> ok j k -> cont j f (ceval e) k res -> Y f j (raw e ++ k) = res) ->
  claim e.
Proof.
  intros Hraw f j k res Hf Hok Hc. unfold pr, pdp in *.
  destruct (Nat.leb_spec (erank e) j) as [Hle|Hgt]; [apply Hraw; assumption|].
  destruct f as [|g]; [lia|].
  apply (from_atom (S g) (KLP :: raw e ++ [KRP]) (ceval e)); [|exact Hok | exact Hc].
  intros k'. cbn [app Y p2 leaf]. rewrite <- app_assoc. cbn [app]. rewrite p12_Y.
  rewrite (Hraw g 4 (KRP :: k') (POk (ceval e) (KRP :: k'))); [reflexivity | apply erank_le4 | lia | left; reflexivity |].
  apply cont_stop. left. reflexivity.
Qed.

Theorem parser_inverts_printer : forall e, claim e.
Proof.
  induction e as [n| | |s|x IHx|op l IHl r IHr]; apply paren_case; intros f j k res Hj Hf Hok Hc.
  - apply (from_atom f [KNum n] n); [reflexivity | exact Hok | exact Hc].
  - apply (from_atom f [KTrue] 1%N); [reflexivity | exact Hok | exact Hc].
  - apply (from_atom f [KFalse] 0%N); [reflexivity | exact Hok | exact Hc].
  - apply (from_atom f [KId s] 0%N); [reflexivity | exact Hok | exact Hc].
  - (* ENot *)
    rewrite raw_not. rewrite pd_not in Hf.
    apply (from_atom f (KNot :: pr 0 x) (ceval (ENot x))); [|exact Hok | exact Hc].
    intros k'. cbn [app Y p2].
    assert (H : Y f 0 (pr 0 x ++ k') = POk (ceval x) k').
    { apply IHx; [exact Hf | right; lia | reflexivity]. }
    cbn [Y] in H. rewrite H. reflexivity.
  - (* EBin *)
    rewrite raw_bin. rewrite pd_bin in Hf. cbn [erank] in Hj.
    set (p := rank op) in *. assert (Hp := rank_bounds op). fold p in Hp.
    destruct p as [|p'] eqn:Ep; [lia|]. cbn [Nat.pred] in *.
    (* at rank p itself *)
    assert (At : forall k0 res0, ok (S p') k0 -> cont (S p') f (ceval (EBin op l r)) k0 res0 ->
                 Y f (S p') ((pr (S p') l ++ optok op :: pr p' r) ++ k0) = res0).
    { intros k0 res0 Hok0 Hc0. rewrite <- app_assoc. cbn [app].
      apply IHl; [lia | right; cbn [hrank]; rewrite trank_optok; fold p; rewrite Ep; lia |].
      cbn [cont]. intros n Hn. destruct n as [|n']; [lia|]. cbn [rights].
      replace (opd (S p') (optok op :: pr p' r ++ k0)) with (Some (op, pr p' r ++ k0))
        by (rewrite <- Ep; unfold p; symmetry; apply opd_some).
      assert (Hr : Y f p' (pr p' r ++ k0) = POk (ceval r) k0).
      { apply IHr; [lia | eapply ok_weaken; [exact Hok0 | lia] |].
        apply cont_stop. destruct Hok0 as [H|H]; [left; exact H | right; lia]. }
      rewrite Hr. cbn [cont] in Hc0. apply Hc0.
      cbn [List.length] in Hn. rewrite app_length in Hn. lia. }
    destruct (Nat.eq_dec j (S p')) as [->|Hne]; [apply At; assumption|].
    eapply lift; [|assert (S p' < j) as Hlt by lia; exact Hlt | exact Hok | exact Hc].
    apply At; [eapply ok_weaken; [exact Hok | lia]|].
    apply cont_stop. destruct Hok as [H|H]; [left; exact H | right; lia].
Qed.

Lemma pd_le_length e : pd e <= List.length (raw e).
Proof.
  induction e as [n| | |s|x IHx|op l IHl r IHr]; cbn [pd raw List.length]; try lia.
  - destruct (Nat.leb (erank x) 0); cbn [List.length]; [lia|]. rewrite app_length. cbn. lia.
  - rewrite app_length. cbn [List.length].
    destruct (Nat.leb (erank l) (rank op)), (Nat.leb (erank r) (Nat.pred (rank op)));
      cbn [List.length]; rewrite ?app_length; cbn [List.length]; lia.
Qed.

(* the statement used by the property: parsing the printed condition yields its reference truth value *)
Theorem cond_parse_correct (e : cexpr) : cond_parse (raw e) = Some (negb (ceval e =? 0)%N).
Proof.
  unfold cond_parse. rewrite p12_Y.
  assert (H : Y (List.length (raw e)) 4 (pr 4 e ++ []) = POk (ceval e) []).
  { apply parser_inverts_printer.
    - unfold pdp. assert (E := erank_le4 e). apply Nat.leb_le in E. rewrite E. apply pd_le_length.
    - left. reflexivity.
    - apply cont_stop. left. reflexivity. }
  unfold pr in H. assert (E := erank_le4 e). apply Nat.leb_le in E. rewrite E in H.
  rewrite app_nil_r in H. rewrite H. reflexivity.
Qed.
