(* LexerNumTail.v — a numeric literal does not depend on the trivia that follows it.  For a character w that no
   recogniser of numbers accepts (not a letter, digit or underscore, none of . # + -) the number recognisers give the
   same verdict on u ++ w :: r as on u alone (up to which of two rejections an unfinished `0x` gets), for every u. *)
From Coq Require Import List NArith Bool String Ascii Arith Lia.
From RV Require Import Lexer LexerProofs LexerTrivia.
From RV Require Import LexerTriviaNum LexerTriviaFloat.
Import ListNotations.
Local Open Scope string_scope.

(* a character that no recogniser of numbers accepts anywhere: no letter, digit or underscore, neither . nor # *)
Definition stopc (w : ascii) : bool :=
  negb (is_ident_char w) && negb (Ascii.eqb w ".") && negb (Ascii.eqb w "#").

(* + and - continue a number only behind the e of an exponent *)
Fixpoint ends_e (u : string) : bool :=
  match u with
  | "" => false
  | String c "" => Ascii.eqb c "e" || Ascii.eqb c "E"
  | String _ r => ends_e r
  end.
Definition pm_ok (u : string) (w : ascii) : bool :=
  negb (Ascii.eqb w "+" || Ascii.eqb w "-") || negb (ends_e u).

(* w ends the number u: *)
Definition stopb (u : string) (w : ascii) : bool := stopc w && pm_ok u w.

Lemma span_tail p u w r : p w = false -> span p (u ++ String w r) = (fst (span p u), snd (span p u) ++ String w r).
Proof.
  intros Hw. induction u as [|c u IH]; cbn [append span]; [rewrite Hw; reflexivity|].
  destruct (p c); [|reflexivity]. rewrite IH. destruct (span p u). reflexivity.
Qed.

Lemma span_len p s : slen (fst (span p s)) + slen (snd (span p s)) = slen s.
Proof.
  induction s as [|c s IH]; [reflexivity|]. cbn [span]. destruct (p c); [|reflexivity].
  destruct (span p s) as [a b]. cbn [fst snd] in *. rewrite !slen_cons. lia.
Qed.

Lemma drop_tail n u x : n <= slen u -> drop n (u ++ x) = drop n u ++ x.
Proof.
  revert u; induction n as [|n IH]; intros u H; [destruct u; reflexivity|].
  destruct u as [|c u]; [cbn in H; lia|]. cbn [append drop]. apply IH. rewrite slen_cons in H. lia.
Qed.

Lemma drop_len n u : slen (drop n u) = slen u - n.
Proof.
  revert u; induction n as [|n IH]; intros u; [destruct u; cbn; lia|].
  destruct u as [|c u]; [reflexivity|]. cbn [drop]. rewrite slen_cons. rewrite IH. lia.
Qed.

Fixpoint notin (w : ascii) (pat : string) : bool :=
  match pat with "" => true | String c p => negb (Ascii.eqb c w) && notin w p end.

Lemma starts_tail pat : forall u w r, notin w pat = true -> starts_with pat (u ++ String w r) = starts_with pat u.
Proof.
  unfold starts_with. induction pat as [|c pat IH]; intros u w r H; [destruct u; reflexivity|].
  cbn [notin] in H. apply andb_true_iff in H as [H1 H2].
  destruct u as [|d u]; cbn [append String.prefix].
  - destruct (ascii_dec c w) as [E|N]; [subst w; rewrite Ascii.eqb_refl in H1; discriminate | reflexivity].
  - destruct (ascii_dec c d); [apply IH; exact H2 | reflexivity].
Qed.

Section Tail.
Variable int_suffixes : list (list (list N) * string).
Variable float_suffixes : list (list N * string).
Variable float_is_zero : string -> bool.

(* every character of every integer suffix is a letter *)
Definition suffixes_alpha_all : bool :=
  forallb (fun '(alts, _) => forallb (forallb (fun n => is_alpha_ (ascii_of_N n))) alts) int_suffixes.

Lemma existsb_code_alpha w a : forallb (fun n => is_alpha_ (ascii_of_N n)) a = true -> is_alpha_ w = false ->
  existsb (N.eqb (code w)) a = false.
Proof.
  intros Ha Hw. destruct (existsb (N.eqb (code w)) a) eqn:X; [|reflexivity]. exfalso.
  apply existsb_exists in X as (n & Hn & En). apply N.eqb_eq in En. subst n.
  rewrite forallb_forall in Ha. specialize (Ha _ Hn). unfold code in Ha. rewrite ascii_N_embedding in Ha. congruence.
Qed.

Lemma match_tail w r : is_alpha_ w = false -> forall alts u,
  forallb (forallb (fun n => is_alpha_ (ascii_of_N n))) alts = true ->
  match_chars alts (u ++ String w r) = match_chars alts u.
Proof.
  intros Hw. induction alts as [|a alts IH]; intros u Ha; [destruct u; reflexivity|].
  cbn [forallb] in Ha. apply andb_true_iff in Ha as [Ha1 Ha2].
  destruct u as [|c u]; cbn [append match_chars].
  - rewrite (existsb_code_alpha w a Ha1 Hw). reflexivity.
  - rewrite (IH u Ha2). reflexivity.
Qed.

Lemma int_suffix_tail w r u : suffixes_alpha_all = true -> is_alpha_ w = false ->
  int_suffix int_suffixes (u ++ String w r) = int_suffix int_suffixes u.
Proof.
  intros Hs Hw. unfold int_suffix. f_equal.
  unfold suffixes_alpha_all in Hs. induction int_suffixes as [|[alts k] l IH]; [reflexivity|].
  cbn [forallb] in Hs. apply andb_true_iff in Hs as [H1 H2]. cbn [find].
  rewrite (match_tail w r Hw alts u H1). destruct (match_chars alts u); [reflexivity | apply IH; exact H2].
Qed.

Lemma float_suffix_tail w r u : fsuffixes_alpha float_suffixes = true -> is_alpha_ w = false ->
  float_suffix float_suffixes (u ++ String w r) = float_suffix float_suffixes u.
Proof.
  intros Hs Hw. destruct u as [|c u]; [|reflexivity]. cbn [append].
  rewrite (float_suffix_needs_alpha float_suffixes w r Hs Hw). reflexivity.
Qed.

Lemma stop_facts w : stopc w = true ->
  is_ident_char w = false /\ is_digit w = false /\ is_alpha_ w = false /\ Ascii.eqb w "." = false /\
  Ascii.eqb w "#" = false.
Proof.
  unfold stopc. intros H. repeat (apply andb_true_iff in H as [H ?]).
  apply negb_true_iff in H. repeat match goal with X : negb _ = true |- _ => apply negb_true_iff in X end.
  unfold is_ident_char in H. apply orb_false_iff in H as [Ha Hd].
  repeat split; try assumption. unfold is_ident_char. rewrite Ha, Hd. reflexivity.
Qed.

Lemma ends_e_drop n : forall u, ends_e u = false -> ends_e (drop n u) = false.
Proof.
  induction n as [|n IH]; intros u H; [destruct u; exact H|].
  destruct u as [|c u']; [reflexivity|]. cbn [drop]. apply IH.
  destruct u' as [|d u'']; [reflexivity|]. exact H.
Qed.

Lemma pm_ok_drop n u w : pm_ok u w = true -> pm_ok (drop n u) w = true.
Proof.
  unfold pm_ok. intros H. apply orb_true_iff in H as [H|H]; [rewrite H; reflexivity|].
  apply negb_true_iff in H. rewrite (ends_e_drop n u H). apply orb_true_r.
Qed.

Lemma exponent_tail w r u : stopc w = true -> pm_ok u w = true -> lex_exponent (u ++ String w r) = lex_exponent u.
Proof.
  intros Hs Hpm. destruct (stop_facts w Hs) as (Hi & Hd & Ha & Hdot & Hh).
  assert (He : Ascii.eqb w "e" || Ascii.eqb w "E" = false).
  { destruct (Ascii.eqb w "e") eqn:E1; [apply Ascii.eqb_eq in E1; subst w; discriminate Ha|].
    destruct (Ascii.eqb w "E") eqn:E2; [apply Ascii.eqb_eq in E2; subst w; discriminate Ha|]. reflexivity. }
  unfold lex_exponent. destruct u as [|c u]; cbn [append]; [rewrite He; reflexivity|].
  destruct (Ascii.eqb c "e" || Ascii.eqb c "E") eqn:Ce; [|reflexivity].
  destruct u as [|d u']; cbn [append].
  - assert (Hpmw : Ascii.eqb w "+" || Ascii.eqb w "-" = false).
    { unfold pm_ok in Hpm. cbn [ends_e] in Hpm. rewrite Ce in Hpm. cbn [negb] in Hpm. rewrite orb_false_r in Hpm.
      apply negb_true_iff in Hpm. exact Hpm. }
    rewrite Hpmw. cbn [span]. rewrite Hd. reflexivity.
  - destruct (Ascii.eqb d "+" || Ascii.eqb d "-").
    + rewrite (span_tail is_digit u' w r Hd). destruct (span is_digit u') as [ds rest]. reflexivity.
    + change (String d (u' ++ String w r)) with (String d u' ++ String w r).
      rewrite (span_tail is_digit (String d u') w r Hd). destruct (span is_digit (String d u')) as [ds rest]. reflexivity.
Qed.

Lemma exponent_len u n : lex_exponent u = Some n -> n <= slen u.
Proof.
  unfold lex_exponent. destruct u as [|c u]; [discriminate|].
  destruct (Ascii.eqb c "e" || Ascii.eqb c "E"); [|discriminate].
  destruct u as [|d u'].
  - cbn [span]. discriminate.
  - destruct (Ascii.eqb d "+" || Ascii.eqb d "-").
    + pose proof (span_len is_digit u') as L. destruct (span is_digit u') as [ds rest]. cbn [fst snd] in L.
      destruct ds; [discriminate|]. destruct (accum _ _ _ _); [|discriminate]. intros E. inversion E. rewrite !slen_cons in *. lia.
    + pose proof (span_len is_digit (String d u')) as L. destruct (span is_digit (String d u')) as [ds rest]. cbn [fst snd] in L.
      destruct ds; [discriminate|]. destruct (accum _ _ _ _); [|discriminate]. intros E. inversion E. rewrite !slen_cons in *. lia.
Qed.
End Tail.

Section Tail2.
Variable int_suffixes : list (list (list N) * string).
Variable float_suffixes : list (list N * string).
Variable float_is_zero : string -> bool.
Notation lex_float := (lex_float float_suffixes float_is_zero).
Notation lex_int := (lex_int int_suffixes).

(* the part of lex_float behind the mantissa *)
Definition float_rest (s : string) (has_fraction : bool) (mant_len : nat) : lres :=
  let r3 := drop mant_len s in
  let exp_len := lex_exponent r3 in
  match has_fraction, exp_len with
  | false, None => LErr OtherTokenBytes 0
  | _, _ =>
      let text_len := (mant_len + match exp_len with Some n => n | None => 0 end)%nat in
      let text := String.substring 0 text_len s in
      let r4 := drop text_len s in
      let inf := starts_with "#INF" r4 in
      if inf && (float_is_zero text || match exp_len with Some _ => true | None => false end)
      then LErr FloatInvalidSuffix text_len
      else
        let after_inf := if inf then (text_len + 4)%nat else text_len in
        let r5 := drop after_inf s in
        let suf := float_suffix float_suffixes r5 in
        let k := fkind_of (option_map fst suf) in
        let total := (after_inf + match suf with Some (_, n) => n | None => 0 end)%nat in
        match drop total s with
        | String c _ =>
            if is_ident_char c then
              (if Ascii.eqb c "x" then LErr OtherTokenBytes 0 else LErr FloatInvalidSuffix text_len)
            else LOk (if inf then TInf k else TFloat k text) total
        | EmptyString => LOk (if inf then TInf k else TFloat k text) total
        end
  end.

Lemma lex_float_unfold s :
  lex_float s =
  let (whole, r1) := span is_digit s in
  let (has_fraction, mant_len) :=
    match r1 with
    | String d r2 => if Ascii.eqb d "." then let (fr, _) := span is_digit r2 in (true, (slen whole + 1 + slen fr)%nat)
                     else (false, slen whole)
    | EmptyString => (false, slen whole)
    end in
  float_rest s has_fraction mant_len.
Proof. reflexivity. Qed.

Lemma starts_len p : forall s, starts_with p s = true -> slen p <= slen s.
Proof.
  unfold starts_with. induction p as [|c p IH]; intros s H; [cbn; lia|].
  destruct s as [|d s]; cbn [String.prefix] in H; [discriminate|].
  destruct (ascii_dec c d); [|discriminate]. rewrite !slen_cons. specialize (IH s H). lia.
Qed.

Lemma float_suffix_some s k n : float_suffix float_suffixes s = Some (k, n) -> n = 1 /\ 1 <= slen s.
Proof.
  unfold float_suffix. destruct s as [|c s]; [discriminate|].
  destruct (find _ float_suffixes) as [[cs k0]|]; cbn [option_map]; [|discriminate].
  intros E. inversion E. rewrite slen_cons. split; [reflexivity | lia].
Qed.

Lemma float_rest_tail u w r hf ml :
  stopc w = true -> pm_ok u w = true -> fsuffixes_alpha float_suffixes = true -> ml <= slen u ->
  float_rest (u ++ String w r) hf ml = float_rest u hf ml.
Proof.
  intros Hs Hpm Hfs Hml. destruct (stop_facts w Hs) as (Hi & Hd & Ha & Hdot & Hh).
  unfold float_rest. cbv zeta.
  rewrite (drop_tail ml u (String w r) Hml), (exponent_tail w r (drop ml u) Hs (pm_ok_drop ml u w Hpm)).
  pose proof (exponent_len (drop ml u)) as El. rewrite drop_len in El.
  destruct (lex_exponent (drop ml u)) as [e|] eqn:Ee.
  - specialize (El e eq_refl).
    assert (Htl : ml + e <= slen u) by lia.
    destruct hf.
    + (* the common rest, exponent present *)
      rewrite (substring_app (ml + e) u (String w r) Htl).
      rewrite (drop_tail (ml + e) u (String w r) Htl).
      assert (Hni : notin w "#INF" = true).
      { cbn [notin]. rewrite (Ascii.eqb_sym "#" w), Hh.
        assert (X : forall c, is_alpha_ c = true -> Ascii.eqb c w = false).
        { intros c Hc. destruct (Ascii.eqb c w) eqn:E; [apply Ascii.eqb_eq in E; subst c; congruence | reflexivity]. }
        rewrite (X "I"%char eq_refl), (X "N"%char eq_refl), (X "F"%char eq_refl). reflexivity. }
      rewrite (starts_tail "#INF" (drop (ml + e) u) w r Hni).
      destruct (starts_with "#INF" (drop (ml + e) u)) eqn:Inf.
      * cbn [andb]. rewrite orb_true_r. reflexivity.
      * cbn [andb].
        rewrite (drop_tail (ml + e) u (String w r) Htl), (float_suffix_tail float_suffixes w r (drop (ml + e) u) Hfs Ha).
        pose proof (float_suffix_some (drop (ml + e) u)) as Fs. rewrite drop_len in Fs.
        destruct (float_suffix float_suffixes (drop (ml + e) u)) as [[k n]|].
        -- destruct (Fs k n eq_refl) as [-> Hn].
           rewrite (drop_tail (ml + e + 1) u (String w r) ltac:(lia)).
           destruct (drop (ml + e + 1) u); cbn [append]; [rewrite Hi; reflexivity | reflexivity].
        -- rewrite Nat.add_0_r. rewrite (drop_tail (ml + e) u (String w r) Htl).
           destruct (drop (ml + e) u); cbn [append]; [rewrite Hi; reflexivity | reflexivity].
    + rewrite (substring_app (ml + e) u (String w r) Htl).
      rewrite (drop_tail (ml + e) u (String w r) Htl).
      assert (Hni : notin w "#INF" = true).
      { cbn [notin]. rewrite (Ascii.eqb_sym "#" w), Hh.
        assert (X : forall c, is_alpha_ c = true -> Ascii.eqb c w = false).
        { intros c Hc. destruct (Ascii.eqb c w) eqn:E; [apply Ascii.eqb_eq in E; subst c; congruence | reflexivity]. }
        rewrite (X "I"%char eq_refl), (X "N"%char eq_refl), (X "F"%char eq_refl). reflexivity. }
      rewrite (starts_tail "#INF" (drop (ml + e) u) w r Hni).
      destruct (starts_with "#INF" (drop (ml + e) u)) eqn:Inf.
      * cbn [andb]. rewrite orb_true_r. reflexivity.
      * cbn [andb].
        rewrite (drop_tail (ml + e) u (String w r) Htl), (float_suffix_tail float_suffixes w r (drop (ml + e) u) Hfs Ha).
        pose proof (float_suffix_some (drop (ml + e) u)) as Fs. rewrite drop_len in Fs.
        destruct (float_suffix float_suffixes (drop (ml + e) u)) as [[k n]|].
        -- destruct (Fs k n eq_refl) as [-> Hn].
           rewrite (drop_tail (ml + e + 1) u (String w r) ltac:(lia)).
           destruct (drop (ml + e + 1) u); cbn [append]; [rewrite Hi; reflexivity | reflexivity].
        -- rewrite Nat.add_0_r. rewrite (drop_tail (ml + e) u (String w r) Htl).
           destruct (drop (ml + e) u); cbn [append]; [rewrite Hi; reflexivity | reflexivity].
  - destruct hf; [|reflexivity].
    rewrite Nat.add_0_r.
    rewrite (substring_app ml u (String w r) Hml).
    rewrite (drop_tail ml u (String w r) Hml).
    assert (Hni : notin w "#INF" = true).
    { cbn [notin]. rewrite (Ascii.eqb_sym "#" w), Hh.
      assert (X : forall c, is_alpha_ c = true -> Ascii.eqb c w = false).
      { intros c Hc. destruct (Ascii.eqb c w) eqn:E; [apply Ascii.eqb_eq in E; subst c; congruence | reflexivity]. }
      rewrite (X "I"%char eq_refl), (X "N"%char eq_refl), (X "F"%char eq_refl). reflexivity. }
    rewrite (starts_tail "#INF" (drop ml u) w r Hni).
    pose proof (starts_len "#INF" (drop ml u)) as Il. rewrite drop_len in Il.
    destruct (starts_with "#INF" (drop ml u)) eqn:Inf.
    + specialize (Il eq_refl). change (slen "#INF") with 4 in Il.
      cbn [andb]. rewrite orb_false_r.
      destruct (float_is_zero (substring 0 ml u)); [reflexivity|].
      rewrite (drop_tail (ml + 4) u (String w r) ltac:(lia)), (float_suffix_tail float_suffixes w r (drop (ml + 4) u) Hfs Ha).
      pose proof (float_suffix_some (drop (ml + 4) u)) as Fs. rewrite drop_len in Fs.
      destruct (float_suffix float_suffixes (drop (ml + 4) u)) as [[k n]|].
      * destruct (Fs k n eq_refl) as [-> Hn].
        rewrite (drop_tail (ml + 4 + 1) u (String w r) ltac:(lia)).
        destruct (drop (ml + 4 + 1) u); cbn [append]; [rewrite Hi; reflexivity | reflexivity].
      * rewrite Nat.add_0_r. rewrite (drop_tail (ml + 4) u (String w r) ltac:(lia)).
        destruct (drop (ml + 4) u); cbn [append]; [rewrite Hi; reflexivity | reflexivity].
    + cbn [andb].
      rewrite (drop_tail ml u (String w r) Hml), (float_suffix_tail float_suffixes w r (drop ml u) Hfs Ha).
      pose proof (float_suffix_some (drop ml u)) as Fs. rewrite drop_len in Fs.
      destruct (float_suffix float_suffixes (drop ml u)) as [[k n]|].
      * destruct (Fs k n eq_refl) as [-> Hn].
        rewrite (drop_tail (ml + 1) u (String w r) ltac:(lia)).
        destruct (drop (ml + 1) u); cbn [append]; [rewrite Hi; reflexivity | reflexivity].
      * rewrite Nat.add_0_r. rewrite (drop_tail ml u (String w r) Hml).
        destruct (drop ml u); cbn [append]; [rewrite Hi; reflexivity | reflexivity].
Qed.

Theorem lex_float_tail u w r :
  stopc w = true -> pm_ok u w = true -> fsuffixes_alpha float_suffixes = true -> lex_float (u ++ String w r) = lex_float u.
Proof.
  intros Hs Hpm Hfs. destruct (stop_facts w Hs) as (Hi & Hd & Ha & Hdot & Hh).
  rewrite !lex_float_unfold.
  rewrite (span_tail is_digit u w r Hd).
  pose proof (span_len is_digit u) as L0.
  destruct (span is_digit u) as [W R]. cbn [fst snd] in *.
  destruct R as [|d R'].
  - cbn [append]. rewrite Hdot. apply float_rest_tail; try assumption. cbn in L0. lia.
  - cbn [append]. destruct (Ascii.eqb d ".").
    + rewrite (span_tail is_digit R' w r Hd).
      pose proof (span_len is_digit R') as L1.
      destruct (span is_digit R') as [fr x]. cbn [fst snd] in *.
      apply float_rest_tail; try assumption. rewrite slen_cons in L0. lia.
    + apply float_rest_tail; try assumption. lia.
Qed.
End Tail2.

Section Tail3.
Variable keywords : list (string * string).
Variable reserved_words : list string.
Variable symbols : list (N * string * option string * option string).
Variable int_suffixes : list (list (list N) * string).
Variable float_suffixes : list (list N * string).
Variable float_is_zero : string -> bool.
Variable utf8_ok : string -> bool.
Notation lex_float := (lex_float float_suffixes float_is_zero).
Notation lex_int := (lex_int int_suffixes).
Notation tok_at := (tok_at keywords reserved_words symbols int_suffixes float_suffixes float_is_zero utf8_ok).

(* one branch of lex_int *)
Definition int_go (s : string) (skip : nat) (base : N) (dv : ascii -> option N) : lres :=
  let body := drop skip s in
  let (ds, rest) := span (fun c => match dv c with Some _ => true | None => false end) body in
  match ds with
  | EmptyString => match body with EmptyString => LErr EndOfStream (slen s) | _ => LErr UnexpectedBytes skip end
  | _ =>
      match accum base dv ds 0%N with
      | None => LErr IntegerLiteralTooLarge skip
      | Some v =>
          let suf := int_suffix int_suffixes rest in
          match int_token (option_map fst suf) v with
          | Some t => LOk t (skip + slen ds + match suf with Some (_, n) => n | None => 0 end)
          | None => LErr IntegerLiteralTooLarge skip
          end
      end
  end.

Lemma lex_int_unfold s :
  lex_int s =
  if starts_with "0x" s then int_go s 2%nat 16%N hex_val
  else match s with
       | String z (String c _) => if Ascii.eqb z "0" && is_octal c then int_go s 1%nat 8%N oct_val else int_go s 0%nat 10%N dec_val
       | _ => int_go s 0%nat 10%N dec_val
       end.
Proof. reflexivity. Qed.

Definition fix_eos (skip : nat) (x : lres) : lres :=
  match x with LErr EndOfStream _ => LErr UnexpectedBytes skip | _ => x end.

Lemma int_go_tail u w r skip base dv :
  suffixes_alpha_all int_suffixes = true -> is_alpha_ w = false -> dv w = None -> skip <= slen u ->
  int_go (u ++ String w r) skip base dv = fix_eos skip (int_go u skip base dv).
Proof.
  intros Hs Ha Hdv Hsk. unfold int_go. cbv zeta.
  rewrite (drop_tail skip u (String w r) Hsk).
  set (p := fun c : ascii => match dv c with Some _ => true | None => false end).
  assert (Hp : p w = false) by (unfold p; rewrite Hdv; reflexivity).
  rewrite (span_tail p (drop skip u) w r Hp).
  destruct (span p (drop skip u)) as [ds rest] eqn:Sp. cbn [fst snd].
  destruct ds as [|d ds'].
  - destruct (drop skip u) as [|b B]; cbn [append fix_eos]; reflexivity.
  - destruct (accum base dv (String d ds') 0%N) as [v|]; [|reflexivity].
    rewrite (int_suffix_tail int_suffixes w r rest Hs Ha).
    destruct (int_token _ v); reflexivity.
Qed.

Definition int_skip (u : string) : nat :=
  if starts_with "0x" u then 2
  else match u with
       | String z (String c _) => if Ascii.eqb z "0" && is_octal c then 1 else 0
       | _ => 0
       end.

Lemma lex_int_tail u w r :
  suffixes_alpha_all int_suffixes = true -> stopc w = true ->
  lex_int (u ++ String w r) = fix_eos (int_skip u) (lex_int u).
Proof.
  intros Hs Hst. destruct (stop_facts w Hst) as (Hi & Hd & Ha & Hdot & Hh).
  assert (Hhex : hex_val w = None).
  { unfold hex_val. unfold is_ident_char, is_alpha_, is_digit in *.
    destruct ((48 <=? code w)%N && (code w <=? 57)%N) eqn:D; [discriminate Hd|].
    destruct ((65 <=? code w)%N && (code w <=? 70)%N) eqn:U.
    { exfalso. apply andb_true_iff in U as [U1 U2]. apply N.leb_le in U1, U2.
      assert (X : ((65 <=? code w)%N && (code w <=? 90)%N) = true) by (apply andb_true_iff; split; apply N.leb_le; lia).
      rewrite X in Ha. discriminate Ha. }
    destruct ((97 <=? code w)%N && (code w <=? 102)%N) eqn:L; [|reflexivity].
    exfalso. apply andb_true_iff in L as [L1 L2]. apply N.leb_le in L1, L2.
    assert (X : ((97 <=? code w)%N && (code w <=? 122)%N) = true) by (apply andb_true_iff; split; apply N.leb_le; lia).
    rewrite X in Ha. rewrite orb_true_r in Ha. discriminate Ha. }
  assert (Hoct : is_octal w = false).
  { unfold is_octal, is_digit in *. destruct ((48 <=? code w)%N) eqn:A; [|reflexivity]. cbn [andb] in *.
    apply N.leb_gt in Hd. apply N.leb_gt. lia. }
  assert (Hdec : dec_val w = None) by (unfold dec_val; rewrite Hd; reflexivity).
  assert (Hocv : oct_val w = None) by (unfold oct_val; rewrite Hoct; reflexivity).
  assert (Hni : notin w "0x" = true).
  { cbn [notin].
    assert (X : forall c, is_ident_char c = true -> Ascii.eqb c w = false).
    { intros c Hc. destruct (Ascii.eqb c w) eqn:E; [apply Ascii.eqb_eq in E; subst c; congruence | reflexivity]. }
    rewrite (X "0"%char eq_refl), (X "x"%char eq_refl). reflexivity. }
  rewrite !lex_int_unfold. unfold int_skip.
  rewrite (starts_tail "0x" u w r Hni).
  pose proof (starts_len "0x" u) as Xl.
  destruct (starts_with "0x" u).
  - specialize (Xl eq_refl). change (slen "0x") with 2 in Xl. apply int_go_tail; assumption.
  - destruct u as [|z u'].
    + cbn [append]. destruct r as [|c r'].
      * apply (int_go_tail "" w "" 0 10%N dec_val Hs Ha Hdec). cbn; lia.
      * assert (Z : Ascii.eqb w "0" = false).
        { destruct (Ascii.eqb w "0") eqn:E; [apply Ascii.eqb_eq in E; subst w; discriminate Hd | reflexivity]. }
        rewrite Z. cbn [andb]. apply (int_go_tail "" w (String c r') 0 10%N dec_val Hs Ha Hdec). cbn; lia.
    + destruct u' as [|c u''].
      * cbn [append]. rewrite Hoct, andb_false_r.
        apply (int_go_tail (String z "") w r 0 10%N dec_val Hs Ha Hdec). lia.
      * cbn [append]. destruct (Ascii.eqb z "0" && is_octal c).
        -- apply (int_go_tail (String z (String c u'')) w r 1 8%N oct_val Hs Ha Hocv). rewrite !slen_cons. lia.
        -- apply (int_go_tail (String z (String c u'')) w r 0 10%N dec_val Hs Ha Hdec). lia.
Qed.

(* ---- a numeric literal is read the same in front of any two characters that end a number ---- *)
Theorem numeric_token_ignores_tail c u' w1 r1 w2 r2 :
  suffixes_alpha_all int_suffixes = true -> fsuffixes_alpha float_suffixes = true ->
  is_digit c = true -> stopb (String c u') w1 = true -> stopb (String c u') w2 = true ->
  tok_at false (String c u' ++ String w1 r1) = tok_at false (String c u' ++ String w2 r2).
Proof.
  intros Hs Hfs Hc H1 H2. unfold stopb in H1, H2. apply andb_true_iff in H1 as [H1 P1]. apply andb_true_iff in H2 as [H2 P2].
  cbn [append]. cbn [Lexer.tok_at]. rewrite Hc.
  change (String c (u' ++ String w1 r1)) with (String c u' ++ String w1 r1).
  change (String c (u' ++ String w2 r2)) with (String c u' ++ String w2 r2).
  rewrite (lex_float_tail float_suffixes float_is_zero (String c u') w1 r1 H1 P1 Hfs).
  rewrite (lex_float_tail float_suffixes float_is_zero (String c u') w2 r2 H2 P2 Hfs).
  rewrite (lex_int_tail (String c u') w1 r1 Hs H1), (lex_int_tail (String c u') w2 r2 Hs H2). reflexivity.
Qed.

End Tail3.
