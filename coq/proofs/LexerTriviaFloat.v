(* LexerTriviaFloat.v — trivia after a plain floating-point literal `digits.digits` (no exponent, no suffix): in front of
   a character that can neither continue it nor start a suffix it is read as the LiteralFloat of exactly that text,
   whatever follows; so it may stand in a `Pre2` prefix and in front of inserted trivia. *)
From Coq Require Import List NArith Bool String Ascii Arith Lia.
From RV Require Import Lexer LexerProofs LexerTrivia LexerTrivia2 LexerTrivia3.
From RV Require Import LexerTriviaNum LexerTrivia4.
Import ListNotations.
Local Open Scope string_scope.

Section Flt.
Variable keywords : list (string * string).
Variable reserved_words : list string.
Variable symbols : list (N * string * option string * option string).
Variable int_suffixes : list (list (list N) * string).
Variable float_suffixes : list (list N * string).
Variable float_is_zero : string -> bool.
Variable utf8_ok : string -> bool.

Notation tok_at := (tok_at keywords reserved_words symbols int_suffixes float_suffixes float_is_zero utf8_ok).
Notation lex_file := (lex_file keywords reserved_words symbols int_suffixes float_suffixes float_is_zero utf8_ok).
Notation Pre2 := (Pre2 keywords reserved_words symbols int_suffixes float_suffixes float_is_zero utf8_ok).

(* every float suffix is a letter (a check on the regenerated table) *)
Definition fsuffixes_alpha : bool :=
  forallb (fun '(cs, _) => forallb (fun n => is_alpha_ (ascii_of_N n)) cs) float_suffixes.

Lemma float_suffix_needs_alpha w r : fsuffixes_alpha = true -> is_alpha_ w = false -> float_suffix float_suffixes (String w r) = None.
Proof.
  intros Hs Hw. unfold float_suffix.
  assert (F : find (fun '(cs, _) => existsb (N.eqb (code w)) cs) float_suffixes = None).
  { unfold fsuffixes_alpha in Hs. induction float_suffixes as [|[cs k] l IH]; [reflexivity|].
    cbn [forallb] in Hs. apply andb_true_iff in Hs as [H1 H2]. cbn [find].
    assert (E : existsb (N.eqb (code w)) cs = false).
    { destruct (existsb (N.eqb (code w)) cs) eqn:X; [|reflexivity]. exfalso.
      apply existsb_exists in X as (n & Hn & En). apply N.eqb_eq in En. subst n.
      rewrite forallb_forall in H1. specialize (H1 _ Hn). unfold code in H1. rewrite ascii_N_embedding in H1. congruence. }
    rewrite E. apply IH. exact H2. }
  rewrite F. reflexivity.
Qed.

(* a character that ends a plain floating-point literal *)
Definition ends_float (w : ascii) : Prop :=
  is_ident_char w = false /\ Ascii.eqb w "#" = false.

Lemma sapp_assoc3 a b c : (a ++ b) ++ c = a ++ (b ++ c).
Proof. induction a as [|x a IH]; cbn [append]; [reflexivity | rewrite IH; reflexivity]. Qed.

Theorem plain_float_token c wh fr w r :
  fsuffixes_alpha = true ->
  all is_digit (String c wh) = true -> all is_digit fr = true ->
  ends_float w ->
  let text := String c wh ++ String "." fr in
  tok_at false (text ++ String w r) = LOk (TFloat FNone text) (slen text).
Proof.
  intros Hs Hw Hf (Wi & Wh). cbv zeta.
  assert (Wdig : is_digit w = false) by (unfold is_ident_char in Wi; apply orb_false_iff in Wi as [_ H]; exact H).
  assert (Walpha : is_alpha_ w = false) by (unfold is_ident_char in Wi; apply orb_false_iff in Wi as [H _]; exact H).
  assert (Hc : is_digit c = true) by (cbn [all] in Hw; apply andb_true_iff in Hw as [H _]; exact H).
  set (text := String c wh ++ String "." fr).
  assert (Etext : text ++ String w r = String c wh ++ String "." (fr ++ String w r)).
  { unfold text. rewrite sapp_assoc3. reflexivity. }
  assert (Hlen : slen text = slen (String c wh) + 1 + slen fr).
  { unfold text. rewrite slen_app. rewrite (slen_cons "." fr). lia. }
  rewrite Etext. cbn [append]. cbn [Lexer.tok_at]. rewrite Hc.
  change (String c (wh ++ String "." (fr ++ String w r))) with (String c wh ++ String "." (fr ++ String w r)).
  rewrite <- Etext.
  assert (F : lex_float float_suffixes float_is_zero (text ++ String w r) = LOk (TFloat FNone text) (slen text)).
  { unfold Lexer.lex_float. rewrite Etext.
    rewrite (span_stop is_digit (String c wh) "." (fr ++ String w r) Hw eq_refl).
    change (Ascii.eqb "." ".") with true. cbv iota.
    rewrite (span_stop is_digit fr w r Hf Wdig).
    rewrite <- Etext. rewrite <- Hlen. rewrite drop_app.
    unfold Lexer.lex_exponent.
    assert (We : Ascii.eqb w "e" || Ascii.eqb w "E" = false).
    { destruct (Ascii.eqb w "e") eqn:E1; [apply Ascii.eqb_eq in E1; subst w; discriminate Walpha|].
      destruct (Ascii.eqb w "E") eqn:E2; [apply Ascii.eqb_eq in E2; subst w; discriminate Walpha|]. reflexivity. }
    rewrite We. rewrite Nat.add_0_r.
    rewrite (substring_app (slen text) text (String w r)) by lia.
    assert (Sub : forall s, substring 0 (slen s) s = s).
    { induction s as [|x s IH]; [reflexivity|]. rewrite slen_cons. cbn [substring]. rewrite IH. reflexivity. }
    rewrite Sub. rewrite drop_app.
    assert (Hinf : starts_with "#INF" (String w r) = false).
    { unfold starts_with. cbn [String.prefix]. destruct (ascii_dec "#" w) as [E|N]; [subst w; discriminate Wh | reflexivity]. }
    rewrite Hinf. cbn [andb]. rewrite drop_app.
    rewrite (float_suffix_needs_alpha w r Hs Walpha). cbn [option_map fkind_of]. rewrite Nat.add_0_r. rewrite drop_app.
    rewrite Wi. reflexivity. }
  rewrite F. reflexivity.
Qed.

Lemma trivia_start_ends_float w : (blank w \/ w = "\"%char \/ w = "/"%char) -> ends_float w.
Proof. intros [[ -> | [ -> | -> ] ]|[ -> | -> ]]; split; reflexivity. Qed.

(* a plain floating-point literal in a prefix *)
Lemma pre2_plain_float nxt c wh fr p :
  fsuffixes_alpha = true ->
  all is_digit (String c wh) = true -> all is_digit fr = true ->
  ends_float (next_char nxt p) ->
  Pre2 nxt p -> Pre2 nxt ((String c wh ++ String "." fr) ++ p).
Proof.
  intros Hs Hw Hf He Pp.
  assert (E : String c wh ++ String "." fr = String c (wh ++ String "." fr)) by reflexivity.
  rewrite E.
  apply (Pre2Tok _ _ _ _ _ _ _ nxt c (wh ++ String "." fr) (TFloat FNone (String c (wh ++ String "." fr))) p); [|exact Pp].
  intros r. rewrite <- E. destruct p as [|w p']; cbn [next_char append] in *.
  - apply (plain_float_token c wh fr nxt r Hs Hw Hf He).
  - apply (plain_float_token c wh fr w (p' ++ String nxt r) Hs Hw Hf He).
Qed.

(* trivia behind a plain floating-point literal, behind a Pre2 prefix *)
Corollary trivia_after_plain_float_behind_prefix2 p c wh fr b x spans :
  fsuffixes_alpha = true ->
  Pre2 c p ->
  all is_digit (String c wh) = true -> all is_digit fr = true ->
  let text := String c wh ++ String "." fr in
  tok_at false (text ++ b) = LOk (TFloat FNone text) (slen text) ->
  Trivia x ->
  lex_file (p ++ text ++ b) = SOk spans ->
  exists spans', lex_file (p ++ text ++ x ++ b) = SOk spans' /\ strip (toks spans') = strip (toks spans).
Proof.
  intros Hs Pp Hw Hf text T Tx H.
  assert (E : text = String c (wh ++ String "." fr)) by reflexivity.
  rewrite E in *.
  apply (trivia_behind_prefix2 keywords reserved_words symbols int_suffixes float_suffixes float_is_zero utf8_ok
           p c (wh ++ String "." fr) (TFloat FNone (String c (wh ++ String "." fr))) b x spans Pp T); [|exact Tx|exact H].
  intros w r Hwr. rewrite <- E. unfold text.
  apply (plain_float_token c wh fr w r Hs Hw Hf). apply trivia_start_ends_float. exact Hwr.
Qed.

End Flt.
