(* AlphaProofs.v — `pair` succeeds only when the second dump is the first with its locals renamed one-to-one. *)
From Coq Require Import List NArith Bool String Lia.
From RV Require Import Alpha.
Import ListNotations.

(* a one-to-one correspondence: the two lookups are inverse to each other *)
Definition bij (r : corr) : Prop :=
  (forall a b, lookup_l r a = Some b -> lookup_r r b = Some a) /\
  (forall a b, lookup_r r b = Some a -> lookup_l r a = Some b).

Lemma bij_nil : bij [].
Proof. split; intros a b H; discriminate. Qed.

Lemma bij_cons r a b : bij r -> lookup_l r a = None -> lookup_r r b = None -> bij ((a, b) :: r).
Proof.
  intros [H1 H2] Ha Hb. split; intros x y H; cbn [lookup_l lookup_r] in *.
  - destruct (N.eqb x a) eqn:E.
    + apply N.eqb_eq in E. inversion H; subst. rewrite N.eqb_refl. reflexivity.
    + destruct (N.eqb y b) eqn:E2.
      * apply N.eqb_eq in E2. subst. apply H1 in H. congruence.
      * apply H1. exact H.
  - destruct (N.eqb y b) eqn:E.
    + apply N.eqb_eq in E. inversion H; subst. rewrite N.eqb_refl. reflexivity.
    + destruct (N.eqb x a) eqn:E2.
      * apply N.eqb_eq in E2. subst. apply H2 in H. congruence.
      * apply H2. exact H.
Qed.

(* the correspondence only grows, and what it already says stays *)
Definition extends (r r' : corr) : Prop := forall a b, lookup_l r a = Some b -> lookup_l r' a = Some b.

Lemma extends_refl r : extends r r. Proof. intros a b H; exact H. Qed.
Lemma extends_trans r1 r2 r3 : extends r1 r2 -> extends r2 r3 -> extends r1 r3.
Proof. intros A B a b H. apply B, A, H. Qed.
Lemma extends_cons r a b : lookup_l r a = None -> extends r ((a, b) :: r).
Proof.
  intros Ha x y H. cbn [lookup_l]. destruct (N.eqb x a) eqn:E; [|exact H].
  apply N.eqb_eq in E. subst. congruence.
Qed.

Lemma rename_extends r r' t : extends r r' -> (forall a, t = Id a -> lookup_l r a <> None) -> rename r' t = rename r t.
Proof.
  intros E C. destruct t as [a|s]; [|reflexivity]. cbn [rename].
  destruct (lookup_l r a) as [b|] eqn:L; [|exfalso; exact (C a eq_refl L)].
  rewrite (E a b L). reflexivity.
Qed.

Theorem pair_sound : forall l1 l2 r pos r',
  bij r -> pair r pos l1 l2 = Same r' ->
  bij r' /\ extends r r' /\ map (rename r') l1 = l2 /\ covered r' l1.
Proof.
  induction l1 as [|t1 l1 IH]; intros l2 r pos r' B H.
  - destruct l2; [|discriminate]. cbn in H. inversion H; subst.
    repeat split; try apply B; try apply extends_refl. intros a [].
  - destruct l2 as [|t2 l2]; [destruct t1; discriminate|].
    destruct t1 as [a|s1], t2 as [b|s2]; cbn [pair] in H; try discriminate.
    + destruct (lookup_l r a) as [b'|] eqn:La, (lookup_r r b) as [a'|] eqn:Lb; try discriminate.
      * destruct (N.eqb b b' && N.eqb a a') eqn:E; [|discriminate].
        apply andb_true_iff in E as [E1 E2]. apply N.eqb_eq in E1, E2. subst b a'.
        destruct (IH l2 r (pos + 1)%N r' B H) as (B' & X & M & C).
        repeat split; try apply B'; try assumption.
        -- cbn [map rename]. rewrite (X a b' La). rewrite M. reflexivity.
        -- intros x [Hx|Hx]; [inversion Hx; subst; rewrite (X x b' La); discriminate | apply C; exact Hx].
      * pose proof (bij_cons r a b B La Lb) as B1.
        destruct (IH l2 ((a, b) :: r) (pos + 1)%N r' B1 H) as (B' & X & M & C).
        assert (Xa : lookup_l r' a = Some b). { apply X. cbn [lookup_l]. rewrite N.eqb_refl. reflexivity. }
        repeat split; try apply B'.
        -- apply (extends_trans r ((a, b) :: r) r'); [apply extends_cons; exact La | exact X].
        -- cbn [map rename]. rewrite Xa, M. reflexivity.
        -- intros x [Hx|Hx]; [inversion Hx; subst; rewrite Xa; discriminate | apply C; exact Hx].
    + destruct (String.eqb s1 s2) eqn:E; [|discriminate]. apply String.eqb_eq in E. subst.
      destruct (IH l2 r (pos + 1)%N r' B H) as (B' & X & M & C).
      repeat split; try apply B'; try assumption.
      * cbn [map rename]. rewrite M. reflexivity.
      * intros x [Hx|Hx]; [discriminate | apply C; exact Hx].
Qed.

(* the renaming is one-to-one on the locals of the first dump *)
Corollary pair_injective l1 l2 r' :
  pair [] 0 l1 l2 = Same r' ->
  map (rename r') l1 = l2 /\
  forall a a', In (Id a) l1 -> In (Id a') l1 -> rename r' (Id a) = rename r' (Id a') -> a = a'.
Proof.
  intros H. destruct (pair_sound l1 l2 [] 0%N r' bij_nil H) as (B & _ & M & C). split; [exact M|].
  intros a a' Ha Ha' E. cbn [rename] in E.
  destruct (lookup_l r' a) as [b|] eqn:La; [|exfalso; exact (C a Ha La)].
  destruct (lookup_l r' a') as [b'|] eqn:La'; [|exfalso; exact (C a' Ha' La')].
  inversion E; subst. destruct B as [B1 _]. apply B1 in La, La'. congruence.
Qed.

(* and completeness: a one-to-one renaming of the locals is always found (no false differences) *)
Lemma lookup_l_in r a b : lookup_l r a = Some b -> In (a, b) r.
Proof. induction r as [|[x y] t IH]; cbn; [discriminate|]. destruct (N.eqb a x) eqn:E; [apply N.eqb_eq in E; intros H; inversion H; subst; left; reflexivity | intros H; right; apply IH; exact H]. Qed.

Theorem pair_reflexive : forall l r pos, bij r -> (forall a b, lookup_l r a = Some b -> a = b) ->
  exists r', pair r pos l l = Same r'.
Proof.
  induction l as [|t l IH]; intros r pos B I; [exists r; reflexivity|].
  destruct t as [a|s]; cbn [pair].
  - destruct (lookup_l r a) as [b|] eqn:La.
    + pose proof (I a b La). subst. destruct B as [B1 B2]. rewrite (B1 _ _ La). rewrite !N.eqb_refl. cbn [andb].
      apply IH; [split; assumption | exact I].
    + destruct (lookup_r r a) as [a'|] eqn:Lb.
      * destruct B as [B1 B2]. pose proof (B2 _ _ Lb) as L. pose proof (I _ _ L). subst. congruence.
      * apply IH; [apply bij_cons; assumption|].
        intros x y H. cbn [lookup_l] in H. destruct (N.eqb x a) eqn:E; [apply N.eqb_eq in E; inversion H; subst; reflexivity | apply I; exact H].
  - rewrite String.eqb_refl. apply IH; assumption.
Qed.
