(* BindingsProofs.v — structural theorems about the slot allocator model, for any
   object-kind type and any cost / buffer-address tables. *)
From Coq Require Import List NArith Bool Lia Permutation Sorted.
From RV Require Import Bindings.
Import ListNotations.
Local Open Scope N_scope.

(* ---------- ranges that tile an initial segment ---------- *)

Fixpoint tiles (start : N) (l : list (N * N)) : Prop :=
  match l with
  | [] => True
  | (s, len) :: r => s = start /\ tiles (start + len) r
  end.

Fixpoint total (l : list (N * N)) : N :=
  match l with [] => 0 | (_, len) :: r => len + total r end.

Lemma tiles_app s l1 l2 : tiles s (l1 ++ l2) <-> tiles s l1 /\ tiles (s + total l1) l2.
Proof.
  revert s; induction l1 as [|[a la] l1 IH]; intros s; cbn [app tiles total].
  - rewrite N.add_0_r; tauto.
  - rewrite IH, N.add_assoc; tauto.
Qed.

Lemma total_app l1 l2 : total (l1 ++ l2) = total l1 + total l2.
Proof. induction l1 as [|[a la] l1 IH]; cbn [app total]; lia. Qed.

(* every range starts at or after its predecessors' ends: no overlap *)
Lemma tiles_ordered s l1 a la l2 b lb l3 :
  tiles s (l1 ++ (a, la) :: l2 ++ (b, lb) :: l3) -> a + la <= b.
Proof.
  intros H. apply tiles_app in H as [_ H]. cbn [tiles] in H. destruct H as [-> H].
  apply tiles_app in H as [_ H]. cbn [tiles] in H. destruct H as [-> _]. lia.
Qed.

(* every range lies inside [s, s + total) *)
Lemma tiles_bounds s l a la : tiles s l -> In (a, la) l -> s <= a /\ a + la <= s + total l.
Proof.
  revert s; induction l as [|[b lb] l IH]; intros s H Hin; [destruct Hin|].
  cbn [tiles total] in *. destruct H as [-> H]. destruct Hin as [E|Hin].
  - inversion E; subst; lia.
  - specialize (IH _ H Hin). lia.
Qed.

(* no gap: every slot of [s, s + total) belongs to some range *)
Lemma tiles_cover s l x : tiles s l -> s <= x < s + total l ->
  exists a la, In (a, la) l /\ a <= x < a + la.
Proof.
  revert s; induction l as [|[b lb] l IH]; intros s H Hx; cbn [tiles total] in *; [lia|].
  destruct H as [-> H]. destruct (N.ltb_spec x (s + lb)).
  - exists s, lb; split; [left; reflexivity | lia].
  - destruct (IH (s + lb) H) as (a & la & Hin & Ha); [lia|]. exists a, la; split; [right; exact Hin | exact Ha].
Qed.

(* ---------- insertion sort on blocks ---------- *)

Lemma insert_block_perm x l : Permutation (insert_block x l) (x :: l).
Proof.
  induction l as [|y l IH]; cbn [insert_block]; [reflexivity|].
  destruct (block_leb x y); [reflexivity|].
  rewrite IH. apply perm_swap.
Qed.

Lemma sort_blocks_perm l : Permutation (sort_blocks l) l.
Proof.
  induction l as [|x l IH]; cbn [sort_blocks fold_right]; [reflexivity|].
  fold (sort_blocks l). rewrite insert_block_perm. constructor. exact IH.
Qed.

Definition bset (b : block) : N := fst (fst b).

Definition block_le (a b : block) : Prop := block_leb a b = true.

Lemma block_leb_total a b : block_leb a b = false -> block_leb b a = true.
Proof.
  destruct a as [[s1 l1] z1], b as [[s2 l2] z2]; cbn [block_leb].
  repeat match goal with |- context [?x <? ?y] => destruct (N.ltb_spec x y) end;
    try discriminate; try reflexivity; try lia.
  rewrite N.leb_gt. intros H'. apply N.leb_le. lia.
Qed.

Lemma block_leb_trans a b c : block_leb a b = true -> block_leb b c = true -> block_leb a c = true.
Proof.
  destruct a as [[s1 l1] z1], b as [[s2 l2] z2], c as [[s3 l3] z3]; cbn [block_leb].
  repeat match goal with |- context [?x <? ?y] => destruct (N.ltb_spec x y) end;
    try discriminate; try reflexivity; try lia;
    rewrite ?N.leb_le; try lia; intros; try discriminate.
Qed.

Lemma insert_block_sorted x l :
  StronglySorted block_le l -> StronglySorted block_le (insert_block x l).
Proof.
  induction 1 as [|y l Hs IH Hall]; cbn [insert_block].
  - constructor; constructor.
  - destruct (block_leb x y) eqn:E.
    + constructor; [constructor; assumption|]. constructor; [exact E|].
      eapply Forall_impl; [|exact Hall]. intros z Hz. eapply block_leb_trans; eassumption.
    + constructor; [exact IH|].
      assert (Hp := insert_block_perm x l).
      eapply Permutation_Forall; [symmetry; exact Hp|].
      constructor; [apply block_leb_total; exact E | exact Hall].
Qed.

Lemma sort_blocks_sorted l : StronglySorted block_le (sort_blocks l).
Proof.
  induction l as [|x l IH]; cbn [sort_blocks fold_right]; [constructor|].
  apply insert_block_sorted. exact IH.
Qed.

Lemma block_le_set a b : block_le a b -> bset a <= bset b.
Proof.
  destruct a as [[s1 l1] z1], b as [[s2 l2] z2]; unfold block_le, bset; cbn [block_leb fst].
  destruct (N.ltb_spec s1 s2); [lia|]. destruct (N.ltb_spec s2 s1); [discriminate|lia].
Qed.

(* with pairwise distinct groups the sorted list is strictly increasing in the group *)
Lemma sorted_nodup_strict l :
  StronglySorted block_le l -> NoDup (map bset l) -> StronglySorted (fun a b => bset a < bset b) l.
Proof.
  induction 1 as [|x l Hs IH Hall]; intros Hnd; [constructor|].
  cbn [map] in Hnd. inversion Hnd as [|? ? Hnotin Hnd']; subst.
  constructor; [apply IH; exact Hnd'|].
  rewrite Forall_forall in *. intros y Hy.
  assert (bset x <= bset y) by (apply block_le_set, Hall, Hy).
  assert (bset x <> bset y).
  { intros E. apply Hnotin. rewrite E. apply in_map. exact Hy. }
  lia.
Qed.

(* ---------- the allocator ---------- *)

Section Proofs.
Variable okind : Type.
Variable metal2 : okind -> bool.
Variable is_addr : okind -> bool.

Notation decl := (decl okind).
Notation step := (step okind metal2 is_addr).
Notation assign_from := (assign_from okind metal2 is_addr).
Notation assign := (assign okind metal2 is_addr).
Notation slot_count := (slot_count okind metal2).
Notation takes_inline := (takes_inline okind is_addr).
Notation skipped_sampler := (skipped_sampler okind).

Definition group_of (dflt : N) (d : decl) : N := match d_set d with Some s => s | None => dflt end.

(* which declarations are bound at all *)
Definition bindable (p : params) (d : decl) : bool :=
  match d_kind d with
  | KCBuffer => true
  | KObj _ => d_extern d && negb (skipped_sampler p d)
  | KOther => false
  end.

(* what the property says a single declaration must receive *)
Definition binding_ok (p : params) (dflt : N) (d : decl) (ob : option binding) : Prop :=
  match ob with
  | None => bindable p d = false
  | Some b =>
      bindable p d = true /\ b_set b = group_of dflt d /\
      match b_loc b with
      | Index _ => takes_inline p d = false /\
                   b_slots b = match d_kind d with KCBuffer => 1 | _ => slot_count p d end
      | InlineConstant _ => takes_inline p d = true /\ b_slots b = slot_count p d
      end
  end.

Definition index_ranges (g : N) (bs : list (option binding)) : list (N * N) :=
  flat_map (fun ob => match ob with
                      | Some (mkBinding s (Index i) n) => if s =? g then [(i, n)] else []
                      | _ => []
                      end) bs.

Definition inline_ranges (g : N) (bs : list (option binding)) : list (N * N) :=
  flat_map (fun ob => match ob with
                      | Some (mkBinding s (InlineConstant off) n) => if s =? g then [(off, 8 * n)] else []
                      | _ => []
                      end) bs.

Lemma step_ok p dflt st d : binding_ok p dflt d (fst (step p dflt st d)).
Proof.
  unfold Bindings.step, binding_ok, bindable, group_of.
  destruct (d_kind d) eqn:K; cbn [fst].
  - cbn [b_set b_loc b_slots]. unfold Bindings.takes_inline. rewrite K. auto.
  - destruct (d_extern d); cbn [negb andb fst]; [|reflexivity].
    destruct (skipped_sampler p d) eqn:S; cbn [fst]; [reflexivity|].
    destruct (takes_inline p d) eqn:T; cbn [fst b_set b_loc b_slots]; rewrite ?T; auto.
  - reflexivity.
Qed.

(* effect of one step on the per-group counters *)
Lemma step_used p dflt st d g :
  let '(ob, st') := step p dflt st d in
  tiles (used st g) (index_ranges g [ob]) /\
  used st' g = used st g + total (index_ranges g [ob]) /\
  tiles (inl st g) (inline_ranges g [ob]) /\
  inl st' g = inl st g + total (inline_ranges g [ob]).
Proof.
  unfold Bindings.step, index_ranges, inline_ranges.
  set (s := match d_set d with Some s => s | None => dflt end).
  destruct (d_kind d); cbn [flat_map app].
  - cbn [used inl]. unfold upd. rewrite (N.eqb_sym g s).
    destruct (N.eqb_spec s g) as [->|]; cbn [app tiles total]; repeat split; lia.
  - destruct (d_extern d); cbn [negb]; [|cbn; repeat split; lia].
    destruct (skipped_sampler p d); [cbn; repeat split; lia|].
    destruct (takes_inline p d); cbn [used inl flat_map app]; unfold upd; rewrite (N.eqb_sym g s);
      destruct (N.eqb_spec s g) as [->|]; cbn [app tiles total]; repeat split; lia.
  - cbn; repeat split; lia.
Qed.

Lemma index_ranges_cons g ob bs : index_ranges g (ob :: bs) = index_ranges g [ob] ++ index_ranges g bs.
Proof. unfold index_ranges; cbn [flat_map]. rewrite app_nil_r. reflexivity. Qed.
Lemma inline_ranges_cons g ob bs : inline_ranges g (ob :: bs) = inline_ranges g [ob] ++ inline_ranges g bs.
Proof. unfold inline_ranges; cbn [flat_map]. rewrite app_nil_r. reflexivity. Qed.

Lemma assign_from_spec p dflt ds : forall st g,
  let '(bs, st') := assign_from p dflt st ds in
  Forall2 (binding_ok p dflt) ds bs /\
  tiles (used st g) (index_ranges g bs) /\
  used st' g = used st g + total (index_ranges g bs) /\
  tiles (inl st g) (inline_ranges g bs) /\
  inl st' g = inl st g + total (inline_ranges g bs).
Proof.
  induction ds as [|d ds IH]; intros st g; cbn [Bindings.assign_from].
  - cbn. repeat split; try constructor; lia.
  - assert (Hs := step_used p dflt st d g). assert (Hok := step_ok p dflt st d).
    destruct (step p dflt st d) as [ob st1]. cbn [fst] in Hok.
    specialize (IH st1 g). destruct (assign_from p dflt st1 ds) as [bs st2].
    destruct Hs as (T1 & U1 & T2 & U2). destruct IH as (F & T3 & U3 & T4 & U4).
    rewrite index_ranges_cons, inline_ranges_cons, !total_app.
    repeat split.
    + constructor; assumption.
    + apply tiles_app. split; [exact T1|]. rewrite <- U1. exact T3.
    + lia.
    + apply tiles_app. split; [exact T2|]. rewrite <- U2. exact T4.
    + lia.
Qed.

(* inl_keys: exactly the groups with a non-empty inline range list, no duplicates *)
Lemma mem_N_In x l : mem_N x l = true <-> In x l.
Proof.
  unfold mem_N. rewrite existsb_exists. split.
  - intros (y & Hy & E). apply N.eqb_eq in E. subst. exact Hy.
  - intros H. exists x. split; [exact H | apply N.eqb_refl].
Qed.

Lemma step_keys p dflt st d g :
  let '(ob, st') := step p dflt st d in
  (NoDup (inl_keys st) -> NoDup (inl_keys st')) /\
  (In g (inl_keys st') <-> In g (inl_keys st) \/ inline_ranges g [ob] <> []).
Proof.
  unfold Bindings.step, inline_ranges.
  set (s := match d_set d with Some s => s | None => dflt end).
  destruct (d_kind d); cbn [flat_map app inl_keys].
  - split; [auto|]. cbn [b_loc]. destruct (s =? g); intuition congruence.
  - destruct (d_extern d); cbn [negb]; [|cbn; split; [auto|intuition congruence]].
    destruct (skipped_sampler p d); [cbn; split; [auto|intuition congruence]|].
    destruct (takes_inline p d); cbn [inl_keys flat_map app].
    + destruct (mem_N s (inl_keys st)) eqn:M.
      * split; [auto|]. apply mem_N_In in M.
        destruct (N.eqb_spec s g) as [->|]; cbn [app]; intuition congruence.
      * assert (~ In s (inl_keys st)) as Hn by (rewrite <- mem_N_In; congruence).
        split.
        -- intros Hnd. apply NoDup_app_remove_l with (l := []) || idtac.
           apply Permutation_NoDup with (l := s :: inl_keys st);
             [apply Permutation_cons_append | constructor; assumption].
        -- rewrite in_app_iff. cbn [In].
           destruct (N.eqb_spec s g) as [->|]; cbn [app]; intuition congruence.
    + split; [auto|]. destruct (s =? g); cbn [app]; intuition congruence.
  - split; [auto|]. cbn. intuition congruence.
Qed.

Lemma app_neq_nil {A} (l1 l2 : list A) : l1 ++ l2 <> [] <-> l1 <> [] \/ l2 <> [].
Proof.
  destruct l1; cbn; [intuition congruence|]. split; [left; congruence|congruence].
Qed.

Lemma assign_from_keys p dflt ds : forall st g,
  let '(bs, st') := assign_from p dflt st ds in
  (NoDup (inl_keys st) -> NoDup (inl_keys st')) /\
  (In g (inl_keys st') <-> In g (inl_keys st) \/ inline_ranges g bs <> []).
Proof.
  induction ds as [|d ds IH]; intros st g; cbn [Bindings.assign_from].
  - cbn. intuition congruence.
  - assert (Hs := step_keys p dflt st d g).
    destruct (step p dflt st d) as [ob st1].
    specialize (IH st1 g). destruct (assign_from p dflt st1 ds) as [bs st2].
    rewrite inline_ranges_cons, app_neq_nil. intuition.
Qed.

(* ---------- theorems about `assign` ---------- *)

Theorem assign_bindings_ok p dflt ds : Forall2 (binding_ok p dflt) ds (fst (assign p dflt ds)).
Proof.
  unfold Bindings.assign. assert (H := assign_from_spec p dflt ds init_state 0).
  destruct (assign_from p dflt init_state ds) as [bs st]. cbn [fst]. apply H.
Qed.

Theorem assign_slots_tile p dflt ds g : tiles 0 (index_ranges g (fst (assign p dflt ds))).
Proof.
  unfold Bindings.assign. assert (H := assign_from_spec p dflt ds init_state g).
  destruct (assign_from p dflt init_state ds) as [bs st]. cbn [fst]. apply H.
Qed.

Theorem assign_inline_tile p dflt ds g : tiles 0 (inline_ranges g (fst (assign p dflt ds))).
Proof.
  unfold Bindings.assign. assert (H := assign_from_spec p dflt ds init_state g).
  destruct (assign_from p dflt init_state ds) as [bs st]. cbn [fst]. apply H.
Qed.

Theorem assign_blocks p dflt ds :
  let bs := fst (assign p dflt ds) in
  let blocks := snd (assign p dflt ds) in
  (* one block per group that has a buffer address, none for the others *)
  (forall g, In g (map bset blocks) <-> inline_ranges g bs <> []) /\
  (* sorted by group, hence at most one per group *)
  StronglySorted (fun a b => bset a < bset b) blocks /\
  (* slot = after all other slots of the group; size = sum of the entries *)
  (forall g l z, In (g, l, z) blocks ->
      l = total (index_ranges g bs) /\ z = total (inline_ranges g bs)).
Proof.
  unfold Bindings.assign.
  assert (Hk := fun g => assign_from_keys p dflt ds init_state g).
  assert (Hs := fun g => assign_from_spec p dflt ds init_state g).
  destruct (assign_from p dflt init_state ds) as [bs st]. cbn [fst snd].
  assert (Hperm := sort_blocks_perm (blocks_of st (inl_keys st))).
  assert (Hmap : map bset (blocks_of st (inl_keys st)) = inl_keys st).
  { unfold blocks_of. rewrite map_map. cbn. apply map_id. }
  repeat split.
  - intros Hin. apply (Permutation_in _ (Permutation_map bset Hperm)) in Hin.
    rewrite Hmap in Hin. apply (Hk g) in Hin. cbn in Hin. destruct Hin as [[]|H]; exact H.
  - intros Hne. apply (Permutation_in _ (Permutation_map bset (Permutation_sym Hperm))).
    rewrite Hmap. apply (Hk g). right. exact Hne.
  - apply sorted_nodup_strict; [apply sort_blocks_sorted|].
    apply (Permutation_NoDup (Permutation_map bset (Permutation_sym Hperm))).
    rewrite Hmap. apply (Hk 0). constructor.
  - apply (Permutation_in _ Hperm) in H. unfold blocks_of in H. apply in_map_iff in H.
    destruct H as (s & E & _). inversion E; subst.
    destruct (Hs g) as (_ & _ & U & _). cbn in U. exact U.
  - apply (Permutation_in _ Hperm) in H. unfold blocks_of in H. apply in_map_iff in H.
    destruct H as (s & E & _). inversion E; subst.
    destruct (Hs g) as (_ & _ & _ & _ & U). cbn in U. exact U.
Qed.

End Proofs.
