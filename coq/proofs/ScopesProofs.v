(* ScopesProofs.v — a path emitted by the exporters is found again, from the place it was emitted for, as the symbol it
   was emitted for. *)
From Coq Require Import List Bool String Lia.
From RV Require Import Scopes.
Import ListNotations.

Section P.
Variable is_ns : list string -> bool.
Variable has : list string -> string -> bool.
Variable inner : string -> bool.
Variable live : list string -> bool.
(* a namespace from which a path of namespaces leads to a declaration is written into the output *)
Hypothesis live_complete : forall n s r t' leaf', Scopes.walk is_ns (n :: s) r = Some t' -> has t' leaf' = true -> live (n :: s) = true.

Notation walk := (walk is_ns).
Notation find_in := (find_in is_ns has).
Notation lookup := (lookup is_ns has).
Notation lookup_from := (lookup_from is_ns has).
Notation lookup_abs := (lookup_abs is_ns has).
Notation hidden_ns := (hidden_ns is_ns has live).
Notation hidden := (hidden is_ns has inner live).
Notation emit := (emit is_ns has inner live).
Notation resolve := (resolve is_ns has).

(* every namespace on the way from the root to t exists *)
Fixpoint ns_ok (t : list string) : bool :=
  match t with
  | [] => true
  | _ :: p => is_ns t && ns_ok p
  end.

Lemma walk_app s a b : walk s (a ++ b) = match walk s a with Some m => walk m b | None => None end.
Proof.
  revert s; induction a as [|n a IH]; intros s; cbn [walk app]; [reflexivity|].
  destruct (is_ns (n :: s)); [apply IH | reflexivity].
Qed.

Lemma walk_rev t : ns_ok t = true -> walk [] (rev t) = Some t.
Proof.
  induction t as [|n p IH]; intros H; cbn [rev]; [reflexivity|].
  cbn [ns_ok] in H. apply andb_true_iff in H as [H1 H2].
  rewrite walk_app, (IH H2). cbn [walk]. rewrite H1. reflexivity.
Qed.

Lemma find_root t leaf : ns_ok t = true -> has t leaf = true -> find_in [] (rev t) leaf = Some t.
Proof. intros H1 H2. unfold Scopes.find_in. rewrite (walk_rev _ H1), H2. reflexivity. Qed.

(* nothing between the use site and the root declares the first name of the path: every scope on the way fails *)
Lemma lookup_not_hidden u t leaf :
  ns_ok t = true -> has t leaf = true ->
  hidden_ns u (hd leaf (rev t)) = false ->
  lookup u (rev t) leaf = Some t.
Proof.
  intros H1 H2. induction u as [|x p IH]; intros Hh.
  - cbn [Scopes.lookup]. rewrite (find_root _ _ H1 H2). reflexivity.
  - cbn [Scopes.hidden_ns] in Hh. apply orb_false_iff in Hh as [Hd Hp].
    unfold declares in Hd. apply orb_false_iff in Hd as [Hns Hhas].
    cbn [Scopes.lookup].
    assert (E : find_in (x :: p) (rev t) leaf = None).
    { unfold Scopes.find_in. destruct (rev t) as [|n r] eqn:Er.
      - cbn [hd] in *. cbn [Scopes.walk]. rewrite Hhas. reflexivity.
      - cbn [hd] in *. cbn [Scopes.walk]. destruct (is_ns (n :: x :: p)) eqn:N; [|reflexivity].
        cbn [andb] in Hns. destruct (walk (n :: x :: p) r) as [t'|] eqn:W; [|reflexivity].
        destruct (has t' leaf) eqn:Ht; [|reflexivity].
        rewrite (live_complete n (x :: p) r t' leaf W Ht) in Hns. discriminate. }
    rewrite E. apply IH. exact Hp.
Qed.

Lemma frames_skip frames u dirs leaf :
  Forall (fun f : string -> bool => forall n, f n = true -> inner n = true) frames ->
  inner (hd leaf dirs) = false ->
  lookup_from frames u dirs leaf = option_map Declared (lookup u dirs leaf).
Proof.
  intros F Hi. induction F as [|f fs Hf F IH]; cbn [Scopes.lookup_from]; [reflexivity|].
  destruct dirs as [|n r]; [|exact IH].
  cbn [hd] in Hi. destruct (f leaf) eqn:E; [|exact IH].
  apply Hf in E. congruence.
Qed.

(* ---- the theorem: whatever the use site, the emitted path names the symbol it was emitted for ---- *)
Theorem emitted_path_resolves frames u t leaf :
  ns_ok t = true -> has t leaf = true ->
  Forall (fun f : string -> bool => forall n, f n = true -> inner n = true) frames ->
  resolve frames u (emit u t leaf) = Some (Declared t).
Proof.
  intros H1 H2 F. unfold Scopes.resolve, Scopes.emit. cbn [p_abs p_dirs p_leaf].
  destruct (hidden u (hd leaf (rev t))) eqn:Eh.
  - unfold Scopes.lookup_abs. rewrite (find_root _ _ H1 H2). reflexivity.
  - unfold Scopes.hidden in Eh. apply orb_false_iff in Eh as [Ei En].
    rewrite (frames_skip _ _ _ _ F Ei). rewrite (lookup_not_hidden _ _ _ H1 H2 En). reflexivity.
Qed.

(* an anchored path never depends on where it is read *)
Lemma absolute_is_context_free frames frames' u u' dirs leaf :
  resolve frames u {| p_abs := true; p_dirs := dirs; p_leaf := leaf |} =
  resolve frames' u' {| p_abs := true; p_dirs := dirs; p_leaf := leaf |}.
Proof. reflexivity. Qed.
End P.
