(* membership test of model/TargetWords.v: a checked table inclusion is an inclusion *)
From Coq Require Import List String.
From RV Require Import TargetWords.
Import ListNotations.

Lemma listed_all_in : forall table ws,
  forallb (listed table) ws = true -> forall w, In w ws -> In w table.
Proof.
  intros table ws Hall w Hw.
  rewrite forallb_forall in Hall. specialize (Hall w Hw). unfold listed in Hall.
  apply existsb_exists in Hall. destruct Hall as [x [Hx He]].
  apply String.eqb_eq in He. subst x. exact Hx.
Qed.
