(* LexerTrivia3.v — trivia at any token boundary behind a prefix of identifier / keyword / symbol / string tokens and
   trivia, in any arrangement (tokens may touch).  What may directly follow a token without becoming part of it depends
   on the token: a word must not be followed by an identifier character, an operator symbol not by `=`, not by its own
   first character (`+` `+`) and - for `/` - not by `*`.  A prefix (`Pre`) is a run of such tokens, each followed by a
   character of that kind, and of trivia pieces; it lexes to the same tokens in front of every continuation that starts
   with the character it was checked against, so an insertion behind it is an insertion at the start of the rest.
   Numeric literals and `<` / `>` are not allowed in the prefix. *)
From Coq Require Import List NArith Bool String Ascii Arith Lia.
From RV Require Import Lexer LexerProofs LexerTrivia LexerTrivia2.
Import ListNotations.
Local Open Scope string_scope.

Definition follows_tok (c w : ascii) : Prop :=
  (is_alpha_ c = true -> is_ident_char w = false) /\
  (is_alpha_ c = false -> Ascii.eqb w "=" = false /\ Ascii.eqb w c = false /\ (Ascii.eqb c "/" = true -> Ascii.eqb w "*" = false)).

Lemma follows_ok_tok c w : follows_ok c w -> follows_tok c w.
Proof. intros (A & B & C & D). split; intros _; [exact A|repeat split; assumption]. Qed.

Section Trivia3.
Variable keywords : list (string * string).
Variable reserved_words : list string.
Variable symbols : list (N * string * option string * option string).
Variable int_suffixes : list (list (list N) * string).
Variable float_suffixes : list (list N * string).
Variable float_is_zero : string -> bool.
Variable utf8_ok : string -> bool.

Notation tok_at := (tok_at keywords reserved_words symbols int_suffixes float_suffixes float_is_zero utf8_ok).
Notation lex_int := (lex_int int_suffixes).
Notation lex_float := (lex_float float_suffixes float_is_zero).
Notation lex_word := (lex_word keywords reserved_words).
Notation lex_symbol := (lex_symbol symbols).
Notation Lexes := (Lexes keywords reserved_words symbols int_suffixes float_suffixes float_is_zero utf8_ok).
Notation lex_file := (lex_file keywords reserved_words symbols int_suffixes float_suffixes float_is_zero utf8_ok).

Theorem solid_token_ignores_next c a' b t w b' :
  tok_at false (String c a' ++ b) = LOk t (slen (String c a')) -> solid t = true -> follows_tok c w ->
  tok_at false (String c a' ++ String w b') = LOk t (slen (String c a')).
Proof.
  intros H St (FA & FS).
  cbn [append] in *. cbn [Lexer.tok_at] in *.
  destruct (is_digit c) eqn:Hd.
  { exfalso. destruct (lex_float (String c (a' ++ b))) as [t0 n0|e k] eqn:F.
    - inversion H; subst. rewrite (lex_float_not_solid _ _ _ _ _ F) in St. discriminate.
    - destruct e; try discriminate. rewrite (lex_int_not_solid _ _ _ _ H) in St. discriminate. }
  destruct (is_alpha_ c) eqn:Ha.
  { pose proof (FA eq_refl) as Wi. unfold Lexer.lex_word in *.
    destruct (span is_ident_char (String c (a' ++ b))) as [w0 r0] eqn:Sp.
    inversion H as [[Ht Hl]].
    assert (A : all is_ident_char (String c a') = true).
    { apply (span_exact is_ident_char (String c a') b). cbn [append]. rewrite Sp. exact Hl. }
    assert (W0 : w0 = String c a').
    { apply (prefix_exact w0 r0 (String c a') b); [|exact Hl].
      pose proof (span_app is_ident_char (String c (a' ++ b))) as E. rewrite Sp in E. cbn [fst snd] in E. symmetry. exact E. }
    change (String c (a' ++ String w b')) with (String c a' ++ String w b').
    rewrite (span_stop is_ident_char (String c a') w b' A Wi). subst w0. reflexivity. }
  destruct (FS eq_refl) as (We & Wc & Ws).
  cbn [andb] in *.
  destruct (Ascii.eqb c " " || Ascii.eqb c "009") eqn:W1; [inversion H; subst; discriminate|].
  destruct (Ascii.eqb c "010") eqn:W2; [inversion H; subst; discriminate|].
  destruct (Ascii.eqb c "013").
  { exfalso. destruct a' as [|d a'']; cbn [append] in H.
    - destruct b as [|d r]; [discriminate|]. destruct (Ascii.eqb d "010"); inversion H; subst; discriminate.
    - destruct (Ascii.eqb d "010"); inversion H; subst; discriminate. }
  destruct (Ascii.eqb c "\").
  { exfalso. revert H. generalize (a' ++ b). intros r H. destruct r as [|d r']; [discriminate|].
    destruct (Ascii.eqb d "010"); [inversion H; subst; discriminate|].
    destruct r' as [|e r'']; [discriminate|]. destruct (Ascii.eqb d "013" && Ascii.eqb e "010"); inversion H; subst; discriminate. }
  destruct (Ascii.eqb c "/" && starts_with "/" (a' ++ b)) eqn:C1; [inversion H; subst; discriminate|].
  destruct (Ascii.eqb c "/" && starts_with "*" (a' ++ b)) eqn:C2.
  { exfalso. destruct (block_end (drop 1 (a' ++ b))); inversion H; subst; discriminate. }
  assert (C1' : Ascii.eqb c "/" && starts_with "/" (a' ++ String w b') = false).
  { destruct (Ascii.eqb c "/") eqn:Cs; [|reflexivity]. cbn [andb] in *.
    destruct a' as [|d a'']; [|cbn [append] in *; rewrite (starts1 _ d _ (a'' ++ b)); exact C1].
    cbn [append]. unfold starts_with. cbn [String.prefix].
    destruct (ascii_dec "/" w) as [E|N]; [|reflexivity].
    exfalso. subst w. apply Ascii.eqb_eq in Cs. subst c. cbn in Wc. discriminate. }
  assert (C2' : Ascii.eqb c "/" && starts_with "*" (a' ++ String w b') = false).
  { destruct (Ascii.eqb c "/") eqn:Cs; [|reflexivity]. cbn [andb] in *.
    destruct a' as [|d a'']; [|cbn [append] in *; rewrite (starts1 _ d _ (a'' ++ b)); exact C2].
    cbn [append]. unfold starts_with. cbn [String.prefix].
    destruct (ascii_dec "*" w) as [E|N]; [|reflexivity].
    exfalso. subst w. specialize (Ws eq_refl). cbn in Ws. discriminate. }
  rewrite C1', C2'.
  destruct (Ascii.eqb c """") eqn:Q.
  { unfold Lexer.lex_quoted in *. cbn [drop] in *.
    destruct (index_of """" (a' ++ b)) as [pos|] eqn:I; [|discriminate].
    assert (P : pos + 2 = S (slen a')).
    { destruct (negb (utf8_ok (substring 1 pos (String c (a' ++ b))))); [discriminate|].
      destruct (contains "010" (substring 1 pos (String c (a' ++ b)))); [discriminate|]. inversion H as [[Ht Hl]]. unfold slen in *. cbn [String.length] in *. lia. }
    rewrite (index_of_app """" a' b pos I ltac:(lia) (String w b')).
    cbn [substring] in *. rewrite (substring_app pos a' (String w b')) by lia. rewrite (substring_app pos a' b) in H by lia.
    exact H. }
  destruct (Ascii.eqb c "<"); [inversion H; subst; discriminate|].
  destruct (Ascii.eqb c ">"); [inversion H; subst; discriminate|].
  destruct (lex_symbol c (a' ++ b)) as [[t0 n0]|] eqn:Y; [|discriminate].
  inversion H; subst. rewrite slen_cons in *.
  destruct (lex_symbol_sym _ _ _ _ _ Y) as [v ->].
  rewrite (lex_symbol_local symbols c a' b v w b' Y We Wc). reflexivity.
Qed.

(* the character after the prefix element: the head of the rest of the prefix, or the character the prefix is followed by *)
Definition next_char (nxt : ascii) (p : string) : ascii := match p with String w _ => w | EmptyString => nxt end.

Inductive Pre (nxt : ascii) : string -> Prop :=
| PreNil : Pre nxt ""
| PreTok c a' t p :
    tok_at false (String c a' ++ String " " "") = LOk t (slen (String c a')) -> solid t = true ->
    follows_tok c (next_char nxt p) -> Pre nxt p -> Pre nxt (String c a' ++ p)
| PreTrivia x p : Piece x -> Pre nxt p -> Pre nxt (x ++ p).

Lemma blank_follows_tok c t n r : tok_at false (String c r) = LOk t n -> solid t = true -> follows_tok c " ".
Proof.
  intros T St. destruct (solid_first_char keywords reserved_words symbols int_suffixes float_suffixes float_is_zero utf8_ok c r t n T St) as (F1 & F2 & F3).
  apply follows_ok_tok. apply blank_follows_ok; [left; reflexivity|exact F1|exact F2].
Qed.

(* the token of a prefix element in front of the rest of the prefix and any continuation that starts with nxt *)
Lemma pre_token nxt c a' t p r :
  tok_at false (String c a' ++ String " " "") = LOk t (slen (String c a')) -> solid t = true ->
  follows_tok c (next_char nxt p) ->
  tok_at false (String c a' ++ (p ++ String nxt r)) = LOk t (slen (String c a')).
Proof.
  intros T St F.
  destruct p as [|w p']; cbn [next_char append] in *.
  - apply (solid_token_ignores_next c a' (String " " "") t nxt r T St F).
  - apply (solid_token_ignores_next c a' (String " " "") t w (p' ++ String nxt r) T St F).
Qed.

Lemma piece_lexes_inv x : Piece x -> forall b l0 l, Lexes (x ++ b) l0 l ->
  exists ws l1 tr, l = (ws ++ tr)%list /\ Forall (fun t => is_ws t = true) ws /\ Lexes b l1 tr.
Proof.
  intros P b l0 l L. destruct P as [w Bw| |body Hb|text Ht].
  - destruct (blank_token keywords reserved_words symbols int_suffixes float_suffixes float_is_zero utf8_ok w b Bw) as (tw & Tw & Ww).
    cbn [append] in L. inversion L as [|c0 r0 last0 t0 n0 ts0 T0 L0]; subst. rewrite Tw in T0. inversion T0; subst t0 n0. cbn [drop] in L0.
    exists [tw], (is_endline tw), ts0. repeat split; [repeat constructor; exact Ww|exact L0].
  - cbn [append] in L. inversion L as [|c0 r0 last0 t0 n0 ts0 T0 L0]; subst.
    assert (E : tok_at false (String "\" (String "010" b)) = LOk TPhysicalEndline 2) by reflexivity.
    rewrite E in T0. inversion T0; subst t0 n0. cbn [drop] in L0.
    exists [TPhysicalEndline], false, ts0. repeat split; [repeat constructor|exact L0].
  - rewrite sapp_assoc in L. cbn [append] in L. rewrite sapp_assoc in L.
    inversion L as [|c0 r0 last0 t0 n0 ts0 T0 L0]; subst.
    change (String "*" (String "/" b)) with ("*/" ++ b) in *.
    rewrite tok_at_block, (block_end_body body Hb b) in T0. inversion T0; subst t0 n0.
    cbn [Nat.add drop] in L0. rewrite drop_add in L0. rewrite (drop_app body) in L0. cbn [append drop] in L0.
    exists [TComment], false, ts0. repeat split; [repeat constructor|exact L0].
  - rewrite sapp_assoc in L. cbn [append] in L. rewrite sapp_assoc in L. cbn [append] in L.
    inversion L as [|c0 r0 last0 t0 n0 ts0 T0 L0]; subst.
    rewrite tok_at_line, (line_len_text text Ht b) in T0. inversion T0; subst t0 n0.
    cbn [Nat.add drop] in L0. rewrite (drop_app text) in L0.
    inversion L0 as [|c1 r1 last1 t1 n1 ts1 T1 L1]; subst.
    assert (E : tok_at false (String "010" b) = LOk TEndline 1) by reflexivity.
    rewrite E in T1. inversion T1; subst t1 n1. cbn [drop] in L1.
    exists [TComment; TEndline], true, ts1. repeat split; [repeat constructor|exact L1].
Qed.

(* a piece lexes to tokens that do not depend on what follows it *)
Lemma piece_lexes2 x : Piece x -> exists ws, Forall (fun t => is_ws t = true) ws /\
  forall b l0, exists l1, forall ts1, Lexes b l1 ts1 -> Lexes (x ++ b) l0 (ws ++ ts1).
Proof.
  intros P. destruct P as [w Bw| |body Hb|text Ht].
  - assert (exists tw, is_ws tw = true /\ forall b, tok_at false (String w b) = LOk tw 1) as (tw & Ww & Tw).
    { destruct Bw as [ -> | [ -> | -> ] ]; eexists; (split; [|intros b; reflexivity]); reflexivity. }
    exists [tw]. split; [repeat constructor; exact Ww|]. intros b l0. exists (is_endline tw). intros ts1 L1.
    cbn [append app]. apply (LexTok _ _ _ _ _ _ _ w b l0 tw 1 ts1); [apply Tw|]. cbn [drop]. exact L1.
  - exists [TPhysicalEndline]. split; [repeat constructor|]. intros b l0. exists false. intros ts1 L1. cbn [append app].
    apply (LexTok _ _ _ _ _ _ _ "\" (String "010" b) l0 TPhysicalEndline 2 ts1); [reflexivity|]. cbn [drop]. exact L1.
  - exists [TComment]. split; [repeat constructor|]. intros b l0. exists false. intros ts1 L1.
    rewrite sapp_assoc. cbn [append]. rewrite sapp_assoc. cbn [app].
    apply (LexTok _ _ _ _ _ _ _ "/" (String "*" (body ++ "*/" ++ b)) l0 TComment (2 + (slen body + 2)) ts1).
    + rewrite tok_at_block, (block_end_body body Hb b). reflexivity.
    + cbn [Nat.add drop]. rewrite drop_add. rewrite (drop_app body). cbn [append drop]. exact L1.
  - exists [TComment; TEndline]. split; [repeat constructor|]. intros b l0. exists true. intros ts1 L1.
    rewrite sapp_assoc. cbn [append]. rewrite sapp_assoc. cbn [app append].
    apply (LexTok _ _ _ _ _ _ _ "/" (String "/" (text ++ String "010" b)) l0 TComment (2 + slen text) (TEndline :: ts1)).
    + rewrite tok_at_line, (line_len_text text Ht b). reflexivity.
    + cbn [Nat.add drop]. rewrite (drop_app text). cbn [is_endline].
      apply (LexTok _ _ _ _ _ _ _ "010" b false TEndline 1 ts1); [reflexivity|]. cbn [drop is_endline]. exact L1.
Qed.

(* the tokens of a prefix do not depend on what follows it *)
Lemma pre_lexes nxt p : Pre nxt p -> exists tp, forall r last l0 tr,
  Lexes (String nxt r) l0 tr ->
  exists l1 tr', Lexes (p ++ String nxt r) last (tp ++ tr') /\ Lexes (String nxt r) l1 tr' /\ strip tr' = strip tr.
Proof.
  induction 1 as [|c a' t p T St F Pp IH|x p Px Pp IH].
  - exists []. intros r last l0 tr Lr.
    destruct (lexes_flag keywords reserved_words symbols int_suffixes float_suffixes float_is_zero utf8_ok _ l0 tr Lr last) as (tr' & L' & S').
    exists last, tr'. cbn [append app]. repeat split; assumption.
  - destruct IH as (tp & IH). exists (t :: tp). intros r last l0 tr Lr.
    pose proof (pre_token nxt c a' t p r T St F) as T'.
    destruct (IH r (is_endline t) l0 tr Lr) as (l1 & tr' & Lp & Lr' & Sr').
    exists l1, tr'. repeat split; [|exact Lr'|exact Sr'].
    rewrite sapp_assoc. cbn [append app].
    change (String c (a' ++ (p ++ String nxt r))) with (String c a' ++ (p ++ String nxt r)).
    apply (LexTok _ _ _ _ _ _ _ c (a' ++ (p ++ String nxt r)) last t (slen (String c a')) (tp ++ tr')); [exact T'|].
    change (String c (a' ++ (p ++ String nxt r))) with (String c a' ++ (p ++ String nxt r)). rewrite drop_app. exact Lp.
  - destruct IH as (tp & IH). destruct (piece_lexes2 x Px) as (ws & Fw & Hx). exists (ws ++ tp)%list. intros r last l0 tr Lr.
    destruct (Hx (p ++ String nxt r) last) as (l1 & Hx').
    destruct (IH r l1 l0 tr Lr) as (l2 & tr' & Lp & Lr' & Sr').
    exists l2, tr'. repeat split; [|exact Lr'|exact Sr'].
    rewrite sapp_assoc, <- app_assoc. apply Hx'. exact Lp.
Qed.

Lemma pre_lexes_inv nxt p : Pre nxt p -> forall r last l,
  Lexes (p ++ String nxt r) last l ->
  exists tp l1 tr, l = (tp ++ tr)%list /\ Lexes (String nxt r) l1 tr.
Proof.
  induction 1 as [|c a' t p T St F Pp IH|x p Px Pp IH]; intros r last l L.
  - exists [], last, l. cbn [append app] in *. split; [reflexivity|exact L].
  - pose proof (pre_token nxt c a' t p r T St F) as T'.
    rewrite sapp_assoc in L. cbn [append] in L.
    inversion L as [|c0 r0 last0 t0 n0 ts0 T0 L0]; subst.
    change (String c (a' ++ (p ++ String nxt r))) with (String c a' ++ (p ++ String nxt r)) in *.
    rewrite T' in T0. inversion T0; subst t0 n0. change (S (slen a')) with (slen (String c a')) in L0. rewrite drop_app in L0.
    destruct (IH r (is_endline t) ts0 L0) as (tp & l1 & tr & -> & Lr).
    exists (t :: tp), l1, tr. split; [reflexivity|exact Lr].
  - rewrite sapp_assoc in L.
    destruct (piece_lexes_inv x Px (p ++ String nxt r) last l L) as (ws & l1 & tr0 & -> & Fw & L0).
    destruct (IH r l1 tr0 L0) as (tp & l2 & tr & -> & Lr).
    exists (ws ++ tp)%list, l2, tr. split; [rewrite app_assoc; reflexivity|exact Lr].
Qed.

(* Lexes is a function of the text and the flag *)
Lemma lexes_det s : forall last l1, Lexes s last l1 -> forall l2, Lexes s last l2 -> l1 = l2.
Proof.
  intros last l1 L1. induction L1 as [last|c r last t n ts T L IH]; intros l2 L2.
  - inversion L2; subst. reflexivity.
  - inversion L2 as [|c0 r0 last0 t0 n0 ts0 T0 L0]; subst. rewrite T in T0. inversion T0; subst. f_equal. apply IH. exact L0.
Qed.

(* trivia inserted after a solid token anywhere behind such a prefix *)
Theorem trivia_after_token_behind_prefix p c a' b t x spans :
  Pre c p ->
  tok_at false (String c a' ++ b) = LOk t (slen (String c a')) -> solid t = true -> Ascii.eqb c "/" = false -> Trivia x ->
  lex_file (p ++ String c a' ++ b) = SOk spans ->
  exists spans', lex_file (p ++ String c a' ++ x ++ b) = SOk spans' /\ strip (toks spans') = strip (toks spans).
Proof.
  intros Pp T St Cs Tx H. unfold Lexer.lex_file in *.
  destruct (lex_all_sound _ _ _ _ _ _ _ _ _ _ _ _ _ H) as (l & E & L). cbn [rev toks map app] in E.
  change (String c a' ++ b) with (String c (a' ++ b)) in L.
  destruct (pre_lexes_inv c p Pp (a' ++ b) true l L) as (tp0 & l1 & tr & El & Lr).
  assert (exists tsr, tr = t :: tsr) as (tsr & ->).
  { inversion Lr as [|c0 r0 last0 t1 n0 ts1 T0 L0]; subst. change (String c (a' ++ b)) with (String c a' ++ b) in T0.
    rewrite T in T0. inversion T0; subst. eexists. reflexivity. }
  change (String c (a' ++ b)) with (String c a' ++ b) in Lr.
  destruct (trivia_after_solid_token keywords reserved_words symbols int_suffixes float_suffixes float_is_zero utf8_ok c a' b l1 t tsr x T St Cs Tx Lr) as (ts' & L' & S').
  destruct (pre_lexes c p Pp) as (tp & Hp).
  change (String c a' ++ x ++ b) with (String c (a' ++ x ++ b)) in L'.
  destruct (Hp (a' ++ x ++ b) true l1 (t :: ts') L') as (l2 & trn & Lnew & _ & Sn).
  change (String c a' ++ b) with (String c (a' ++ b)) in Lr.
  destruct (Hp (a' ++ b) true l1 (t :: tsr) Lr) as (l3 & tro & Lold & _ & So).
  pose proof (lexes_det _ _ _ L _ Lold) as Eold.
  change (String c (a' ++ x ++ b)) with (String c a' ++ x ++ b) in Lnew.
  destruct (lex_all_complete _ _ _ _ _ _ _ _ _ _ Lnew (S (slen (p ++ String c a' ++ x ++ b))) 0 [] ltac:(lia)) as (sp & E' & M').
  exists sp. split; [exact E'|]. cbn [rev toks map app] in M'. rewrite M', E, Eold.
  unfold strip in *. rewrite !filter_app. rewrite Sn, So. cbn [filter]. destruct (negb (is_ws t)); [f_equal; f_equal|f_equal]; exact S'.
Qed.

End Trivia3.
