(* SemProofs.v — (1) the encoding commutes with the renaming of locals; (2) the evaluator of model/Sem.v cannot tell a
   function from the same function with its locals renamed one-to-one: same returned value, same values copied back
   through out / inout parameters, same effect on everything that is not a local, for every fuel, every argument list
   and every interpretation of the operator / literal / accessor / callee words; (3) hence two dumps that `Alpha.pair`
   accepts denote functions with the same behaviour. *)
From Coq Require Import List NArith Bool String Lia.
From RV Require Import Wire Alpha AlphaProofs Sem.
Import ListNotations.
Local Open Scope string_scope.
Local Open Scope list_scope.

(* ---- induction principles for the nested trees ---- *)
Section ExprInd.
  Variable P : expr -> Prop.
  Hypothesis HLoc : forall x, P (ELoc x).
  Hypothesis HLeaf : forall l, P (ELeaf l).
  Hypothesis HGlob : forall n, P (EGlob n).
  Hypothesis HTern : forall c a b, P c -> P a -> P b -> P (ETern c a b).
  Hypothesis HSeq : forall es, Forall P es -> P (ESeq es).
  Hypothesis HAcc : forall l e, P e -> P (EAcc l e).
  Hypothesis HSub : forall a i, P a -> P i -> P (ESub a i).
  Hypothesis HCall : forall hd dirs args, Forall P args -> P (ECall hd dirs args).
  Hypothesis HCtor : forall ty ar es, Forall P es -> P (ECtor ty ar es).
  Hypothesis HOp : forall name args, Forall P args -> P (EOp name args).

  Fixpoint expr_ind' (e : expr) : P e :=
    let all := fix all (l : list expr) : Forall P l :=
                 match l with [] => Forall_nil P | x :: r => Forall_cons x (expr_ind' x) (all r) end in
    match e with
    | ELoc x => HLoc x
    | ELeaf l => HLeaf l
    | EGlob n => HGlob n
    | ETern c a b => HTern c a b (expr_ind' c) (expr_ind' a) (expr_ind' b)
    | ESeq es => HSeq es (all es)
    | EAcc l e => HAcc l e (expr_ind' e)
    | ESub a i => HSub a i (expr_ind' a) (expr_ind' i)
    | ECall hd dirs args => HCall hd dirs args (all args)
    | ECtor ty ar es => HCtor ty ar es (all es)
    | EOp name args => HOp name args (all args)
    end.
End ExprInd.

Section InitInd.
  Variable P : init -> Prop.
  Hypothesis HN : P INone.
  Hypothesis HE : forall e, P (IExp e).
  Hypothesis HA : forall l, Forall P l -> P (IAgg l).
  Fixpoint init_ind' (i : init) : P i :=
    match i with
    | INone => HN
    | IExp e => HE e
    | IAgg l => HA l ((fix all (l : list init) : Forall P l :=
                         match l with [] => Forall_nil P | x :: r => Forall_cons x (init_ind' x) (all r) end) l)
    end.
End InitInd.

Section StmtInd.
  Variable P : stmt -> Prop.
  Hypothesis HAttr : forall w s, P s -> P (SAttr w s).
  Hypothesis HExpr : forall e, P (SExpr e).
  Hypothesis HVar : forall d, P (SVar d).
  Hypothesis HBlock : forall b, Forall P b -> P (SBlock b).
  Hypothesis HIf : forall c b, Forall P b -> P (SIf c b).
  Hypothesis HIfElse : forall c a b, Forall P a -> Forall P b -> P (SIfElse c a b).
  Hypothesis HFor : forall fi c inc b, Forall P b -> P (SFor fi c inc b).
  Hypothesis HWhile : forall c b, Forall P b -> P (SWhile c b).
  Hypothesis HDo : forall b c, Forall P b -> P (SDo b c).
  Hypothesis HSwitch : forall c b, Forall P b -> P (SSwitch c b).
  Hypothesis HWord : forall l, P (SWord l).
  Hypothesis HRet : forall e, P (SRet e).
  Fixpoint stmt_ind' (s : stmt) : P s :=
    let all := fix all (l : list stmt) : Forall P l :=
                 match l with [] => Forall_nil P | x :: r => Forall_cons x (stmt_ind' x) (all r) end in
    match s with
    | SAttr w s => HAttr w s (stmt_ind' s)
    | SExpr e => HExpr e
    | SVar d => HVar d
    | SBlock b => HBlock b (all b)
    | SIf c b => HIf c b (all b)
    | SIfElse c a b => HIfElse c a b (all a) (all b)
    | SFor fi c inc b => HFor fi c inc b (all b)
    | SWhile c b => HWhile c b (all b)
    | SDo b c => HDo b c (all b)
    | SSwitch c b => HSwitch c b (all b)
    | SWord l => HWord l
    | SRet e => HRet e
    end.
End StmtInd.

(* ---- (1) the encoding commutes with renaming ---- *)
Lemma rename_id r a : rename r (Id a) = Id (rn_id r a).
Proof. unfold rename, rn_id. destruct (lookup_l r a); reflexivity. Qed.

Lemma map_ws r l : map (rename r) (ws l) = ws l.
Proof. unfold ws. rewrite map_map. reflexivity. Qed.

Lemma map_flat_map {A} (f : tok -> tok) (g : A -> list tok) l : map f (flat_map g l) = flat_map (fun x => map f (g x)) l.
Proof. induction l as [|x l IH]; cbn; [reflexivity|]. rewrite map_app, IH. reflexivity. Qed.

Lemma flat_map_rn {A} (g : A -> list tok) (h : A -> A) (f : tok -> tok) l :
  Forall (fun x => g (h x) = map f (g x)) l -> flat_map g (map h l) = map f (flat_map g l).
Proof.
  intros H. rewrite map_flat_map. induction H as [|x l Hx _ IH]; cbn; [reflexivity|]. rewrite Hx, IH. reflexivity.
Qed.

Lemma count_map {A B} (h : A -> B) l : count (map h l) = count l.
Proof. unfold count. rewrite map_length. reflexivity. Qed.

Lemma rename_W r s : rename r (W s) = W s. Proof. reflexivity. Qed.
Lemma rename_count {A} r (l : list A) : rename r (count l) = count l. Proof. reflexivity. Qed.

Ltac norm r := repeat (progress (rewrite ?map_app, ?map_ws, ?count_map, ?rename_id, ?rename_W, ?rename_count; cbn [map])).

Ltac use_ih := repeat match goal with H : _ = map (rename _) _ |- _ => rewrite H; clear H end.

Lemma enc_rn r e : enc (rn r e) = map (rename r) (enc e).
Proof.
  induction e using expr_ind'; cbn [rn enc]; norm r; use_ih;
    repeat match goal with H : Forall _ ?b |- _ => rewrite (flat_map_rn enc (rn r) (rename r) b H); clear H end;
    try reflexivity.
  f_equal. f_equal. f_equal. f_equal.
  induction dirs as [|d dirs IHd]; cbn [flat_map map]; [reflexivity|]. norm r. rewrite <- IHd. reflexivity.
Qed.

Lemma enc_init_rn r i : enc_init (rn_init r i) = map (rename r) (enc_init i).
Proof.
  induction i using init_ind'; cbn [rn_init enc_init]; norm r; rewrite ?enc_rn;
    repeat match goal with H : Forall _ ?b |- _ => rewrite (flat_map_rn enc_init (rn_init r) (rename r) b H); clear H end;
    reflexivity.
Qed.

Lemma enc_vardef_rn r d : enc_vardef (rn_vardef r d) = map (rename r) (enc_vardef d).
Proof. destruct d as [[x l] i]. cbn [rn_vardef enc_vardef]. norm r. rewrite enc_init_rn. reflexivity. Qed.

Lemma enc_opt_rn r o : enc_opt (rn_opt r o) = map (rename r) (enc_opt o).
Proof. destruct o as [e|]; cbn; [rewrite enc_rn|]; reflexivity. Qed.

Lemma enc_stmt_rn r s : enc_stmt (rn_stmt r s) = map (rename r) (enc_stmt s).
Proof.
  induction s using stmt_ind'; cbn [rn_stmt enc_stmt]; norm r;
    rewrite ?enc_rn, ?enc_opt_rn, ?enc_vardef_rn;
    repeat match goal with H : Forall _ ?b |- _ => rewrite (flat_map_rn enc_stmt (rn_stmt r) (rename r) b H); clear H end;
    use_ih; try reflexivity.
  f_equal. f_equal. destruct fi as [|e|ds]; cbn [map rename]; norm r; rewrite ?enc_rn; try reflexivity.
    rewrite (flat_map_rn enc_vardef (rn_vardef r) (rename r)); [reflexivity|].
    apply Forall_forall. intros d _. apply enc_vardef_rn.
Qed.

Lemma enc_param_rn r p : enc_param (rn_param r p) = map (rename r) (enc_param p).
Proof. destruct p as [[[x d] ty] o]. cbn [rn_param enc_param]. norm r. rewrite enc_opt_rn. reflexivity. Qed.

Theorem enc_func_rn r f : enc_func (rn_func r f) = map (rename r) (enc_func f).
Proof.
  unfold enc_func, enc_block, rn_func. cbn [f_ret f_params f_body]. norm r.
  rewrite (flat_map_rn enc_param (rn_param r) (rename r)) by (apply Forall_forall; intros p _; apply enc_param_rn).
  rewrite (flat_map_rn enc_stmt (rn_stmt r) (rename r)) by (apply Forall_forall; intros p _; apply enc_stmt_rn).
  reflexivity.
Qed.

(* ---- (2) the evaluator is blind to the identity of locals ---- *)
Lemma cov_app r a b : covered r (a ++ b) <-> covered r a /\ covered r b.
Proof.
  unfold covered. split.
  - intros H. split; intros x Hx; apply H, in_or_app; [left|right]; exact Hx.
  - intros [Ha Hb] x Hx. apply in_app_or in Hx as [Hx|Hx]; [apply Ha|apply Hb]; exact Hx.
Qed.
Lemma cov_cons r t l : covered r (t :: l) -> covered r l.
Proof. intros H x Hx. apply H. right. exact Hx. Qed.
Lemma cov_flat {A} r (g : A -> list tok) l : covered r (flat_map g l) -> Forall (fun x => covered r (g x)) l.
Proof.
  induction l as [|x l IH]; cbn [flat_map]; intros H; constructor.
  - apply cov_app in H. apply H.
  - apply IH. apply cov_app in H. apply H.
Qed.
Lemma cov_id r x l : covered r (Id x :: l) -> lookup_l r x = Some (rn_id r x).
Proof.
  intros H. unfold rn_id. destruct (lookup_l r x) eqn:E; [reflexivity|]. exfalso. apply (H x); [left; reflexivity|exact E].
Qed.

(* split a coverage hypothesis into the coverage of the pieces *)
Ltac cov :=
  repeat match goal with
         | H : covered _ (_ ++ _) |- _ => apply cov_app in H; destruct H
         | H : covered _ (W _ :: _) |- _ => apply cov_cons in H
         | H : covered _ (count _ :: _) |- _ => apply cov_cons in H
         | H : covered _ (ws _ ++ _) |- _ => apply cov_app in H; destruct H
         end.

Lemma cov_some r e : covered r (enc e) -> covered r (enc_opt (Some e)).
Proof. intros H a Ha. destruct Ha as [Ha|Ha]; [discriminate|apply H; exact Ha]. Qed.

Section Equiv.
  Context {V G : Type} (I : interp V G).
  Variable r : corr.
  Hypothesis B : bij r.
  Local Notation ST := (@st V G).
  Local Notation LV := (@lv V).

  Definition Rel (l l' : (@locals V)) : Prop := forall a b, lookup_l r a = Some b -> l a = l' b.
  Definition RelSt (s s' : ST) : Prop := Rel (fst s) (fst s') /\ snd s = snd s'.
  Definition RelO {A} (RA : A -> A -> Prop) (o o' : option (A * ST)) : Prop :=
    match o, o' with
    | None, None => True
    | Some (a, s), Some (a', s') => RA a a' /\ RelSt s s'
    | _, _ => False
    end.
  Definition RelS (o o' : option (ST)) : Prop :=
    match o, o' with None, None => True | Some s, Some s' => RelSt s s' | _, _ => False end.

  Definition RelB (b b' : base) : Prop :=
    match b, b' with
    | BLoc x, BLoc x' => lookup_l r x = Some x'
    | BGlob n, BGlob n' => n = n'
    | _, _ => False
    end.
  Definition RelLv (p p' : LV) : Prop := RelB (fst p) (fst p') /\ snd p = snd p'.

  Lemma upd_rel l l' x x' v : Rel l l' -> lookup_l r x = Some x' -> Rel (upd l x v) (upd l' x' v).
  Proof.
    intros H Hx a b Hab. unfold upd. destruct (N.eqb a x) eqn:E.
    - apply N.eqb_eq in E. subst a. assert (b = x') by congruence. subst b. rewrite N.eqb_refl. reflexivity.
    - destruct (N.eqb b x') eqn:E'; [|apply H; exact Hab].
      apply N.eqb_eq in E'. subst b. destruct B as [B1 _].
      pose proof (B1 _ _ Hab) as R1. pose proof (B1 _ _ Hx) as R2. rewrite R1 in R2. inversion R2. subst.
      rewrite N.eqb_refl in E. discriminate.
  Qed.

  Lemma bind_rel {A C} (RA : A -> A -> Prop) (RC : C -> C -> Prop) o o' k k' :
    RelO RA o o' -> (forall a a' t t', RA a a' -> RelSt t t' -> RelO RC (k a t) (k' a' t')) ->
    RelO RC (bind o k) (bind o' k').
  Proof.
    intros H K. destruct o as [[a t]|], o' as [[a' t']|]; cbn in *; try contradiction; [|exact Logic.I].
    destruct H as [Ha Ht]. apply K; assumption.
  Qed.

  Lemma lift_rel {A} (o : option A) s s' : RelSt s s' -> RelO eq (lift o s) (lift o s').
  Proof. intros H. destruct o; cbn; [split; [reflexivity|exact H]|exact Logic.I]. Qed.

  Lemma base_get_rel b b' s s' : RelB b b' -> RelSt s s' -> base_get I b s = base_get I b' s'.
  Proof.
    intros Hb [Hl Hg]. destruct b, b'; cbn in *; try contradiction.
    - apply Hl. exact Hb.
    - subst. rewrite Hg. reflexivity.
  Qed.

  Lemma base_put_rel b b' v s s' : RelB b b' -> RelSt s s' -> RelS (base_put I b v s) (base_put I b' v s').
  Proof.
    intros Hb [Hl Hg]. destruct b, b'; cbn in *; try contradiction.
    - split; [apply upd_rel; assumption|exact Hg].
    - subst. rewrite Hg. destruct (gput I n0 v (snd s')); cbn; [split; [exact Hl|reflexivity]|exact Logic.I].
  Qed.

  Lemma lv_get_rel p p' s s' : RelLv p p' -> RelSt s s' -> lv_get I p s = lv_get I p' s'.
  Proof. intros [Hb Hp] Hs. unfold lv_get. rewrite (base_get_rel _ _ _ _ Hb Hs), Hp. reflexivity. Qed.

  Lemma lv_put_rel p p' v s s' : RelLv p p' -> RelSt s s' -> RelS (lv_put I p v s) (lv_put I p' v s').
  Proof.
    intros [Hb Hp] Hs. unfold lv_put. rewrite <- Hp. destruct (snd p) as [|a q]; [apply base_put_rel; assumption|].
    rewrite (base_get_rel _ _ _ _ Hb Hs). destruct (base_get I (fst p') s'); [|exact Logic.I].
    destruct (path_put I (a :: q) v0 v); [apply base_put_rel; assumption|exact Logic.I].
  Qed.

  (* the expression level, given the evaluator with less fuel *)
  Section Level.
    Variable evf : expr -> ST -> option (V * ST).
    Hypothesis IH : forall e s s', covered r (enc e) -> RelSt s s' -> RelO eq (evf e s) (evf (rn r e) s').

    Lemma evs_rel es : forall s s', Forall (fun e => covered r (enc e)) es -> RelSt s s' ->
      RelO eq (evs evf es s) (evs evf (map (rn r) es) s').
    Proof.
      induction es as [|e es IHes]; intros s s' C Hs; cbn [evs map]; [split; [reflexivity|exact Hs]|].
      inversion C; subst. eapply bind_rel; [apply IH; assumption|]. intros v v' t t' -> Ht.
      eapply bind_rel; [apply IHes; assumption|]. intros vs vs' u u' -> Hu. split; [reflexivity|exact Hu].
    Qed.

    Lemma lval_rel e : forall s s', covered r (enc e) -> RelSt s s' -> RelO RelLv (lval evf e s) (lval evf (rn r e) s').
    Proof.
      induction e using expr_ind'; intros s s' C Hs; cbn [lval rn enc] in *; try exact Logic.I.
      - split; [|exact Hs]. split; [|reflexivity]. cbn. apply (cov_id r x []). intros a Ha. apply C. right. exact Ha.
      - split; [|exact Hs]. split; reflexivity.
      - cov. eapply bind_rel; [apply IHe; eassumption|]. intros b b' t t' [Hb Hp] Ht. split; [|exact Ht].
        split; cbn; [exact Hb|rewrite Hp; reflexivity].
      - cov. eapply bind_rel; [apply IHe1; eassumption|]. intros b b' t t' [Hb Hp] Ht.
        eapply bind_rel; [apply IH; eassumption|]. intros vi vi' u u' -> Hu. split; [|exact Hu].
        split; cbn; [exact Hb|rewrite Hp; reflexivity].
    Qed.

    Definition RelArg (a a' : option V * option (LV)) : Prop :=
      fst a = fst a' /\ match snd a, snd a' with Some p, Some p' => RelLv p p' | None, None => True | _, _ => False end.

    Lemma evargs_rel dirs : forall es s s', Forall (fun e => covered r (enc e)) es -> RelSt s s' ->
      RelO (Forall2 RelArg) (evargs I evf dirs es s) (evargs I evf dirs (map (rn r) es) s').
    Proof.
      induction dirs as [|d dirs IHd]; intros [|e es] s s' C Hs; cbn [evargs map]; try exact Logic.I;
        try (split; [constructor|exact Hs]).
      inversion C; subst. destruct (String.eqb (fst d) "0").
      - eapply bind_rel; [apply IH; assumption|]. intros v v' t t' -> Ht.
        eapply bind_rel; [apply IHd; assumption|]. intros l l' u u' Hl Hu. split; [|exact Hu].
        constructor; [split; [reflexivity|exact Logic.I]|exact Hl].
      - eapply bind_rel; [apply lval_rel; assumption|]. intros p p' t t' Hp Ht.
        eapply (bind_rel eq).
        + destruct (String.eqb (fst d) "1"); [split; [reflexivity|exact Ht]|].
          rewrite (lv_get_rel _ _ _ _ Hp Ht). apply lift_rel. exact Ht.
        + intros v v' u u' -> Hu. eapply bind_rel; [apply IHd; assumption|]. intros l l' w w' Hl Hw. split; [|exact Hw].
          constructor; [split; [reflexivity|exact Hp]|exact Hl].
    Qed.

    Lemma copy_back_rel l l' : Forall2 RelArg l l' -> forall outs s s', RelSt s s' ->
      RelS (copy_back I l outs s) (copy_back I l' outs s').
    Proof.
      induction 1 as [|a a' l l' Ha _ IHl]; intros outs s s' Hs; cbn [copy_back]; [exact Hs|].
      destruct a as [v [p|]], a' as [v' [p'|]]; destruct Ha as [_ Ha]; cbn in Ha; try contradiction.
      - destruct outs as [|o outs]; [exact Logic.I|].
        pose proof (lv_put_rel _ _ o _ _ Ha Hs) as P. destruct (lv_put I p o s), (lv_put I p' o s'); cbn in P; try contradiction; [|exact Logic.I].
        apply IHl. exact P.
      - destruct outs as [|o outs]; [exact Logic.I|]. apply IHl. exact Hs.
    Qed.

    Lemma map_fst_rel l l' : Forall2 RelArg l l' -> map fst l = map fst l'.
    Proof. induction 1 as [|a a' l l' [Ha _] _ IHl]; cbn; [reflexivity|]. rewrite Ha, IHl. reflexivity. Qed.

    Lemma ev1_rel e s s' : covered r (enc e) -> RelSt s s' -> RelO eq (ev1 I evf e s) (ev1 I evf (rn r e) s').
    Proof.
      intros C Hs. destruct e; cbn [ev1 rn enc] in *.
      - (* ELoc *) destruct Hs as [Hl Hg]. rewrite (Hl x (rn_id r x)).
        + apply lift_rel. split; assumption.
        + apply (cov_id r x []). intros a Ha. apply C. right. exact Ha.
      - destruct Hs as [Hl Hg]. rewrite Hg. apply lift_rel. split; assumption.
      - destruct Hs as [Hl Hg]. rewrite Hg. apply lift_rel. split; assumption.
      - cov. eapply bind_rel; [apply IH; eassumption|]. intros v v' t t' -> Ht.
        destruct (truth I v') as [[|]|]; [apply IH; assumption|apply IH; assumption|exact Logic.I].
      - cov. eapply bind_rel; [apply evs_rel; [apply cov_flat; assumption|exact Hs]|].
        intros vs vs' t t' -> Ht. apply lift_rel. exact Ht.
      - cov. eapply bind_rel; [apply IH; eassumption|]. intros v v' t t' -> Ht. apply lift_rel. exact Ht.
      - cov. eapply bind_rel; [apply IH; eassumption|]. intros v v' t t' -> Ht.
        eapply bind_rel; [apply IH; eassumption|]. intros w w' u u' -> Hu. apply lift_rel. exact Hu.
      - (* ECall *) cov.
        eapply bind_rel; [apply evargs_rel; [apply cov_flat; eassumption|exact Hs]|].
        intros l l' t t' Hl [Ht Hg]. rewrite (map_fst_rel _ _ Hl), Hg.
        destruct (call I hd dirs (map fst l') (snd t')) as [[[v outs] g]|]; [|exact Logic.I].
        assert (Hs1 : RelSt (fst t, g) (fst t', g)) by (split; [exact Ht|reflexivity]).
        pose proof (copy_back_rel _ _ Hl outs _ _ Hs1) as P.
        destruct (copy_back I l outs (fst t, g)), (copy_back I l' outs (fst t', g)); cbn in P; try contradiction; [|exact Logic.I].
        split; [reflexivity|exact P].
      - (* ECtor *) cov. eapply bind_rel; [apply evs_rel; [apply cov_flat; eassumption|exact Hs]|].
        intros vs vs' t t' -> Ht. apply lift_rel. exact Ht.
      - (* EOp *) cov. match goal with H : covered r (flat_map enc _) |- _ => apply cov_flat in H; rename H into CA end.
        destruct (assign_base name) as [b|].
        + destruct args as [|l [|rr [|x args]]]; cbn [map]; try exact Logic.I.
          inversion CA as [|? ? Cl CA1]; subst. inversion CA1 as [|? ? Cr _]; subst.
          eapply bind_rel; [apply lval_rel; eassumption|]. intros p p' t t' Hp Ht.
          eapply bind_rel; [apply IH; eassumption|]. intros vr vr' u u' -> Hu.
          rewrite (lv_get_rel _ _ _ _ Hp Hu).
          destruct (match b with Some o => match lv_get I p' u' with Some old => op I o [old; vr'] | None => None end | None => Some vr' end) as [n|]; [|exact Logic.I].
          pose proof (lv_put_rel _ _ n _ _ Hp Hu) as P.
          destruct (lv_put I p n u), (lv_put I p' n u'); cbn in P; try contradiction; [|exact Logic.I].
          split; [reflexivity|exact P].
        + destruct (incdec name) as [pre|].
          * destruct args as [|l [|x args]]; cbn [map]; try exact Logic.I.
            inversion CA as [|? ? Cl _]; subst.
            eapply bind_rel; [apply lval_rel; eassumption|]. intros p p' t t' Hp Ht.
            rewrite (lv_get_rel _ _ _ _ Hp Ht). destruct (lv_get I p' t') as [old|]; [|exact Logic.I].
            destruct (op I name [old]) as [n|]; [|exact Logic.I].
            pose proof (lv_put_rel _ _ n _ _ Hp Ht) as P.
            destruct (lv_put I p n t), (lv_put I p' n t'); cbn in P; try contradiction; [|exact Logic.I].
            split; [reflexivity|exact P].
          * eapply bind_rel; [apply evs_rel; [exact CA|exact Hs]|]. intros vs vs' t t' -> Ht. apply lift_rel. exact Ht.
    Qed.
  End Level.

  Theorem ev_rel : forall fuel e s s', covered r (enc e) -> RelSt s s' -> RelO eq (ev I fuel e s) (ev I fuel (rn r e) s').
  Proof.
    induction fuel as [|f IHf]; intros e s s' C Hs; cbn [ev]; [exact Logic.I|]. apply ev1_rel; [exact IHf|exact C|exact Hs].
  Qed.

  (* ---- statements ---- *)
  Lemma ev_init_rel : forall fuel ty i s s', covered r (enc_init i) -> RelSt s s' ->
    RelO eq (ev_init I fuel ty i s) (ev_init I fuel ty (rn_init r i) s').
  Proof.
    induction fuel as [|f IHf]; intros ty i s s' C Hs; cbn [ev_init]; [exact Logic.I|].
    destruct i as [|e|l]; cbn [rn_init enc_init] in *.
    - apply lift_rel. exact Hs.
    - apply ev_rel; [cov; assumption|exact Hs].
    - cov. match goal with H : covered r (flat_map enc_init _) |- _ => apply cov_flat in H; rename H into CA end.
      eapply bind_rel with (RA := eq).
      + revert s s' Hs. induction l as [|x l IHl]; intros s s' Hs; cbn [map]; [split; [reflexivity|exact Hs]|].
        inversion CA; subst. eapply bind_rel; [apply IHf; eassumption|]. intros v v' t t' -> Ht.
        eapply bind_rel; [apply IHl; assumption|]. intros vs vs' u u' -> Hu. split; [reflexivity|exact Hu].
      + intros vs vs' t t' -> Ht. apply lift_rel. exact Ht.
  Qed.

  Lemma ex_vardef_rel fuel d s s' : covered r (enc_vardef d) -> RelSt s s' ->
    RelS (ex_vardef I fuel d s) (ex_vardef I fuel (rn_vardef r d) s').
  Proof.
    destruct d as [[x ty] i]. cbn [enc_vardef rn_vardef ex_vardef]. intros C Hs.
    pose proof (cov_id r x _ C) as Hx. apply cov_cons in C. cov.
    pose proof (ev_init_rel fuel ty i s s' ltac:(assumption) Hs) as P.
    destruct (ev_init I fuel ty i s) as [[v t]|], (ev_init I fuel ty (rn_init r i) s') as [[v' t']|]; cbn in P; try contradiction; [|exact Logic.I].
    destruct P as [-> [Hl Hg]]. split; cbn; [apply upd_rel; assumption|exact Hg].
  Qed.

  Lemma ex_vardefs_rel fuel ds : forall s s', Forall (fun d => covered r (enc_vardef d)) ds -> RelSt s s' ->
    RelS (ex_vardefs I fuel ds s) (ex_vardefs I fuel (map (rn_vardef r) ds) s').
  Proof.
    induction ds as [|d ds IHd]; intros s s' C Hs; cbn [ex_vardefs map]; [exact Hs|]. inversion C; subst.
    pose proof (ex_vardef_rel fuel d s s' ltac:(assumption) Hs) as P.
    destruct (ex_vardef I fuel d s), (ex_vardef I fuel (rn_vardef r d) s'); cbn in P; try contradiction; [|exact Logic.I].
    apply IHd; assumption.
  Qed.

  Lemma cond_rel fuel c s s' : covered r (enc_opt c) -> RelSt s s' -> RelO eq (cond I fuel c s) (cond I fuel (rn_opt r c) s').
  Proof.
    intros C Hs. destruct c as [e|]; cbn [cond rn_opt option_map enc_opt] in *; [|split; [reflexivity|exact Hs]].
    cov. pose proof (ev_rel fuel e s s' C Hs) as P.
    destruct (ev I fuel e s) as [[v t]|], (ev I fuel (rn r e) s') as [[v' t']|]; cbn in P; try contradiction; [|exact Logic.I].
    destruct P as [-> Ht]. destruct (truth I v'); [split; [reflexivity|exact Ht]|exact Logic.I].
  Qed.

  Lemma find_case_rn b v : find_case I (map (rn_stmt r) b) v = option_map (option_map (map (rn_stmt r))) (find_case I b v).
  Proof.
    induction b as [|x b IH]; [reflexivity|]. cbn [map].
    destruct x; cbn [rn_stmt find_case]; try exact IH.
    destruct ws as [|w cw]; [exact IH|]. destruct (String.eqb w "SCase"); [|exact IH].
    destruct (case_match I cw v) as [[|]|]; [reflexivity|exact IH|reflexivity].
  Qed.

  Lemma find_default_rn b : find_default (map (rn_stmt r) b) = option_map (map (rn_stmt r)) (find_default b).
  Proof.
    induction b as [|x b IH]; [reflexivity|]. cbn [map].
    destruct x; cbn [rn_stmt find_default]; try exact IH.
    destruct ws as [|w [|w2 l]]; try exact IH. destruct (String.eqb w "SDefault"); [reflexivity|exact IH].
  Qed.

  Lemma find_case_suffix (P : stmt -> Prop) b v r0 : find_case I b v = Some (Some r0) -> Forall P b -> Forall P r0.
  Proof.
    induction b as [|x b IH]; intros H F; [discriminate|]. inversion F as [|? ? Px Fb]; subst.
    destruct x; cbn [find_case] in H; try (apply IH; assumption).
    destruct ws as [|w cw]; [apply IH; assumption|]. destruct (String.eqb w "SCase"); [|apply IH; assumption].
    destruct (case_match I cw v) as [[|]|]; [inversion H; subst; exact Fb|apply IH; assumption|discriminate].
  Qed.

  Lemma find_default_suffix (P : stmt -> Prop) b r0 : find_default b = Some r0 -> Forall P b -> Forall P r0.
  Proof.
    induction b as [|x b IH]; intros H F; [discriminate|]. inversion F as [|? ? Px Fb]; subst.
    destruct x; cbn [find_default] in H; try (apply IH; assumption).
    destruct ws as [|w [|w2 l]]; try (apply IH; assumption).
    destruct (String.eqb w "SDefault"); [inversion H; subst; exact Fb|apply IH; assumption].
  Qed.

  Section SLevel.
    Variable exf : stmt -> ST -> option (outcome (V := V) * ST).
    Variable fuel : nat.
    Hypothesis IH : forall x s s', covered r (enc_stmt x) -> RelSt s s' -> RelO eq (exf x s) (exf (rn_stmt r x) s').

    Lemma ex_block_rel b : forall s s', Forall (fun x => covered r (enc_stmt x)) b -> RelSt s s' ->
      RelO eq (ex_block exf b s) (ex_block exf (map (rn_stmt r) b) s').
    Proof.
      induction b as [|x b IHb]; intros s s' C Hs; cbn [ex_block map]; [split; [reflexivity|exact Hs]|].
      inversion C; subst. pose proof (IH x s s' ltac:(assumption) Hs) as P.
      destruct (exf x s) as [[o t]|], (exf (rn_stmt r x) s') as [[o' t']|]; cbn in P; try contradiction; [|exact Logic.I].
      destruct P as [<- Ht]. destruct o; try (split; [reflexivity|exact Ht]). apply IHb; assumption.
    Qed.

    Lemma loop_rel c inc b : covered r (enc_opt c) -> covered r (enc_opt inc) -> Forall (fun x => covered r (enc_stmt x)) b ->
      forall n first s s', RelSt s s' ->
      RelO eq (loop I exf fuel n first c inc b s) (loop I exf fuel n first (rn_opt r c) (rn_opt r inc) (map (rn_stmt r) b) s').
    Proof.
      intros Cc Ci Cb. induction n as [|m IHm]; intros first s s' Hs; cbn [loop]; [exact Logic.I|].
      assert (P : RelO eq (if first then Some (true, s) else cond I fuel c s) (if first then Some (true, s') else cond I fuel (rn_opt r c) s')).
      { destruct first; [split; [reflexivity|exact Hs]|apply cond_rel; assumption]. }
      destruct (if first then Some (true, s) else cond I fuel c s) as [[bb t]|],
               (if first then Some (true, s') else cond I fuel (rn_opt r c) s') as [[bb' t']|]; cbn in P; try contradiction; [|exact Logic.I].
      destruct P as [<- Ht]. destruct bb; [|split; [reflexivity|exact Ht]].
      pose proof (ex_block_rel b t t' Cb Ht) as Q.
      destruct (ex_block exf b t) as [[o u]|], (ex_block exf (map (rn_stmt r) b) t') as [[o' u']|]; cbn in Q; try contradiction; [|exact Logic.I].
      destruct Q as [<- Hu].
      assert (K : RelO eq (match inc with
                           | Some e => match ev I fuel e u with Some (_, s3) => loop I exf fuel m false c inc b s3 | None => None end
                           | None => loop I exf fuel m false c inc b u
                           end)
                          (match rn_opt r inc with
                           | Some e => match ev I fuel e u' with Some (_, s3) => loop I exf fuel m false (rn_opt r c) (rn_opt r inc) (map (rn_stmt r) b) s3 | None => None end
                           | None => loop I exf fuel m false (rn_opt r c) (rn_opt r inc) (map (rn_stmt r) b) u'
                           end)).
      { destruct inc as [e|]; cbn [rn_opt option_map enc_opt] in *; [|apply IHm; exact Hu].
        cov. pose proof (ev_rel fuel e u u' Ci Hu) as R.
        destruct (ev I fuel e u) as [[v w]|], (ev I fuel (rn r e) u') as [[v' w']|]; cbn in R; try contradiction; [|exact Logic.I].
        destruct R as [_ Hw]. apply IHm. exact Hw. }
      destruct o; try exact K; split; try reflexivity; exact Hu.
    Qed.

    Lemma ex1_rel x s s' : covered r (enc_stmt x) -> RelSt s s' -> RelO eq (ex1 I exf fuel x s) (ex1 I exf fuel (rn_stmt r x) s').
    Proof.
      intros C Hs. destruct x; cbn [ex1 rn_stmt enc_stmt] in *.
      - apply IH; [cov; exact C|exact Hs].
      - cov. pose proof (ev_rel fuel e s s' C Hs) as P.
        destruct (ev I fuel e s) as [[v t]|], (ev I fuel (rn r e) s') as [[v' t']|]; cbn in P; try contradiction; [|exact Logic.I].
        split; [reflexivity|apply P].
      - cov. pose proof (ex_vardef_rel fuel d s s' C Hs) as P.
        destruct (ex_vardef I fuel d s), (ex_vardef I fuel (rn_vardef r d) s'); cbn in P; try contradiction; [|exact Logic.I].
        split; [reflexivity|exact P].
      - cov. apply ex_block_rel; [apply cov_flat; assumption|exact Hs].
      - cov. pose proof (cond_rel fuel (Some c) s s' ltac:(apply cov_some; assumption) Hs) as P. cbn [rn_opt option_map] in P.
        destruct (cond I fuel (Some c) s) as [[bb t]|], (cond I fuel (Some (rn r c)) s') as [[bb' t']|]; cbn in P; try contradiction; [|exact Logic.I].
        destruct P as [<- Ht]. destruct bb; [|split; [reflexivity|exact Ht]].
        apply ex_block_rel; [apply cov_flat; assumption|exact Ht].
      - cov. pose proof (cond_rel fuel (Some c) s s' ltac:(apply cov_some; assumption) Hs) as P. cbn [rn_opt option_map] in P.
        destruct (cond I fuel (Some c) s) as [[bb t]|], (cond I fuel (Some (rn r c)) s') as [[bb' t']|]; cbn in P; try contradiction; [|exact Logic.I].
        destruct P as [<- Ht]. destruct bb; apply ex_block_rel; try (apply cov_flat; assumption); exact Ht.
      - (* SFor *) apply cov_cons in C. apply cov_app in C as [Cf C]. apply cov_app in C as [Cc C]. apply cov_app in C as [Ci C].
        apply cov_cons in C. apply cov_flat in C.
        assert (P : RelS (match fi with
                          | FEmpty => Some s
                          | FExp e => match ev I fuel e s with Some (_, s1) => Some s1 | None => None end
                          | FDefs ds => ex_vardefs I fuel ds s
                          end)
                         (match (match fi with FEmpty => FEmpty | FExp e => FExp (rn r e) | FDefs ds => FDefs (map (rn_vardef r) ds) end) with
                          | FEmpty => Some s'
                          | FExp e => match ev I fuel e s' with Some (_, s1) => Some s1 | None => None end
                          | FDefs ds => ex_vardefs I fuel ds s'
                          end)).
        { destruct fi as [|e|ds].
          - exact Hs.
          - cov. pose proof (ev_rel fuel e s s' Cf Hs) as R.
            destruct (ev I fuel e s) as [[v t]|], (ev I fuel (rn r e) s') as [[v' t']|]; cbn in R; try contradiction; [|exact Logic.I]. apply R.
          - cov. apply ex_vardefs_rel; [apply cov_flat; assumption|exact Hs]. }
        match type of P with RelS ?a ?b => destruct a, b end; cbn in P; try contradiction; [|exact Logic.I].
        apply loop_rel; assumption.
      - cov. apply (loop_rel (Some c) None); try assumption.
        + apply cov_some; assumption.
        + intros a Ha. destruct Ha as [Ha|[]]. discriminate.
        + apply cov_flat. assumption.
      - cov. apply (loop_rel (Some c) None); try assumption.
        + apply cov_some; assumption.
        + intros a Ha. destruct Ha as [Ha|[]]. discriminate.
        + apply cov_flat. assumption.
      - (* SSwitch *) cov. match goal with H : covered r (flat_map enc_stmt _) |- _ => apply cov_flat in H; rename H into Cb end.
        pose proof (ev_rel fuel c s s' ltac:(assumption) Hs) as P.
        destruct (ev I fuel c s) as [[v t]|], (ev I fuel (rn r c) s') as [[v' t']|]; cbn in P; try contradiction; [|exact Logic.I].
        destruct P as [-> Ht]. rewrite find_case_rn.
        destruct (find_case I b v') as [entry|] eqn:FC; [|exact Logic.I]. cbn [option_map].
        assert (Q : match (match entry with Some r0 => Some r0 | None => find_default b end),
                          (match option_map (map (rn_stmt r)) entry with Some r0 => Some r0 | None => find_default (map (rn_stmt r) b) end) with
                    | Some x, Some y => y = map (rn_stmt r) x /\ Forall (fun z => covered r (enc_stmt z)) x
                    | None, None => True
                    | _, _ => False
                    end).
        { destruct entry as [r0|]; cbn [option_map].
          - split; [reflexivity|]. eapply find_case_suffix; [exact FC|exact Cb].
          - rewrite find_default_rn. destruct (find_default b) as [r0|] eqn:D; cbn [option_map]; [|exact Logic.I].
            split; [reflexivity|]. eapply find_default_suffix; [exact D|exact Cb]. }
        destruct (match entry with Some r0 => Some r0 | None => find_default b end) as [x|],
                 (match option_map (map (rn_stmt r)) entry with Some r0 => Some r0 | None => find_default (map (rn_stmt r) b) end) as [y|];
          try contradiction; [|split; [reflexivity|exact Ht]].
        destruct Q as [-> Cx]. pose proof (ex_block_rel x t t' Cx Ht) as R.
        destruct (ex_block exf x t) as [[o u]|], (ex_block exf (map (rn_stmt r) x) t') as [[o' u']|]; cbn in R; try contradiction; [|exact Logic.I].
        destruct R as [<- Hu]. destruct o; split; try reflexivity; exact Hu.
      - destruct ws as [|w rest]; [exact Logic.I|]. destruct (String.eqb w "SCase"); [split; [reflexivity|exact Hs]|].
        destruct rest; [|exact Logic.I].
        repeat match goal with |- context [if ?c then _ else _] => destruct c end;
          first [exact Logic.I | split; [reflexivity|exact Hs]].
      - cov. pose proof (ev_rel fuel e s s' C Hs) as P.
        destruct (ev I fuel e s) as [[v t]|], (ev I fuel (rn r e) s') as [[v' t']|]; cbn in P; try contradiction; [|exact Logic.I].
        destruct P as [-> Ht]. split; [reflexivity|exact Ht].
    Qed.
  End SLevel.

  Theorem ex_rel : forall fuel x s s', covered r (enc_stmt x) -> RelSt s s' -> RelO eq (ex I fuel x s) (ex I fuel (rn_stmt r x) s').
  Proof.
    induction fuel as [|f IHf]; intros x s s' C Hs; cbn [ex]; [exact Logic.I|]. apply ex1_rel; [exact IHf|exact C|exact Hs].
  Qed.

  (* ---- a function applied to arguments ---- *)
  Lemma bind_params_rel ps : forall args l l', Forall (fun p => covered r (enc_param p)) ps -> Rel l l' ->
    match bind_params ps args l, bind_params (map (rn_param r) ps) args l' with
    | Some m, Some m' => Rel m m'
    | None, None => True
    | _, _ => False
    end.
  Proof.
    induction ps as [|[[[x d] ty] o] ps IHp]; intros [|[v|] args] l l' C H; cbn [bind_params map rn_param]; try exact Logic.I; [exact H| |].
    - inversion C as [|? ? Cp Cr]; subst. apply IHp; [assumption|]. apply upd_rel; [exact H|]. exact (cov_id r x _ Cp).
    - inversion C; subst. apply IHp; assumption.
  Qed.

  Lemma read_outs_rel ps : forall l l', Forall (fun p => covered r (enc_param p)) ps -> Rel l l' ->
    read_outs ps l = read_outs (map (rn_param r) ps) l'.
  Proof.
    induction ps as [|[[[x d] ty] o] ps IHp]; intros l l' C H; cbn [read_outs map rn_param]; [reflexivity|].
    inversion C as [|? ? Cp Cr]; subst. rewrite (IHp l l' Cr H). destruct (String.eqb d "0"); [reflexivity|].
    rewrite (H x (rn_id r x) (cov_id r x _ Cp)). reflexivity.
  Qed.

  Theorem run_rel fuel f args g : covered r (enc_func f) -> run I fuel f args g = run I fuel (rn_func r f) args g.
  Proof.
    intros C. unfold enc_func, enc_block in C. cov.
    match goal with H : covered r (flat_map enc_param _) |- _ => apply cov_flat in H; rename H into Cp end.
    match goal with H : covered r (flat_map enc_stmt _) |- _ => apply cov_flat in H; rename H into Cb end.
    unfold run. cbn [rn_func f_params f_body].
    pose proof (bind_params_rel (f_params f) args (fun _ => None) (fun _ => None) Cp ltac:(intros a b _; reflexivity)) as P.
    destruct (bind_params (f_params f) args (fun _ => None)) as [m|],
             (bind_params (map (rn_param r) (f_params f)) args (fun _ => None)) as [m'|]; try contradiction; [|reflexivity].
    pose proof (ex_block_rel (ex I fuel) (ex_rel fuel) (f_body f) (m, g) (m', g) Cb ltac:(split; [exact P|reflexivity])) as Q.
    destruct (ex_block (ex I fuel) (f_body f) (m, g)) as [[o [l1 g1]]|],
             (ex_block (ex I fuel) (map (rn_stmt r) (f_body f)) (m', g)) as [[o' [l1' g1']]|]; cbn in Q; try contradiction; [|reflexivity].
    destruct Q as [<- [Hl Hg]]. cbn in Hl, Hg. subst g1'. rewrite (read_outs_rel (f_params f) l1 l1' Cp Hl). reflexivity.
  Qed.
End Equiv.

(* ---- (3) what a successful comparison of two dumps means for the functions they encode ---- *)
Theorem pair_same_behaviour {V G} (I : interp V G) f1 l2 r :
  pair [] 0 (enc_func f1) l2 = Same r ->
  l2 = enc_func (rn_func r f1) /\
  forall fuel args g, run I fuel f1 args g = run I fuel (rn_func r f1) args g.
Proof.
  intros H. destruct (pair_sound _ _ _ _ _ bij_nil H) as (Bj & _ & M & C). split.
  - rewrite enc_func_rn. symmetry. exact M.
  - intros fuel args g. apply run_rel; assumption.
Qed.
