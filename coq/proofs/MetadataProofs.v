(* MetadataProofs.v — consequences of the slot assignment (Bindings.v) for the reflection data and the text the HLSL
   exporter prints from the same records: which declarations have an entry, and the inline descriptor struct. *)
From Coq Require Import List NArith Bool Lia.
From RV Require Import Bindings BindingsProofs.
Import ListNotations.
Local Open Scope N_scope.

Section M.
Variable okind : Type.
Variable metal2 is_addr : okind -> bool.

Notation decl := (Bindings.decl okind).
Notation assign := (Bindings.assign okind metal2 is_addr).
Notation binding_ok := (BindingsProofs.binding_ok okind metal2 is_addr).
Notation takes_inline := (Bindings.takes_inline okind is_addr).
Notation slot_count := (Bindings.slot_count okind metal2).

Lemma tiles_bound : forall l s o len, tiles s l -> In (o, len) l -> s <= o /\ o + len <= s + total l.
Proof.
  induction l as [|[a n] r IH]; intros s o len Ht Hin; [destruct Hin|].
  cbn [tiles total] in *. destruct Ht as [-> Ht]. destruct Hin as [E|Hin].
  - inversion E; subst. lia.
  - destruct (IH _ _ _ Ht Hin). lia.
Qed.

Lemma inline_len p dflt d b off :
  metal_slot_layout p = false -> binding_ok p dflt d (Some b) -> b_loc b = InlineConstant off -> b_slots b = 1.
Proof.
  intros Hm Hok Hl. cbn in Hok. destruct Hok as (_ & _ & H). rewrite Hl in H. destruct H as [Ht ->].
  unfold Bindings.takes_inline in Ht. unfold Bindings.slot_count, Bindings.slice_cost, Bindings.array_count.
  destruct (d_kind d) eqn:K; try discriminate.
  apply andb_true_iff in Ht. destruct Ht as [_ Ha]. unfold Bindings.decl_is_addr in Ha. rewrite K in Ha.
  destruct (d_array d); [discriminate|]. rewrite Hm. reflexivity.
Qed.

Lemma inline_ranges_len8 p dflt ds bs g :
  metal_slot_layout p = false -> Forall2 (binding_ok p dflt) ds bs ->
  forall o len, In (o, len) (inline_ranges g bs) -> len = 8.
Proof.
  intros Hm F. induction F as [|d ob ds' bs' Hok F IH]; intros o len Hin; [destruct Hin|].
  rewrite inline_ranges_cons in Hin. apply in_app_or in Hin. destruct Hin as [Hin|Hin]; [|apply (IH _ _ Hin)].
  unfold inline_ranges in Hin. cbn [flat_map] in Hin. destruct ob as [[s [i|off] n]|]; cbn in Hin; try contradiction.
  destruct (s =? g); cbn in Hin; [|contradiction]. destruct Hin as [E|[]]. inversion E; subst.
  pose proof (inline_len p dflt d (mkBinding s (InlineConstant o) n) o Hm Hok eq_refl) as H1. cbn in H1. rewrite H1. reflexivity.
Qed.

(* the exporter's inline descriptor struct of a group: one 8-byte member per inline binding, at the binding's offset;
   its assertions `offset + 8 <= size` and `size == 8 * members` hold for every declaration list *)
Theorem inline_descriptor_struct p dflt (ds : list decl) g l z :
  metal_slot_layout p = false ->
  In (g, l, z) (snd (assign p dflt ds)) ->
  let ranges := inline_ranges g (fst (assign p dflt ds)) in
  z = 8 * N.of_nat (List.length ranges) /\
  (forall o len, In (o, len) ranges -> len = 8 /\ o + 8 <= z) /\
  tiles 0 ranges.
Proof.
  intros Hm Hin ranges.
  pose proof (assign_bindings_ok okind metal2 is_addr p dflt ds) as F.
  pose proof (assign_inline_tile okind metal2 is_addr p dflt ds g) as T.
  destruct (assign_blocks okind metal2 is_addr p dflt ds) as (_ & _ & Hb).
  destruct (Hb g l z Hin) as [_ Hz]. fold ranges in Hz, T.
  assert (H8 : forall o len, In (o, len) ranges -> len = 8) by (apply (inline_ranges_len8 p dflt ds _ g Hm F)).
  assert (Htot : total ranges = 8 * N.of_nat (List.length ranges)).
  { clear -H8. induction ranges as [|[o n] r IH]; [reflexivity|]. cbn [total List.length].
    rewrite (H8 o n (or_introl eq_refl)). rewrite IH by (intros; apply (H8 o0 len); right; assumption). lia. }
  split; [lia|]. split; [|exact T].
  intros o len Hi. split; [apply (H8 o len Hi)|].
  destruct (tiles_bound _ _ _ _ T Hi) as [_ Hle]. rewrite (H8 o len Hi) in Hle. lia.
Qed.

End M.
