(* LexerTriviaNum.v — trivia after a decimal integer literal.  A run of digits (no leading zero unless it is `0` alone)
   followed by a character that can neither continue a number nor start a suffix is read as the LiteralInt of its value
   and of exactly its length, whatever comes after that character; trivia inserted behind such a literal therefore
   leaves the sequence of tokens that are not whitespace unchanged (behind any prefix of `Pre`). *)
From Coq Require Import List NArith Bool String Ascii Arith Lia.
From RV Require Import Lexer LexerProofs LexerTrivia LexerTrivia2 LexerTrivia3.
Import ListNotations.
Local Open Scope string_scope.

Section Num.
Variable keywords : list (string * string).
Variable reserved_words : list string.
Variable symbols : list (N * string * option string * option string).
Variable int_suffixes : list (list (list N) * string).
Variable float_suffixes : list (list N * string).
Variable float_is_zero : string -> bool.
Variable utf8_ok : string -> bool.

Notation tok_at := (tok_at keywords reserved_words symbols int_suffixes float_suffixes float_is_zero utf8_ok).
Notation Lexes := (Lexes keywords reserved_words symbols int_suffixes float_suffixes float_is_zero utf8_ok).
Notation lex_file := (lex_file keywords reserved_words symbols int_suffixes float_suffixes float_is_zero utf8_ok).
Notation Pre := (Pre keywords reserved_words symbols int_suffixes float_suffixes float_is_zero utf8_ok).

(* every integer suffix begins with a letter (a check on the regenerated table) *)
Definition suffixes_alpha : bool :=
  forallb (fun '(alts, _) => match alts with
                             | a :: _ => forallb (fun n => is_alpha_ (ascii_of_N n)) a
                             | [] => false
                             end) int_suffixes.

Lemma int_suffix_needs_alpha w r : suffixes_alpha = true -> is_alpha_ w = false -> int_suffix int_suffixes (String w r) = None.
Proof.
  intros Hs Hw. unfold int_suffix.
  assert (F : find (fun '(alts, _) => match_chars alts (String w r)) int_suffixes = None).
  { unfold suffixes_alpha in Hs. induction int_suffixes as [|[alts k] l IH]; [reflexivity|].
    cbn [forallb] in Hs. apply andb_true_iff in Hs as [H1 H2]. cbn [find].
    destruct alts as [|a rest]; [discriminate|]. cbn [match_chars].
    assert (E : existsb (N.eqb (code w)) a = false).
    { destruct (existsb (N.eqb (code w)) a) eqn:X; [|reflexivity]. exfalso.
      apply existsb_exists in X as (n & Hn & En). apply N.eqb_eq in En. subst n.
      rewrite forallb_forall in H1. specialize (H1 _ Hn). unfold code in H1. rewrite ascii_N_embedding in H1. congruence. }
    rewrite E. cbn [andb]. apply IH. exact H2. }
  rewrite F. reflexivity.
Qed.

Definition digitp (c : ascii) : bool := match dec_val c with Some _ => true | None => false end.
Lemma digitp_is_digit c : digitp c = is_digit c.
Proof. unfold digitp, dec_val. destruct (is_digit c); reflexivity. Qed.
Lemma all_digitp a : all is_digit a = true -> all digitp a = true.
Proof. induction a as [|c a IH]; [reflexivity|]. cbn [all]. rewrite digitp_is_digit. intros H. apply andb_true_iff in H as [H1 H2]. rewrite H1, (IH H2). reflexivity. Qed.

(* a character that ends a decimal integer literal *)
Definition ends_number (w : ascii) : Prop :=
  is_ident_char w = false /\ Ascii.eqb w "." = false.

Theorem decimal_int_token c a' v w r :
  suffixes_alpha = true ->
  all is_digit (String c a') = true -> (Ascii.eqb c "0" = true -> a' = "") ->
  accum 10 dec_val (String c a') 0 = Some v ->
  ends_number w ->
  tok_at false (String c a' ++ String w r) = LOk (TInt "LiteralInt" v) (slen (String c a')).
Proof.
  intros Hs Ha Hz Hv (Wi & Wd).
  assert (Wdig : is_digit w = false) by (unfold is_ident_char in Wi; apply orb_false_iff in Wi as [_ H]; exact H).
  assert (Walpha : is_alpha_ w = false) by (unfold is_ident_char in Wi; apply orb_false_iff in Wi as [H _]; exact H).
  assert (Hc : is_digit c = true) by (cbn [all] in Ha; apply andb_true_iff in Ha as [H _]; exact H).
  cbn [append]. cbn [Lexer.tok_at]. rewrite Hc.
  change (String c (a' ++ String w r)) with (String c a' ++ String w r).
  (* the float recogniser declines *)
  assert (F : lex_float float_suffixes float_is_zero (String c a' ++ String w r) = LErr OtherTokenBytes 0).
  { unfold Lexer.lex_float. rewrite (span_stop is_digit (String c a') w r Ha Wdig). rewrite Wd.
    rewrite drop_app. unfold Lexer.lex_exponent.
    assert (We : Ascii.eqb w "e" || Ascii.eqb w "E" = false).
    { destruct (Ascii.eqb w "e") eqn:E1; [apply Ascii.eqb_eq in E1; subst w; discriminate Walpha|].
      destruct (Ascii.eqb w "E") eqn:E2; [apply Ascii.eqb_eq in E2; subst w; discriminate Walpha|]. reflexivity. }
    rewrite We. reflexivity. }
  rewrite F.
  (* the integer recogniser: decimal, the digits of a, no suffix *)
  unfold Lexer.lex_int.
  assert (Hx : starts_with "0x" (String c a' ++ String w r) = false).
  { cbn [append]. unfold starts_with. destruct (Ascii.eqb c "0") eqn:Z.
    - apply Ascii.eqb_eq in Z. subst c. rewrite (Hz eq_refl). cbn [append String.prefix].
      destruct (ascii_dec "0" "0"); [|reflexivity].
      destruct (ascii_dec "x" w) as [E|N]; [subst w; discriminate Walpha | reflexivity].
    - cbn [String.prefix]. destruct (ascii_dec "0" c) as [E|N]; [subst c; discriminate Z | reflexivity]. }
  rewrite Hx.
  assert (Hdec : (let go := fun (skip : nat) (base : N) (dv : ascii -> option N) =>
                   let body := drop skip (String c a' ++ String w r) in
                   let (ds, rest) := span (fun c0 => match dv c0 with Some _ => true | None => false end) body in
                   match ds with
                   | "" => match body with "" => LErr EndOfStream (slen (String c a' ++ String w r)) | _ => LErr UnexpectedBytes skip end
                   | _ => match accum base dv ds 0%N with
                          | None => LErr IntegerLiteralTooLarge skip
                          | Some v0 =>
                              let suf := int_suffix int_suffixes rest in
                              match int_token (option_map fst suf) v0 with
                              | Some t => LOk t (skip + slen ds + match suf with Some (_, n) => n | None => 0 end)
                              | None => LErr IntegerLiteralTooLarge skip
                              end
                          end
                   end in go 0 10%N dec_val) = LOk (TInt "LiteralInt" v) (slen (String c a'))).
  { cbv zeta. cbn [drop].
    change (fun c0 : ascii => match dec_val c0 with Some _ => true | None => false end) with digitp.
    assert (Wp : digitp w = false) by (rewrite digitp_is_digit; exact Wdig).
    rewrite (span_stop digitp (String c a') w r (all_digitp _ Ha) Wp).
    rewrite Hv. rewrite (int_suffix_needs_alpha w r Hs Walpha). cbn [option_map int_token].
    rewrite Nat.add_0_r. reflexivity. }
  cbn [append] in *.
  destruct a' as [|d a''].
  - cbn [append] in *. destruct (Ascii.eqb c "0" && is_octal w) eqn:O; [|exact Hdec].
    exfalso. apply andb_true_iff in O as [_ O]. unfold is_octal in O. unfold is_digit in Wdig.
    apply andb_true_iff in O as [O1 O2]. rewrite O1 in Wdig. cbn [andb] in Wdig.
    apply N.leb_le in O2. apply N.leb_gt in Wdig. lia.
  - cbn [append] in *. destruct (Ascii.eqb c "0") eqn:Z; [specialize (Hz eq_refl); discriminate|]. cbn [andb]. exact Hdec.
Qed.

(* ---- trivia behind a token that does not depend on what follows it ---- *)
Theorem trivia_after_stable_token c a' b last t ts x :
  tok_at false (String c a' ++ b) = LOk t (slen (String c a')) ->
  (forall w r, (blank w \/ w = "\"%char \/ w = "/"%char) -> tok_at false (String c a' ++ String w r) = LOk t (slen (String c a'))) ->
  Trivia x ->
  Lexes (String c a' ++ b) last (t :: ts) ->
  exists ts', Lexes (String c a' ++ x ++ b) last (t :: ts') /\ strip ts' = strip ts.
Proof.
  intros T Stable Tx L.
  destruct (trivia_head x Tx) as (w & x' & Ex & Hw).
  pose proof (Stable w (x' ++ b) Hw) as T'.
  inversion L as [|c0 r0 last0 t0 n0 ts0 T0 L0]; subst.
  change (String c (a' ++ b)) with (String c a' ++ b) in *. rewrite T in T0. inversion T0; subst n0.
  change (S (slen a')) with (slen (String c a')) in L0. rewrite drop_app in L0.
  destruct (trivia_lexes keywords reserved_words symbols int_suffixes float_suffixes float_is_zero utf8_ok (String w x') Tx b (is_endline t)) as (ws & l1 & Fw & Hx).
  destruct (lexes_flag keywords reserved_words symbols int_suffixes float_suffixes float_is_zero utf8_ok b (is_endline t) ts L0 l1) as (ts2 & L2 & S2).
  exists (ws ++ ts2)%list. split.
  - cbn [append]. change (String c (a' ++ String w (x' ++ b))) with (String c a' ++ String w (x' ++ b)).
    apply (LexTok _ _ _ _ _ _ _ c (a' ++ String w (x' ++ b)) last t (slen (String c a')) (ws ++ ts2)%list); [exact T'|].
    change (String c (a' ++ String w (x' ++ b))) with (String c a' ++ String w (x' ++ b)).
    rewrite drop_app.
    change (String w (x' ++ b)) with (String w x' ++ b). apply Hx. exact L2.
  - rewrite strip_ws by exact Fw. exact S2.
Qed.

Lemma trivia_start_ends_number w : (blank w \/ w = "\"%char \/ w = "/"%char) -> ends_number w.
Proof. intros [[ -> | [ -> | -> ] ]|[ -> | -> ]]; split; reflexivity. Qed.

(* ---- trivia behind a decimal integer literal, behind any prefix of tokens and trivia ---- *)
Theorem trivia_after_decimal_int_behind_prefix p c a' v b x spans :
  suffixes_alpha = true ->
  Pre c p ->
  all is_digit (String c a') = true -> (Ascii.eqb c "0" = true -> a' = "") ->
  accum 10 dec_val (String c a') 0 = Some v ->
  tok_at false (String c a' ++ b) = LOk (TInt "LiteralInt" v) (slen (String c a')) ->
  Trivia x ->
  lex_file (p ++ String c a' ++ b) = SOk spans ->
  exists spans', lex_file (p ++ String c a' ++ x ++ b) = SOk spans' /\ strip (toks spans') = strip (toks spans).
Proof.
  intros Hs Pp Ha Hz Hv T Tx H. set (t := TInt "LiteralInt" v) in *. unfold Lexer.lex_file in *.
  destruct (lex_all_sound _ _ _ _ _ _ _ _ _ _ _ _ _ H) as (l & E & L). cbn [rev toks map app] in E.
  change (String c a' ++ b) with (String c (a' ++ b)) in L.
  destruct (pre_lexes_inv keywords reserved_words symbols int_suffixes float_suffixes float_is_zero utf8_ok c p Pp (a' ++ b) true l L) as (tp0 & l1 & tr & El & Lr).
  assert (exists tsr, tr = t :: tsr) as (tsr & ->).
  { inversion Lr as [|c0 r0 last0 t1 n0 ts1 T0 L0]; subst. change (String c (a' ++ b)) with (String c a' ++ b) in T0.
    rewrite T in T0. inversion T0; subst. eexists. reflexivity. }
  change (String c (a' ++ b)) with (String c a' ++ b) in Lr.
  destruct (trivia_after_stable_token c a' b l1 t tsr x T) as (ts' & L' & S').
  { intros w r Hw. apply (decimal_int_token c a' v w r Hs Ha Hz Hv). apply trivia_start_ends_number. exact Hw. }
  { exact Tx. }
  { exact Lr. }
  destruct (pre_lexes keywords reserved_words symbols int_suffixes float_suffixes float_is_zero utf8_ok c p Pp) as (tp & Hp).
  change (String c a' ++ x ++ b) with (String c (a' ++ x ++ b)) in L'.
  destruct (Hp (a' ++ x ++ b) true l1 (t :: ts') L') as (l2 & trn & Lnew & _ & Sn).
  change (String c a' ++ b) with (String c (a' ++ b)) in Lr.
  destruct (Hp (a' ++ b) true l1 (t :: tsr) Lr) as (l3 & tro & Lold & _ & So).
  pose proof (lexes_det _ _ _ _ _ _ _ _ _ _ L _ Lold) as Eold.
  change (String c (a' ++ x ++ b)) with (String c a' ++ x ++ b) in Lnew.
  destruct (lex_all_complete _ _ _ _ _ _ _ _ _ _ Lnew (S (slen (p ++ String c a' ++ x ++ b))) 0 [] ltac:(lia)) as (sp & E' & M').
  exists sp. split; [exact E'|]. cbn [rev toks map app] in M'. rewrite M', E, Eold.
  unfold strip in *. rewrite !filter_app. rewrite Sn, So. cbn [filter]. unfold t. cbn [is_ws negb]. f_equal. f_equal. exact S'.
Qed.

End Num.
