(* MacroIrrelevant.v — the replacement lists of macros whose names the program never mentions (and cannot paste) do
   not influence the expansion: two macro tables that differ only in the bodies / parameter counts of such macros give
   the same result for every token list.  Instantiated for RSSL_TARGET_HLSL / RSSL_TARGET_MSL in props/C18.v. *)
From Coq Require Import List NArith Bool String Arith Lia.
From RV Require Import Macro MacroProofs.
Import ListNotations.
Local Open Scope list_scope.

Section Irr.
Variable T : string -> bool.                       (* the names whose definitions differ *)
Variable paste : mtok -> mtok -> option mtok.

Definition cleanb (t : mtok) : bool := match t with MId x => negb (T x) | _ => true end.
Definition clean (l : list mtok) : Prop := Forall (fun t => cleanb t = true) l.

Hypothesis Hpaste : forall a b t, paste a b = Some t -> cleanb t = true.

Definition same_shape (a b : macro) : Prop :=
  m_name a = m_name b /\ m_fn a = m_fn b /\ (T (m_name a) = true \/ (a = b /\ clean (m_body a))).
Definition rel (defs defs' : list macro) : Prop := Forall2 same_shape defs defs'.

(* ---------- cleanliness is closed under the list operations of the expander ---------- *)
Lemma clean_app a b : clean a -> clean b -> clean (a ++ b).
Proof. intros. apply Forall_app. split; assumption. Qed.
Lemma clean_app_l a b : clean (a ++ b) -> clean a.
Proof. intros H. apply Forall_app in H. tauto. Qed.
Lemma clean_app_r a b : clean (a ++ b) -> clean b.
Proof. intros H. apply Forall_app in H. tauto. Qed.
Lemma clean_rev a : clean a -> clean (rev a).
Proof. apply Forall_rev. Qed.
Lemma clean_firstn n a : clean a -> clean (firstn n a).
Proof. intros H. rewrite <- (firstn_skipn n a) in H. apply clean_app_l in H. exact H. Qed.
Lemma clean_skipn n a : clean a -> clean (skipn n a).
Proof. intros H. rewrite <- (firstn_skipn n a) in H. apply clean_app_r in H. exact H. Qed.

Lemma clean_trim_start l : clean l -> clean (trim_start l).
Proof. intros H. destruct (trim_start_spec l) as [pre E]. rewrite E in H. apply clean_app_r in H. exact H. Qed.
Lemma clean_trim l : clean l -> clean (trim l).
Proof.
  intros H. unfold trim, trim_end. apply clean_rev, clean_trim_start, clean_rev, clean_trim_start, H.
Qed.

Lemma trim_start_all_spec l : exists pre, l = pre ++ trim_start_all l.
Proof.
  induction l as [|t r IH]; [exists []; reflexivity|]. cbn [trim_start_all].
  destruct (is_ws t); [|exists []; reflexivity]. destruct IH as [pre H]. exists (t :: pre). cbn. f_equal. exact H.
Qed.

Lemma split_go_clean : forall l cur depth acc rest args,
  split_args_go l cur depth acc = Some (rest, args) -> clean l -> clean cur -> Forall clean acc ->
  clean rest /\ Forall clean args.
Proof.
  induction l as [|t r IH]; intros cur depth acc rest args H Hl Hc Ha; [discriminate|].
  inversion Hl as [|? ? Ht Hr]; subst.
  assert (Hcons : clean (t :: cur)) by (constructor; assumption).
  destruct t; cbn [split_args_go] in H; try (apply (IH _ _ _ _ _ H); assumption).
  - destruct depth as [|d'].
    + inversion H; subst rest args. split; [exact Hr|].
      assert (Hx : Forall clean (trim (rev cur) :: acc)) by (constructor; [apply clean_trim, clean_rev, Hc | exact Ha]).
      apply Forall_rev in Hx. exact Hx.
    + apply (IH _ _ _ _ _ H); assumption.
  - destruct (Nat.eqb depth 0).
    + apply (IH _ _ _ _ _ H); try assumption; [constructor|]. constructor; [|exact Ha]. apply clean_trim, clean_rev, Hc.
    + apply (IH _ _ _ _ _ H); assumption.
Qed.

Lemma split_args_clean after rest args : split_args after = SOk rest args -> clean after -> clean rest /\ Forall clean args.
Proof.
  intros H Hc. unfold split_args in H. destruct (trim_start_all_spec after) as [pre E].
  rewrite E in Hc. apply clean_app_r in Hc.
  destruct (trim_start_all after) as [|[] r]; try discriminate.
  destruct (split_args_go r [] 0 []) as [[r' a']|] eqn:G; [|discriminate]. inversion H; subst.
  inversion Hc; subst. apply (split_go_clean _ _ _ _ _ _ G); try assumption; constructor.
Qed.

Lemma subst_clean body args : clean body -> Forall clean args -> clean (subst body args).
Proof.
  intros Hb Ha. induction body as [|t r IH]; [constructor|]. inversion Hb; subst.
  destruct t; cbn [subst]; try (constructor; [assumption | apply IH; assumption]).
  apply clean_app; [|apply IH; assumption].
  clear -Ha. revert i. induction Ha as [|x l Hx Hl IHl]; intros [|i]; cbn; try constructor; try assumption. apply IHl.
Qed.

(* ---------- the scan does not depend on bodies ---------- *)
Lemma pick_rel dis : forall defs defs', rel defs defs' ->
  forall mi x after i next lf, pick_macro defs dis mi x after i next lf = pick_macro defs' dis mi x after i next lf.
Proof.
  induction 1 as [|a b l l' Hs F IH]; intros mi x after i next lf; [reflexivity|].
  cbn [pick_macro]. destruct Hs as (Hn & Hf & _). rewrite <- Hn, <- Hf. rewrite !IH. reflexivity.
Qed.

Lemma find_from_rel defs defs' dis next lf : rel defs defs' ->
  forall l before i, find_from defs dis before l i next lf = find_from defs' dis before l i next lf.
Proof.
  intros R. induction l as [|t r IH]; intros before i; [reflexivity|].
  cbn [find_from]. destruct t; try apply IH; try reflexivity.
  rewrite (pick_rel dis defs defs' R). destruct (pick_macro defs' dis 0 s r i next lf); [reflexivity | apply IH].
Qed.

Lemma pick_name dis : forall ds mi0 x after i next lf mi,
  pick_macro ds dis mi0 x after i next lf = Some mi -> exists m, nth_error ds (mi - mi0) = Some m /\ m_name m = x /\ mi0 <= mi.
Proof.
  induction ds as [|m rest IH]; intros mi0 x after i next lf mi H; cbn [pick_macro] in H; [discriminate|].
  assert (Hskip : pick_macro rest dis (S mi0) x after i next lf = Some mi ->
                  exists m0, nth_error (m :: rest) (mi - mi0) = Some m0 /\ m_name m0 = x /\ mi0 <= mi).
  { intros H'. destruct (IH _ _ _ _ _ _ _ H') as (m0 & Hn & Hx & Hle). exists m0.
    replace (mi - mi0) with (S (mi - S mi0)) by lia. cbn [nth_error]. repeat split; [exact Hn | exact Hx | lia]. }
  destruct (nth mi0 dis false); [apply Hskip, H|].
  destruct ((match lf with Some k => Nat.eqb k mi0 | None => false end) && Nat.ltb i next); [apply Hskip, H|].
  destruct (String.eqb_spec x (m_name m)) as [E|_]; [|apply Hskip, H].
  destruct (m_fn m).
  - destruct (nth_error after (first_non_ws_inline after (S i) - S i)) as [[]|]; try (apply Hskip, H).
    destruct (Nat.ltb (first_non_ws_inline after (S i)) next); [apply Hskip, H|].
    inversion H; subst mi. exists m. rewrite Nat.sub_diag. cbn. repeat split; auto.
  - destruct (Nat.ltb i next); [apply Hskip, H|].
    inversion H; subst mi. exists m. rewrite Nat.sub_diag. cbn. repeat split; auto.
Qed.

Lemma rel_nth defs defs' mi m : rel defs defs' -> nth_error defs mi = Some m ->
  exists m', nth_error defs' mi = Some m' /\ same_shape m m'.
Proof.
  intros R. revert mi. induction R as [|a b l l' Hs F IH]; intros [|mi] H; cbn in *; try discriminate.
  - inversion H; subst. exists b. split; [reflexivity | exact Hs].
  - apply IH, H.
Qed.

(* ---------- one loop iteration ---------- *)
Definition agree (r r' : xres) : Prop := r = r' /\ match r with XOk out => clean out | _ => True end.

Lemma all_ok_agree (f g : list mtok -> xres) args : forall acc,
  (forall a, In a args -> agree (f a) (g a)) -> Forall clean acc ->
  all_ok (map f args) acc = all_ok (map g args) acc /\
  match all_ok (map f args) acc with inr l => Forall clean l | inl _ => True end.
Proof.
  induction args as [|a r IH]; intros acc H Hacc; cbn [map all_ok].
  - split; [reflexivity | apply Forall_rev, Hacc].
  - destruct (H a (or_introl eq_refl)) as [E Hc]. rewrite <- E. destruct (f a) as [out| | |]; try (split; [reflexivity | exact Logic.I]).
    apply IH; [intros b Hb; apply H; right; exact Hb | constructor; assumption].
Qed.

Lemma all_ok_inl l : forall acc e, all_ok l acc = inl e -> forall out, e <> XOk out.
Proof.
  induction l as [|x r IH]; intros acc e H out; cbn [all_ok] in H; [discriminate|].
  destruct x; try (inversion H; subst; discriminate). apply (IH _ _ H).
Qed.

Lemma loop_step_agree defs defs' self self' inner inner' dis toks next early lf :
  rel defs defs' -> clean toks ->
  (forall t n e l, clean t -> agree (self t n e l) (self' t n e l)) ->
  (forall mi out, clean out -> agree (inner mi out) (inner' mi out)) ->
  agree (loop_step paste defs self inner dis toks next early lf) (loop_step paste defs' self' inner' dis toks next early lf).
Proof.
  intros R Hc Hself Hinner. unfold loop_step.
  destruct (Nat.leb (List.length toks) next); [split; [reflexivity | exact Hc]|].
  unfold find. rewrite <- (find_from_rel defs defs' dis next lf R).
  pose proof (find_from_spec defs dis next lf (skipn early toks) (rev (firstn early toks)) early) as Hspec.
  destruct (find_from defs dis (rev (firstn early toks)) (skipn early toks) early next lf) as [mi pos|lp rp| |e|];
    try (split; [reflexivity | try exact Logic.I; exact Hc]).
  - (* invocation *)
    destruct Hspec as (mid & x & tail & Hl & Hpos & _ & Hpick).
    destruct (pick_name dis defs 0 x tail pos next lf mi Hpick) as (m & Hm & Hx & _). rewrite Nat.sub_0_r in Hm.
    destruct (rel_nth defs defs' mi m R Hm) as (m' & Hm' & Hs). rewrite Hm, Hm'.
    (* the invoked name occurs in the token list, so it is not one of the differing macros *)
    assert (Hin : In (MId x) toks).
    { rewrite <- (firstn_skipn early toks). apply in_or_app. right. rewrite Hl. apply in_or_app. right. left. reflexivity. }
    assert (Hcx : T x = false).
    { unfold clean in Hc. rewrite Forall_forall in Hc. specialize (Hc _ Hin). cbn in Hc. destruct (T x); [discriminate | reflexivity]. }
    destruct Hs as (_ & _ & [Ht|[<- Hbody]]); [rewrite Hx in Ht; congruence|].
    assert (Hafter : clean (skipn (S pos) toks)) by (apply clean_skipn, Hc).
    assert (Hstep : forall rest args, clean rest -> Forall clean args ->
      agree (match all_ok (map (fun a => self a 0 0 None) args) [] with
             | inl e => e
             | inr args' => match inner mi (subst (m_body m) args') with
                            | XOk out => self (firstn pos toks ++ out ++ rest) (pos + List.length out) pos (if m_fn m then Some mi else None)
                            | e => e end end)
            (match all_ok (map (fun a => self' a 0 0 None) args) [] with
             | inl e => e
             | inr args' => match inner' mi (subst (m_body m) args') with
                            | XOk out => self' (firstn pos toks ++ out ++ rest) (pos + List.length out) pos (if m_fn m then Some mi else None)
                            | e => e end end)).
    { intros rest args Hr Ha.
      destruct (all_ok_agree (fun a => self a 0 0 None) (fun a => self' a 0 0 None) args []) as [E Hcl].
      - intros a Hin'. apply Hself. rewrite Forall_forall in Ha. apply Ha, Hin'.
      - constructor.
      - rewrite <- E. destruct (all_ok (map (fun a => self a 0 0 None) args) []) as [e|args'] eqn:Ea.
        + split; [reflexivity|]. destruct e as [out| | |]; try exact Logic.I.
          exfalso. exact (all_ok_inl _ _ _ Ea out eq_refl).
        + destruct (Hinner mi (subst (m_body m) args') (subst_clean _ _ Hbody Hcl)) as [Ei Hci]. rewrite <- Ei.
          destruct (inner mi (subst (m_body m) args')) as [out| | |]; try (split; [reflexivity | exact Logic.I]).
          apply Hself. apply clean_app; [apply clean_firstn, Hc | apply clean_app; assumption]. }
    destruct (m_fn m).
    + destruct (split_args (skipn (S pos) toks)) as [rest args|e] eqn:Hsa; [|split; [reflexivity | exact Logic.I]].
      destruct (split_args_clean _ _ _ Hsa Hafter) as [Hr Ha].
      destruct (Nat.eqb (m_params m) 0).
      * destruct args as [|a0 [|a1 ar]]; try (split; [reflexivity | exact Logic.I]).
        destruct (forallb is_ws a0); [|split; [reflexivity | exact Logic.I]].
        apply Hstep; [exact Hr | constructor].
      * destruct (Nat.eqb (List.length args) (m_params m)); [|split; [reflexivity | exact Logic.I]].
        apply Hstep; assumption.
    + apply Hstep; [exact Hafter | constructor].
  - (* ## *)
    destruct (nth_error toks lp) as [a|] eqn:Ha; [|split; [reflexivity | exact Logic.I]].
    destruct (nth_error toks rp) as [b|] eqn:Hb; [|split; [reflexivity | exact Logic.I]].
    destruct (paste a b) as [t|] eqn:Hp; [|split; [reflexivity | exact Logic.I]].
    apply Hself. apply clean_app; [apply clean_firstn, Hc|]. constructor; [apply (Hpaste _ _ _ Hp) | apply clean_skipn, Hc].
Qed.

Theorem expand_agree defs defs' : rel defs defs' ->
  forall d dis n toks next early lf, clean toks ->
  agree (expand paste defs d dis n toks next early lf) (expand paste defs' d dis n toks next early lf).
Proof.
  intros R. induction d as [|d IHd]; intros dis; [intros; split; [reflexivity | exact Logic.I]|].
  induction n as [|n IHn]; intros toks next early lf Hc; [split; [reflexivity | exact Logic.I]|].
  rewrite !expand_eq. apply loop_step_agree; try assumption.
  intros mi out Ho. apply IHd. exact Ho.
Qed.

End Irr.

(* ---------- whole token lists, whole files ---------- *)
Section Irr2.
Variable T : string -> bool.
Variable paste : mtok -> mtok -> option mtok.
Hypothesis Hpaste : forall a b t, paste a b = Some t -> cleanb T t = true.

Lemma rel_length defs defs' : rel T defs defs' -> List.length defs = List.length defs'.
Proof. induction 1; cbn; congruence. Qed.

Theorem apply_macros_agree defs defs' toks :
  rel T defs defs' -> clean T toks ->
  apply_macros paste defs toks = apply_macros paste defs' toks /\
  match apply_macros paste defs toks with XOk out => clean T out | _ => True end.
Proof.
  intros R Hc. unfold apply_macros. rewrite <- (rel_length _ _ R).
  replace (map (fun _ : macro => false) defs') with (map (fun _ : macro => false) defs).
  - apply (expand_agree T paste Hpaste defs defs' R). exact Hc.
  - clear -R. induction R; cbn; congruence.
Qed.

Variable files : string -> option (list item).

Definition item_clean (it : item) : Prop :=
  match it with
  | IText ts => clean T ts
  | IDefine cmd => match parse_define cmd with Some m => T (m_name m) = false /\ clean T (m_body m) | None => True end
  | _ => True
  end.

Hypothesis Hfiles : forall f body, files f = Some body -> Forall item_clean body.

Lemma rel_remove x defs defs' : rel T defs defs' -> rel T (remove_macro x defs) (remove_macro x defs').
Proof.
  induction 1 as [|a b l l' Hs F IH]; cbn [remove_macro filter]; [constructor|].
  destruct Hs as (Hn & Hr). rewrite <- Hn. destruct (negb (String.eqb (m_name a) x)); [constructor; [split; assumption | exact IH] | exact IH].
Qed.

Definition st_rel (s s' : pstate) : Prop :=
  rel T (ps_macros s) (ps_macros s') /\ ps_once s = ps_once s' /\ ps_out s = ps_out s' /\ clean T (ps_out s).

Theorem run_agree : forall fuel self its st st',
  st_rel st st' -> Forall item_clean its ->
  match run paste files fuel self its st, run paste files fuel self its st' with
  | inl r, inl r' => st_rel r r'
  | inr e, inr e' => e = e'
  | _, _ => False
  end.
Proof.
  induction fuel as [|fuel IH]; intros self its st st' Hs Hc; [reflexivity|].
  destruct its as [|it rest]; cbn [run]; [exact Hs|].
  inversion Hc as [|? ? Hit Hrest]; subst. destruct Hs as (Hm & Ho & Hout & Hcl).
  destruct it as [ts|cmd|x|f|].
  - destruct (apply_macros_agree _ _ ts Hm Hit) as [E Hco]. rewrite <- E.
    destruct (apply_macros paste (ps_macros st) ts) as [out| | |]; try reflexivity.
    apply IH; [|exact Hrest]. repeat split; cbn [ps_macros ps_once ps_out]; try assumption; try congruence.
    apply clean_app; assumption.
  - cbn [item_clean] in Hit. destruct (parse_define cmd) as [m|]; [|reflexivity].
    apply IH; [|exact Hrest]. repeat split; cbn [ps_macros ps_once ps_out]; try assumption.
    apply Forall2_app; [apply rel_remove, Hm|]. constructor; [|constructor].
    split; [reflexivity|]. split; [reflexivity|]. right. split; [reflexivity | exact (proj2 Hit)].
  - apply IH; [|exact Hrest]. repeat split; cbn [ps_macros ps_once ps_out]; try assumption. apply rel_remove, Hm.
  - destruct (files f) as [body|] eqn:Hf; [|reflexivity]. cbv zeta. rewrite <- Ho.
    assert (Hb : Forall item_clean (if existsb (String.eqb f) (ps_once st) then [] else body)).
    { destruct (existsb (String.eqb f) (ps_once st)); [constructor | apply (Hfiles f body Hf)]. }
    pose proof (IH f _ st st' (conj Hm (conj Ho (conj Hout Hcl))) Hb) as H1.
    destruct (run paste files fuel f _ st) as [r|e], (run paste files fuel f _ st') as [r'|e']; try contradiction; try exact H1.
    apply IH; assumption.
  - apply IH; [|exact Hrest]. repeat split; cbn [ps_macros ps_once ps_out]; try assumption. congruence.
Qed.

End Irr2.
