(* LexerTrivia8.v — building descriptions (`Good`) for LexerTrivia7: words, operators and strings; numeric literals;
   `<` / `>` in front of a word or a blank. *)
From Coq Require Import List NArith Bool String Ascii Arith Lia.
From RV Require Import Lexer LexerProofs LexerTrivia LexerTrivia2 LexerTrivia3.
From RV Require Import LexerTriviaNum LexerTrivia4 LexerTriviaFloat LexerNumTail LexerTrivia5 LexerTrivia6 LexerTrivia7.
Import ListNotations.
Local Open Scope string_scope.

Section Trivia8.
Variable keywords : list (string * string).
Variable reserved_words : list string.
Variable symbols : list (N * string * option string * option string).
Variable int_suffixes : list (list (list N) * string).
Variable float_suffixes : list (list N * string).
Variable float_is_zero : string -> bool.
Variable utf8_ok : string -> bool.

Notation tok_at := (tok_at keywords reserved_words symbols int_suffixes float_suffixes float_is_zero utf8_ok).
Notation Good := (Good keywords reserved_words symbols int_suffixes float_suffixes float_is_zero utf8_ok).

(* an identifier, keyword, operator or string; trivia may follow it unless it begins with a slash *)
Lemma good_solid nxt c a' t ins es b :
  tok_at false (String c a' ++ b) = LOk t (slen (String c a')) -> solid t = true ->
  follows_tok c (next_char nxt (txt es)) ->
  (ins = true -> Ascii.eqb c "/" = false) ->
  Good nxt es -> Good nxt (ETok c a' t ins :: es).
Proof.
  intros T St F Hi G.
  apply (GTok _ _ _ _ _ _ _ nxt c a' t ins (fun w => follows_tok c w) es); [|exact F| |exact G].
  - intros w r Fw. apply (solid_token_ignores_next keywords reserved_words symbols int_suffixes float_suffixes float_is_zero utf8_ok c a' b t w r T St Fw).
  - intros Hins w Hw.
    destruct (solid_first_char keywords reserved_words symbols int_suffixes float_suffixes float_is_zero utf8_ok c (a' ++ b) t _ T St) as (F1 & F2 & F3).
    apply follows_ok_tok. destruct Hw as [Bw|[->| ->]].
    + apply blank_follows_ok; assumption.
    + unfold follows_ok. repeat split; try reflexivity. rewrite Ascii.eqb_sym. exact F3.
    + unfold follows_ok. repeat split; try reflexivity. rewrite Ascii.eqb_sym. exact (Hi Hins).
Qed.

(* a numeric literal of any form; trivia may follow it *)
Lemma good_number nxt c a' t w0 r0 ins es :
  suffixes_alpha_all int_suffixes = true -> fsuffixes_alpha float_suffixes = true ->
  is_digit c = true -> stopb (String c a') w0 = true ->
  tok_at false (String c a' ++ String w0 r0) = LOk t (slen (String c a')) ->
  stopb (String c a') (next_char nxt (txt es)) = true ->
  Good nxt es -> Good nxt (ETok c a' t ins :: es).
Proof.
  intros Hs Hfs Hc H0 T He G.
  apply (GTok _ _ _ _ _ _ _ nxt c a' t ins (fun w => stopb (String c a') w = true) es); [|exact He| |exact G].
  - intros w r Hw. apply (number_stable keywords reserved_words symbols int_suffixes float_suffixes float_is_zero utf8_ok c a' t w0 r0 Hs Hfs Hc H0 T w r Hw).
  - intros _ w Hw. apply trivia_start_stop. exact Hw.
Qed.

(* `<` / `>` directly in front of a word (no trivia may be put behind the bracket: the exception the property names) *)
Lemma good_langle_word nxt es : is_alpha_ (next_char nxt (txt es)) = true -> Good nxt es -> Good nxt (ETok "<" "" (TLAngle true) false :: es).
Proof.
  intros Ha G. apply (GTok _ _ _ _ _ _ _ nxt "<"%char "" (TLAngle true) false (fun w => is_alpha_ w = true) es); [|exact Ha|discriminate|exact G].
  intros w r Hw. cbn [append]. destruct (word_token keywords reserved_words symbols int_suffixes float_suffixes float_is_zero utf8_ok w r Hw) as (t & n & Ht & Hws).
  assert (E : tok_at false (String "<" (String w r)) =
              LOk (TLAngle (match tok_at false (String w r) with LOk t _ => negb (is_ws t) | LErr _ _ => false end)) 1) by reflexivity.
  rewrite E, Ht, Hws. reflexivity.
Qed.

Lemma good_rangle_word nxt es : is_alpha_ (next_char nxt (txt es)) = true -> Good nxt es -> Good nxt (ETok ">" "" (TRAngle true) false :: es).
Proof.
  intros Ha G. apply (GTok _ _ _ _ _ _ _ nxt ">"%char "" (TRAngle true) false (fun w => is_alpha_ w = true) es); [|exact Ha|discriminate|exact G].
  intros w r Hw. cbn [append]. destruct (word_token keywords reserved_words symbols int_suffixes float_suffixes float_is_zero utf8_ok w r Hw) as (t & n & Ht & Hws).
  assert (E : tok_at false (String ">" (String w r)) =
              LOk (TRAngle (match tok_at false (String w r) with LOk t _ => negb (is_ws t) | LErr _ _ => false end)) 1) by reflexivity.
  rewrite E, Ht, Hws. reflexivity.
Qed.

(* `<` / `>` in front of a blank *)
Lemma good_langle_blank nxt es : blank (next_char nxt (txt es)) -> Good nxt es -> Good nxt (ETok "<" "" (TLAngle false) false :: es).
Proof.
  intros Hb G. apply (GTok _ _ _ _ _ _ _ nxt "<"%char "" (TLAngle false) false blank es); [|exact Hb|discriminate|exact G].
  intros w r Hw. cbn [append].
  destruct (blank_token keywords reserved_words symbols int_suffixes float_suffixes float_is_zero utf8_ok w r Hw) as (t & Ht & Hws).
  assert (E : tok_at false (String "<" (String w r)) =
              LOk (TLAngle (match tok_at false (String w r) with LOk t _ => negb (is_ws t) | LErr _ _ => false end)) 1) by reflexivity.
  rewrite E, Ht, Hws. reflexivity.
Qed.

Lemma good_rangle_blank nxt es : blank (next_char nxt (txt es)) -> Good nxt es -> Good nxt (ETok ">" "" (TRAngle false) false :: es).
Proof.
  intros Hb G. apply (GTok _ _ _ _ _ _ _ nxt ">"%char "" (TRAngle false) false blank es); [|exact Hb|discriminate|exact G].
  intros w r Hw. cbn [append].
  destruct (blank_token keywords reserved_words symbols int_suffixes float_suffixes float_is_zero utf8_ok w r Hw) as (t & Ht & Hws).
  assert (E : tok_at false (String ">" (String w r)) =
              LOk (TRAngle (match tok_at false (String w r) with LOk t _ => negb (is_ws t) | LErr _ _ => false end)) 1) by reflexivity.
  rewrite E, Ht, Hws. reflexivity.
Qed.

End Trivia8.
