(* Executable wrapper of the C01 comparison.  Input: the implementation's output line
     PAIRS <n> ;; <name> :: <dump of IR1> || <dump of IR2> ;; ...       (harness/src/c01.rs)
   words starting with `@` name a local variable.  Output:
     EQUIV <items compared> <items outside the subset>  |  DIFF <name> word <k>: <a> vs <b>  |  SKIP *)
From Coq Require Import List NArith Bool String Ascii.
From RV Require Import Wire Alpha.
Import ListNotations.
Local Open Scope string_scope.
Local Open Scope list_scope.

Definition tok_of (w : string) : tok :=
  match w with
  | String "@" r => match parse_N r with Some n => Id n | None => W w end
  | _ => W w
  end.

Definition show_tok (o : option tok) : string :=
  match o with
  | Some (Id n) => String.append "@" (show_N n)
  | Some (W s) => s
  | None => "<end>"
  end.

(* split a word list at a separator word *)
Fixpoint split_at (sep : string) (w : list string) (cur : list string) (acc : list (list string)) : list (list string) :=
  match w with
  | [] => rev_append (rev_append cur [] :: acc) []
  | x :: r => if String.eqb x sep then split_at sep r [] (rev_append cur [] :: acc) else split_at sep r (x :: cur) acc
  end.

(* resources are outside the executable subset: BufferAddress is lowered to ByteAddressBuffer by the DirectX exporter *)
Definition resource_word (s : string) : bool :=
  match s with
  | String "t" (String "O" _) => true
  | _ => String.prefix "intrinsic:BufferAddress" s || String.prefix "intrinsic:RWBufferAddress" s || String.prefix "intrinsic:ByteAddressBuffer" s || String.prefix "intrinsic:RWByteAddressBuffer" s
  end.

Inductive verdict := VEq | VOutside | VDiff (msg : string) | VBad.

Definition check_item (w : list string) : verdict :=
  match w with
  | name :: "::" :: r =>
      match split_at "||" r [] [] with
      | [a; b] =>
          match pair [] 0 (map tok_of a) (map tok_of b) with
          | Same _ => VEq
          | Differ pos x y =>
              if existsb resource_word a || existsb resource_word b then VOutside
              else VDiff (String.append name (String.append " word " (String.append (show_N pos) (String.append ": " (String.append (show_tok x) (String.append " vs " (show_tok y)))))))
          end
      | _ => VBad
      end
  | _ => VBad
  end.

Fixpoint summarise (l : list verdict) (eq out : N) : string :=
  match l with
  | [] => String.append "EQUIV " (String.append (show_N eq) (String.append " " (show_N out)))
  | VEq :: r => summarise r (eq + 1) out
  | VOutside :: r => summarise r eq (out + 1)
  | VDiff m :: _ => String.append "DIFF " m
  | VBad :: _ => "BAD-DUMP"
  end.

Definition run_top (s : string) : string :=
  match words s with
  | "PAIRS" :: _ :: ";;" :: r =>
      let items := filter (fun l => match l with [] => false | _ => true end) (split_at ";;" r [] []) in
      summarise (map check_item items) 0 0
  | _ => "SKIP"
  end.

Require Import ExtrOcamlBasic ExtrOcamlString.
Extraction Language OCaml.
Extraction "../ocaml/gen/EC01.ml" run_top.
