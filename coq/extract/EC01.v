(* Executable wrapper of the C01 comparison.  Input: the implementation's output line
     PAIRS <n> ;; <name> :: <dump of IR1> || <dump of IR2> ;; ...       (harness/src/c01.rs)
   words starting with `@` name a local variable.  Output:
     EQUIV <items compared> <items outside the subset>  |  DIFF <name> word <k>: <a> vs <b>  |  SKIP *)
From Coq Require Import List NArith Bool String Ascii.
From RV Require Import Wire Alpha Sem.
Import ListNotations.
Local Open Scope string_scope.
Local Open Scope list_scope.

Definition tok_of (w : string) : tok :=
  match w with
  | String "@" r => match parse_N r with Some n => Id n | None => W w end
  | _ => W w
  end.

Definition show_tok (o : option tok) : string :=
  match o with
  | Some (Id n) => String.append "@" (show_N n)
  | Some (W s) => s
  | None => "<end>"
  end.

(* split a word list at a separator word *)
Fixpoint split_at (sep : string) (w : list string) (cur : list string) (acc : list (list string)) : list (list string) :=
  match w with
  | [] => rev_append (rev_append cur [] :: acc) []
  | x :: r => if String.eqb x sep then split_at sep r [] (rev_append cur [] :: acc) else split_at sep r (x :: cur) acc
  end.

(* resources are outside the executable subset: BufferAddress is lowered to ByteAddressBuffer by the DirectX exporter *)
Definition resource_word (s : string) : bool :=
  match s with
  | String "t" (String "O" _) => true
  | _ => String.prefix "intrinsic:BufferAddress" s || String.prefix "intrinsic:RWBufferAddress" s || String.prefix "intrinsic:ByteAddressBuffer" s || String.prefix "intrinsic:RWByteAddressBuffer" s
  end.

(* ---- decoding a function dump into the tree of model/Sem.v.  The decoder is not trusted: its answer counts only if
        encoding it gives the dump back (`decodes`), which is the hypothesis `l1 = enc_func f1` of C01_same_behaviour ---- *)
Notation "x <- e ;; k" := (obind e (fun x => k)) (at level 61, e at next level, right associativity).

Definition in_list (x : string) (l : list string) : bool := existsb (String.eqb x) l.

Fixpoint take_words (n : nat) (l : list tok) : option (list string * list tok) :=
  match n with
  | O => Some ([], l)
  | S m => match l with W x :: r => z <- take_words m r ;; Some (x :: fst z, snd z) | _ => None end
  end.

Fixpoint p_ty (fuel : nat) (l : list tok) : option (list string * list tok) :=
  match fuel with
  | O => None
  | S f =>
      match l with
      | W "tv" :: r => Some (["tv"], r)
      | W "tM" :: W a :: W b :: r => z <- p_ty f r ;; Some ("tM" :: a :: b :: fst z, snd z)
      | W k :: W a :: r =>
          if in_list k ["ts"; "tS"; "tE"; "tT"; "tP"; "tO0"] then Some ([k; a], r)
          else if in_list k ["tV"; "tA"; "tQ"; "tO1"] then z <- p_ty f r ;; Some (k :: a :: fst z, snd z)
          else None
      | _ => None
      end
  end.

Fixpoint p_const (fuel : nat) (l : list tok) : option (list string * list tok) :=
  match fuel with
  | O => None
  | S f =>
      match l with
      | W "ce" :: W n :: r => z <- p_const f r ;; Some ("ce" :: n :: fst z, snd z)
      | W k :: W v :: r => if in_list k ["cb"; "cil"; "ci"; "cu"; "cl"; "cul"; "cfl"; "ch"; "cf"; "cd"; "cs"] then Some ([k; v], r) else None
      | _ => None
      end
  end.

Definition count_of (s : string) : option nat := option_map N.to_nat (parse_N s).

Fixpoint p_expr (fuel : nat) (l : list tok) : option (expr * list tok) :=
  match fuel with
  | O => None
  | S f =>
      let many := fix many (n : nat) (l : list tok) : option (list expr * list tok) :=
        match n with
        | O => Some ([], l)
        | S m => z <- p_expr f l ;; y <- many m (snd z) ;; Some (fst z :: fst y, snd y)
        end in
      let dirs := fix dirs (n : nat) (l : list tok) : option (list (string * list string) * list tok) :=
        match n with
        | O => Some ([], l)
        | S m => match l with
                 | W d :: r => z <- p_ty f r ;; y <- dirs m (snd z) ;; Some ((d, fst z) :: fst y, snd y)
                 | _ => None
                 end
        end in
      match l with
      | W "Loc" :: Id x :: r => Some (ELoc x, r)
      | W "Glob" :: W n :: r => Some (EGlob n, r)
      | W "Lit" :: r => z <- p_const f r ;; Some (ELeaf ("Lit" :: fst z), snd z)
      | W "SizeOf" :: r => z <- p_ty f r ;; Some (ELeaf ("SizeOf" :: fst z), snd z)
      | W "Tern" :: r => a <- p_expr f r ;; b <- p_expr f (snd a) ;; c <- p_expr f (snd b) ;; Some (ETern (fst a) (fst b) (fst c), snd c)
      | W "Sub" :: r => a <- p_expr f r ;; b <- p_expr f (snd a) ;; Some (ESub (fst a) (fst b), snd b)
      | W "Cast" :: r => t <- p_ty f r ;; e <- p_expr f (snd t) ;; Some (EAcc ("Cast" :: fst t) (fst e), snd e)
      | W "Seq" :: W n :: r => k <- count_of n ;; z <- many k r ;; Some (ESeq (fst z), snd z)
      | W "Op" :: W name :: W n :: r => k <- count_of n ;; z <- many k r ;; Some (EOp name (fst z), snd z)
      | W "Ctor" :: r =>
          t <- p_ty f r ;;
          match snd t with
          | W n :: r1 => k <- count_of n ;; ar <- take_words k r1 ;; z <- many k (snd ar) ;; Some (ECtor (fst t) (fst ar) (fst z), snd z)
          | _ => None
          end
      | W "Call" :: W name :: W ct :: W np :: r =>
          k <- count_of np ;; ds <- dirs k r ;;
          match snd ds with
          | W na :: r1 => j <- count_of na ;; z <- many j r1 ;; Some (ECall [name; ct] (fst ds) (fst z), snd z)
          | _ => None
          end
      | W k :: W a :: r =>
          if in_list k ["SMem"; "OMem"] then e <- p_expr f r ;; Some (EAcc [k; a] (fst e), snd e)
          else if in_list k ["Swz"; "MSwz"] then
            n <- count_of a ;; sl <- take_words n r ;; e <- p_expr f (snd sl) ;; Some (EAcc (k :: a :: fst sl) (fst e), snd e)
          else if in_list k ["Mem"; "CVar"; "EVal"] then
            match r with W b :: r1 => Some (ELeaf [k; a; b], r1) | _ => None end
          else None
      | _ => None
      end
  end.

Fixpoint p_init (fuel : nat) (l : list tok) : option (init * list tok) :=
  match fuel with
  | O => None
  | S f =>
      match l with
      | W "IN" :: r => Some (INone, r)
      | W "IE" :: r => z <- p_expr f r ;; Some (IExp (fst z), snd z)
      | W "IA" :: W n :: r =>
          k <- count_of n ;;
          z <- (fix many (n : nat) (l : list tok) : option (list init * list tok) :=
                  match n with
                  | O => Some ([], l)
                  | S m => z <- p_init f l ;; y <- many m (snd z) ;; Some (fst z :: fst y, snd y)
                  end) k r ;;
          Some (IAgg (fst z), snd z)
      | _ => None
      end
  end.

Definition p_vardef (fuel : nat) (l : list tok) : option (vardef * list tok) :=
  match l with
  | Id x :: W sc :: r => t <- p_ty fuel r ;; i <- p_init fuel (snd t) ;; Some ((x, sc :: fst t, fst i), snd i)
  | _ => None
  end.

Definition p_opt (fuel : nat) (l : list tok) : option (option expr * list tok) :=
  match l with
  | W "Y" :: r => z <- p_expr fuel r ;; Some (Some (fst z), snd z)
  | W "N" :: r => Some (None, r)
  | _ => None
  end.

Fixpoint p_stmt (fuel : nat) (l : list tok) : option (stmt * list tok) :=
  match fuel with
  | O => None
  | S f =>
      let block := fun (l : list tok) =>
        match l with
        | W n :: r =>
            k <- count_of n ;;
            (fix many (n : nat) (l : list tok) : option (list stmt * list tok) :=
               match n with
               | O => Some ([], l)
               | S m => z <- p_stmt f l ;; y <- many m (snd z) ;; Some (fst z :: fst y, snd y)
               end) k r
        | _ => None
        end in
      match l with
      | W "Attr" :: W a :: r => z <- p_stmt f r ;; Some (SAttr a (fst z), snd z)
      | W "SExpr" :: r => z <- p_expr f r ;; Some (SExpr (fst z), snd z)
      | W "SVar" :: r => z <- p_vardef f r ;; Some (SVar (fst z), snd z)
      | W "SBlock" :: r => z <- block r ;; Some (SBlock (fst z), snd z)
      | W "SIf" :: r => c <- p_expr f r ;; b <- block (snd c) ;; Some (SIf (fst c) (fst b), snd b)
      | W "SIfElse" :: r => c <- p_expr f r ;; a <- block (snd c) ;; b <- block (snd a) ;; Some (SIfElse (fst c) (fst a) (fst b), snd b)
      | W "SWhile" :: r => c <- p_expr f r ;; b <- block (snd c) ;; Some (SWhile (fst c) (fst b), snd b)
      | W "SSwitch" :: r => c <- p_expr f r ;; b <- block (snd c) ;; Some (SSwitch (fst c) (fst b), snd b)
      | W "SDo" :: r => b <- block r ;; c <- p_expr f (snd b) ;; Some (SDo (fst b) (fst c), snd c)
      | W "SRet" :: r => z <- p_expr f r ;; Some (SRet (fst z), snd z)
      | W "SCase" :: r => z <- p_const f r ;; Some (SWord ("SCase" :: fst z), snd z)
      | W "SFor" :: r =>
          fi <- match r with
                | W "FE" :: r1 => Some (FEmpty, r1)
                | W "FX" :: r1 => z <- p_expr f r1 ;; Some (FExp (fst z), snd z)
                | W "FD" :: W n :: r1 =>
                    k <- count_of n ;;
                    z <- (fix many (n : nat) (l : list tok) : option (list vardef * list tok) :=
                            match n with
                            | O => Some ([], l)
                            | S m => z <- p_vardef f l ;; y <- many m (snd z) ;; Some (fst z :: fst y, snd y)
                            end) k r1 ;;
                    Some (FDefs (fst z), snd z)
                | _ => None
                end ;;
          c <- p_opt f (snd fi) ;; i <- p_opt f (snd c) ;; b <- block (snd i) ;;
          Some (SFor (fst fi) (fst c) (fst i) (fst b), snd b)
      | W k :: r => if in_list k ["SBreak"; "SContinue"; "SDiscard"; "SRet0"; "SDefault"] then Some (SWord [k], r) else None
      | _ => None
      end
  end.

Definition p_func (l : list tok) : option func :=
  let fuel := S (List.length l) in
  match l with
  | W "F" :: r =>
      t <- p_ty fuel r ;;
      match snd t with
      | W n :: r1 =>
          k <- count_of n ;;
          ps <- (fix many (n : nat) (l : list tok) : option (list param * list tok) :=
                   match n with
                   | O => Some ([], l)
                   | S m =>
                       match l with
                       | Id x :: W d :: r2 =>
                           ty <- p_ty fuel r2 ;; o <- p_opt fuel (snd ty) ;; y <- many m (snd o) ;;
                           Some ((x, d, fst ty, fst o) :: fst y, snd y)
                       | _ => None
                       end
                   end) k r1 ;;
          match snd ps with
          | W nb :: r2 =>
              j <- count_of nb ;;
              b <- (fix many (n : nat) (l : list tok) : option (list stmt * list tok) :=
                      match n with
                      | O => Some ([], l)
                      | S m => z <- p_stmt fuel l ;; y <- many m (snd z) ;; Some (fst z :: fst y, snd y)
                      end) j r2 ;;
              match snd b with
              | [] => Some {| f_ret := fst t; f_params := fst ps; f_body := fst b |}
              | _ => None
              end
          | _ => None
          end
      | _ => None
      end
  | _ => None
  end.

Definition tok_eqb (a b : tok) : bool :=
  match a, b with Id x, Id y => N.eqb x y | W x, W y => String.eqb x y | _, _ => false end.
Fixpoint toks_eqb (a b : list tok) : bool :=
  match a, b with [] , [] => true | x :: r, y :: t => tok_eqb x y && toks_eqb r t | _, _ => false end.

(* the dump is the encoding of a function tree: the decoder's answer, checked *)
Definition decodes (l : list tok) : bool :=
  match p_func l with Some f => toks_eqb (enc_func f) l | None => false end.

Inductive verdict := VEq (fn decoded : bool) | VOutside | VDiff (msg : string) | VBad.

Definition check_item (w : list string) : verdict :=
  match w with
  | name :: "::" :: r =>
      match split_at "||" r [] [] with
      | [a; b] =>
          match pair [] 0 (map tok_of a) (map tok_of b) with
          | Same _ => let isfn := String.prefix "fn_" name in VEq isfn (isfn && decodes (map tok_of a))
          | Differ pos x y =>
              if existsb resource_word a || existsb resource_word b then VOutside
              else VDiff (String.append name (String.append " word " (String.append (show_N pos) (String.append ": " (String.append (show_tok x) (String.append " vs " (show_tok y)))))))
          end
      | _ => VBad
      end
  | _ => VBad
  end.

(* EQUIV <items compared> <items outside the subset> <functions decoded into trees> <functions not decoded> *)
Fixpoint summarise (l : list verdict) (eq out dec undec : N) : string :=
  match l with
  | [] => String.append "EQUIV " (String.append (show_N eq) (String.append " " (String.append (show_N out) (String.append " " (String.append (show_N dec) (String.append " " (show_N undec)))))))
  | VEq isfn d :: r => summarise r (eq + 1) out (if d then dec + 1 else dec) (if isfn && negb d then undec + 1 else undec)
  | VOutside :: r => summarise r eq (out + 1) dec undec
  | VDiff m :: _ => String.append "DIFF " m
  | VBad :: _ => "BAD-DUMP"
  end.

Definition run_top (s : string) : string :=
  match words s with
  | "PAIRS" :: _ :: ";;" :: r =>
      let items := filter (fun l => match l with [] => false | _ => true end) (split_at ";;" r [] []) in
      summarise (map check_item items) 0 0 0 0
  | _ => "SKIP"
  end.

Require Import ExtrOcamlBasic ExtrOcamlString.
Extraction Language OCaml.
Extraction "../ocaml/gen/EC01.ml" run_top.
