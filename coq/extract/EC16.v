(* Executable wrapper of the C16 model.  Case:  <sig> ... | <arg> ...
   sig = id:nondefault:param,param,...   param = <Scalar><dim>[o][c]  e.g. Float32v2o ; dim = s | v1..v4
   arg = <Scalar><dim><l|r>[c]   Output: SEL <id> | AMBIGUOUS | NOMATCH *)
From Coq Require Import List NArith Bool String Ascii.
From RV Require Import Wire Overload OverloadGlue GenLayout GenCasting.
Import ListNotations.
Local Open Scope string_scope.

Definition scalar_of_name (s : string) : option scalar :=
  List.find (fun o => String.eqb (scalar_name o) s) all_scalars.

(* split "Float32v2oc" into the scalar name and the suffix starting at the dimension letter:
   the dimension letter is the last 's' or 'v' followed only by [0-9olrc]* *)
Fixpoint is_suffix_chars (s : string) : bool :=
  match s with
  | EmptyString => true
  | String c r =>
      (match digit_of c with Some _ => true | None => false end
       || Ascii.eqb c "o" || Ascii.eqb c "c" || Ascii.eqb c "l" || Ascii.eqb c "r")%bool && is_suffix_chars r
  end.

Fixpoint split_type (acc : list ascii) (s : string) : option (string * string) :=
  match s with
  | EmptyString => None
  | String c r =>
      if (Ascii.eqb c "s" || Ascii.eqb c "v")%bool && is_suffix_chars r
      then Some (rev_string acc, s)
      else split_type (c :: acc) r
  end.

Definition parse_dim (s : string) : option (dim * string) :=
  match s with
  | String "s" r => Some (DScalar, r)
  | String "v" (String d r) => match digit_of d with Some n => Some (DVec n, r) | None => None end
  | _ => None
  end.

Fixpoint has_char (c : ascii) (s : string) : bool :=
  match s with EmptyString => false | String d r => Ascii.eqb c d || has_char c r end.

Definition parse_param (w : string) : option (Overload.param scalar) :=
  x <- split_type [] w ;; let '(nm, suf) := x in
  sc <- scalar_of_name nm ;; y <- parse_dim suf ;; let '(d, fl) := y in
  Some (mkParam _ sc d (has_char "o" fl) (has_char "c" fl)).

Definition parse_arg (w : string) : option (Overload.ety scalar) :=
  x <- split_type [] w ;; let '(nm, suf) := x in
  sc <- scalar_of_name nm ;; y <- parse_dim suf ;; let '(d, fl) := y in
  Some (mkEty _ sc d (has_char "l" fl) (has_char "c" fl)).

Definition parse_sig (w : string) : option (Overload.signature scalar) :=
  match split ":" w with
  | [id; nd; ps] =>
      id <- parse_N id ;; nd <- parse_N nd ;;
      ps <- omap parse_param (filter (fun p => negb (String.eqb p "")) (split "," ps)) ;;
      Some (mkSig _ id ps (N.to_nat nd))
  | _ => None
  end.

Definition show_verdict (v : verdict) : string :=
  match v with Selected i => "SEL " ++ show_N i | Ambiguous => "AMBIGUOUS" | NoMatch => "NOMATCH" end.

Definition decide (sigs : list (Overload.signature scalar)) (args : list (Overload.ety scalar)) : string :=
  show_verdict (Overload.resolve nrank nrank_order vrank vrank_eqb worst_to_best
    (Overload.viable scalar scalar_eqb nrank NR_Exact scalar_rank vrank VR_Exact VR_Expand VR_Contract sigs args)).

Definition run_top (line : string) : string :=
  match split "|" line with
  | [l; r; p] =>
      match omap parse_sig (words l), omap parse_arg (words r), omap parse_N (words p) with
      | Some sigs, Some args, Some perm =>
          match omap (fun i => nth_error sigs (N.to_nat i)) perm with
          | Some sigs' => decide sigs args ++ " ; " ++ decide sigs' args
          | None => "PARSE-ERROR"
          end
      | _, _, _ => "PARSE-ERROR"
      end
  | _ => "PARSE-ERROR"
  end.

Require Import ExtrOcamlBasic ExtrOcamlString.
Extraction Language OCaml.
Extraction "../ocaml/gen/EC16.ml" run_top.
