(* Executable wrapper of the C10 model.  Case: the bytes of a source file, hex encoded.
   Output: OK <token>@start-end ...   |   ERR <reason> <offset> *)
From Coq Require Import List ZArith NArith Bool String Ascii.
From RV Require Import Wire Lexer Numbers GenLexer.
Import ListNotations.
Local Open Scope string_scope.

Definition hexdig (c : ascii) : option N := hex_val c.
Fixpoint unhex (s : string) : option string :=
  match s with
  | EmptyString => Some EmptyString
  | String a (String b r) =>
      x <- hexdig a ;; y <- hexdig b ;; t <- unhex r ;; Some (String (ascii_of_N (x * 16 + y)) t)
  | _ => None
  end.
Definition hexchar (n : N) : ascii := ascii_of_N (if (n <? 10)%N then 48 + n else 87 + n)%N.
Fixpoint hex (s : string) : string :=
  match s with
  | EmptyString => EmptyString
  | String c r => String (hexchar (N_of_ascii c / 16)) (String (hexchar (N_of_ascii c mod 16)) (hex r))
  end.

Definition lex := lex_file keywords reserved_words symbols int_suffixes float_suffixes float_is_zero (fun _ => true).

Definition fname (k : fkind) : string :=
  match k with FNone => "LiteralFloat" | FHalf => "LiteralFloat16" | FFloat => "LiteralFloat32" | FDouble => "LiteralFloat64" end.

Definition show_tok (t : tok) : string :=
  match t with
  | TEndline => "Endline" | TPhysicalEndline => "PhysicalEndline" | TWhitespace => "Whitespace" | TComment => "Comment"
  | TId s => "Id(" ++ s ++ ")"
  | TKeyword v => v
  | TReserved s => "ReservedWord(" ++ s ++ ")"
  | TInt v n => v ++ "(" ++ show_N n ++ ")"
  | TFloat k text => fname k ++ "(" ++ show_Z (token_float_bits k text) ++ ")"
  | TInf k => fname k ++ "(" ++ (match k with FNone | FDouble => "9218868437227405312" | _ => "2139095040" end) ++ ")"
  | TString s => "LiteralString(" ++ hex s ++ ")"
  | THeader s => "HeaderName(" ++ hex s ++ ")"
  | TLAngle b => "LeftAngleBracket(" ++ (if b then "Token" else "Whitespace") ++ ")"
  | TRAngle b => "RightAngleBracket(" ++ (if b then "Token" else "Whitespace") ++ ")"
  | TSym v => v
  end.

Definition show_err (e : lerr) : string :=
  match e with
  | UnexpectedBytes => "UnexpectedBytes" | OtherTokenBytes => "OtherTokenBytes" | EndOfStream => "EndOfStream"
  | FloatInvalidSuffix => "FloatInvalidSuffix" | IntegerLiteralTooLarge => "IntegerLiteralTooLarge"
  | StringWrapsLine => "StringWrapsLine" | StringWrapsFile => "StringWrapsFile" | StringInvalid => "StringContainsInvalidCharacters"
  | HeaderNameWrapsLine => "HeaderNameWrapsLine" | HeaderNameWrapsFile => "HeaderNameWrapsFile"
  | HeaderInvalid => "HeaderNameContainsInvalidCharacters"
  end.

(* P:<hex source literal>:<hex printed literal> - both are lexed; the printed one must be the same token (kind and value) *)
(* the text is exactly one numeric literal *)
Definition first_token (s : string) : option tok :=
  match lex s with
  | SOk [(t, _, _); (TEndline, _, _)] =>
      match t with TInt _ _ | TFloat _ _ | TInf _ => Some t | _ => None end
  | _ => None
  end.

Definition same_value (a b : tok) : bool :=
  match a, b with
  | TInt _ x, TInt _ y => N.eqb x y      (* the printer may drop or change the suffix spelling; the typed kind is C09's subject *)
  | _, _ => String.eqb (show_tok a) (show_tok b)
  end.

Definition run_print (rest : string) : string :=
  match split ":" rest with
  | [a; b] =>
      match unhex a, unhex b with
      | Some sa, Some sb =>
          match first_token sa, first_token sb with
          | Some ta, Some tb => if same_value ta tb then "PRINT " ++ b else "VALUE-CHANGED " ++ show_tok ta ++ " -> " ++ show_tok tb
          | Some ta, None => "VALUE-CHANGED " ++ show_tok ta ++ " -> unreadable"
          | None, _ => "NOT-A-LITERAL"
          end
      | _, _ => "PARSE-ERROR"
      end
  | _ => "PARSE-ERROR"
  end.

Definition run_top (line : string) : string :=
  if String.prefix "P:" line then run_print (substring 2 (String.length line - 2) line) else
  match unhex line with
  | None => "PARSE-ERROR"
  | Some s =>
      match lex s with
      | SOk ts => unwords ("OK" :: map (fun '(t, a, b) => show_tok t ++ "@" ++ show_N (N.of_nat a) ++ "-" ++ show_N (N.of_nat b)) ts)
      | SErr e off => "ERR " ++ show_err e ++ " " ++ show_N (N.of_nat off)
      end
  end.

Require Import ExtrOcamlBasic ExtrOcamlString.
Extraction Language OCaml.
Extraction "../ocaml/gen/EC10.ml" run_top.
