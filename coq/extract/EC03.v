(* Executable wrapper of the C03 checker.  Input: the implementation's output line for a W case
     IR <n> ;; <function dump> ;; ...        (harness/src/c03.rs: dump)
   Output: WT <functions> <expression nodes> | ILL <F|G> <id> : <reason> | SKIP (anything else) | BAD-DUMP <where> *)
From Coq Require Import List NArith Bool String Ascii.
From RV Require Import Wire IRType.
Import ListNotations.
Local Open Scope string_scope.
Local Open Scope list_scope.

Notation "x <- a ;; b" := (match a with Some x => b | None => None end) (at level 61, a at next level, right associativity).

Definition kind_of (s : string) : option sk :=
  if String.eqb s "b" then Some KBool else if String.eqb s "il" then Some KIntLit else if String.eqb s "i" then Some KInt
  else if String.eqb s "u" then Some KUInt else if String.eqb s "fl" then Some KFloatLit else if String.eqb s "h" then Some KHalf
  else if String.eqb s "f" then Some KFloat else if String.eqb s "d" then Some KDouble else None.

Fixpoint p_ty (fuel : nat) (w : list string) : option (ty * list string) :=
  match fuel with
  | O => None
  | S fuel =>
      match w with
      | "tv" :: r => Some (TVoid, r)
      | "ts" :: k :: r => k <- kind_of k ;; Some (TScalar k, r)
      | "tV" :: n :: r => n <- parse_N n ;; x <- p_ty fuel r ;; let '(t, r') := x in Some (TVector n t, r')
      | "tM" :: a :: b :: r => a <- parse_N a ;; b <- parse_N b ;; x <- p_ty fuel r ;; let '(t, r') := x in Some (TMatrix a b t, r')
      | "tS" :: n :: r => n <- parse_N n ;; Some (TStruct n, r)
      | "tT" :: n :: r => n <- parse_N n ;; Some (TTemplate n, r)
      | "tE" :: n :: r => n <- parse_N n ;; Some (TEnum n, r)
      | "tP" :: n :: r => n <- parse_N n ;; Some (TParam n, r)
      | "tA" :: l :: r => l <- parse_optN l ;; x <- p_ty fuel r ;; let '(t, r') := x in Some (TArray l t, r')
      | "tQ" :: b :: r => b <- parse_N b ;; x <- p_ty fuel r ;; let '(t, r') := x in Some (TMod b t, r')
      | "tO0" :: n :: r => Some (TObj0 n, r)
      | "tO1" :: n :: r => x <- p_ty fuel r ;; let '(t, r') := x in Some (TObj1 n t, r')
      | _ => None
      end
  end.

Definition p_lv (w : list string) : option (bool * list string) :=
  match w with "1" :: r => Some (true, r) | "0" :: r => Some (false, r) | _ => None end.

Fixpoint p_Ns (n : nat) (w : list string) : option (list N * list string) :=
  match n with
  | O => Some ([], w)
  | S n => match w with
           | x :: r => v <- parse_N x ;; y <- p_Ns n r ;; let '(l, r') := y in Some (v :: l, r')
           | [] => None
           end
  end.

Fixpoint p_params (fuel : nat) (n : nat) (w : list string) : option (list (N * ty) * list string) :=
  match n with
  | O => Some ([], w)
  | S n => match w with
           | d :: r => d <- parse_N d ;; x <- p_ty fuel r ;; let '(t, r1) := x in
                       y <- p_params fuel n r1 ;; let '(l, r2) := y in Some ((d, t) :: l, r2)
           | [] => None
           end
  end.

Fixpoint p_expr (fuel : nat) (w : list string) : option (expr * list string) :=
  match fuel with
  | O => None
  | S fuel =>
      let many := fix many (n : nat) (w : list string) : option (list expr * list string) :=
        match n with
        | O => Some ([], w)
        | S n => x <- p_expr fuel w ;; let '(e, r) := x in y <- many n r ;; let '(l, r') := y in Some (e :: l, r')
        end in
      match w with
      | tag :: r0 =>
          x <- p_ty fuel r0 ;; let '(t, r1) := x in
          y <- p_lv r1 ;; let '(lv, r) := y in
          if String.eqb tag "Lit" then Some (Node KLit t lv [], r)
          else if String.eqb tag "Var" then Some (Node KVar t lv [], r)
          else if String.eqb tag "EVal" then Some (Node KEVal t lv [], r)
          else if String.eqb tag "SizeOf" then Some (Node KSizeOf t lv [], r)
          else if String.eqb tag "Tern" then z <- many 3%nat r ;; let '(l, r') := z in Some (Node KTern t lv l, r')
          else if String.eqb tag "Sub" then z <- many 2%nat r ;; let '(l, r') := z in Some (Node KSub t lv l, r')
          else if String.eqb tag "Cast" then z <- many 1%nat r ;; let '(l, r') := z in Some (Node KCast t lv l, r')
          else if String.eqb tag "Seq" then
            match r with n :: r2 => n <- parse_N n ;; z <- many (N.to_nat n) r2 ;; let '(l, r') := z in Some (Node KSeq t lv l, r') | [] => None end
          else if String.eqb tag "Swz" then
            match r with
            | n :: r2 => n <- parse_N n ;; i <- p_Ns (N.to_nat n) r2 ;; let '(idx, r3) := i in
                         z <- many 1%nat r3 ;; let '(l, r') := z in Some (Node (KSwz idx) t lv l, r')
            | [] => None
            end
          else if String.eqb tag "MSwz" then
            match r with
            | n :: r2 => n <- parse_N n ;; i <- p_Ns (N.to_nat n) r2 ;; let '(idx, r3) := i in
                         z <- many 1%nat r3 ;; let '(l, r') := z in Some (Node (KMSwz idx) t lv l, r')
            | [] => None
            end
          else if String.eqb tag "Opq" then
            match r with
            | what :: n :: r2 => n <- parse_N n ;; z <- many (N.to_nat n) r2 ;; let '(l, r') := z in Some (Node (KOpq what) t lv l, r')
            | _ => None
            end
          else if String.eqb tag "SMem" then
            match r with
            | sid :: r2 => sid <- parse_N sid ;; m <- p_ty fuel r2 ;; let '(mt, r3) := m in
                           z <- many 1%nat r3 ;; let '(l, r') := z in Some (Node (KSMem sid mt) t lv l, r')
            | [] => None
            end
          else if String.eqb tag "Call" then
            match r with
            | ct :: what :: np :: nd :: r2 =>
                np <- parse_N np ;; nd <- parse_N nd ;; ps <- p_params fuel (N.to_nat np) r2 ;; let '(params, r3) := ps in
                rt <- p_ty fuel r3 ;; let '(ret, r4) := rt in
                match r4 with
                | na :: r5 => na <- parse_N na ;; z <- many (N.to_nat na) r5 ;; let '(l, r') := z in
                              Some (Node (KCall (String.eqb ct "method") (String.eqb what "intrinsic") nd params ret) t lv l, r')
                | [] => None
                end
            | _ => None
            end
          else if String.eqb tag "Ctor" then
            match r with
            | n :: r2 => n <- parse_N n ;; a <- p_Ns (N.to_nat n) r2 ;; let '(ar, r3) := a in
                         z <- many (N.to_nat n) r3 ;; let '(l, r') := z in Some (Node (KCtor ar) t lv l, r')
            | [] => None
            end
          else if String.eqb tag "Op" then
            match r with
            | name :: n :: r2 => n <- parse_N n ;; z <- many (N.to_nat n) r2 ;; let '(l, r') := z in Some (Node (KOp name) t lv l, r')
            | _ => None
            end
          else None
      | [] => None
      end
  end.

Fixpoint p_init (fuel : nat) (w : list string) : option (init * list string) :=
  match fuel with
  | O => None
  | S fuel =>
      match w with
      | "IN" :: r => Some (INone, r)
      | "IE" :: r => x <- p_expr fuel r ;; let '(e, r') := x in Some (IExpr e, r')
      | "IA" :: n :: r =>
          n <- parse_N n ;;
          x <- (fix many (k : nat) (w : list string) : option (list init * list string) :=
                  match k with
                  | O => Some ([], w)
                  | S k => a <- p_init fuel w ;; let '(i, r1) := a in b <- many k r1 ;; let '(l, r2) := b in Some (i :: l, r2)
                  end) (N.to_nat n) r ;;
          let '(l, r') := x in Some (IAgg l, r')
      | _ => None
      end
  end.

Definition p_opt_expr (fuel : nat) (w : list string) : option (option expr * list string) :=
  match w with
  | "N" :: r => Some (None, r)
  | "Y" :: r => x <- p_expr fuel r ;; let '(e, r') := x in Some (Some e, r')
  | _ => None
  end.

Fixpoint p_stmt (fuel : nat) (w : list string) : option (stmt * list string) :=
  match fuel with
  | O => None
  | S fuel =>
      let block := fix block (k : nat) (w : list string) : option (list stmt * list string) :=
        match k with
        | O => Some ([], w)
        | S k => a <- p_stmt fuel w ;; let '(s, r1) := a in b <- block k r1 ;; let '(l, r2) := b in Some (s :: l, r2)
        end in
      let blk := fun (w : list string) => match w with n :: r => n <- parse_N n ;; block (N.to_nat n) r | [] => None end in
      let vardef := fun (w : list string) => x <- p_ty fuel w ;; let '(t, r1) := x in y <- p_init fuel r1 ;; let '(i, r2) := y in Some ((t, i), r2) in
      match w with
      | "SExpr" :: r => x <- p_expr fuel r ;; let '(e, r') := x in Some (SExpr e, r')
      | "SVar" :: r => x <- vardef r ;; let '(d, r') := x in Some (SVar (fst d) (snd d), r')
      | "SBlock" :: r => x <- blk r ;; let '(l, r') := x in Some (SBlock l, r')
      | "SIf" :: r => x <- p_expr fuel r ;; let '(c, r1) := x in y <- blk r1 ;; let '(a, r2) := y in Some (SIf c a, r2)
      | "SIfElse" :: r => x <- p_expr fuel r ;; let '(c, r1) := x in y <- blk r1 ;; let '(a, r2) := y in
                          z <- blk r2 ;; let '(b, r3) := z in Some (SIfElse c a b, r3)
      | "SWhile" :: r => x <- p_expr fuel r ;; let '(c, r1) := x in y <- blk r1 ;; let '(a, r2) := y in Some (SWhile c a, r2)
      | "SSwitch" :: r => x <- p_expr fuel r ;; let '(c, r1) := x in y <- blk r1 ;; let '(a, r2) := y in Some (SSwitch c a, r2)
      | "SDo" :: r => y <- blk r ;; let '(a, r1) := y in x <- p_expr fuel r1 ;; let '(c, r2) := x in Some (SDo a c, r2)
      | "SFor" :: r =>
          ini <- match r with
                 | "FE" :: r1 => Some ([], None, r1)
                 | "FX" :: r1 => x <- p_expr fuel r1 ;; let '(e, r2) := x in Some ([], Some e, r2)
                 | "FD" :: n :: r1 =>
                     n <- parse_N n ;;
                     x <- (fix many (k : nat) (w : list string) : option (list (ty * init) * list string) :=
                             match k with
                             | O => Some ([], w)
                             | S k => a <- vardef w ;; let '(d, r1) := a in b <- many k r1 ;; let '(l, r2) := b in Some (d :: l, r2)
                             end) (N.to_nat n) r1 ;;
                     let '(l, r2) := x in Some (l, None, r2)
                 | _ => None
                 end ;;
          let '(defs, ie, r1) := ini in
          c <- p_opt_expr fuel r1 ;; let '(cond, r2) := c in
          i <- p_opt_expr fuel r2 ;; let '(inc, r3) := i in
          b <- blk r3 ;; let '(body, r4) := b in Some (SFor defs ie cond inc body, r4)
      | "SBreak" :: r | "SContinue" :: r | "SDiscard" :: r => Some (SJump, r)
      | "SRet0" :: r => Some (SRet None, r)
      | "SRet" :: r => x <- p_expr fuel r ;; let '(e, r') := x in Some (SRet (Some e), r')
      | "SCase" :: r => x <- p_ty fuel r ;; let '(_, r') := x in Some (SLabel, r')
      | "SDefault" :: r => Some (SLabel, r)
      | _ => None
      end
  end.

Fixpoint count (e : expr) : N :=
  match e with Node _ _ _ kids => 1 + fold_right (fun x n => (count x + n)%N) 0%N kids end.

(* ---- rendering of the first faulty node ---- *)
Definition sk_name (k : sk) : string :=
  match k with KBool => "bool" | KIntLit => "int-literal" | KInt => "int" | KUInt => "uint" | KFloatLit => "float-literal"
             | KHalf => "half" | KFloat => "float" | KDouble => "double" end.
Fixpoint show_ty (t : ty) : string :=
  match t with
  | TVoid => "void" | TScalar k => sk_name k
  | TVector n u => String.append (show_ty u) (show_N n)
  | TMatrix r c u => String.append (show_ty u) (String.append (show_N r) (String.append "x" (show_N c)))
  | TStruct i => String.append "struct#" (show_N i) | TTemplate i => String.append "template#" (show_N i)
  | TEnum i => String.append "enum#" (show_N i) | TParam i => String.append "param#" (show_N i)
  | TArray l u => String.append (show_ty u) (String.append "[" (String.append (show_optN l) "]"))
  | TMod b u => String.append "mod" (String.append (show_N b) (String.append ":" (show_ty u)))
  | TObj0 n => n | TObj1 n u => String.append n (String.append "<" (String.append (show_ty u) ">"))
  end.
Definition kind_name (k : kind) : string :=
  match k with
  | KLit => "Lit" | KVar => "Var" | KEVal => "EnumValue" | KTern => "Ternary" | KSeq => "Sequence" | KSwz _ => "Swizzle" | KMSwz _ => "MatrixSwizzle"
  | KOpq w => w | KSub => "Subscript" | KSMem sid _ => String.append "Member-of-struct#" (show_N sid)
  | KCall _ _ _ ps _ => String.append "Call(" (String.append (join "," (map (fun p => String.append (show_N (fst p)) (String.append ":" (show_ty (snd p)))) ps)) ")")
  | KCtor _ => "Constructor" | KCast => "Cast" | KSizeOf => "SizeOf" | KOp n => n
  end.
Definition show_node (e : expr) : string :=
  match e with
  | Node k t lv kids =>
      String.append (kind_name k) (String.append " : " (String.append (show_ty t) (String.append (if lv then " lvalue" else " rvalue")
        (String.append " <- [" (String.append (join "; " (map (fun x => String.append (kind_name (match x with Node k' _ _ _ => k' end))
            (String.append " : " (String.append (show_ty (e_ty x)) (if e_lv x then " lvalue" else " rvalue")))) kids)) "]")))))
  end.
Fixpoint find_bad (e : expr) : option expr :=
  match e with
  | Node k t lv kids =>
      match check_node k t lv kids with
      | Some _ => Some e
      | None => (fix first (l : list expr) : option expr := match l with [] => None | x :: r => match find_bad x with Some b => Some b | None => first r end end) kids
      end
  end.
Fixpoint init_exprs (i : init) : list expr :=
  match i with INone => [] | IExpr e => [e] | IAgg l => flat_map init_exprs l end.
Fixpoint stmt_exprs (s : stmt) : list expr :=
  let blk := fix blk (l : list stmt) : list expr := match l with [] => [] | x :: r => stmt_exprs x ++ blk r end in
  let o := fun (x : option expr) => match x with Some e => [e] | None => [] end in
  match s with
  | SExpr e => [e] | SVar _ i => init_exprs i | SBlock l => blk l | SIf c a => c :: blk a | SIfElse c a b => c :: blk a ++ blk b
  | SFor defs ini cond inc b => flat_map (fun d => init_exprs (snd d)) defs ++ o ini ++ o cond ++ o inc ++ blk b
  | SWhile c b => c :: blk b | SDo b c => blk b ++ [c] | SSwitch c b => c :: blk b | SJump | SLabel => [] | SRet x => o x
  end.
Definition explain (es : list expr) : string :=
  match find (fun x => match x with Some _ => true | None => false end) (map find_bad es) with
  | Some (Some b) => String.append " @ " (show_node b)
  | _ => ""
  end.

(* one `;;` segment *)
Definition check_segment (w : list string) : string :=
  let fuel := S (List.length w) in
  match w with
  | "F" :: id :: r =>
      match p_ty fuel r with
      | Some (ret, np :: r1) =>
          match parse_N np with
          | Some np =>
              match (fix ps (k : nat) (w : list string) : option (list (N * ty * option expr) * list string) :=
                       match k with
                       | O => Some ([], w)
                       | S k => match w with
                                | d :: r => d <- parse_N d ;; x <- p_ty fuel r ;; let '(t, r1) := x in
                                            y <- p_opt_expr fuel r1 ;; let '(de, r2) := y in
                                            z <- ps k r2 ;; let '(l, r3) := z in Some ((d, t, de) :: l, r3)
                                | [] => None
                                end
                       end) (N.to_nat np) r1 with
              | Some (params, nb :: r2) =>
                  match parse_N nb with
                  | Some nb =>
                      match (fix block (k : nat) (w : list string) : option (list stmt * list string) :=
                               match k with
                               | O => Some ([], w)
                               | S k => a <- p_stmt fuel w ;; let '(s, r1) := a in b <- block k r1 ;; let '(l, r2) := b in Some (s :: l, r2)
                               end) (N.to_nat nb) r2 with
                      | Some (body, []) =>
                          match wt_func {| f_id := 0; f_ret := ret; f_params := params; f_body := body |} with
                          | None => "OK"
                          | Some why => String.append "ILL F " (String.append id (String.append " : " (String.append why
                              (explain (flat_map (fun p => match p with (_, _, Some d) => [d] | _ => [] end) params ++ flat_map stmt_exprs body)))))
                          end
                      | Some (_, _ :: _) => String.append "BAD-DUMP trailing words in F " id
                      | None => String.append "BAD-DUMP body of F " id
                      end
                  | None => "BAD-DUMP"
                  end
              | _ => String.append "BAD-DUMP parameters of F " id
              end
          | None => "BAD-DUMP"
          end
      | _ => "BAD-DUMP"
      end
  | "G" :: id :: r =>
      match p_ty fuel r with
      | Some (t, r1) =>
          match p_init fuel r1 with
          | Some (i, []) => match wt_init true t i with None => "OK" | Some why => String.append "ILL G " (String.append id (String.append " : " (String.append why (explain (init_exprs i))))) end
          | _ => String.append "BAD-DUMP initialiser of G " id
          end
      | None => "BAD-DUMP"
      end
  | _ => "BAD-DUMP segment"
  end.

(* split the word list at ";;" *)
Fixpoint segments (w : list string) (cur : list string) (acc : list (list string)) : list (list string) :=
  match w with
  | [] => rev_append (rev_append cur [] :: acc) []
  | x :: r => if String.eqb x ";;" then segments r [] (rev_append cur [] :: acc) else segments r (x :: cur) acc
  end.

Definition run_top (s : string) : string :=
  match words s with
  | "IR" :: _ :: ";;" :: r =>
      let segs := filter (fun l => match l with [] => false | _ => true end) (segments r [] []) in
      match find (fun o => negb (String.eqb o "OK")) (map check_segment segs) with
      | Some bad => bad
      | None => String.append "WT " (show_N (N.of_nat (List.length segs)))
      end
  | ["IR"; "0"] | "IR" :: "0" :: _ => "WT 0"
  | _ => "SKIP"
  end.

Require Import ExtrOcamlBasic ExtrOcamlString.
Extraction Language OCaml.
Extraction "../ocaml/gen/EC03.ml" run_top.
