(* Executable wrapper of the C09 model: expression tree (prefix words) -> printed text and the tree read back. *)
From Coq Require Import List NArith Bool String Ascii.
From RV Require Import Wire Syntax GenSyntax SyntaxTables.
Import ListNotations.
Local Open Scope string_scope.
Local Open Scope list_scope.

(* tree := l Kind hex spelling | v name | U Op e | B Op e e | T e e e | S e e | M e name | C k e args*k | K Type e *)
Fixpoint read (fuel : nat) (w : list string) : option (expr * list string) :=
  match fuel with
  | O => None
  | S f =>
      match w with
      | "l" :: kind :: _ :: sp :: r =>
          let intu := String.eqb kind "IntUntyped" in
          match sp with
          | String "-"%char rest => Some (EUn "Minus" (ELit intu rest), r)
          | _ => Some (ELit intu sp, r)
          end
      | "v" :: x :: r => Some (EId x, r)
      | "U" :: o :: r => match read f r with Some (e, r') => Some (EUn o e, r') | None => None end
      | "B" :: o :: r =>
          match read f r with
          | Some (a, r1) => match read f r1 with Some (b, r2) => Some (EBin o a b, r2) | None => None end
          | None => None
          end
      | "T" :: r =>
          match read f r with
          | Some (c, r1) =>
              match read f r1 with
              | Some (a, r2) => match read f r2 with Some (b, r3) => Some (ETern c a b, r3) | None => None end
              | None => None
              end
          | None => None
          end
      | "S" :: r =>
          match read f r with
          | Some (a, r1) => match read f r1 with Some (b, r2) => Some (ESub a b, r2) | None => None end
          | None => None
          end
      | "M" :: r => match read f r with Some (a, m :: r1) => Some (EMem a m, r1) | _ => None end
      | "C" :: k :: r =>
          match parse_N k, read f r with
          | Some n, Some (fn, r1) =>
              let args :=
                (fix args (i : nat) (r : list string) : option (list expr * list string) :=
                   match i with
                   | O => Some ([], r)
                   | S i' => match read f r with
                             | Some (a, r') => match args i' r' with Some (l, r'') => Some (a :: l, r'') | None => None end
                             | None => None
                             end
                   end) in
              match args (N.to_nat n) r1 with Some (l, r2) => Some (ECall fn l, r2) | None => None end
          | _, _ => None
          end
      | "K" :: t :: r => match read f r with Some (e, r') => Some (ECast t e, r') | None => None end
      | _ => None
      end
  end.

Fixpoint show (e : expr) : list string :=
  match e with
  | EId x => ["v"; x]
  | ELit _ s => ["l"; s]
  | EUn o a => "U" :: o :: show a
  | EBin o a b => "B" :: o :: show a ++ show b
  | ETern c a b => "T" :: show c ++ show a ++ show b
  | ESub a b => "S" :: show a ++ show b
  | EMem a m => "M" :: show a ++ [m]
  | ECall f l => "C" :: show_N (N.of_nat (List.length l)) :: show f ++ flat_map show l
  | ECast t a => "K" :: t :: show a
  end.

Fixpoint cast_types (e : expr) : list string :=
  match e with
  | EId _ | ELit _ _ => []
  | EUn _ a | EMem a _ => cast_types a
  | EBin _ a b | ESub a b => cast_types a ++ cast_types b
  | ETern c a b => cast_types c ++ cast_types a ++ cast_types b
  | ECall f l => cast_types f ++ flat_map cast_types l
  | ECast t a => t :: cast_types a
  end.

Definition run_top (s : string) : string :=
  match words s with
  | "E" :: w =>
      match read (S (List.length w)) w with
      | Some (e, []) =>
          let items := t_print e in
          let G := fun t => existsb (String.eqb t) (cast_types e) in
          String.append (String.append (String.append "TEXT " (render items)) " ;; TREE ")
          match t_parse G (toks items) with
          | Ok e' [] => unwords (show e')
          | Ok _ _ => "PARSE-ERROR"
          | Err => "PARSE-ERROR"
          | Fuel => "MODEL-FUEL"
          | Unm => "UNMODELLED"
          end
      | _ => "UNMODELLED-CASE"
      end
  | _ => "UNMODELLED-CASE"
  end.

Require Import ExtrOcamlBasic ExtrOcamlString.
Extraction Language OCaml.
Extraction "../ocaml/gen/EC09.ml" run_top.
