(* Executable wrapper of the C19 model: <use> <type words> -> verdict line. *)
From Coq Require Import List NArith Bool String Ascii.
From RV Require Import Wire Layout GenLayout.
Import ListNotations.
Local Open Scope string_scope.

Notation ty := (Layout.ty scalar).
Notation tys := (Layout.tys scalar).

Definition scalar_of_name (s : string) : option scalar :=
  find (fun o => String.eqb (scalar_name o) s) all_scalars.

(* prefix-word parser with fuel; returns the type and the remaining words *)
Fixpoint parse_ty (fuel : nat) (w : list string) : option (ty * list string) :=
  match fuel with
  | O => None
  | S fuel =>
      match w with
      | k :: r =>
          if String.eqb k "s" then
            match r with s :: r' => sc <- scalar_of_name s ;; Some (TScalar sc, r') | _ => None end
          else if String.eqb k "E" then
            match r with s :: r' => sc <- scalar_of_name s ;; Some (TEnum sc, r') | _ => None end
          else if String.eqb k "V" then
            match r with s :: n :: r' => sc <- scalar_of_name s ;; n <- parse_N n ;; Some (TVec sc n, r') | _ => None end
          else if String.eqb k "A" then
            match r with
            | n :: r' => n <- parse_N n ;; x <- parse_ty fuel r' ;; let '(t, r'') := x in Some (TArr t n, r'')
            | _ => None
            end
          else if String.eqb k "S" then
            match r with
            | n :: r' => n <- parse_N n ;; x <- parse_tys fuel (N.to_nat n) r' ;; let '(ms, r'') := x in Some (TStruct ms, r'')
            | _ => None
            end
          else None
      | [] => None
      end
  end
with parse_tys (fuel : nat) (k : nat) (w : list string) : option (tys * list string) :=
  match fuel with
  | O => None
  | S fuel =>
      match k with
      | O => Some (TNil, w)
      | S k => x <- parse_ty fuel w ;; let '(t, r) := x in
               y <- parse_tys fuel k r ;; let '(ms, r') := y in Some (TCons t ms, r')
      end
  end.

Definition show_verdict (v : verdict) : string :=
  match v with
  | Accept => "ACCEPT"
  | Unknown => "UNKNOWN"
  | Mismatch a b c d => unwords ["MISMATCH"; show_N a; show_N b; show_N c; show_N d]
  | OffsetMismatch a b => unwords ["OFFSET"; show_N a; show_N b]
  end.

Definition run_top (line : string) : string :=
  match words line with
  | _use :: w =>
      match parse_ty (S (List.length w * 2)) w with
      | Some (t, []) => show_verdict (check32 scalar ssize sbool array_min t)
      | _ => "PARSE-ERROR"
      end
  | _ => "PARSE-ERROR"
  end.

Require Import ExtrOcamlBasic ExtrOcamlString.
Extraction Language OCaml.
Extraction "../ocaml/gen/EC19.ml" run_top.
