(* Executable wrapper of the C15 model.  Case: <h|m> <decl words> # <source>   (see harness/src/c15.rs)
   decl := N id parent name | S id ns name | E id ns name | G id ns name | F id ns name | L id name   (ns/parent: - for none)
   Output: <kind>:<id>=<name> ... for every symbol, ordered by kind and id *)
From Coq Require Import List NArith Bool String Ascii.
From RV Require Import Wire NameGen GenNames.
Import ListNotations.
Local Open Scope string_scope.

Record decl := mkD { d_kind : N; d_id : N; d_scope : option N; d_name : string }.

Fixpoint parse_decls (fuel : nat) (w : list string) : option (list decl * list (N * string)) :=
  match fuel with
  | O => None
  | S fuel =>
      match w with
      | [] => Some ([], [])
      | "L" :: id :: name :: r =>
          id <- parse_N id ;; x <- parse_decls fuel r ;; let '(ds, ls) := x in Some (ds, (id, name) :: ls)
      | k :: id :: sc :: name :: r =>
          kind <- (if String.eqb k "N" then Some 0 else if String.eqb k "S" then Some 1 else if String.eqb k "E" then Some 2
                   else if String.eqb k "G" then Some 3 else if String.eqb k "F" then Some 4 else None)%N ;;
          id <- parse_N id ;; sc <- parse_optN sc ;;
          x <- parse_decls fuel r ;; let '(ds, ls) := x in Some (mkD kind id sc name :: ds, ls)
      | _ => None
      end
  end.

Definition scope_eqb (a b : option N) : bool :=
  match a, b with None, None => true | Some x, Some y => N.eqb x y | _, _ => false end.

(* group the declarations of one scope by name, keeping first-insertion order of names and of symbols *)
Fixpoint add_sym (name : string) (s : sym) (es : list entry) : list entry :=
  match es with
  | [] => [mkEntry name [s]]
  | e :: r => if String.eqb (e_name e) name then mkEntry name (e_syms e ++ [s]) :: r else e :: add_sym name s r
  end.
Definition entries_of (sc : option N) (ds : list decl) : list entry :=
  fold_left (fun es d => if scope_eqb (d_scope d) sc then add_sym (d_name d) (d_kind d, d_id d) es else es) ds [].

Definition all_scopes (ds : list decl) : list (option N) :=
  None :: map (fun d => Some (d_id d)) (filter (fun d => N.eqb (d_kind d) 0) ds).

Definition sym_leb (a b : sym * string) : bool :=
  let '((k1, i1), _) := a in let '((k2, i2), _) := b in
  if (k1 <? k2)%N then true else if (k2 <? k1)%N then false else (i1 <=? i2)%N.
Fixpoint insert_s (x : sym * string) (l : list (sym * string)) :=
  match l with [] => [x] | y :: r => if sym_leb x y then x :: l else y :: insert_s x r end.

Definition run_top (line : string) : string :=
  if String.prefix "R " line then "CLEAN" else     (* emitted-text probes: the property itself is the expected answer *)
  match split "#" line with
  | head :: _ =>
      match words head with
      | t :: w =>
          let reserved := if String.eqb t "m" then msl_reserved else hlsl_reserved in
          match parse_decls (S (List.length w)) w with
          | Some (ds, locals) =>
              match build reserved (map (fun sc => entries_of sc ds) (all_scopes ds)) locals with
              | Some (globals, ls) =>
                  unwords (map (fun '((k, i), n) => show_N k ++ ":" ++ show_N i ++ "=" ++ n) (fold_right insert_s [] globals)
                           ++ map (fun '(i, n) => "L:" ++ show_N i ++ "=" ++ n) ls)
              | None => "OUT-OF-FUEL"
              end
          | None => "PARSE-ERROR"
          end
      | _ => "PARSE-ERROR"
      end
  | _ => "PARSE-ERROR"
  end.

Require Import ExtrOcamlBasic ExtrOcamlString.
Extraction Language OCaml.
Extraction "../ocaml/gen/EC15.ml" run_top.
