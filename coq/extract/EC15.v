(* Executable wrapper of the C15 model.  Case: <h|m> <decl words> # <source>   (see harness/src/c15.rs)
   decl := N id parent name | S id ns name | E id ns name | G id ns name | F id ns name | L id name   (ns/parent: - for none)
   Output: <kind>:<id>=<name> ... for every symbol, ordered by kind and id *)
From Coq Require Import List NArith Bool String Ascii.
From RV Require Import Wire NameGen GenNames Scopes.
Import ListNotations.
Local Open Scope string_scope.

Record decl := mkD { d_kind : N; d_id : N; d_scope : option N; d_name : string }.

Fixpoint parse_decls (fuel : nat) (w : list string) : option (list decl * list (N * string)) :=
  match fuel with
  | O => None
  | S fuel =>
      match w with
      | [] => Some ([], [])
      | "L" :: id :: name :: r =>
          id <- parse_N id ;; x <- parse_decls fuel r ;; let '(ds, ls) := x in Some (ds, (id, name) :: ls)
      | k :: id :: sc :: name :: r =>
          kind <- (if String.eqb k "N" then Some 0 else if String.eqb k "S" then Some 1 else if String.eqb k "E" then Some 2
                   else if String.eqb k "G" then Some 3 else if String.eqb k "F" then Some 4 else None)%N ;;
          id <- parse_N id ;; sc <- parse_optN sc ;;
          x <- parse_decls fuel r ;; let '(ds, ls) := x in Some (mkD kind id sc name :: ds, ls)
      | _ => None
      end
  end.

Definition scope_eqb (a b : option N) : bool :=
  match a, b with None, None => true | Some x, Some y => N.eqb x y | _, _ => false end.

(* group the declarations of one scope by name, keeping first-insertion order of names and of symbols *)
Fixpoint add_sym (name : string) (s : sym) (es : list entry) : list entry :=
  match es with
  | [] => [mkEntry name [s]]
  | e :: r => if String.eqb (e_name e) name then mkEntry name (e_syms e ++ [s]) :: r else e :: add_sym name s r
  end.
Definition entries_of (sc : option N) (ds : list decl) : list entry :=
  fold_left (fun es d => if scope_eqb (d_scope d) sc then add_sym (d_name d) (d_kind d, d_id d) es else es) ds [].

Definition all_scopes (ds : list decl) : list (option N) :=
  None :: map (fun d => Some (d_id d)) (filter (fun d => N.eqb (d_kind d) 0) ds).

Definition sym_leb (a b : sym * string) : bool :=
  let '((k1, i1), _) := a in let '((k2, i2), _) := b in
  if (k1 <? k2)%N then true else if (k2 <? k1)%N then false else (i1 <=? i2)%N.
Fixpoint insert_s (x : sym * string) (l : list (sym * string)) :=
  match l with [] => [x] | y :: r => if sym_leb x y then x :: l else y :: insert_s x r end.

(* ---- the leading `::` of emitted paths (Scopes.emit against NameMap::get_name_qualified) ---- *)
Fixpoint split_bar (w : list string) (acc : list string) : list string * list string :=
  match w with
  | [] => (rev_append acc [], [])
  | x :: r => if String.eqb x "|" then (rev_append acc [], r) else split_bar r (x :: acc)
  end.

Record extras := mkX { x_vals : list (N * string); x_members : list string; x_methods : list N }.
Fixpoint parse_extras (fuel : nat) (w : list string) : option extras :=
  match fuel with
  | O => None
  | S fuel =>
      match w with
      | [] => Some (mkX [] [] [])
      | "V" :: ns :: name :: r => ns <- parse_N ns ;; x <- parse_extras fuel r ;; Some (mkX ((ns, name) :: x_vals x) (x_members x) (x_methods x))
      | "M" :: name :: r => x <- parse_extras fuel r ;; Some (mkX (x_vals x) (name :: x_members x) (x_methods x))
      | "T" :: f :: r => f <- parse_N f ;; x <- parse_extras fuel r ;; Some (mkX (x_vals x) (x_members x) (f :: x_methods x))
      | _ => None
      end
  end.

Definition sym_eqb (a b : sym) : bool := N.eqb (fst a) (fst b) && N.eqb (snd a) (snd b).
Definition name_of (names : list (sym * string)) (s : sym) : string :=
  match find (fun p => sym_eqb (fst p) s) names with Some p => snd p | None => "" end.

(* a namespace as the list of its generated names, innermost first *)
Fixpoint ns_path (fuel : nat) (ds : list decl) (names : list (sym * string)) (o : option N) : list string :=
  match fuel with
  | O => []
  | S f =>
      match o with
      | None => []
      | Some id =>
          match find (fun d => N.eqb (d_kind d) 0 && N.eqb (d_id d) id) ds with
          | Some d => name_of names (0%N, id) :: ns_path f ds names (d_scope d)
          | None => []
          end
      end
  end.

Fixpoint path_eqb (a b : list string) : bool :=
  match a, b with
  | [], [] => true
  | x :: r, y :: t => String.eqb x y && path_eqb r t
  | _, _ => false
  end.

Definition anchors (ds : list decl) (x : extras) (names : list (sym * string)) (locals : list (N * string)) : list string :=
  let fuel := S (List.length ds) in
  let pathof := ns_path fuel ds names in
  let is_ns := fun p => existsb (fun d => N.eqb (d_kind d) 0 && path_eqb (pathof (Some (d_id d))) p) ds in
  let has := fun p n =>
    existsb (fun d => negb (N.eqb (d_kind d) 0) && String.eqb (name_of names (d_kind d, d_id d)) n && path_eqb (pathof (d_scope d)) p) ds
    || existsb (fun v => String.eqb (snd v) n && path_eqb (pathof (Some (fst v))) p) (x_vals x) in
  let inner := fun n => in_str n (map snd locals ++ x_members x ++ map (fun f => name_of names (4%N, f)) (x_methods x)) in
  (* a namespace is written out when a struct / enum / global / function lives in it or in a namespace inside it *)
  let suffix_of := fix suffix_of (p q : list string) : bool :=          (* p is q or an enclosing namespace of q *)
    path_eqb p q || match q with [] => false | _ :: r => suffix_of p r end in
  let live := fun p => existsb (fun d => negb (N.eqb (d_kind d) 0) && suffix_of p (pathof (d_scope d))) ds in
  let sites := all_scopes ds in
  map (fun e : sym * string =>
         let '((k, i), leaf) := e in
         let t := match find (fun d => sym_eqb (d_kind d, d_id d) (k, i)) ds with Some d => pathof (d_scope d) | None => [] end in
         "Q:" ++ show_N k ++ ":" ++ show_N i ++ "=" ++
         String.concat "" (map (fun u => if Scopes.p_abs (Scopes.emit is_ns has inner live (pathof u) t leaf) then "1" else "0") sites))
      (filter (fun e : sym * string => negb (N.eqb (fst (fst e)) 0)) (fold_right insert_s [] names)).

Definition run_top (line : string) : string :=
  if String.prefix "R " line then "CLEAN" else     (* emitted-text probes: the property itself is the expected answer *)
  if String.prefix "U " line then "USES-SAME" else (* re-read of the emitted text: the property itself is the expected answer *)
  match split "#" line with
  | head :: _ =>
      match words head with
      | t :: w0 =>
          let '(w, xw) := split_bar w0 [] in
          let reserved := if String.eqb t "m" then msl_reserved else hlsl_reserved in
          match parse_decls (S (List.length w)) w, parse_extras (S (List.length xw)) xw with
          | Some (ds, locals), Some x =>
              match build reserved (map (fun sc => entries_of sc ds) (all_scopes ds)) locals with
              | Some (globals, ls) =>
                  unwords (map (fun '((k, i), n) => show_N k ++ ":" ++ show_N i ++ "=" ++ n) (fold_right insert_s [] globals)
                           ++ map (fun '(i, n) => "L:" ++ show_N i ++ "=" ++ n) ls
                           ++ anchors ds x globals ls)
              | None => "OUT-OF-FUEL"
              end
          | _, _ => "PARSE-ERROR"
          end
      | _ => "PARSE-ERROR"
      end
  | _ => "PARSE-ERROR"
  end.

Require Import ExtrOcamlBasic ExtrOcamlString.
Extraction Language OCaml.
Extraction "../ocaml/gen/EC15.ml" run_top.
