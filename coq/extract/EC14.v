(* Executable wrapper of the C14 location model.  Case: L name hexbytes name hexbytes ... Q file offset
   Output: name line column *)
From Coq Require Import List NArith Bool String Ascii.
From RV Require Import Wire Loc.
Import ListNotations.
Local Open Scope string_scope.
Local Open Scope list_scope.

Definition hexv (c : ascii) : option N :=
  let n := N_of_ascii c in
  if (48 <=? n)%N && (n <=? 57)%N then Some (n - 48)%N
  else if (97 <=? n)%N && (n <=? 102)%N then Some (n - 87)%N else None.

Fixpoint unhex (s : string) : option (list N) :=
  match s with
  | EmptyString => Some []
  | String a (String b r) =>
      match hexv a, hexv b, unhex r with
      | Some x, Some y, Some t => Some ((x * 16 + y)%N :: t)
      | _, _, _ => None
      end
  | _ => None
  end.

Fixpoint read_files (fuel : nat) (w : list string) (acc : list sfile) : option (list sfile * list string) :=
  match fuel with
  | O => None
  | S f =>
      match w with
      | "Q" :: r => Some (rev acc, r)
      | name :: hex :: r =>
          match unhex (if String.eqb hex "-" then "" else hex) with
          | Some b => read_files f r ({| f_name := name; f_bytes := b |} :: acc)
          | None => None
          end
      | _ => None
      end
  end.

Definition run_top (s : string) : string :=
  match words s with
  | "L" :: w =>
      match read_files (S (List.length w)) w [] with
      | Some (fs, [i; off]) =>
          match parse_N i, parse_N off with
          | Some i, Some off =>
              match locate fs 0 (location_of fs (N.to_nat i) (N.to_nat off)) with
              | Some (n, l, c) => unwords [n; show_N l; show_N c]
              | None => "Unknown"
              end
          | _, _ => "BAD-CASE"
          end
      | _ => "BAD-CASE"
      end
  | _ => "UNMODELLED-CASE"
  end.

Require Import ExtrOcamlBasic ExtrOcamlString.
Extraction Language OCaml.
Extraction "../ocaml/gen/EC14.ml" run_top.
