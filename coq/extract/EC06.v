(* Executable wrapper of the C06 model for the correspondence run: one case line in, one result line out. *)
From Coq Require Import List NArith Bool String Ascii.
From RV Require Import Wire Bindings GenBindings.
Import ListNotations.
Local Open Scope string_scope.

Definition okind_of_name (s : string) : option okind :=
  find (fun o => String.eqb (okind_name o) s) all_okinds.

Definition parse_kind (s : string) : option (dkind okind) :=
  if String.eqb s "c" then Some KCBuffer
  else if String.eqb s "n" || String.eqb s "s" || String.eqb s "f" then Some KOther
  else match s with
       | String "o" (String ":" r) => option_map KObj (okind_of_name r)
       | _ => None
       end.

Definition parse_decl (w : string) : option (decl okind) :=
  match split "," w with
  | [k; a; s; ss; ex] =>
      k <- parse_kind k ;; a <- parse_optN a ;; s <- parse_optN s ;;
      ss <- parse_bool ss ;; ex <- parse_bool ex ;;
      Some (mkDecl k a s ss ex)
  | _ => None
  end.

Definition parse_bits (w : string) : option params :=
  match w with
  | String a (String b (String c (String d EmptyString))) =>
      a <- parse_bool (String a "") ;; b <- parse_bool (String b "") ;;
      c <- parse_bool (String c "") ;; d <- parse_bool (String d "") ;;
      Some (mkParams a b c d)
  | _ => None
  end.

(* cfg word: P:<bits> = explicit parameter record; T:<target> = the record compile() uses for that target *)
Definition parse_params (w : string) : option params :=
  match w with
  | String "P" (String ":" r) => parse_bits r
  | String "T" (String ":" r) =>
      option_map snd (find (fun '(n, _) => String.eqb n r) target_params)
  | _ => None
  end.

(* the descriptor count shown is the declared array length (what the metadata reports);
   the slot count itself is visible through the following start indices *)
Definition show_binding (d : decl okind) (ob : option binding) : string :=
  let c := show_N (array_count okind d) in
  match ob with
  | None => "-"
  | Some (mkBinding s (Index i) _) => "I," ++ show_N s ++ "," ++ show_N i ++ "," ++ c
  | Some (mkBinding s (InlineConstant o) _) => "C," ++ show_N s ++ "," ++ show_N o ++ "," ++ c
  end.

Fixpoint map2 {A B C} (f : A -> B -> C) (l1 : list A) (l2 : list B) : list C :=
  match l1, l2 with
  | a :: r1, b :: r2 => f a b :: map2 f r1 r2
  | _, _ => []
  end.

Definition show_block (b : block) : string :=
  let '(s, l, z) := b in show_N s ++ "," ++ show_N l ++ "," ++ show_N z.

Definition run (line : string) : string :=
  match words line with
  | pw :: dw :: rest =>
      match parse_params pw, parse_N dw, omap parse_decl rest with
      | Some p, Some dflt, Some ds =>
          if panics okind is_addr p ds then "PANIC"
          else let (bs, blocks) := assign okind metal2 is_addr p dflt ds in
               unwords (map2 show_binding ds bs ++ ["|"] ++ map show_block blocks)
      | _, _, _ => "PARSE-ERROR"
      end
  | _ => "PARSE-ERROR"
  end.

(* the target table, for the harness to cross-check the configurations it drives *)
Definition show_targets : string :=
  unwords (map (fun '(n, p) => n ++ "=" ++ show_bool (require_slot_type p) ++ show_bool (support_buffer_address p)
                               ++ show_bool (metal_slot_layout p) ++ show_bool (static_samplers_have_slots p))
               target_params).

Definition run_top (line : string) : string :=
  if String.eqb line "TARGETS" then show_targets else run line.

Require Import ExtrOcamlBasic ExtrOcamlString.
Extraction Language OCaml.
Extraction "../ocaml/gen/EC06.ml" run_top.
