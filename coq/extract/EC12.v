(* Executable wrapper of the C12 model.  Case: `;`-separated items
     A name tok..   initial define     F name   start of a file (the first is the entry file)
     T tok..  text block    D tok..  #define    U name  #undef    I name  #include    O  #pragma once
   tokens: ~ whitespace, $ line end, ( ) , identifiers, literals, other punctuation by spelling.
   Output: OK tok.. | ERR reason *)
From Coq Require Import List NArith Bool String Ascii.
From RV Require Import Wire Lexer GenLexer Macro.
Import ListNotations.
Local Open Scope string_scope.
Local Open Scope list_scope.

Definition spell (t : mtok) : string :=
  match t with
  | MId s | MLit s | MSym s => s
  | MLP => "(" | MRP => ")" | MComma => "," | MWs => " " | MEndl => String (ascii_of_N 10) "" | MConcat => "##" | MArg _ => ""
  end.

Definition lexm := lex_file keywords reserved_words symbols int_suffixes float_suffixes (fun _ => false) (fun _ => true).

Definition classify (t : tok) (s : string) : mtok :=
  match t with
  | TId x => MId x
  | TWhitespace | TComment | TPhysicalEndline => MWs
  | TEndline => MEndl
  | TSym v => if String.eqb v "LeftParen" then MLP else if String.eqb v "RightParen" then MRP
              else if String.eqb v "Comma" then MComma else MSym s
  | TLAngle _ | TRAngle _ => MSym s
  | _ => MLit s
  end.

(* unlex both tokens, lex the concatenation: exactly one token (followed by the synthetic line end) *)
Definition paste (a b : mtok) : option mtok :=
  let s := String.append (spell a) (spell b) in
  match lexm s with
  | Lexer.SOk [(t, _, _); (TEndline, _, _)] => Some (classify t s)
  | _ => None
  end.

Definition first_char_class (w : string) : nat :=
  match w with
  | String c _ => if is_alpha_ c then 1 else if is_digit c then 2 else 0
  | EmptyString => 0
  end.

Definition tok_of_word (w : string) : mtok :=
  if String.eqb w "~" then MWs else if String.eqb w "$" then MEndl
  else if String.eqb w "(" then MLP else if String.eqb w ")" then MRP else if String.eqb w "," then MComma
  else match first_char_class w with 1 => MId w | 2 => MLit w | _ => MSym w end.

Definition word_of_tok (t : mtok) : string :=
  match t with MWs => "~" | MEndl => "$" | MConcat => "##" | MArg _ => "?arg" | _ => spell t end.

Inductive pitem := PApi (name : string) (v : list mtok) | PFile (name : string) | PItem (i : item).

Definition parse_item (ws : list string) : option pitem :=
  match ws with
  | "A" :: name :: v => Some (PApi name (map tok_of_word v))
  | ["F"; name] => Some (PFile name)
  | "T" :: ts => Some (PItem (IText (map tok_of_word ts)))
  | "D" :: ts => Some (PItem (IDefine (map tok_of_word ts)))
  | ["U"; x] => Some (PItem (IUndef x))
  | ["I"; f] => Some (PItem (IInclude f))
  | ["O"] => Some (PItem IPragmaOnce)
  | _ => None
  end.

(* group the items under their F markers *)
(* an initial define is the line `#define name value` *)
Definition api_macro (n : string) (v : list mtok) : item := IDefine (MWs :: MId n :: MWs :: v).

Fixpoint group (l : list pitem) (cur : option (string * list item)) (files : list (string * list item)) (api : list item)
  {struct l} : (list (string * list item) * list item)%type :=
  let close := match cur with Some (n, its) => files ++ [(n, rev its)] | None => files end in
  match l with
  | [] => (close, api)
  | PApi n v :: r => group r cur files (api ++ [api_macro n v])
  | PFile n :: r => group r (Some (n, [])) close api
  | PItem i :: r => match cur with
                    | Some (n, its) =>
                        (* text between two directives is one run, however the case line splits it *)
                        match i, its with
                        | IText b, IText a :: its' => group r (Some (n, IText (a ++ b) :: its')) files api
                        | _, _ => group r (Some (n, i :: its)) files api
                        end
                    | None => group r cur files api
                    end
  end.

Definition lookup (files : list (string * list item)) (f : string) : option (list item) :=
  match List.find (fun p => String.eqb (fst p) f) files with Some (_, its) => Some its | None => None end.

Definition show_merr (e : merr) : string :=
  match e with
  | InvalidDefine => "InvalidDefine" | MacroArgumentsNeverEnd => "MacroArgumentsNeverEnd"
  | MacroExpectsDifferentNumberOfArguments => "MacroExpectsDifferentNumberOfArguments"
  | ConcatMissingLeftToken => "ConcatMissingLeftToken" | ConcatMissingRightToken => "ConcatMissingRightToken"
  | ConcatFailed => "ConcatFailed" | MacroRequiresArguments => "MacroRequiresArguments"
  end.

Definition total_items (files : list (string * list item)) : nat :=
  fold_right (fun p n => List.length (snd p) + n) 0 files.

Definition run_top (s : string) : string :=
  match omap parse_item (filter (fun l => match l with [] => false | _ => true end) (map words (split ";" s))) with
  | None => "BAD-CASE"
  | Some pis =>
      let '(files, api) := group pis None [] [] in
      match files with
      | [] => "BAD-CASE"
      | (entry, its) :: _ =>
          (* every item is run at most once per inclusion; inclusion depth is bounded by the fuel *)
          let fuel := 64 * (S (total_items files)) in
          match run_with_defines paste (lookup files) fuel api entry its with
          | inl st => unwords ("OK" :: map word_of_tok (ps_out st))
          | inr (PMacro e) => String.append "ERR " (show_merr e)
          | inr PInvalidDefine => "ERR InvalidDefine"
          | inr PMissingFile => "ERR FailedToFindFile"
          | inr PFuel => "MODEL-FUEL"
          | inr PHang => "MODEL-HANG"
          end
      end
  end.

Require Import ExtrOcamlBasic ExtrOcamlString.
Extraction Language OCaml.
Extraction "../ocaml/gen/EC12.ml" run_top.
