(* Executable wrapper of the C13 model.  Case: <debug 0|1> <expr in prefix words> (see harness/src/c13.rs).
   Output: OK <const> | NOTCONST | PANIC   followed by   ; <the same for the reference evaluator> *)
From Coq Require Import List ZArith NArith Bool String Ascii.
From Flocq Require Import Core IEEE754.BinarySingleNaN IEEE754.Binary IEEE754.Bits.
From RV Require Import Wire EvalSem Evaluator GenEvaluator EnumVals.
Import ListNotations.
Local Open Scope string_scope.

Definition kind_of_name (s : string) : option ckind :=
  if String.eqb s "Bool" then Some KBool else if String.eqb s "IntLiteral" then Some KIntLiteral
  else if String.eqb s "Int32" then Some KInt32 else if String.eqb s "UInt32" then Some KUInt32
  else if String.eqb s "Int64" then Some KInt64 else if String.eqb s "UInt64" then Some KUInt64
  else if String.eqb s "FloatLiteral" then Some KFloatLiteral else if String.eqb s "Float16" then Some KFloat16
  else if String.eqb s "Float32" then Some KFloat32 else if String.eqb s "Float64" then Some KFloat64
  else None.
Definition kind_name (k : ckind) : string :=
  match k with
  | KBool => "Bool" | KIntLiteral => "IntLiteral" | KInt32 => "Int32" | KUInt32 => "UInt32" | KInt64 => "Int64"
  | KUInt64 => "UInt64" | KFloatLiteral => "FloatLiteral" | KFloat16 => "Float16" | KFloat32 => "Float32"
  | KFloat64 => "Float64" | KString => "String" | KEnum => "Enum"
  end.

Definition f64_of_bits (z : Z) : f64 := B2BSN 53 1024 (b64_of_bits z).
Definition f32_of_bits (z : Z) : f32 := B2BSN 24 128 (b32_of_bits z).
Definition show_f64 (x : f64) : string :=
  match x with
  | BinarySingleNaN.B754_nan => "NaN"
  | _ => show_Z (bits_of_b64 (BSN2B 53 1024 default_nan_pl64 x))
  end.
Definition show_f32 (x : f32) : string :=
  match x with
  | BinarySingleNaN.B754_nan => "NaN"
  | _ => show_Z (bits_of_b32 (BSN2B 24 128 default_nan_pl32 x))
  end.

Fixpoint parse_const (fuel : nat) (w : list string) : option (const * list string) :=
  match fuel with
  | O => None
  | S fuel =>
      match w with
      | "b" :: v :: r => b <- parse_bool v ;; Some (VBool b, r)
      | "i" :: k :: v :: r => k <- kind_of_name k ;; z <- parse_Z v ;; Some (VInt k z, r)
      | "d" :: k :: v :: r => k <- kind_of_name k ;; z <- parse_Z v ;; Some (VF64 k (f64_of_bits z), r)
      | "s" :: k :: v :: r => k <- kind_of_name k ;; z <- parse_Z v ;; Some (VF32 k (f32_of_bits z), r)
      | "e" :: id :: r => id <- parse_N id ;; x <- parse_const fuel r ;; let '(c, r') := x in Some (VEnum id c, r')
      | _ => None
      end
  end.

Fixpoint parse_expr (fuel : nat) (w : list string) : option (expr * list string) :=
  match fuel with
  | O => None
  | S fuel =>
      match w with
      | "L" :: r => x <- parse_const fuel r ;; let '(c, r') := x in Some (ELit c, r')
      | "C" :: "S" :: s :: r => x <- parse_expr fuel r ;; let '(e, r') := x in Some (ECast (TS s) e, r')
      | "C" :: "E" :: id :: u :: r =>
          id <- parse_N id ;; x <- parse_expr fuel r ;; let '(e, r') := x in Some (ECast (TE id u) e, r')
      | "C" :: "O" :: r => x <- parse_expr fuel r ;; let '(e, r') := x in Some (ECast TOther e, r')
      | "U" :: op :: r => x <- parse_expr fuel r ;; let '(e, r') := x in Some (EUn op e, r')
      | "B" :: op :: r =>
          x <- parse_expr fuel r ;; let '(a, r1) := x in
          y <- parse_expr fuel r1 ;; let '(b, r2) := y in Some (EBin op a b, r2)
      | "Z" :: "-" :: r => Some (ESizeOf None, r)
      | "Z" :: v :: r => z <- parse_Z v ;; Some (ESizeOf (Some z), r)
      | "X" :: r => Some (ENotConst, r)
      | _ => None
      end
  end.

Fixpoint show_const (c : const) : string :=
  match c with
  | VBool b => "b " ++ show_bool b
  | VInt k z => "i " ++ kind_name k ++ " " ++ show_Z z
  | VF64 k x => "d " ++ kind_name k ++ " " ++ show_f64 x
  | VF32 k x => "s " ++ kind_name k ++ " " ++ show_f32 x
  | VEnum id u => "e " ++ show_N id ++ " " ++ show_const u
  end.

Definition show_res (r : res) : string :=
  match r with ROk c => "OK " ++ show_const c | RNotConst => "NOTCONST" | RPanic => "PANIC" end.

(* enum line: <debug> N <n> <first const>   ->   ENUM <kind> <values>  |  ENUM-NO-TYPE  |  PANIC *)
Definition show_enum (r : enum_res) : string :=
  match r with
  | EnumOk k vs => unwords ("ENUM" :: kind_name k :: map show_Z vs)
  | EnumNoType => "ENUM-NO-TYPE"
  | EnumPanic => "PANIC"
  end.

Definition run_top (line : string) : string :=
  match words (hd "" (split "#" line)) with
  | d :: "N" :: n :: w =>
      match parse_N n, parse_const (S (List.length w)) w with
      | Some n, Some (c, []) => show_enum (enum_impl c (N.to_nat n)) ++ " ; " ++ show_enum (enum_ref c (N.to_nat n))
      | _, _ => "PARSE-ERROR"
      end
  | d :: w =>
      match parse_bool d, parse_expr (S (List.length w)) w with
      | Some debug, Some (e, []) =>
          show_res (impl_eval unary_table binary_table special_table enum_drop cast_table debug e)
          ++ " ; " ++ show_res (ref_eval e)
      | _, _ => "PARSE-ERROR"
      end
  | _ => "PARSE-ERROR"
  end.

Require Import ExtrOcamlBasic ExtrOcamlString.
Extraction Language OCaml.
Extraction "../ocaml/gen/EC13.ml" run_top.
