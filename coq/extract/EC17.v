(* Executable wrapper of the C17 driver model.  Case: P <filter or -> <nopipe 0|1> <pipeline names...>
   Output: OK <names of the compiled pipelines, - for the whole module> | ERR NotFound | ERR NoPipelines | PANIC *)
From Coq Require Import List Bool String.
From RV Require Import Wire Pipeline.
Import ListNotations.
Local Open Scope string_scope.

Definition build_name (p : option string) : string + unit := match p with Some n => inl n | None => inl "-" end.

Definition run_top (s : string) : string :=
  match words s with
  | "P" :: filt :: np :: names =>
      let filter := if String.eqb filt "-" then None else Some filt in
      (* the type checker rejects a file that defines a pipeline name twice *)
      if negb (Nat.eqb (List.length (nodup string_dec names)) (List.length names)) then "ERR Duplicate" else
      match compile string (fun n => n) string unit build_name names filter (String.eqb np "1") with
      | Done _ _ rs => unwords ("OK" :: rs)
      | BuildError _ _ _ => "ERR Build"
      | NotFound _ _ _ => "ERR NotFound"
      | NoPipelines _ _ => "ERR NoPipelines"
      | PanicDuplicate _ _ _ => "PANIC"
      end
  | _ => "UNMODELLED-CASE"
  end.

Require Import ExtrOcamlBasic ExtrOcamlString.
Extraction Language OCaml.
Extraction "../ocaml/gen/EC17.ml" run_top.
