(* Executable wrapper of the C11 model: directive lines separated by `;` -> surviving tokens or the error. *)
From Coq Require Import List NArith Bool String Ascii.
From RV Require Import Wire Cond GenCond CondIncl.
Import ListNotations.
Local Open Scope string_scope.

Definition last_char (s : string) : option ascii :=
  match rev (list_ascii_of_string s) with c :: _ => Some c | [] => None end.
Definition drop_last (s : string) : string :=
  string_of_list_ascii (rev (tl (rev (list_ascii_of_string s)))).

Definition tok_of_word (w : string) : ctok :=
  if String.eqb w "true" then KTrue else if String.eqb w "false" then KFalse
  else if String.eqb w "(" then KLP else if String.eqb w ")" then KRP
  else if String.eqb w "!" then KNot else if String.eqb w "||" then KOr else if String.eqb w "&&" then KAnd
  else if String.eqb w "==" then KEq else if String.eqb w "!=" then KNe
  else if String.eqb w "<" then KLt else if String.eqb w ">" then KGt
  else if String.eqb w "<=" then KLe else if String.eqb w ">=" then KGe
  else match parse_N w with
       | Some n => KNum n
       | None =>
           match last_char w with
           | Some "u"%char => match parse_N (drop_last w) with Some n => KNum n | None => KId w end
           | Some "L"%char => match parse_N (drop_last w) with Some _ => KOther | None => KId w end
           | _ =>
               match w with
               | String c _ =>
                   let n := N_of_ascii c in
                   if ((65 <=? n) && (n <=? 90) || (97 <=? n) && (n <=? 122) || (n =? 95))%N then KId w else KOther
               | EmptyString => KOther
               end
           end
       end.

Definition parse_line (s : string) : option line :=
  match words s with
  | ["t"; n] => option_map LText (parse_N n)
  | ["use"; x] => Some (LUse x)
  | ["define"; x] => Some (LDefine x None)
  | ["define"; x; v] => option_map (fun n => LDefine x (Some n)) (parse_N v)
  | ["undef"; x] => Some (LUndef x)
  | "if" :: c => Some (LIf (map tok_of_word c))
  | ["ifdef"; x] => Some (LIfdef x)
  | ["ifndef"; x] => Some (LIfndef x)
  | "elif" :: c => Some (LElif (map tok_of_word c))
  | ["else"] => Some LElse
  | ["endif"] => Some LEndif
  | _ => None
  end.

Definition show_otok (t : otok) : string :=
  match t with OText n => "x" ++ show_N n | OId s => s | ONum n => show_N n end.

Definition show_perr (e : perr) : string :=
  match e with
  | ElseNotMatched => "ElseNotMatched"
  | EndIfNotMatched => "EndIfNotMatched"
  | ConditionChainNotFinished => "ConditionChainNotFinished"
  | FailedToParseIfCondition => "FailedToParseIfCondition"
  | MacroError => "MacroError"
  end.

Definition run_lines (s : string) : string :=
  match omap parse_line (filter (fun l => negb (String.eqb l "")) (map (fun l => unwords (words l)) (split ";" s))) with
  | None => "PARSE-ERROR"
  | Some ls =>
      match run_file switch eval_cond [] ls with
      | inl (_, out) => unwords ("OK" :: map show_otok out)
      | inr e => "ERR " ++ show_perr e
      end
  end.

(* ---- several files: `F main.rssl : l ; l @ f.h : l ; l` (lines as above, plus include / pragma / bogus) ---- *)
Definition parse_xline (s : string) : option xline :=
  match words s with
  | ["include"; f] => Some (XInclude f)
  | ["pragma"; "once"] => Some XPragmaOnce
  | "pragma" :: "warning" :: _ => Some XPragmaWarning
  | "pragma" :: _ => Some XPragmaOther
  | ["bogus"] => Some XUnknown
  | _ => option_map XL (parse_line s)
  end.

Definition parse_file (s : string) : option (string * list xline) :=
  match split ":" s with
  | [name; body] =>
      match words name with
      | [n] => option_map (fun ls => (n, ls))
                 (omap parse_xline (filter (fun l => negb (String.eqb l "")) (map (fun l => unwords (words l)) (split ";" body))))
      | _ => None
      end
  | _ => None
  end.

Fixpoint find_file (fs : list (string * list xline)) (f : string) : option (list xline) :=
  match fs with
  | [] => None
  | (n, ls) :: r => if String.eqb n f then Some ls else find_file r f
  end.

Definition show_xerr (e : xerr) : string :=
  match e with
  | XE e => show_perr e
  | XFailedToFindFile => "FailedToFindFile"
  | XIncludeDepthExceeded => "IncludeDepthExceeded"
  | XUnknownPragma => "UnknownPragma"
  | XUnknownCommand => "UnknownCommand"
  end.

Definition run_files (s : string) : string :=
  match omap parse_file (split "@" s) with
  | None => "PARSE-ERROR"
  | Some fs =>
      match xrun_file switch eval_cond (find_file fs) max_include_depth "main.rssl" [] with
      | inl (_, out) => unwords ("OK" :: map show_otok out)
      | inr e => "ERR " ++ show_xerr e
      end
  end.

Definition run_top (s : string) : string :=
  match s with
  | String "F" (String " " r) => run_files r
  | _ => run_lines s
  end.

Require Import ExtrOcamlBasic ExtrOcamlString.
Extraction Language OCaml.
Extraction "../ocaml/gen/EC11.ml" run_top.
