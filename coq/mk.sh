#!/bin/sh
# regenerate the Makefile from the files present and run make with the given targets
cd "$(dirname "$0")"
mkdir -p ../ocaml/gen gen
{ cat _CoqProject; find gen model proofs props extract -name '*.v' | sort; } > .CoqProject.all
coq_makefile -f .CoqProject.all -o Makefile >/dev/null 2>&1
exec make "$@"
