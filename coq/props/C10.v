(* C10 — lexing is lossless and numeric literals are exact.  Property theorems only. *)
From Coq Require Import List ZArith NArith Bool String Ascii Lia Reals.
From Coq Require Import Floats.SpecFloat.
From Flocq Require Import Core IEEE754.BinarySingleNaN.
From RV Require Import Lexer Numbers LexerProofs NumbersProofs GenLexer.
Import ListNotations.

Notation lex := (lex_file keywords reserved_words symbols int_suffixes float_suffixes float_is_zero (fun _ => true)).
Notation tok_at := (Lexer.tok_at keywords reserved_words symbols int_suffixes float_suffixes float_is_zero (fun _ => true)).

(* ---- every byte string ---- *)

(* the token spans are contiguous, in order, start at 0 and end at the file length; the synthetic final
   Endline has an empty span *)
Theorem C10_spans_tile : forall (s : string) ts, lex s = SOk ts -> tiles 0 ts (slen s).
Proof. exact (lex_tiles keywords reserved_words symbols int_suffixes float_suffixes float_is_zero (fun _ => true)). Qed.

(* every token consumes at least one byte and at most what is left (hence |s|+1 steps suffice) *)
Theorem C10_token_progress : forall inc (s : string), s <> EmptyString -> bounded s (tok_at inc s).
Proof. exact (tok_at_bounded keywords reserved_words symbols int_suffixes float_suffixes float_is_zero (fun _ => true)). Qed.

(* every lexer diagnostic position lies inside the file *)
Theorem C10_error_in_file : forall (s : string) e k, lex s = SErr e k -> k <= slen s.
Proof. exact (lex_error_in_file keywords reserved_words symbols int_suffixes float_suffixes float_is_zero (fun _ => true)). Qed.

(* ---- integer literals: the checked accumulation yields exactly the written value, or rejects it when it
        does not fit in 64 bits (decimal, hexadecimal, octal alike) ---- *)
Theorem C10_int_exact : forall base dv (s : string),
  (1 <= base)%N ->
  accum base dv s 0 =
  if (written_value base dv s 0 <? two64)%N then Some (written_value base dv s 0) else None.
Proof. intros base dv s Hb. apply accum_exact; [exact Hb | reflexivity]. Qed.

(* ---- float literals: the reference value is the double nearest (ties to even) to the decimal value ---- *)
Theorem C10_float_nearest_pos : forall (p : positive) (e : Z), (0 <= e)%Z ->
  let x := IZR (Zpos p * 10 ^ e) in
  if Rlt_bool (Rabs (round radix2 (SpecFloat.fexp 53 1024) (round_mode mode_NE) x)) (bpow radix2 1024)
  then SF2R radix2 (dec2f64_core (Npos p) e) = round radix2 (SpecFloat.fexp 53 1024) (round_mode mode_NE) x
  else dec2f64_core (Npos p) e = S754_infinity false.
Proof. exact dec2f64_core_nearest_pos. Qed.

Theorem C10_float_nearest_neg : forall (p : positive) (e : Z), (e < 0)%Z ->
  let x := (IZR (Zpos p) / IZR (10 ^ (- e)))%R in
  if Rlt_bool (Rabs (round radix2 (SpecFloat.fexp 53 1024) (round_mode mode_NE) x)) (bpow radix2 1024)
  then SF2R radix2 (dec2f64_core (Npos p) e) = round radix2 (SpecFloat.fexp 53 1024) (round_mode mode_NE) x
  else dec2f64_core (Npos p) e = S754_infinity false.
Proof. exact dec2f64_core_nearest_neg. Qed.

(* ---- table obligations ---- *)
Theorem C10_suffix_tables :
  int_suffixes = [([[117%N; 85%N]; [108%N; 76%N]], "Unsigned64"%string); ([[108%N; 76%N]; [117%N; 85%N]], "Unsigned64"%string);
                  ([[117%N; 85%N]], "Unsigned32"%string); ([[108%N; 76%N]], "Signed64"%string)] /\
  float_suffixes = [([104%N; 72%N], "Half"%string); ([102%N; 70%N], "Float"%string); ([108%N; 76%N], "Double"%string)].
Proof. split; reflexivity. Qed.

(* ---- non-vacuity ---- *)
Example C10_example :
  lex "a<b>>1.5e1f//x"%string =
  SOk [(TId "a", 0, 1); (TLAngle true, 1, 2); (TId "b", 2, 3); (TRAngle true, 3, 4); (TRAngle true, 4, 5);
       (TFloat FFloat "1.5e1", 5, 11); (TComment, 11, 14); (TEndline, 14, 14)]%string.
Proof. vm_compute. reflexivity. Qed.
Example C10_example_value : token_float_bits FFloat "1.5e1" = 1097859072%Z /\ bits64 (float_value "0.0031308") = 4569365555819558681%Z.
Proof. vm_compute. split; reflexivity. Qed.
Example C10_example_reject : lex "18446744073709551616"%string = SErr IntegerLiteralTooLarge 0.
Proof. vm_compute. reflexivity. Qed.

Print Assumptions C10_spans_tile.
Print Assumptions C10_token_progress.
Print Assumptions C10_error_in_file.
Print Assumptions C10_int_exact.
Print Assumptions C10_float_nearest_pos.
Print Assumptions C10_float_nearest_neg.
Print Assumptions C10_suffix_tables.
