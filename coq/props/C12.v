(* C12 — macro expansion and inclusion.  Property theorems only. *)
From Coq Require Import List NArith Bool String Arith.
From RV Require Import Macro MacroProofs MacroSubst MacroLines MacroPaste MacroChain MacroSelf MacroNested MacroMutual MacroFnNested MacroMany MacroMany2.
Import ListNotations.
Local Open Scope string_scope.

(* ---- every paste function, every macro table (recursive and mutually recursive definitions included), every token
        list: expansion ends with the expanded list or a diagnostic; it neither runs out of the stated fuel
        (S #macros nested rescans, S #tokens steps per list) nor reaches the scan's skipped increment, and an
        expanded list contains no unprocessed `##` of a replacement list ---- *)
Theorem C12_expansion_terminates :
  forall (paste : mtok -> mtok -> option mtok) (defs : list macro) (toks : list mtok),
    match apply_macros paste defs toks with
    | XOk out => Forall (fun t => t <> MConcat) out
    | XErr _ => True
    | XFuel => False
    | XHang => False
    end.
Proof. exact apply_macros_good. Qed.

(* ---- #include "f" of a file without #pragma once is the file's items run in place ---- *)
Theorem C12_include_is_paste :
  forall paste files fuel self f body rest st st1 st2,
    files f = Some body -> existsb (String.eqb f) (ps_once st) = false -> no_once body = true ->
    run paste files fuel f body st = inl st1 -> run paste files fuel self rest st1 = inl st2 ->
    run paste files (S fuel) self (IInclude f :: rest) st = inl st2 /\
    run paste files (fuel + fuel) self (body ++ rest) st = inl st2.
Proof. exact include_is_paste. Qed.

(* ---- a #pragma once file contributes once: running it marks it, and a marked file contributes nothing ---- *)
Theorem C12_pragma_once_marks :
  forall paste files fuel f pre post st st',
    run paste files fuel f (pre ++ IPragmaOnce :: post) st = inl st' -> no_once pre = true ->
    (forall g, In (IInclude g) pre -> False) ->
    existsb (String.eqb f) (ps_once st') = true.
Proof. exact pragma_once_marks. Qed.

Theorem C12_pragma_once_second_time :
  forall paste files fuel self f body rest st,
    files f = Some body -> existsb (String.eqb f) (ps_once st) = true ->
    run paste files (S (S fuel)) self (IInclude f :: rest) st = run paste files (S fuel) self rest st.
Proof. exact pragma_once_second_time. Qed.

(* ---- defines passed to the compiler are #define lines before the first line of the entry file ---- *)
Theorem C12_defines_are_define_lines :
  forall paste files fuel defines entry its r,
    no_once defines = true ->
    run_with_defines paste files fuel defines entry its = inl r ->
    run paste files (fuel + fuel) entry (defines ++ its) {| ps_macros := []; ps_once := []; ps_out := [] |} = inl r.
Proof. exact defines_are_define_lines. Qed.

(* ---- text that names no macro is left as it is ---- *)
Theorem C12_plain_text_unchanged :
  forall (paste : mtok -> mtok -> option mtok) (defs : list macro) (toks : list mtok),
    plain defs toks -> apply_macros paste defs toks = XOk toks.
Proof. exact plain_text_unchanged. Qed.

(* ---- invoking an object-like macro yields its replacement list: every paste function, every macro table, every
        token list `pre ++ name :: post` whose other tokens name no macro and hold no `##` ---- *)
Theorem C12_object_macro_is_replaced :
  forall (paste : mtok -> mtok -> option mtok) (defs : list macro) (mi : nat) (m : macro) (pre post : list mtok),
    nth_error defs mi = Some m -> m_fn m = false ->
    (forall j m', j < mi -> nth_error defs j = Some m' -> String.eqb (m_name m) (m_name m') = false) ->
    plain defs pre -> plain defs post -> plain defs (m_body m) ->
    apply_macros paste defs (pre ++ MId (m_name m) :: post) = XOk (pre ++ m_body m ++ post).
Proof. exact object_macro_is_replaced. Qed.

(* ---- invoking a function-like macro yields its replacement list with the (trimmed) arguments substituted for the
        parameters; an argument may hold parentheses, and commas inside them do not split it ---- *)
Theorem C12_function_macro_is_substituted :
  forall (paste : mtok -> mtok -> option mtok) (defs : list macro) (mi : nat) (m : macro)
         (pre : list mtok) (args : list (list mtok)) (post : list mtok),
    nth_error defs mi = Some m -> m_fn m = true ->
    (forall j m', j < mi -> nth_error defs j = Some m' -> String.eqb (m_name m) (m_name m') = false) ->
    args <> [] -> List.length args = m_params m -> Forall (simple defs) args ->
    plain defs pre -> plain defs post -> forallb (bodyb defs) (m_body m) = true ->
    apply_macros paste defs (pre ++ MId (m_name m) :: MLP :: commas args ++ MRP :: post) =
    XOk (pre ++ subst (m_body m) (map trim args) ++ post).
Proof. exact function_macro_is_substituted. Qed.

(* ---- non-vacuity ---- *)
Definition ex_paste (a b : mtok) : option mtok :=
  match a, b with MId x, MId y => Some (MId (x ++ y)) | _, _ => None end.
Definition def (cmd : list mtok) : macro :=
  match parse_define cmd with Some m => m | None => {| m_name := ""; m_fn := false; m_params := 0; m_body := [] |} end.
(* #define f(p) p      #define a f(a) + g      #define g(p,q) p ## q     #define h g *)
Definition ex_defs : list macro :=
  [def [MWs; MId "f"; MLP; MId "p"; MRP; MWs; MId "p"];
   def [MWs; MId "a"; MWs; MId "f"; MLP; MId "a"; MRP; MWs; MSym "+"; MWs; MId "g"];
   def [MWs; MId "g"; MLP; MId "p"; MComma; MId "q"; MRP; MWs; MId "p"; MWs; MSym "##"; MWs; MId "q"];
   def [MWs; MId "h"; MWs; MId "g"]].

Example C12_example_recursive :   (* a  ->  a + g   (the inner a is not expanded again) *)
  apply_macros ex_paste ex_defs [MId "a"] = XOk [MId "a"; MWs; MSym "+"; MWs; MId "g"].
Proof. vm_compute. reflexivity. Qed.

Example C12_example_trailing_function :   (* h(x, (y,z)) a  ->  g's arguments come from the text after h's expansion *)
  apply_macros ex_paste ex_defs [MId "h"; MLP; MId "x"; MComma; MWs; MId "y"; MRP; MWs; MId "f"; MLP; MLP; MId "u"; MComma; MId "v"; MRP; MRP] =
  XOk [MId "xy"; MWs; MLP; MId "u"; MComma; MId "v"; MRP].
Proof. vm_compute. reflexivity. Qed.

Example C12_example_driver :
  run ex_paste (fun f => if String.eqb f "a.h" then Some [IPragmaOnce; IDefine [MWs; MId "A"; MWs; MLit "1"]; IText [MId "y"; MEndl]] else None)
      20 "main" [IInclude "a.h"; IText [MId "A"; MEndl]; IInclude "a.h"; IText [MId "A"; MEndl]]
      {| ps_macros := []; ps_once := []; ps_out := [] |} =
  inl {| ps_macros := [def [MWs; MId "A"; MWs; MLit "1"]]; ps_once := ["a.h"];
         ps_out := [MId "y"; MEndl; MLit "1"; MEndl; MLit "1"; MEndl] |}.
Proof. vm_compute. reflexivity. Qed.

(* #define two(p,q) q - p      #define K ( 4 ) *)
Definition ex_defs2 : list macro :=
  [def [MWs; MId "two"; MLP; MId "p"; MComma; MId "q"; MRP; MWs; MId "q"; MWs; MSym "-"; MWs; MId "p"];
   def [MWs; MId "K"; MWs; MLP; MLit "4"; MRP]].
Definition ex_args : list (list mtok) := [[MWs; MId "h"; MLP; MId "u"; MComma; MId "v"; MRP]; [MId "w"; MWs]].
Example C12_substitution_example_hyps :
  nth_error ex_defs2 0 = Some (def [MWs; MId "two"; MLP; MId "p"; MComma; MId "q"; MRP; MWs; MId "q"; MWs; MSym "-"; MWs; MId "p"]) /\
  Forall (simple ex_defs2) ex_args /\ forallb (bodyb ex_defs2) (m_body (nth 0 ex_defs2 (def []))) = true /\
  List.length ex_args = m_params (nth 0 ex_defs2 (def [])).
Proof. split; [reflexivity|]. split; [repeat constructor|]. split; reflexivity. Qed.
Example C12_substitution_example :
  apply_macros (fun _ _ => None) ex_defs2 ([MId "x"; MWs] ++ MId "two" :: MLP :: commas ex_args ++ MRP :: [MSym ";"]) =
  XOk [MId "x"; MWs; MId "w"; MWs; MSym "-"; MWs; MId "h"; MLP; MId "u"; MComma; MId "v"; MRP; MSym ";"].
Proof. vm_compute. reflexivity. Qed.
Example C12_object_example :
  apply_macros (fun _ _ => None) ex_defs2 [MId "x"; MSym "+"; MId "K"; MSym ";"] =
  XOk [MId "x"; MSym "+"; MLP; MLit "4"; MRP; MSym ";"].
Proof. vm_compute. reflexivity. Qed.
(* ==== further substitution theorems (MacroLines / MacroPaste / MacroChain / MacroSelf / MacroNested / MacroMutual) ==== *)
Local Open Scope list_scope.
(* ---- #define and redefinition take effect from their line onward: whatever the name meant before, the next text
        line sees the new replacement list; after #undef the name is an ordinary identifier ---- *)
Theorem C12_define_takes_effect :
  forall paste files fuel self cmd m pre post st,
    parse_define cmd = Some m -> m_fn m = false ->
    let defs' := remove_macro (m_name m) (ps_macros st) ++ [m] in
    plain defs' pre -> plain defs' post -> plain defs' (m_body m) ->
    run paste files (S (S (S fuel))) self [IDefine cmd; IText (pre ++ MId (m_name m) :: post)] st =
    inl {| ps_macros := defs'; ps_once := ps_once st; ps_out := ps_out st ++ pre ++ m_body m ++ post |}.
Proof. exact define_takes_effect. Qed.

Theorem C12_define_function_takes_effect :
  forall paste files fuel self cmd m pre args post st,
    parse_define cmd = Some m -> m_fn m = true ->
    let defs' := remove_macro (m_name m) (ps_macros st) ++ [m] in
    args <> [] -> List.length args = m_params m -> Forall (simple defs') args ->
    plain defs' pre -> plain defs' post -> forallb (bodyb defs') (m_body m) = true ->
    run paste files (S (S (S fuel))) self
        [IDefine cmd; IText (pre ++ MId (m_name m) :: MLP :: commas args ++ MRP :: post)] st =
    inl {| ps_macros := defs'; ps_once := ps_once st;
           ps_out := ps_out st ++ pre ++ subst (m_body m) (map trim args) ++ post |}.
Proof. exact define_function_takes_effect. Qed.

Theorem C12_undef_takes_effect :
  forall paste files fuel self x pre post st,
    let defs' := remove_macro x (ps_macros st) in
    plain defs' pre -> plain defs' post ->
    run paste files (S (S (S fuel))) self [IUndef x; IText (pre ++ MId x :: post)] st =
    inl {| ps_macros := defs'; ps_once := ps_once st; ps_out := ps_out st ++ pre ++ MId x :: post |}.
Proof. exact undef_takes_effect. Qed.

Example C12_lines_example :
  run ex_paste (fun _ => None) 10 "main"
      [IDefine [MWs; MId "X"; MWs; MLit "1"]; IText [MId "X"; MEndl];
       IDefine [MWs; MId "X"; MWs; MLit "2"]; IText [MId "X"; MEndl];
       IUndef "X"; IText [MId "X"; MEndl]]
      {| ps_macros := []; ps_once := []; ps_out := [] |} =
  inl {| ps_macros := []; ps_once := []; ps_out := [MLit "1"; MEndl; MLit "2"; MEndl; MId "X"; MEndl] |}.
Proof. vm_compute. reflexivity. Qed.

(* ---- `##` pastes its neighbours into one token: every paste function, every macro table holding
        `#define name(p,q) p ## q`, every pair of single-token arguments that name no macro, in plain surroundings ---- *)
Theorem C12_paste_macro_pastes :
  forall (paste : mtok -> mtok -> option mtok) (defs : list macro) (mi : nat) (m : macro)
         (pre : list mtok) (a b t : mtok) (post : list mtok),
    nth_error defs mi = Some m -> m_fn m = true -> m_params m = 2 ->
    m_body m = [MArg 0; MWs; MConcat; MWs; MArg 1] ->
    (forall j m', j < mi -> nth_error defs j = Some m' -> String.eqb (m_name m) (m_name m') = false) ->
    simple defs [a] -> simple defs [b] -> is_ws a = false -> is_ws b = false ->
    paste a b = Some t -> plain defs [t] ->
    plain defs pre -> plain defs post ->
    apply_macros paste defs (pre ++ MId (m_name m) :: MLP :: a :: MComma :: b :: MRP :: post) = XOk (pre ++ t :: post).
Proof. exact paste_macro_pastes. Qed.

Example C12_paste_example_hyps :
  nth_error ex_defs 2 = Some (nth 2 ex_defs (def [])) /\ m_body (nth 2 ex_defs (def [])) = [MArg 0; MWs; MConcat; MWs; MArg 1] /\
  simple ex_defs [MId "x"] /\ plain ex_defs [MId "xy"].
Proof. repeat split; reflexivity. Qed.
Example C12_paste_example :
  apply_macros ex_paste ex_defs ([MId "u"; MWs] ++ MId "g" :: MLP :: MId "x" :: MComma :: MId "y" :: MRP :: [MSym ";"]) =
  XOk [MId "u"; MWs; MId "xy"; MSym ";"].
Proof. vm_compute. reflexivity. Qed.
(* ---- a replacement list that names another object-like macro (one level of nesting): the rescan expands it ---- *)
Theorem C12_object_chain_is_replaced :
  forall (paste : mtok -> mtok -> option mtok) (defs : list macro) (ia : nat) (a : macro) (ib : nat) (b : macro)
         (pre post preA postA : list mtok),
    nth_error defs ia = Some a -> m_fn a = false ->
    nth_error defs ib = Some b -> m_fn b = false ->
    m_body a = preA ++ MId (m_name b) :: postA ->
    String.eqb (m_name a) (m_name b) = false ->
    (forall j m', j < ia -> nth_error defs j = Some m' -> String.eqb (m_name a) (m_name m') = false) ->
    (forall j m', j < ib -> nth_error defs j = Some m' -> String.eqb (m_name b) (m_name m') = false) ->
    plain defs pre -> plain defs post -> plain defs preA -> plain defs postA -> plain defs (m_body b) ->
    apply_macros paste defs (pre ++ MId (m_name a) :: post) = XOk (pre ++ (preA ++ m_body b ++ postA) ++ post).
Proof. exact object_chain_is_replaced. Qed.

(* #define L 1 + K ;      #define K ( 4 ) *)
Definition ex_defs3 : list macro :=
  [def [MWs; MId "L"; MWs; MLit "1"; MWs; MSym "+"; MWs; MId "K"; MWs; MSym ";"];
   def [MWs; MId "K"; MWs; MLP; MWs; MLit "4"; MWs; MRP]].
Example C12_chain_example :
  apply_macros (fun _ _ => None) ex_defs3 [MId "x"; MSym "="; MId "L"; MEndl] =
  XOk [MId "x"; MSym "="; MLit "1"; MWs; MSym "+"; MWs; MLP; MWs; MLit "4"; MWs; MRP; MWs; MSym ";"; MEndl].
Proof. vm_compute. reflexivity. Qed.
(* ---- a self-referential object-like macro: the name inside its own replacement list stays as it is - it is neither
        expanded by the rescan (the macro is disabled there) nor when the scan resumes behind the replacement ---- *)
Theorem C12_self_reference_stays :
  forall (paste : mtok -> mtok -> option mtok) (defs : list macro) (mi : nat) (m : macro)
         (pre post preA postA : list mtok),
    nth_error defs mi = Some m -> m_fn m = false ->
    (forall j m', j <> mi -> nth_error defs j = Some m' -> String.eqb (m_name m) (m_name m') = false) ->
    m_body m = preA ++ MId (m_name m) :: postA ->
    plain defs pre -> plain defs post -> plain defs preA -> plain defs postA ->
    apply_macros paste defs (pre ++ MId (m_name m) :: post) = XOk (pre ++ m_body m ++ post).
Proof. exact self_reference_stays. Qed.

(* #define a ( a + 1 ) *)
Definition ex_defs4 : list macro := [def [MWs; MId "a"; MWs; MLP; MId "a"; MWs; MSym "+"; MWs; MLit "1"; MRP]].
Example C12_self_example :
  apply_macros (fun _ _ => None) ex_defs4 [MId "x"; MSym "="; MId "a"; MSym ";"; MId "y"] =
  XOk [MId "x"; MSym "="; MLP; MId "a"; MWs; MSym "+"; MWs; MLit "1"; MRP; MSym ";"; MId "y"].
Proof. vm_compute. reflexivity. Qed.
(* ---- nested invocation: an argument that is the name of an object-like macro is expanded before it is substituted ---- *)
Theorem C12_argument_is_expanded_first :
  forall (paste : mtok -> mtok -> option mtok) (defs : list macro) (fi : nat) (f : macro) (ki : nat) (k : macro)
         (pre post : list mtok),
    nth_error defs fi = Some f -> m_fn f = true -> m_params f = 1 ->
    nth_error defs ki = Some k -> m_fn k = false ->
    (forall j m', j < fi -> nth_error defs j = Some m' -> String.eqb (m_name f) (m_name m') = false) ->
    (forall j m', j < ki -> nth_error defs j = Some m' -> String.eqb (m_name k) (m_name m') = false) ->
    forallb (bodyb defs) (m_body f) = true -> plain defs (m_body k) ->
    plain defs pre -> plain defs post ->
    apply_macros paste defs (pre ++ MId (m_name f) :: MLP :: MId (m_name k) :: MRP :: post) =
    XOk (pre ++ subst (m_body f) [m_body k] ++ post).
Proof. exact argument_is_expanded_first. Qed.

(* #define sq(v) ((v)*(v))      #define K 4 + 1 *)
Definition ex_defs5 : list macro :=
  [def [MWs; MId "sq"; MLP; MId "v"; MRP; MWs; MLP; MLP; MId "v"; MRP; MSym "*"; MLP; MId "v"; MRP; MRP];
   def [MWs; MId "K"; MWs; MLit "4"; MWs; MSym "+"; MWs; MLit "1"]].
Example C12_nested_example :
  apply_macros (fun _ _ => None) ex_defs5 [MId "x"; MSym "="; MId "sq"; MLP; MId "K"; MRP; MSym ";"] =
  XOk [MId "x"; MSym "="; MLP; MLP; MLit "4"; MWs; MSym "+"; MWs; MLit "1"; MRP; MSym "*"; MLP; MLit "4"; MWs; MSym "+"; MWs; MLit "1"; MRP; MRP; MSym ";"].
Proof. vm_compute. reflexivity. Qed.
(* ---- mutually referential object-like macros: B is replaced on the rescan of A's list, the A inside B's list stays ---- *)
Theorem C12_mutual_reference :
  forall (paste : mtok -> mtok -> option mtok) (defs : list macro) (ia : nat) (a : macro) (ib : nat) (b : macro)
         (pre post preA postA preB postB : list mtok),
    nth_error defs ia = Some a -> m_fn a = false ->
    nth_error defs ib = Some b -> m_fn b = false ->
    m_body a = preA ++ MId (m_name b) :: postA ->
    m_body b = preB ++ MId (m_name a) :: postB ->
    String.eqb (m_name a) (m_name b) = false ->
    (forall j m', j <> ia -> nth_error defs j = Some m' -> String.eqb (m_name a) (m_name m') = false) ->
    (forall j m', j < ib -> nth_error defs j = Some m' -> String.eqb (m_name b) (m_name m') = false) ->
    plain defs pre -> plain defs post -> plain defs preA -> plain defs postA -> plain defs preB -> plain defs postB ->
    apply_macros paste defs (pre ++ MId (m_name a) :: post) =
    XOk (pre ++ (preA ++ (preB ++ MId (m_name a) :: postB) ++ postA) ++ post).
Proof. exact mutual_reference. Qed.

(* #define A 1 B 2      #define B 3 A 4 *)
Definition ex_defs6 : list macro :=
  [def [MWs; MId "A"; MWs; MLit "1"; MWs; MId "B"; MWs; MLit "2"];
   def [MWs; MId "B"; MWs; MLit "3"; MWs; MId "A"; MWs; MLit "4"]].
Example C12_mutual_example :
  apply_macros (fun _ _ => None) ex_defs6 [MId "x"; MId "A"; MId "y"] =
  XOk [MId "x"; MLit "1"; MWs; MLit "3"; MWs; MId "A"; MWs; MLit "4"; MWs; MLit "2"; MId "y"].
Proof. vm_compute. reflexivity. Qed.
(* ---- a replacement list that invokes a function-like macro: the rescan performs the invocation ---- *)
Theorem C12_replacement_invokes_function :
  forall (paste : mtok -> mtok -> option mtok) (defs : list macro) (il : nat) (l : macro) (fi : nat) (f : macro)
         (pre post preL : list mtok) (args : list (list mtok)) (postL : list mtok),
    nth_error defs il = Some l -> m_fn l = false ->
    nth_error defs fi = Some f -> m_fn f = true ->
    m_body l = preL ++ MId (m_name f) :: MLP :: commas args ++ MRP :: postL ->
    String.eqb (m_name l) (m_name f) = false ->
    (forall j m', j < il -> nth_error defs j = Some m' -> String.eqb (m_name l) (m_name m') = false) ->
    (forall j m', j < fi -> nth_error defs j = Some m' -> String.eqb (m_name f) (m_name m') = false) ->
    args <> [] -> List.length args = m_params f -> Forall (simple defs) args ->
    forallb (bodyb defs) (m_body f) = true ->
    plain defs pre -> plain defs post -> plain defs preL -> plain defs postL ->
    apply_macros paste defs (pre ++ MId (m_name l) :: post) =
    XOk (pre ++ (preL ++ subst (m_body f) (map trim args) ++ postL) ++ post).
Proof. exact replacement_invokes_function. Qed.

(* #define sq(v) ((v)*(v))      #define L 1 + sq(3) *)
Definition ex_defs7 : list macro :=
  [def [MWs; MId "sq"; MLP; MId "v"; MRP; MWs; MLP; MLP; MId "v"; MRP; MSym "*"; MLP; MId "v"; MRP; MRP];
   def [MWs; MId "L"; MWs; MLit "1"; MWs; MSym "+"; MWs; MId "sq"; MLP; MLit "3"; MRP]].
Example C12_replacement_function_example :
  apply_macros (fun _ _ => None) ex_defs7 [MId "x"; MSym "="; MId "L"; MSym ";"] =
  XOk [MId "x"; MSym "="; MLit "1"; MWs; MSym "+"; MWs; MLP; MLP; MLit "3"; MRP; MSym "*"; MLP; MLit "3"; MRP; MRP; MSym ";"].
Proof. vm_compute. reflexivity. Qed.
(* ---- any number of macro uses in one token list, object-like and function-like mixed (replacement lists and
        arguments that name no macro; arguments may hold parentheses): each use is replaced by its replacement list with
        the arguments substituted, in order, and the text between the uses stays as it is ---- *)
Theorem C12_every_use_is_replaced :
  forall (paste : mtok -> mtok -> option mtok) (defs : list macro) (us : list muse) (post : list mtok),
    Forall (muse_ok defs (map (fun _ => false) defs)) us -> plain defs post ->
    apply_macros paste defs (min us ++ post) = XOk (mout us ++ post).
Proof. exact every_use_is_replaced. Qed.

(* #define W 640      #define sq(v) ((v)*(v))     W * sq(3) + W ; *)
Definition ex_defs9 : list macro :=
  [def [MWs; MId "W"; MWs; MLit "640"];
   def [MWs; MId "sq"; MLP; MId "v"; MRP; MWs; MLP; MLP; MId "v"; MRP; MSym "*"; MLP; MId "v"; MRP; MRP]].
Definition ex_muses : list muse :=
  [UObj [] 0 (nth 0 ex_defs9 (def [])); UFn [MSym "*"] 1 (nth 1 ex_defs9 (def [])) [[MLit "3"]]; UObj [MSym "+"] 0 (nth 0 ex_defs9 (def []))]%nat.
Example C12_every_use_example_ok : Forall (muse_ok ex_defs9 (map (fun _ => false) ex_defs9)) ex_muses.
Proof.
  assert (F0 : forall j m', j < 0 -> nth_error ex_defs9 j = Some m' -> String.eqb "W" (m_name m') = false)
    by (intros j m' Hj; inversion Hj).
  assert (F1 : forall j m', j < 1 -> nth_error ex_defs9 j = Some m' -> String.eqb "sq" (m_name m') = false).
  { intros j m' Hj Hn. destruct j as [|j]; [cbn in Hn; inversion Hn; reflexivity | inversion Hj as [|? Hj']; inversion Hj']. }
  unfold ex_muses. apply Forall_cons; [|apply Forall_cons; [|apply Forall_cons; [|apply Forall_nil]]];
    unfold muse_ok; repeat split; try reflexivity; try assumption; try discriminate.
  repeat constructor.
Qed.
Example C12_every_use_example :
  apply_macros (fun _ _ => None) ex_defs9 (min ex_muses ++ [MSym ";"]) =
  XOk [MLit "640"; MSym "*"; MLP; MLP; MLit "3"; MRP; MSym "*"; MLP; MLit "3"; MRP; MRP; MSym "+"; MLit "640"; MSym ";"].
Proof. vm_compute. reflexivity. Qed.
Print Assumptions C12_expansion_terminates.
Print Assumptions C12_include_is_paste.
Print Assumptions C12_pragma_once_marks.
Print Assumptions C12_pragma_once_second_time.
Print Assumptions C12_defines_are_define_lines.
Print Assumptions C12_plain_text_unchanged.
Print Assumptions C12_object_macro_is_replaced.
Print Assumptions C12_function_macro_is_substituted.
Print Assumptions C12_define_takes_effect.
Print Assumptions C12_define_function_takes_effect.
Print Assumptions C12_undef_takes_effect.
Print Assumptions C12_paste_macro_pastes.
Print Assumptions C12_object_chain_is_replaced.
Print Assumptions C12_self_reference_stays.
Print Assumptions C12_argument_is_expanded_first.
Print Assumptions C12_mutual_reference.
Print Assumptions C12_replacement_invokes_function.
Print Assumptions C12_every_use_is_replaced.
