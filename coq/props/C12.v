(* C12 — macro expansion and inclusion.  Property theorems only. *)
From Coq Require Import List NArith Bool String Arith.
From RV Require Import Macro MacroProofs MacroSubst.
Import ListNotations.
Local Open Scope string_scope.

(* ---- every paste function, every macro table (recursive and mutually recursive definitions included), every token
        list: expansion ends with the expanded list or a diagnostic; it neither runs out of the stated fuel
        (S #macros nested rescans, S #tokens steps per list) nor reaches the scan's skipped increment, and an
        expanded list contains no unprocessed `##` of a replacement list ---- *)
Theorem C12_expansion_terminates :
  forall (paste : mtok -> mtok -> option mtok) (defs : list macro) (toks : list mtok),
    match apply_macros paste defs toks with
    | XOk out => Forall (fun t => t <> MConcat) out
    | XErr _ => True
    | XFuel => False
    | XHang => False
    end.
Proof. exact apply_macros_good. Qed.

(* ---- #include "f" of a file without #pragma once is the file's items run in place ---- *)
Theorem C12_include_is_paste :
  forall paste files fuel self f body rest st st1 st2,
    files f = Some body -> existsb (String.eqb f) (ps_once st) = false -> no_once body = true ->
    run paste files fuel f body st = inl st1 -> run paste files fuel self rest st1 = inl st2 ->
    run paste files (S fuel) self (IInclude f :: rest) st = inl st2 /\
    run paste files (fuel + fuel) self (body ++ rest) st = inl st2.
Proof. exact include_is_paste. Qed.

(* ---- a #pragma once file contributes once: running it marks it, and a marked file contributes nothing ---- *)
Theorem C12_pragma_once_marks :
  forall paste files fuel f pre post st st',
    run paste files fuel f (pre ++ IPragmaOnce :: post) st = inl st' -> no_once pre = true ->
    (forall g, In (IInclude g) pre -> False) ->
    existsb (String.eqb f) (ps_once st') = true.
Proof. exact pragma_once_marks. Qed.

Theorem C12_pragma_once_second_time :
  forall paste files fuel self f body rest st,
    files f = Some body -> existsb (String.eqb f) (ps_once st) = true ->
    run paste files (S (S fuel)) self (IInclude f :: rest) st = run paste files (S fuel) self rest st.
Proof. exact pragma_once_second_time. Qed.

(* ---- defines passed to the compiler are #define lines before the first line of the entry file ---- *)
Theorem C12_defines_are_define_lines :
  forall paste files fuel defines entry its r,
    no_once defines = true ->
    run_with_defines paste files fuel defines entry its = inl r ->
    run paste files (fuel + fuel) entry (defines ++ its) {| ps_macros := []; ps_once := []; ps_out := [] |} = inl r.
Proof. exact defines_are_define_lines. Qed.

(* ---- text that names no macro is left as it is ---- *)
Theorem C12_plain_text_unchanged :
  forall (paste : mtok -> mtok -> option mtok) (defs : list macro) (toks : list mtok),
    plain defs toks -> apply_macros paste defs toks = XOk toks.
Proof. exact plain_text_unchanged. Qed.

(* ---- invoking an object-like macro yields its replacement list: every paste function, every macro table, every
        token list `pre ++ name :: post` whose other tokens name no macro and hold no `##` ---- *)
Theorem C12_object_macro_is_replaced :
  forall (paste : mtok -> mtok -> option mtok) (defs : list macro) (mi : nat) (m : macro) (pre post : list mtok),
    nth_error defs mi = Some m -> m_fn m = false ->
    (forall j m', j < mi -> nth_error defs j = Some m' -> String.eqb (m_name m) (m_name m') = false) ->
    plain defs pre -> plain defs post -> plain defs (m_body m) ->
    apply_macros paste defs (pre ++ MId (m_name m) :: post) = XOk (pre ++ m_body m ++ post).
Proof. exact object_macro_is_replaced. Qed.

(* ---- invoking a function-like macro yields its replacement list with the (trimmed) arguments substituted for the
        parameters; an argument may hold parentheses, and commas inside them do not split it ---- *)
Theorem C12_function_macro_is_substituted :
  forall (paste : mtok -> mtok -> option mtok) (defs : list macro) (mi : nat) (m : macro)
         (pre : list mtok) (args : list (list mtok)) (post : list mtok),
    nth_error defs mi = Some m -> m_fn m = true ->
    (forall j m', j < mi -> nth_error defs j = Some m' -> String.eqb (m_name m) (m_name m') = false) ->
    args <> [] -> List.length args = m_params m -> Forall (simple defs) args ->
    plain defs pre -> plain defs post -> forallb (bodyb defs) (m_body m) = true ->
    apply_macros paste defs (pre ++ MId (m_name m) :: MLP :: commas args ++ MRP :: post) =
    XOk (pre ++ subst (m_body m) (map trim args) ++ post).
Proof. exact function_macro_is_substituted. Qed.

(* ---- non-vacuity ---- *)
Definition ex_paste (a b : mtok) : option mtok :=
  match a, b with MId x, MId y => Some (MId (x ++ y)) | _, _ => None end.
Definition def (cmd : list mtok) : macro :=
  match parse_define cmd with Some m => m | None => {| m_name := ""; m_fn := false; m_params := 0; m_body := [] |} end.
(* #define f(p) p      #define a f(a) + g      #define g(p,q) p ## q     #define h g *)
Definition ex_defs : list macro :=
  [def [MWs; MId "f"; MLP; MId "p"; MRP; MWs; MId "p"];
   def [MWs; MId "a"; MWs; MId "f"; MLP; MId "a"; MRP; MWs; MSym "+"; MWs; MId "g"];
   def [MWs; MId "g"; MLP; MId "p"; MComma; MId "q"; MRP; MWs; MId "p"; MWs; MSym "##"; MWs; MId "q"];
   def [MWs; MId "h"; MWs; MId "g"]].

Example C12_example_recursive :   (* a  ->  a + g   (the inner a is not expanded again) *)
  apply_macros ex_paste ex_defs [MId "a"] = XOk [MId "a"; MWs; MSym "+"; MWs; MId "g"].
Proof. vm_compute. reflexivity. Qed.

Example C12_example_trailing_function :   (* h(x, (y,z)) a  ->  g's arguments come from the text after h's expansion *)
  apply_macros ex_paste ex_defs [MId "h"; MLP; MId "x"; MComma; MWs; MId "y"; MRP; MWs; MId "f"; MLP; MLP; MId "u"; MComma; MId "v"; MRP; MRP] =
  XOk [MId "xy"; MWs; MLP; MId "u"; MComma; MId "v"; MRP].
Proof. vm_compute. reflexivity. Qed.

Example C12_example_driver :
  run ex_paste (fun f => if String.eqb f "a.h" then Some [IPragmaOnce; IDefine [MWs; MId "A"; MWs; MLit "1"]; IText [MId "y"; MEndl]] else None)
      20 "main" [IInclude "a.h"; IText [MId "A"; MEndl]; IInclude "a.h"; IText [MId "A"; MEndl]]
      {| ps_macros := []; ps_once := []; ps_out := [] |} =
  inl {| ps_macros := [def [MWs; MId "A"; MWs; MLit "1"]]; ps_once := ["a.h"];
         ps_out := [MId "y"; MEndl; MLit "1"; MEndl; MLit "1"; MEndl] |}.
Proof. vm_compute. reflexivity. Qed.

(* #define two(p,q) q - p      #define K ( 4 ) *)
Definition ex_defs2 : list macro :=
  [def [MWs; MId "two"; MLP; MId "p"; MComma; MId "q"; MRP; MWs; MId "q"; MWs; MSym "-"; MWs; MId "p"];
   def [MWs; MId "K"; MWs; MLP; MLit "4"; MRP]].
Definition ex_args : list (list mtok) := [[MWs; MId "h"; MLP; MId "u"; MComma; MId "v"; MRP]; [MId "w"; MWs]].
Example C12_substitution_example_hyps :
  nth_error ex_defs2 0 = Some (def [MWs; MId "two"; MLP; MId "p"; MComma; MId "q"; MRP; MWs; MId "q"; MWs; MSym "-"; MWs; MId "p"]) /\
  Forall (simple ex_defs2) ex_args /\ forallb (bodyb ex_defs2) (m_body (nth 0 ex_defs2 (def []))) = true /\
  List.length ex_args = m_params (nth 0 ex_defs2 (def [])).
Proof. split; [reflexivity|]. split; [repeat constructor|]. split; reflexivity. Qed.
Example C12_substitution_example :
  apply_macros (fun _ _ => None) ex_defs2 ([MId "x"; MWs] ++ MId "two" :: MLP :: commas ex_args ++ MRP :: [MSym ";"]) =
  XOk [MId "x"; MWs; MId "w"; MWs; MSym "-"; MWs; MId "h"; MLP; MId "u"; MComma; MId "v"; MRP; MSym ";"].
Proof. vm_compute. reflexivity. Qed.
Example C12_object_example :
  apply_macros (fun _ _ => None) ex_defs2 [MId "x"; MSym "+"; MId "K"; MSym ";"] =
  XOk [MId "x"; MSym "+"; MLP; MLit "4"; MRP; MSym ";"].
Proof. vm_compute. reflexivity. Qed.
Print Assumptions C12_expansion_terminates.
Print Assumptions C12_include_is_paste.
Print Assumptions C12_pragma_once_marks.
Print Assumptions C12_pragma_once_second_time.
Print Assumptions C12_defines_are_define_lines.
Print Assumptions C12_plain_text_unchanged.
Print Assumptions C12_object_macro_is_replaced.
Print Assumptions C12_function_macro_is_substituted.
