(* C12 — macro expansion and inclusion.  Property theorems only. *)
From Coq Require Import List NArith Bool String Arith.
From RV Require Import Macro MacroProofs.
Import ListNotations.
Local Open Scope string_scope.

(* ---- every paste function, every macro table (recursive and mutually recursive definitions included), every token
        list: expansion ends with the expanded list or a diagnostic; it neither runs out of the stated fuel
        (S #macros nested rescans, S #tokens steps per list) nor reaches the scan's skipped increment, and an
        expanded list contains no unprocessed `##` of a replacement list ---- *)
Theorem C12_expansion_terminates :
  forall (paste : mtok -> mtok -> option mtok) (defs : list macro) (toks : list mtok),
    match apply_macros paste defs toks with
    | XOk out => Forall (fun t => t <> MConcat) out
    | XErr _ => True
    | XFuel => False
    | XHang => False
    end.
Proof. exact apply_macros_good. Qed.

(* ---- #include "f" of a file without #pragma once is the file's items run in place ---- *)
Theorem C12_include_is_paste :
  forall paste files fuel self f body rest st st1 st2,
    files f = Some body -> existsb (String.eqb f) (ps_once st) = false -> no_once body = true ->
    run paste files fuel f body st = inl st1 -> run paste files fuel self rest st1 = inl st2 ->
    run paste files (S fuel) self (IInclude f :: rest) st = inl st2 /\
    run paste files (fuel + fuel) self (body ++ rest) st = inl st2.
Proof. exact include_is_paste. Qed.

(* ---- a #pragma once file contributes once: running it marks it, and a marked file contributes nothing ---- *)
Theorem C12_pragma_once_marks :
  forall paste files fuel f pre post st st',
    run paste files fuel f (pre ++ IPragmaOnce :: post) st = inl st' -> no_once pre = true ->
    (forall g, In (IInclude g) pre -> False) ->
    existsb (String.eqb f) (ps_once st') = true.
Proof. exact pragma_once_marks. Qed.

Theorem C12_pragma_once_second_time :
  forall paste files fuel self f body rest st,
    files f = Some body -> existsb (String.eqb f) (ps_once st) = true ->
    run paste files (S (S fuel)) self (IInclude f :: rest) st = run paste files (S fuel) self rest st.
Proof. exact pragma_once_second_time. Qed.

(* ---- defines passed to the compiler are #define lines before the first line of the entry file ---- *)
Theorem C12_defines_are_define_lines :
  forall paste files fuel defines entry its r,
    no_once defines = true ->
    run_with_defines paste files fuel defines entry its = inl r ->
    run paste files (fuel + fuel) entry (defines ++ its) {| ps_macros := []; ps_once := []; ps_out := [] |} = inl r.
Proof. exact defines_are_define_lines. Qed.

(* ---- non-vacuity ---- *)
Definition ex_paste (a b : mtok) : option mtok :=
  match a, b with MId x, MId y => Some (MId (x ++ y)) | _, _ => None end.
Definition def (cmd : list mtok) : macro :=
  match parse_define cmd with Some m => m | None => {| m_name := ""; m_fn := false; m_params := 0; m_body := [] |} end.
(* #define f(p) p      #define a f(a) + g      #define g(p,q) p ## q     #define h g *)
Definition ex_defs : list macro :=
  [def [MWs; MId "f"; MLP; MId "p"; MRP; MWs; MId "p"];
   def [MWs; MId "a"; MWs; MId "f"; MLP; MId "a"; MRP; MWs; MSym "+"; MWs; MId "g"];
   def [MWs; MId "g"; MLP; MId "p"; MComma; MId "q"; MRP; MWs; MId "p"; MWs; MSym "##"; MWs; MId "q"];
   def [MWs; MId "h"; MWs; MId "g"]].

Example C12_example_recursive :   (* a  ->  a + g   (the inner a is not expanded again) *)
  apply_macros ex_paste ex_defs [MId "a"] = XOk [MId "a"; MWs; MSym "+"; MWs; MId "g"].
Proof. vm_compute. reflexivity. Qed.

Example C12_example_trailing_function :   (* h(x, (y,z)) a  ->  g's arguments come from the text after h's expansion *)
  apply_macros ex_paste ex_defs [MId "h"; MLP; MId "x"; MComma; MWs; MId "y"; MRP; MWs; MId "f"; MLP; MLP; MId "u"; MComma; MId "v"; MRP; MRP] =
  XOk [MId "xy"; MWs; MLP; MId "u"; MComma; MId "v"; MRP].
Proof. vm_compute. reflexivity. Qed.

Example C12_example_driver :
  run ex_paste (fun f => if String.eqb f "a.h" then Some [IPragmaOnce; IDefine [MWs; MId "A"; MWs; MLit "1"]; IText [MId "y"; MEndl]] else None)
      20 "main" [IInclude "a.h"; IText [MId "A"; MEndl]; IInclude "a.h"; IText [MId "A"; MEndl]]
      {| ps_macros := []; ps_once := []; ps_out := [] |} =
  inl {| ps_macros := [def [MWs; MId "A"; MWs; MLit "1"]]; ps_once := ["a.h"];
         ps_out := [MId "y"; MEndl; MLit "1"; MEndl; MLit "1"; MEndl] |}.
Proof. vm_compute. reflexivity. Qed.

Print Assumptions C12_expansion_terminates.
Print Assumptions C12_include_is_paste.
Print Assumptions C12_pragma_once_marks.
Print Assumptions C12_pragma_once_second_time.
Print Assumptions C12_defines_are_define_lines.
