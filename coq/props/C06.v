(* C06 — binding slots are allocated completely, contiguously and without overlap.
   Property theorems only: each is closed by `exact`/`apply` of a lemma from
   proofs/BindingsProofs.v instantiated with the tables regenerated from the source
   (gen/GenBindings.v), followed by Print Assumptions. *)
From Coq Require Import List NArith Bool String Lia Sorted.
From RV Require Import Bindings BindingsProofs GenBindings.
Import ListNotations.
Local Open Scope N_scope.

Notation decl := (Bindings.decl okind).
Notation assign := (Bindings.assign okind metal2 is_addr).
Notation slot_count := (Bindings.slot_count okind metal2).
Notation binding_ok := (BindingsProofs.binding_ok okind metal2 is_addr).
Notation index_ranges := (BindingsProofs.index_ranges).
Notation inline_ranges := (BindingsProofs.inline_ranges).

(* ---- table obligations (re-proved against the regenerated tables on every run) ---- *)

(* "twice that for raw and structured buffers on Metal": the cost-2 arms are exactly these six *)
Definition raw_or_structured : list okind :=
  [OK_ByteAddressBuffer; OK_RWByteAddressBuffer; OK_BufferAddress; OK_RWBufferAddress;
   OK_StructuredBuffer; OK_RWStructuredBuffer].

Definition okind_eqb (a b : okind) : bool := String.eqb (okind_name a) (okind_name b).

Theorem C06_cost_table :
  forallb (fun o => Bool.eqb (metal2 o) (existsb (okind_eqb o) raw_or_structured)) all_okinds = true.
Proof. vm_compute. reflexivity. Qed.

Theorem C06_all_okinds_complete : forall o, In o all_okinds.
Proof. intros o; destruct o; vm_compute; tauto. Qed.

Theorem C06_addr_table :
  forallb (fun o => Bool.eqb (is_addr o) (existsb (okind_eqb o) [OK_BufferAddress; OK_RWBufferAddress])) all_okinds = true.
Proof. vm_compute. reflexivity. Qed.

(* the parameter records the targets use: Metal doubles and gives static samplers no slot;
   buffer addresses are inline constants only for Vulkan with the option on *)
Theorem C06_target_params :
  target_params =
  [("HlslForDirectX"%string, mkParams true false false true);
   ("HlslForVulkan"%string, mkParams false false false true);
   ("HlslForVulkan+BA"%string, mkParams false true false true);
   ("Msl"%string, mkParams false false true false)].
Proof. vm_compute. reflexivity. Qed.

(* ---- structural theorems: every params record, default group and declaration list ---- *)

Theorem C06_complete : forall p dflt (ds : list decl),
  Forall2 (binding_ok p dflt) ds (fst (assign p dflt ds)).
Proof. exact (assign_bindings_ok okind metal2 is_addr). Qed.

Theorem C06_contiguous_from_zero : forall p dflt (ds : list decl) g,
  tiles 0 (index_ranges g (fst (assign p dflt ds))).
Proof. exact (assign_slots_tile okind metal2 is_addr). Qed.

Theorem C06_no_overlap : forall p dflt (ds : list decl) g l1 a la l2 b lb l3,
  index_ranges g (fst (assign p dflt ds)) = l1 ++ (a, la) :: l2 ++ (b, lb) :: l3 ->
  a + la <= b.
Proof.
  intros p dflt ds g l1 a la l2 b lb l3 E.
  apply (tiles_ordered 0 l1 a la l2 b lb l3). rewrite <- E.
  exact (assign_slots_tile okind metal2 is_addr p dflt ds g).
Qed.

Theorem C06_no_gap : forall p dflt (ds : list decl) g x,
  x < total (index_ranges g (fst (assign p dflt ds))) ->
  exists a la, In (a, la) (index_ranges g (fst (assign p dflt ds))) /\ a <= x < a + la.
Proof.
  intros p dflt ds g x Hx.
  apply (tiles_cover 0); [exact (assign_slots_tile okind metal2 is_addr p dflt ds g) | lia].
Qed.

Theorem C06_inline_offsets : forall p dflt (ds : list decl) g,
  tiles 0 (inline_ranges g (fst (assign p dflt ds))).
Proof. exact (assign_inline_tile okind metal2 is_addr). Qed.

Theorem C06_inline_blocks : forall p dflt (ds : list decl),
  let bs := fst (assign p dflt ds) in
  let blocks := snd (assign p dflt ds) in
  (forall g, In g (map bset blocks) <-> inline_ranges g bs <> []) /\
  StronglySorted (fun a b => bset a < bset b) blocks /\
  (forall g l z, In (g, l, z) blocks ->
      l = total (index_ranges g bs) /\ z = total (inline_ranges g bs)).
Proof. exact (assign_blocks okind metal2 is_addr). Qed.

(* slot length: count x cost, cost 2 exactly for raw/structured buffers under the Metal layout *)
Theorem C06_slot_length : forall p (d : decl),
  slot_count p d =
  array_count okind d *
  match d_kind d with
  | KObj o => if metal_slot_layout p && existsb (okind_eqb o) raw_or_structured then 2 else 1
  | _ => 1
  end.
Proof.
  intros p d. unfold Bindings.slot_count, Bindings.slice_cost.
  destruct (d_kind d) as [|o|]; try reflexivity.
  assert (H := C06_cost_table). rewrite forallb_forall in H.
  specialize (H o (C06_all_okinds_complete o)). apply Bool.eqb_prop in H. rewrite H. reflexivity.
Qed.

(* ---- non-vacuity: a concrete sequence under each of the four target records ---- *)
Definition ex_decls : list decl :=
  [ mkDecl (KObj OK_Texture2D) None None false true;
    mkDecl (KObj OK_StructuredBuffer) (Some 3) None false true;
    mkDecl KCBuffer None (Some 1) false true;
    mkDecl (KObj OK_SamplerState) None None true true;
    mkDecl (KObj OK_BufferAddress) None None false true;
    mkDecl KOther None None false true;
    mkDecl (KObj OK_RWBufferAddress) None None false true;
    mkDecl (KObj OK_ByteAddressBuffer) None (Some 1) false true ].

Example C06_example_msl :
  assign (mkParams false false true false) 0 ex_decls =
  ([Some (mkBinding 0 (Index 0) 1); Some (mkBinding 0 (Index 1) 6); Some (mkBinding 1 (Index 0) 1);
    None; Some (mkBinding 0 (Index 7) 2); None; Some (mkBinding 0 (Index 9) 2);
    Some (mkBinding 1 (Index 1) 2)], []).
Proof. vm_compute. reflexivity. Qed.

Example C06_example_vkba :
  assign (mkParams false true false true) 2 ex_decls =
  ([Some (mkBinding 2 (Index 0) 1); Some (mkBinding 2 (Index 1) 3); Some (mkBinding 1 (Index 0) 1);
    Some (mkBinding 2 (Index 4) 1); Some (mkBinding 2 (InlineConstant 0) 1); None;
    Some (mkBinding 2 (InlineConstant 8) 1); Some (mkBinding 1 (Index 1) 1)], [(2, 5, 16)]).
Proof. vm_compute. reflexivity. Qed.

Example C06_example_dx :
  fst (assign (mkParams true false false true) 0 ex_decls) =
  [Some (mkBinding 0 (Index 0) 1); Some (mkBinding 0 (Index 1) 3); Some (mkBinding 1 (Index 0) 1);
   Some (mkBinding 0 (Index 4) 1); Some (mkBinding 0 (Index 5) 1); None;
   Some (mkBinding 0 (Index 6) 1); Some (mkBinding 1 (Index 1) 1)].
Proof. vm_compute. reflexivity. Qed.

Print Assumptions C06_cost_table.
Print Assumptions C06_all_okinds_complete.
Print Assumptions C06_addr_table.
Print Assumptions C06_target_params.
Print Assumptions C06_complete.
Print Assumptions C06_contiguous_from_zero.
Print Assumptions C06_no_overlap.
Print Assumptions C06_no_gap.
Print Assumptions C06_inline_offsets.
Print Assumptions C06_inline_blocks.
Print Assumptions C06_slot_length.
