(* C16 — overload resolution is order-independent and prefers exact matches.  Property theorems only. *)
From Coq Require Import List NArith Bool String Lia Permutation.
From RV Require Import Overload OverloadProofs OverloadGlue GenLayout GenCasting.
Import ListNotations.
Local Open Scope N_scope.

Notation ety := (Overload.ety scalar).
Notation param := (Overload.param scalar).
Notation signature := (Overload.signature scalar).
Notation find := (Overload.find scalar scalar_eqb nrank NR_Exact scalar_rank vrank VR_Exact VR_Expand VR_Contract).
Notation viable := (Overload.viable scalar scalar_eqb nrank NR_Exact scalar_rank vrank VR_Exact VR_Expand VR_Contract).
Notation resolve := (Overload.resolve nrank nrank_order vrank vrank_eqb worst_to_best).
Notation dominates := (OverloadProofs.dominates nrank nrank_order vrank vorder).
Notation exact_cast := (OverloadProofs.exact_cast nrank nrank_order vrank NR_Exact VR_Exact).
Notation param_ety := (Overload.param_ety scalar).

(* ---- table obligations (tables regenerated from typer/src/casting.rs on every run) ---- *)
Theorem C16_order_is_a_ranking : forall a b, nrank_order a = nrank_order b -> a = b.
Proof. exact order_injective. Qed.

Theorem C16_exact_is_best : forall r, nrank_order NR_Exact <= nrank_order r.
Proof. exact order_exact_min. Qed.

Theorem C16_vector_ranks_worst_to_best : worst_to_best = [VR_Contract; VR_Expand; VR_Exact].
Proof. exact w2b_eq. Qed.

Theorem C16_only_identical_scalars_are_exact : forall s d, s <> d -> scalar_rank s d <> NR_Exact.
Proof. exact scalar_rank_not_exact. Qed.

Theorem C16_priority_table :
  map (fun d => scalar_rank ST_Int32 d) [ST_UInt32; ST_Bool; ST_Float16; ST_Float32; ST_Float64] =
    [NR_Promotion; NR_IntToBool; NR_Conversion; NR_Conversion; NR_Conversion] /\
  map (fun d => scalar_rank ST_Float16 d) [ST_Float32; ST_Float64; ST_Int32] = [NR_Promotion; NR_PromotionTwice; NR_Conversion] /\
  map (fun d => scalar_rank ST_Float32 d) [ST_Float64; ST_Float16; ST_Int32] = [NR_Promotion; NR_Conversion; NR_Conversion] /\
  map (fun d => scalar_rank ST_IntLiteral d) [ST_Int32; ST_UInt32; ST_Bool; ST_Float32] =
    [NR_Promotion; NR_Promotion; NR_IntToBool; NR_Conversion].
Proof. exact rank_table_rows. Qed.

(* ---- every candidate list (any length, any arity) and every argument tuple ---- *)

(* the verdict (selected id / ambiguous / no match) is invariant under reordering the declarations *)
Theorem C16_order_independent : forall (sigs sigs' : list signature) (args : list ety),
  Permutation sigs sigs' -> resolve (viable sigs args) = resolve (viable sigs' args).
Proof. exact order_independent. Qed.

(* a parameter of exactly the argument's type needs no conversion (an out / inout parameter binds a non-const lvalue: the signature's parameter type carries no const) ... *)
Theorem C16_identical_type_is_exact : forall (a : ety) (p : param),
  e_scalar _ a = p_scalar _ p -> e_dim _ a = p_dim _ p ->
  (p_out _ p = true -> e_lvalue _ a = true /\ e_const _ a = false) ->
  find a (param_ety p) = Some (NR_Exact, VR_Exact).
Proof. exact find_identical. Qed.

(* ... and a viable candidate all of whose parameters need no conversion is selected, provided every
   other viable candidate needs some conversion *)
Theorem C16_exact_wins : forall (sigs : list signature) (args : list ety) c,
  NoDup (map (s_id _) sigs) -> In c (viable sigs args) -> Forall exact_cast (snd c) ->
  (forall d, In d (viable sigs args) -> fst d <> fst c -> Exists (fun x => ~ exact_cast x) (snd d)) ->
  resolve (viable sigs args) = Selected (fst c).
Proof. exact exact_candidate_wins. Qed.

(* the selected candidate is not dominated by any viable candidate *)
Theorem C16_not_dominated : forall (sigs : list signature) (args : list ety) id,
  NoDup (map (s_id _) sigs) -> resolve (viable sigs args) = Selected id ->
  exists c, In c (viable sigs args) /\ fst c = id /\
            forall d, In d (viable sigs args) -> ~ dominates (snd d) (snd c).
Proof. exact selected_not_dominated. Qed.

(* ---- non-vacuity: f(int), f(uint), f(float2) called with an int lvalue, a float rvalue, an int literal ---- *)
Definition sg (id : N) (ps : list param) : signature := mkSig _ id ps (List.length ps).
Definition pin (s : scalar) (d : dim) : param := mkParam _ s d false false.
Definition ex_sigs : list signature :=
  [sg 0 [pin ST_Int32 DScalar]; sg 1 [pin ST_UInt32 DScalar]; sg 2 [pin ST_Float32 (DVec 2)]].

Example C16_example_exact : resolve (viable ex_sigs [mkEty _ ST_Int32 DScalar true false]) = Selected 0.
Proof. vm_compute. reflexivity. Qed.
Example C16_example_expand : resolve (viable ex_sigs [mkEty _ ST_Float32 DScalar false false]) = Selected 2.
Proof. vm_compute. reflexivity. Qed.
Example C16_example_ambiguous : resolve (viable ex_sigs [mkEty _ ST_IntLiteral DScalar false false]) = Ambiguous.
Proof. vm_compute. reflexivity. Qed.

Print Assumptions C16_order_is_a_ranking.
Print Assumptions C16_exact_is_best.
Print Assumptions C16_vector_ranks_worst_to_best.
Print Assumptions C16_only_identical_scalars_are_exact.
Print Assumptions C16_priority_table.
Print Assumptions C16_order_independent.
Print Assumptions C16_identical_type_is_exact.
Print Assumptions C16_exact_wins.
Print Assumptions C16_not_dominated.
