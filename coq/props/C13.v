(* C13 — compile-time constant evaluation matches run-time (HLSL) semantics.  Property theorems only. *)
From Coq Require Import List ZArith NArith Bool String Lia.
From Flocq Require Import Core IEEE754.BinarySingleNaN.
From RV Require Import EvalSem Evaluator EvaluatorProofs GenEvaluator EnumVals EnumValsProofs.
Import ListNotations.
Local Open Scope Z_scope.

Notation impl_eval := (Evaluator.impl_eval unary_table binary_table special_table enum_drop cast_table).

(* ---- table obligation: every arm of evaluate_operator / evaluate_cast regenerated from the source agrees,
        tag by tag, with the reference for every operator of the IR and every pair of operand kinds ---- *)
Theorem C13_tables_agree :
  tables_agree unary_table binary_table special_table enum_drop cast_table = true.
Proof. vm_compute. reflexivity. Qed.

(* ---- every constant expression tree (any depth), debug and release builds alike ---- *)
Theorem C13_eval_matches_hlsl : forall (debug : bool) (e : expr),
  wf_expr e -> impl_eval debug e = ref_eval e.
Proof.
  intros debug e W.
  exact (proj1 (impl_eval_is_ref_eval unary_table binary_table special_table enum_drop cast_table
                  C13_tables_agree debug e W)).
Qed.

(* ---- no integer arm can abort: overflow, shift counts and MIN / -1 included ---- *)
Definition arith_rows_good : bool :=
  forallb (fun '(_, _, _, s) => match s with
                                | BArith k f o zc => arith_int k && good_arith k f o zc
                                | _ => true
                                end) binary_table.

Theorem C13_arith_rows_good : arith_rows_good = true.
Proof. vm_compute. reflexivity. Qed.

Theorem C13_no_overflow_abort : forall op p1 p2 k f o zc,
  In (op, p1, p2, BArith k f o zc) binary_table ->
  forall (debug : bool) (a b : Z), rust_arith debug k f o zc a b <> ZPanic.
Proof.
  intros op p1 p2 k f o zc Hin debug a b.
  assert (H := C13_arith_rows_good). unfold arith_rows_good in H. rewrite forallb_forall in H.
  specialize (H _ Hin). cbn in H. apply andb_true_iff in H as [Hk Hg].
  exact (good_arith_no_panic k f o zc debug a b Hk Hg).
Qed.

(* ---- division and modulus by zero are not constants (reference and, by the theorem above, the evaluator) ---- *)
Theorem C13_div_by_zero_not_constant : forall k a,
  ref_arith k ODiv a 0 = ZNotConst /\ ref_arith k ORem a 0 = ZNotConst.
Proof. intros k a. destruct k; split; reflexivity. Qed.

(* ---- enum values: for every first value the type checker can hand over (a bool, an untyped integer, an int or uint
        inside its range) and every number of enumerators without an initialiser after it, the values the type checker
        computes - typed while the sum fits, untyped beyond, then converted to the selected underlying type - are the
        consecutive integers from the first value, exactly, in the underlying type the range of those integers
        selects; there is no abort, and no type is selected exactly when the language has none ---- *)
Theorem C13_enum_values_exact : forall first n,
  enum_first_ok first = true -> enum_impl first n = enum_ref first n.
Proof. exact enum_values_exact. Qed.

Example C13_enum_example :
  enum_impl (VInt KInt32 2147483647) 1 = EnumOk KUInt32 [2147483647; 2147483648] /\
  enum_impl (VInt KUInt32 4294967295) 1 = EnumNoType /\
  enum_impl (VBool true) 2 = EnumOk KInt32 [1; 2; 3] /\
  enum_impl (VInt KIntLiteral (-2147483649)) 0 = EnumNoType.
Proof. vm_compute. repeat split. Qed.

(* ---- the reference on the boundary values named by the property (sanity of the trusted definitions) ---- *)
Example C13_ref_int_max_plus_one : ref_arith KInt32 OAdd 2147483647 1 = ZOk (-2147483648).
Proof. vm_compute. reflexivity. Qed.
Example C13_ref_uint_underflow : ref_arith KUInt32 OSub 0 1 = ZOk 4294967295.
Proof. vm_compute. reflexivity. Qed.
Example C13_ref_shift_masks : ref_arith KInt32 OShl 1 32 = ZOk 1 /\ ref_arith KInt32 OShl 1 33 = ZOk 2 /\ ref_arith KUInt32 OShr 4294967295 31 = ZOk 1.
Proof. vm_compute. repeat split. Qed.
Example C13_ref_neg_int_min : ref_neg KInt32 (-2147483648) = ZOk (-2147483648).
Proof. vm_compute. reflexivity. Qed.
Example C13_ref_literals_exact : ref_arith KIntLiteral OMul 18446744073709551615 4294967296 = ZOk 79228162514264337589248983040.
Proof. vm_compute. reflexivity. Qed.

(* ---- non-vacuity: (int)(2147483647 + 1 == 2147483648) + ((uint)0 - 1u > 0u ? ...) style tree ---- *)
Definition ex_expr : expr :=
  EBin "Add" (ECast (TS "Int32") (EBin "Multiply" (ELit (VInt KIntLiteral 65536)) (ELit (VInt KIntLiteral 65536))))
             (EUn "Minus" (ECast (TS "Int32") (ELit (VF64 KFloatLiteral (f64_of_Z 7))))).
Example C13_example_wf : wf_expr ex_expr.
Proof. cbn. intuition. Qed.
Example C13_example_value : impl_eval true ex_expr = ROk (VInt KInt32 (-7)).
Proof. vm_compute. reflexivity. Qed.

Print Assumptions C13_tables_agree.
Print Assumptions C13_eval_matches_hlsl.
Print Assumptions C13_arith_rows_good.
Print Assumptions C13_no_overflow_abort.
Print Assumptions C13_div_by_zero_not_constant.
Print Assumptions C13_enum_values_exact.
