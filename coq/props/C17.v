(* C17 — pipelines are selected and compiled independently.  Property theorems only. *)
From Coq Require Import List Bool String.
From RV Require Import Pipeline PipelineProofs GenPipelineUses.
Import ListNotations.
Local Open Scope string_scope.

(* ---- obligation on the sources: the list of pipeline definitions of a module is read only at the selected index
        (exporters), walked by select_pipeline and by compile's loop, and written only by the type checker; so the result
        of build_pipeline for one pipeline is a function of the front end's module and that pipeline alone ---- *)
Theorem C17_pipeline_list_uses :
  pipeline_uses =
  [("hlsl/src/ast_generate.rs", "for stage in &context.module.pipelines[pipeline].stages {");
   ("hlsl/src/ast_generate.rs", "for stage in &module.pipelines[pipeline].stages {");
   ("hlsl/src/ast_generate.rs", "if let Some(pipeline) = context.module.selected_pipeline {");
   ("hlsl/src/ast_generate.rs", "if let Some(pipeline) = module.selected_pipeline {");
   ("ir/src/ir_module.rs", "Some(index) => self.pipelines[index].default_bind_group_index,");
   ("ir/src/ir_module.rs", "for (i, pipeline) in self.pipelines.iter().enumerate() {");
   ("ir/src/ir_module.rs", "let default_set = match self.selected_pipeline {");
   ("ir/src/ir_module.rs", "output.selected_pipeline = selected;");
   ("ir/src/ir_module.rs", "pub pipelines: Vec<PipelineDefinition>,");
   ("ir/src/ir_module.rs", "pub selected_pipeline: Option<usize>,");
   ("msl/src/generator.rs", "Some(&module.pipelines[selected_pipeline])");
   ("msl/src/generator.rs", "generate_pipeline(selected_pipeline, &mut context)?;");
   ("msl/src/generator.rs", "if selected_pipeline.is_some() {");
   ("msl/src/generator.rs", "let selected_pipeline = if let Some(selected_pipeline) = module.selected_pipeline {");
   ("msl/src/lib.rs", "if let Some(selected_pipeline) = module.selected_pipeline {");
   ("msl/src/lib.rs", "let pipeline = &module.pipelines[selected_pipeline];");
   ("msl/src/lib.rs", "selected_pipeline,");
   ("msl/src/rewrite_mesh_output.rs", "&module.pipelines[pipeline_index].stages[stage_index],");
   ("msl/src/rewrite_mesh_output.rs", "let entry_point = module.pipelines[pipeline_index].stages[stage_index].entry_point;");
   ("src/compile.rs", "for pipeline in &ir.pipelines {");
   ("src/compile.rs", "panic!(""Multiple pipelines with the given name: {}"", name);");
   ("typer/src/typer.rs", "mod pipelines;");
   ("typer/src/typer.rs", "pipelines::parse_pipeline(def, context)?;");
   ("typer/src/typer/globals.rs", "static_sampler = Some(super::pipelines::parse_static_sampler(properties, context)?);");
   ("typer/src/typer/pipelines.rs", ".pipelines");
   ("typer/src/typer/pipelines.rs", "context.module.pipelines.push(pipeline);")].
Proof. vm_compute. reflexivity. Qed.

(* ---- for every list of pipeline definitions and every build function ---- *)
Theorem C17_all_in_source_order :
  forall (P : Type) (pname : P -> string) (R E : Type) (build : option P -> R + E) pipes rs,
    compile P pname R E build pipes None false = Done R E rs ->
    Forall2 (fun p x => build (Some p) = inl x) pipes rs.
Proof. exact all_in_source_order. Qed.

Theorem C17_named_is_that_pipeline :
  forall (P : Type) (pname : P -> string) (R E : Type) (build : option P -> R + E) pipes n rs,
    compile P pname R E build pipes (Some n) false = Done R E rs ->
    exists p x, rs = [x] /\ build (Some p) = inl x /\ List.filter (fun q => String.eqb (pname q) n) pipes = [p].
Proof. exact named_is_that_pipeline. Qed.

Theorem C17_unknown_name_fails :
  forall (P : Type) (pname : P -> string) (R E : Type) (build : option P -> R + E) pipes n,
    (forall p, In p pipes -> pname p <> n) -> compile P pname R E build pipes (Some n) false = NotFound R E n.
Proof. exact unknown_name_fails. Qed.

Theorem C17_no_pipelines_fails_unless_mode :
  forall (P : Type) (pname : P -> string) (R E : Type) (build : option P -> R + E),
    compile P pname R E build [] None false = NoPipelines R E /\
    (forall pipes filter x, build None = inl x -> compile P pname R E build pipes filter true = Done R E [x]).
Proof. intros. split; [apply no_pipelines_fails_unless_mode | apply no_pipeline_mode_builds_the_module]. Qed.

(* compiled alone by name or as part of the whole file: the same result, found at the pipeline's position *)
Theorem C17_by_name_equals_position :
  forall (P : Type) (pname : P -> string) (R E : Type) (build : option P -> R + E) pipes n rs rs_all,
    compile P pname R E build pipes (Some n) false = Done R E rs -> compile P pname R E build pipes None false = Done R E rs_all ->
    exists i p x, rs = [x] /\ nth_error pipes i = Some p /\ pname p = n /\ nth_error rs_all i = Some x.
Proof. exact by_name_equals_position. Qed.

Example C17_example :
  let build := fun p : option string => match p with Some n => (inl (String.append "built-" n) : string + unit) | None => inl "module" end in
  compile string (fun n => n) string unit build ["A"; "B"; "C"] None false = Done _ _ ["built-A"; "built-B"; "built-C"] /\
  compile string (fun n => n) string unit build ["A"; "B"; "C"] (Some "B") false = Done _ _ ["built-B"] /\
  compile string (fun n => n) string unit build ["A"; "B"; "C"] (Some "Z") false = NotFound _ _ "Z" /\
  compile string (fun n => n) string unit build [] None true = Done _ _ ["module"].
Proof. vm_compute. repeat split; reflexivity. Qed.

Print Assumptions C17_pipeline_list_uses.
Print Assumptions C17_all_in_source_order.
Print Assumptions C17_named_is_that_pipeline.
Print Assumptions C17_unknown_name_fails.
Print Assumptions C17_no_pipelines_fails_unless_mode.
Print Assumptions C17_by_name_equals_position.
