(* C11 — conditional compilation selects exactly the branches C semantics select.
   Property theorems only. *)
From Coq Require Import List NArith Bool String Lia.
From RV Require Import Cond CondProofs CondParserProofs GenCond CondIncl CondInclProofs XTree XTreeFile CondSubst.
Import ListNotations.

(* ---- table obligations (regenerated from the source on every run) ---- *)
Theorem C11_switch_table : switch_ok switch.
Proof. unfold switch_ok. repeat split; try (intros []); reflexivity. Qed.

Theorem C11_apply_table : forall op l r, gen_apply op l r = apply op l r.
Proof. intros []; reflexivity. Qed.

(* each precedence level accepts exactly the operator tokens the model's op12/op11/op7/op6 accept *)
Theorem C11_level_table :
  level_ops =
  [("parse_p12"%string, [("VerticalBarVerticalBar"%string, BOr)], "parse_p11"%string);
   ("parse_p11"%string, [("AmpersandAmpersand"%string, BAnd)], "parse_p7"%string);
   ("parse_p7"%string, [("EqualsEquals"%string, BEq); ("ExclamationPointEquals"%string, BNe)], "parse_p6"%string);
   ("parse_p6"%string, [("LeftAngleBracket:Token+Equals"%string, BLe); ("RightAngleBracket:Token+Equals"%string, BGe);
                        ("LeftAngleBracket"%string, BLt); ("RightAngleBracket"%string, BGt)], "parse_p2"%string)].
Proof. vm_compute. reflexivity. Qed.

(* ---- every well-nested directive tree (any depth, any number of #elif), every macro environment,
        every assignment of truth values to (well-formed) conditions ---- *)
Theorem C11_selects_C_groups :
  forall (evalb : env -> list ctok -> bool) (its : items) (e0 : env),
    wf_items its ->
    run_file switch (evalc evalb) e0 (flatten_items its) = inl (sem_items evalb e0 its).
Proof. exact (chain_refines_groups switch C11_switch_table). Qed.

(* ---- every line sequence: rejected iff unbalanced, with the matching diagnostic ---- *)
Theorem C11_reject_unbalanced :
  forall (evalb : env -> list ctok -> bool) (ls : list line) (e0 : env),
    result_err (run_file switch (evalc evalb) e0 ls) = scan 0 ls.
Proof. exact (reject_unbalanced switch). Qed.

(* ---- every condition tree (any depth) over || && == != < <= > >= ! ( ) literals and identifiers:
        parsing its minimally parenthesised token text yields the reference unsigned-64 value ---- *)
Theorem C11_cond_parser_correct : forall e : cexpr,
  cond_parse (raw e) = Some (negb (N.eqb (ceval e) 0)).
Proof. exact cond_parse_correct. Qed.

Example C11_cond_example :
  raw (EBin BAnd (EBin BOr (ENum 1) (ENum 0)) (ENot (EBin BLt (ENum 2) (EBin BLt (ENum 1) (ENum 3))))) =
  [KLP; KNum 1; KOr; KNum 0; KRP; KAnd; KNot; KLP; KNum 2; KLt; KLP; KNum 1; KLt; KNum 3; KRP; KRP]%N.
Proof. vm_compute. reflexivity. Qed.

(* ---- non-vacuity ---- *)
Definition ex_tree : items :=
  ICons (ISimple (LDefine "A" (Some 2%N)))
  (ICons (ICond (GIf [KId "A"; KEq; KNum 3])
                (ICons (ISimple (LText 1)) INil)
                (TElif [KId "A"; KEq; KNum 2]
                       (ICons (ISimple (LDefine "B" None))
                        (ICons (ICond (GIfdef "Z") (ICons (ISimple (LText 2)) INil) (TElse (ICons (ISimple (LText 3)) INil))) INil))
                       (TElse (ICons (ISimple (LText 4)) INil))))
  (ICons (ISimple (LUse "A")) INil)).

Example C11_example :
  run_file switch eval_cond [] (flatten_items ex_tree) =
  inl ([("A"%string, Some 2%N); ("B"%string, None)], [OText 3; ONum 2]).
Proof. vm_compute. reflexivity. Qed.

Example C11_example_wf : wf_items ex_tree.
Proof. cbn. tauto. Qed.

(* ==== #include, #pragma and unknown directives (CondIncl.v) ==== *)

(* ---- every switch table, every condition evaluator (failing ones included), every include handler, every
        depth budget: the lines of a group that is not selected — text, #define, #undef, #include of present and
        missing files, #pragma once, unknown pragmas, unknown directives, whole nested conditionals with
        malformed conditions — leave the macro table, the output, the once-set and the chain exactly as they were,
        and raise no diagnostic ---- *)
Theorem C11_skipped_group_has_no_effect :
  forall switch evalc files d self body rest (stk : list cstate) (e : env) (o : list otok) (once : list string),
    is_active stk = false -> xgroup 0 body = true ->
    xrun switch evalc files d self (body ++ rest) (mkX (mkP stk e o) once) =
    xrun switch evalc files d self rest (mkX (mkP stk e o) once).
Proof. exact skipped_group_has_no_effect. Qed.

(* ---- a conditional whose condition is false (or which is itself skipped), at any nesting, with any lines inside ---- *)
Theorem C11_false_conditional_has_no_effect :
  forall switch evalc files d self c body rest st,
    (is_active (p_stack (x_p st)) = true -> evalc (p_env (x_p st)) c = inl false) ->
    xgroup 0 body = true ->
    xrun switch evalc files d self (XL (LIf c) :: body ++ XL LEndif :: rest) st = xrun switch evalc files d self rest st.
Proof. exact false_conditional_has_no_effect. Qed.

(* ---- without the new lines CondIncl.v is Cond.v, so the theorems above it carry over ---- *)
Theorem C11_include_model_is_conservative :
  forall switch evalc files d self ls st,
    xrun switch evalc files d self (map XL ls) st =
    match run switch evalc (x_p st) ls with inl p => inl (mkX p (x_once st)) | inr e => inr (XE e) end.
Proof. exact xrun_conservative. Qed.

(* ---- an included file is its lines in place: the condition chain runs across the file boundary ---- *)
Theorem C11_include_is_paste_under_conditionals :
  forall switch evalc files d self f body rest st st1,
    files f = Some body -> marked st f = false -> no_once body = true ->
    is_active (p_stack (x_p st)) = true ->
    xrun switch evalc files d f body st = inl st1 ->
    xrun switch evalc files (S d) self (XInclude f :: rest) st = xrun switch evalc files (S d) self (body ++ rest) st.
Proof. exact include_is_paste_under_conditionals. Qed.

Theorem C11_include_depth_pinned : max_include_depth = 200%nat.
Proof. reflexivity. Qed.

(* non-vacuity: a skipped group full of directives that would be rejected outside it; a chain closed by the includer *)
Definition ex_skipped : list xline :=
  [XInclude "missing.h"; XPragmaOther; XUnknown; XPragmaOnce; XL (LDefine "A" (Some 1%N));
   XL (LIf [KOther]); XL (LText 1); XL (LElif [KOther; KOther]); XInclude "missing.h"; XL LElse; XL LEndif].
Example C11_skipped_example_group : xgroup 0 ex_skipped = true.
Proof. reflexivity. Qed.

Definition ex_files (f : string) : option (list xline) :=
  if String.eqb f "main.rssl" then
    Some ([XL (LIf [KNum 0])] ++ ex_skipped ++
          [XL LEndif; XInclude "a.h"; XL (LText 2); XL LEndif; XInclude "a.h"; XL (LUse "A")])
  else if String.eqb f "a.h" then
    Some [XL (LIfdef "G"); XPragmaOnce; XL LElse; XL (LDefine "G" None); XL LEndif; XL (LText 9); XL (LIf [KNum 1])]
  else None.
Example C11_include_example :
  xrun_file switch eval_cond ex_files max_include_depth "main.rssl" [] =
  inr (XE ConditionChainNotFinished).
Proof. vm_compute. reflexivity. Qed.
Definition ex_files2 (f : string) : option (list xline) :=
  if String.eqb f "main.rssl" then
    Some ([XL (LIf [KNum 0])] ++ ex_skipped ++
          [XL LEndif; XInclude "a.h"; XL (LText 2); XL LEndif; XInclude "a.h"; XL LEndif; XInclude "a.h"; XL (LUse "A")])
  else ex_files f.
Example C11_include_example2 :
  xrun_file switch eval_cond ex_files2 max_include_depth "main.rssl" [] =
  inl ([("G"%string, None)], [OText 9; OText 2; OText 9; OId "A"]).
Proof. vm_compute. reflexivity. Qed.


(* ---- wherever the chain is inactive after the lines before it, a group's worth of lines of any kind can be taken out of
        the file without changing the result ---- *)
Theorem C11_skipped_region_is_erasable :
  forall switch evalc files d self a body b st st1,
    xrun switch evalc files d self a st = inl st1 -> is_active (p_stack (x_p st1)) = false -> xgroup 0 body = true ->
    xrun switch evalc files d self (a ++ body ++ b) st = xrun switch evalc files d self (a ++ b) st.
Proof. exact skipped_region_erasable. Qed.

(* ==== conditional groups over lines of every kind (XTree.v) ==== *)

(* ---- every well-nested tree whose leaves are text, #define, #undef, #include, #pragma or unknown directives, every
        truth assignment to the conditions, every include handler and depth: the preprocessor model performs exactly the
        leaves of the groups C's rules select, in order, and ends with the first of them that is rejected; the leaves of
        every other group - whatever they are - are not looked at.  A selected leaf does what the model does on that
        line alone (`live`); `ok_items` asks of each leaf that it is no conditional directive and leaves the chain as it
        found it (`frame`), which the three theorems below give for every leaf but an #include of an unbalanced file ---- *)
Theorem C11_tree_selects_C_groups :
  forall (evalb : env -> list ctok -> bool) (files : string -> option (list xline)) (d : nat) (self : string)
         (its : xitems) (v : vis),
    ok_items switch evalb files d self its ->
    xrun switch (evalc evalb) files d self (xflat_items its) (st_of [] v) =
    match xsem_items switch evalb files d self v its with inl v' => inl (st_of [] v') | inr e => inr e end.
Proof. exact (tree_selects_C_groups switch C11_switch_table). Qed.

Theorem C11_frame_not_include :
  forall evalb files d self x, leaf_shape x = true -> (forall f, x <> XInclude f) -> frame switch evalb files d self x.
Proof. exact (frame_not_include switch). Qed.

Theorem C11_frame_include_of_a_tree :
  forall evalb files d self f body,
    files f = Some (xflat_items body) -> ok_items switch evalb files d f body ->
    frame switch evalb files (S d) self (XInclude f).
Proof. exact (frame_include switch C11_switch_table). Qed.

Theorem C11_frame_include_missing :
  forall evalb files d self f, files f = None -> frame switch evalb files d self (XInclude f).
Proof. exact (frame_include_missing switch). Qed.

(* non-vacuity: main = #ifdef G / #include "missing.h" / #pragma nonsense / #else / #include "a.h" / x1 / #endif / G
                a.h  = #define G / #if 0 / #bogus / #endif / x9 *)
Local Open Scope string_scope.
Definition ex_a : xitems :=
  XCons (XLeaf (XL (LDefine "G" None)))
  (XCons (XCond (GIf [KNum 0]) (XCons (XLeaf XUnknown) XNil) XEnd)
  (XCons (XLeaf (XL (LText 9))) XNil)).
Definition ex_main : xitems :=
  XCons (XCond (GIfdef "G") (XCons (XLeaf (XInclude "missing.h")) (XCons (XLeaf XPragmaOther) XNil))
               (XElse (XCons (XLeaf (XInclude "a.h")) (XCons (XLeaf (XL (LText 1))) XNil))))
  (XCons (XLeaf (XL (LUse "G"))) XNil).
Definition ex_tree_files (f : string) : option (list xline) :=
  if String.eqb f "a.h" then Some (xflat_items ex_a) else None.
Definition ex_evalb (e : env) (c : list ctok) : bool := match eval_cond e c with inl b => b | inr _ => false end.

Example C11_tree_example_ok : ok_items switch ex_evalb ex_tree_files 5 "main.rssl" ex_main.
Proof.
  assert (Ha : ok_items switch ex_evalb ex_tree_files 4 "a.h" ex_a).
  { cbn [ok_items ok_item ok_tail ex_a]. repeat split; try (apply C11_frame_not_include; [reflexivity | discriminate]). }
  cbn [ok_items ok_item ok_tail ex_main]. repeat split;
    try (apply C11_frame_not_include; [reflexivity | discriminate]).
  - apply C11_frame_include_missing. reflexivity.
  - apply (C11_frame_include_of_a_tree ex_evalb ex_tree_files 4 "main.rssl" "a.h" ex_a eq_refl Ha).
Qed.
Example C11_tree_example_value :
  xsem_items switch ex_evalb ex_tree_files 5 "main.rssl" ([], [], []) ex_main =
  inl ([("G", None)], [OText 9; OText 1], []).
Proof. vm_compute. reflexivity. Qed.
Local Close Scope string_scope.


(* ---- a whole entry file that is such a tree (preprocess_initial_file): accepted with exactly the macro table and the
        output of the selected leaves, or rejected with the first rejection among them - never with a chain diagnostic ---- *)
Theorem C11_tree_file :
  forall (evalb : env -> list ctok -> bool) (files : string -> option (list xline)) (depth : nat) (entry : string)
         (its : xitems) (e0 : env),
    files entry = Some (xflat_items its) -> ok_items switch evalb files depth entry its ->
    xrun_file switch (evalc evalb) files depth entry e0 =
    match xsem_items switch evalb files depth entry (e0, [], []) its with
    | inl (e, o, _) => inl (e, o)
    | inr err => inr err
    end.
Proof. exact (tree_file switch C11_switch_table). Qed.

(* ---- conditions with macros and `defined` (any depth): macro substitution followed by the condition parser yields the
        reference unsigned-64 value of the condition in which every macro with a numeric replacement stands for that
        number, every other identifier for 0, and `defined X` / `defined(X)` for 1 or 0 ---- *)
Theorem C11_condition_with_macros_correct :
  forall (e : env) (d : dexpr), dwf e d ->
    eval_cond e (rawd d) = inl (negb (N.eqb (ceval (resolve e d)) 0)).
Proof. exact eval_cond_correct. Qed.

Local Open Scope string_scope.
Definition ex_env : env := [("A", Some 2%N); ("B", None)].
(* defined(B) && A == 2 || ! defined U < X *)
Definition ex_dexpr : dexpr :=
  DBin BOr (DBin BAnd (DDefined "B" true) (DBin BEq (DId "A") (DNum 2)))
           (DNot (DBin BLt (DDefined "U" false) (DId "X"))).
Example C11_condition_example :
  dwf ex_env ex_dexpr /\
  rawd ex_dexpr = [KId "defined"; KLP; KId "B"; KRP; KAnd; KId "A"; KEq; KNum 2; KOr; KNot; KLP; KId "defined"; KId "U"; KLt; KId "X"; KRP]%N /\
  eval_cond ex_env (rawd ex_dexpr) = inl true.
Proof. split; [cbn; repeat split; discriminate | split; vm_compute; reflexivity]. Qed.
Local Close Scope string_scope.
Print Assumptions C11_switch_table.
Print Assumptions C11_apply_table.
Print Assumptions C11_level_table.
Print Assumptions C11_selects_C_groups.
Print Assumptions C11_reject_unbalanced.
Print Assumptions C11_cond_parser_correct.
Print Assumptions C11_skipped_group_has_no_effect.
Print Assumptions C11_false_conditional_has_no_effect.
Print Assumptions C11_include_model_is_conservative.
Print Assumptions C11_include_is_paste_under_conditionals.
Print Assumptions C11_include_depth_pinned.
Print Assumptions C11_tree_selects_C_groups.
Print Assumptions C11_frame_not_include.
Print Assumptions C11_frame_include_of_a_tree.
Print Assumptions C11_frame_include_missing.
Print Assumptions C11_skipped_region_is_erasable.
Print Assumptions C11_condition_with_macros_correct.
Print Assumptions C11_tree_file.
