(* C11 — conditional compilation selects exactly the branches C semantics select.
   Property theorems only. *)
From Coq Require Import List NArith Bool String Lia.
From RV Require Import Cond CondProofs CondParserProofs GenCond.
Import ListNotations.

(* ---- table obligations (regenerated from the source on every run) ---- *)
Theorem C11_switch_table : switch_ok switch.
Proof. unfold switch_ok. repeat split; try (intros []); reflexivity. Qed.

Theorem C11_apply_table : forall op l r, gen_apply op l r = apply op l r.
Proof. intros []; reflexivity. Qed.

(* each precedence level accepts exactly the operator tokens the model's op12/op11/op7/op6 accept *)
Theorem C11_level_table :
  level_ops =
  [("parse_p12"%string, [("VerticalBarVerticalBar"%string, BOr)], "parse_p11"%string);
   ("parse_p11"%string, [("AmpersandAmpersand"%string, BAnd)], "parse_p7"%string);
   ("parse_p7"%string, [("EqualsEquals"%string, BEq); ("ExclamationPointEquals"%string, BNe)], "parse_p6"%string);
   ("parse_p6"%string, [("LeftAngleBracket:Token+Equals"%string, BLe); ("RightAngleBracket:Token+Equals"%string, BGe);
                        ("LeftAngleBracket"%string, BLt); ("RightAngleBracket"%string, BGt)], "parse_p2"%string)].
Proof. vm_compute. reflexivity. Qed.

(* ---- every well-nested directive tree (any depth, any number of #elif), every macro environment,
        every assignment of truth values to (well-formed) conditions ---- *)
Theorem C11_selects_C_groups :
  forall (evalb : env -> list ctok -> bool) (its : items) (e0 : env),
    wf_items its ->
    run_file switch (evalc evalb) e0 (flatten_items its) = inl (sem_items evalb e0 its).
Proof. exact (chain_refines_groups switch C11_switch_table). Qed.

(* ---- every line sequence: rejected iff unbalanced, with the matching diagnostic ---- *)
Theorem C11_reject_unbalanced :
  forall (evalb : env -> list ctok -> bool) (ls : list line) (e0 : env),
    result_err (run_file switch (evalc evalb) e0 ls) = scan 0 ls.
Proof. exact (reject_unbalanced switch). Qed.

(* ---- every condition tree (any depth) over || && == != < <= > >= ! ( ) literals and identifiers:
        parsing its minimally parenthesised token text yields the reference unsigned-64 value ---- *)
Theorem C11_cond_parser_correct : forall e : cexpr,
  cond_parse (raw e) = Some (negb (N.eqb (ceval e) 0)).
Proof. exact cond_parse_correct. Qed.

Example C11_cond_example :
  raw (EBin BAnd (EBin BOr (ENum 1) (ENum 0)) (ENot (EBin BLt (ENum 2) (EBin BLt (ENum 1) (ENum 3))))) =
  [KLP; KNum 1; KOr; KNum 0; KRP; KAnd; KNot; KLP; KNum 2; KLt; KLP; KNum 1; KLt; KNum 3; KRP; KRP]%N.
Proof. vm_compute. reflexivity. Qed.

(* ---- non-vacuity ---- *)
Definition ex_tree : items :=
  ICons (ISimple (LDefine "A" (Some 2%N)))
  (ICons (ICond (GIf [KId "A"; KEq; KNum 3])
                (ICons (ISimple (LText 1)) INil)
                (TElif [KId "A"; KEq; KNum 2]
                       (ICons (ISimple (LDefine "B" None))
                        (ICons (ICond (GIfdef "Z") (ICons (ISimple (LText 2)) INil) (TElse (ICons (ISimple (LText 3)) INil))) INil))
                       (TElse (ICons (ISimple (LText 4)) INil))))
  (ICons (ISimple (LUse "A")) INil)).

Example C11_example :
  run_file switch eval_cond [] (flatten_items ex_tree) =
  inl ([("A"%string, Some 2%N); ("B"%string, None)], [OText 3; ONum 2]).
Proof. vm_compute. reflexivity. Qed.

Example C11_example_wf : wf_items ex_tree.
Proof. cbn. tauto. Qed.

Print Assumptions C11_switch_table.
Print Assumptions C11_apply_table.
Print Assumptions C11_level_table.
Print Assumptions C11_selects_C_groups.
Print Assumptions C11_reject_unbalanced.
Print Assumptions C11_cond_parser_correct.
