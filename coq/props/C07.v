(* C07 — compilation is deterministic: the walks over hash containers cannot reach the output.  Property theorems only. *)
From Coq Require Import List NArith Bool String Permutation.
From RV Require Import Perm PermProofs NameGen NameGenPerm GenHashSites.
Import ListNotations.
Local Open Scope string_scope.

(* ---- inventory obligation: the places where the workspace walks a hash container in its internal order (regenerated
        from the sources on every run, `for` loops cross-checked against the compiler's types through clippy) are
        exactly the reviewed ones, each with the way its order is neutralised ---- *)
Definition reviewed : list (string * string * string * string * string) := [
  ("ast/src/ast_expressions.rs", "fmt", "for:scopes", "ordered @4412fe0ed3",
     "not-hash: a slice of identifiers");
  ("ast/src/ast_expressions.rs", "fmt", "for:scopes", "ordered @9248ae7cb5",
     "not-hash: a slice of identifiers");
  ("formatter/src/formatter.rs", "format_scoped_identifier", "for:scopes", "ordered @b8a41e9f42",
     "not-hash: a slice of identifiers");
  ("ir/src/ir_module.rs", "assign_api_bindings", "for:inline_size", "sorted inline_constant_buffers.sort() @a9214933b2",
     "sorted: C07_pair_sort (inline_constant_buffers.sort())");
  ("ir/src/name_generator.rs", "build", "for:&scopes", "into-set @f08d193547",
     "scopes: C07_name_scopes");
  ("ir/src/name_generator.rs", "build", "arg:scope.1.iter()", "sorted name_to_symbol_vec.sort_by(|l,r|String::cmp(l.0,r.0)) @f08d193547",
     "sorted: C07_scope_names (names of one scope)");
  ("ir/src/name_generator.rs", "build", "scope.1.iter(", "sorted name_to_symbol_vec.sort_by(|l,r|String::cmp(l.0,r.0)) @f08d193547",
     "sorted: C07_scope_names (names of one scope)");
  ("ir/src/name_generator.rs", "build", "for:symbols", "into-set @f08d193547",
     "not-hash: a Vec of symbols");
  ("ir/src/name_generator.rs", "build", "for:&name_map.names", "into-set @f08d193547",
     "set: the loop body only inserts namespace ids into the HashSet used_namespaces (a namespace and its parents when a non-namespace symbol lives in it); the early `break` only skips parents that are already in the set");
  ("ir/src/name_generator.rs", "build", "for:&name_map.names", "into-set @f08d193547",
     "set: the loop body only inserts the name into the HashSet of its namespace (namespace_names), read by membership tests alone");
  ("ir/src/usage_analysis.rs", "recurse", "self.0.keys(", "collected-unsorted @f19a2586da",
     "fixpoint: C07_usage_fixpoint");
  ("ir/src/usage_analysis.rs", "recurse", "for:&current_set.required", "into-set @f19a2586da",
     "set: elements only go into another set");
  ("ir/src/usage_analysis.rs", "recurse", "arg:&self.0.get(other).unwrap().required", "into-set @f19a2586da",
     "set: elements only go into another set");
  ("msl/src/generator.rs", "analyse_globals", "for:global_usage.get_usage_for_function(id)", "sorted required_globals.sort() @79e2298446",
     "sorted: C07_sort (required_globals.sort(), derived total order)");
  ("msl/src/generator.rs", "generate_function_inner", "for:&decl.scope_block.0", "collected-unsorted @20e5a43dc2",
     "not-hash: the statements of a block");
  ("msl/src/generator.rs", "metal_lib_identifier_complex", "arg:names", "into-set @825997b8b4",
     "not-hash: a slice of names");
  ("msl/src/generator/intrinsic_helpers.rs", "generate_helpers", "arg:required_helpers", "sorted objects.sort_by(|(key_lhs,_),(key_rhs,_)|std::cmp::Ord::cmp(key_lhs,key_rhs)) @48fa373fe9",
     "sorted: C07_sort (objects.sort_by / ordered.sort(), derived total orders on distinct elements)");
  ("msl/src/generator/intrinsic_helpers.rs", "generate_helpers", "arg:helpers", "sorted ordered.sort() @48fa373fe9",
     "sorted: C07_sort (objects.sort_by / ordered.sort(), derived total orders on distinct elements)");
  ("msl/src/generator/pipeline.rs", "generate_pipeline", "for:&mutbinding_layout.0", "reduce @f71ee66ce9",
     "not-hash: BindingLayout / ArgumentBuffer wrap a Vec");
  ("msl/src/generator/pipeline.rs", "generate_pipeline", "for:&mutargument_buffer.0", "reduce @f71ee66ce9",
     "not-hash: BindingLayout / ArgumentBuffer wrap a Vec");
  ("msl/src/generator/pipeline.rs", "generate_pipeline", "&mutbinding_layout.0.iter(", "ordered @f71ee66ce9",
     "not-hash: BindingLayout / ArgumentBuffer wrap a Vec");
  ("msl/src/generator/pipeline.rs", "generate_pipeline", "for:&argument_buffer.0", "into-set @f71ee66ce9",
     "not-hash: BindingLayout / ArgumentBuffer wrap a Vec");
  ("msl/src/generator/pipeline.rs", "generate_pipeline", "binding_layout.0.iter_mut(", "ordered @f71ee66ce9",
     "not-hash: BindingLayout / ArgumentBuffer wrap a Vec");
  ("msl/src/generator/pipeline.rs", "generate_pipeline", "for:&argument_buffer.0", "collected-unsorted @f71ee66ce9",
     "not-hash: BindingLayout / ArgumentBuffer wrap a Vec");
  ("parser/src/parser/expressions.rs", "parse_expression_resolve_symbols", "for:symbols", "into-set @f1ae854ece",
     "not-hash: a Vec");
  ("parser/src/parser/expressions.rs", "parse_expression_resolve_symbols", "for:&selected_result.1", "reduce @f1ae854ece",
     "not-hash: a Vec");
  ("typer/src/typer/scopes.rs", "ensure_struct_template", "ast.template_params.0.iter(", "reduce @8532fd6a56",
     "not-hash: a Vec of template parameters");
  ("typer/src/typer/scopes.rs", "walk_into_scopes", "for:names", "ordered @3ea1a0e416",
     "not-hash: a slice / the Vec stored under one name");
  ("typer/src/typer/scopes.rs", "walk_into_scopes", "for:symbols", "ordered @3ea1a0e416",
     "not-hash: a slice / the Vec stored under one name");
  ("typer/src/typer/scopes.rs", "end_enum", "for:enum_symbols", "collected-unsorted @15c4f50eca",
     "commutative: min/max and independent per-value updates");
  ("typer/src/typer/scopes.rs", "end_enum", "for:symbols", "ordered @15c4f50eca",
     "not-hash: the Vec stored under one name");
  ("typer/src/typer/scopes.rs", "find_identifier_in_scope", "for:symbols", "collected-unsorted @a8b86716b1",
     "not-hash: the Vec stored under one name");
  ("typer/src/typer/scopes.rs", "find_identifier_in_scope", "for:symbols", "ordered @a8b86716b1",
     "not-hash: the Vec stored under one name");
  ("typer/src/typer/scopes.rs", "build_function_template_signature", "self.scopes[old_scope_id].symbols.values(", "ordered @68eadfb9e6",
     "commutative: assertions only");
  ("typer/src/typer/scopes.rs", "build_function_template_signature", "for:symbols", "assert-only @68eadfb9e6",
     "not-hash: the Vec stored under one name");
  ("typer/src/typer/scopes.rs", "build_function_template_signature", "for:&self.scopes[old_scope_id].symbols", "collected-unsorted @68eadfb9e6",
     "set: distinct names inserted into a map");
  ("typer/src/typer/scopes.rs", "build_function_template_signature", "for:symbols", "collected-unsorted @68eadfb9e6",
     "not-hash: the Vec stored under one name");
  ("typer/src/typer/scopes.rs", "extract_locals", "self.variables.iter(", "collected-unsorted @049e420d14",
     "unobserved: ScopedDeclarations.variables is only filtered, never read for output")].

Theorem C07_inventory :
  map (fun r : string * string * string * string * string => let '(f, fn, e, c, _) := r in (f, fn, e, c)) reviewed = sites /\
  clippy_uncovered = [] /\
  forallb (fun r : string * string * string * string * string => let '(_, _, _, c, v) := r in
             negb (String.prefix "UNREVIEWED" v) &&
             (* a walk whose elements are collected in order and not sorted must be reviewed as not reaching the output *)
             (if String.prefix "ordered" c || String.prefix "collected-unsorted" c
              then String.prefix "not-hash" v || String.prefix "fixpoint" v || String.prefix "commutative" v
                   || String.prefix "set" v || String.prefix "unobserved" v
              else true)) reviewed = true.
Proof. vm_compute. repeat split; reflexivity. Qed.

(* ---- collect the elements of a hash container in any order, then sort by a total order under which elements that
        compare equal are equal (derived Ord on distinct elements): the result does not depend on the order ---- *)
Theorem C07_sort :
  forall (A : Type) (leb : A -> A -> bool),
    (forall x y, leb x y = true \/ leb y x = true) ->
    (forall x y z, leb x y = true -> leb y z = true -> leb x z = true) ->
    forall l l', (forall x y, In x l -> In y l -> leb x y = true -> leb y x = true -> x = y) ->
    Permutation l l' -> isort leb l = isort leb l'.
Proof. exact sort_order_irrelevant. Qed.

Theorem C07_sort_by_key :
  forall (A : Type) (key : A -> N) (l l' : list A),
    NoDup (map key l) -> Permutation l l' -> isort (key_leb A key) l = isort (key_leb A key) l'.
Proof. exact sort_by_key_order_irrelevant. Qed.

Theorem C07_pair_sort : forall l l' : list (N * N), Permutation l l' -> isort pair_leb l = isort pair_leb l'.
Proof. exact pair_sort_order_irrelevant. Qed.

(* ---- the names of one scope are walked in any order ---- *)
Theorem C07_scope_names :
  forall reserved es es' k g,
    NoDup (map e_name es) -> Permutation es es' -> assign_scope reserved es = Some (k, g) ->
    exists k', assign_scope reserved es' = Some (k', g) /\ Permutation k k'.
Proof. exact assign_scope_order_irrelevant. Qed.

(* ---- the scopes are walked in any order: every local variable gets the same name and the global symbols get the same
        (symbol, name) pairs ---- *)
Theorem C07_name_scopes :
  forall reserved scopes scopes' locals g ls,
    Permutation scopes scopes' -> build reserved scopes locals = Some (g, ls) ->
    exists g', build reserved scopes' locals = Some (g', ls) /\ Permutation g g'.
Proof. exact build_order_irrelevant. Qed.

(* ---- the usage fixpoint visits the keys in any order: it ends with exactly the reachable symbols ---- *)
Theorem C07_usage_fixpoint :
  forall s0 fuel fuel' ks ks' s s' k,
    recurse fuel ks s0 = Some s -> recurse fuel' ks' s0 = Some s' -> In k ks -> In k ks' ->
    seteq (get s k) (get s' k).
Proof. exact recurse_order_irrelevant. Qed.

Theorem C07_usage_is_reachability :
  forall s0 fuel ks s k, recurse fuel ks s0 = Some s -> In k ks -> forall x, In x (get s k) <-> reach s0 k x.
Proof. exact recurse_is_reachability. Qed.

(* ---- non-vacuity ---- *)
Example C07_example_fixpoint :
  let s0 := [(1, [2]); (2, [3]); (3, [1; 4]); (4, [])]%N in
  recurse 10 [1; 2; 3; 4]%N s0 = Some [(1, [2; 3; 1; 4]); (2, [3; 1; 4; 2]); (3, [1; 4; 2; 3]); (4, [])]%N /\
  recurse 10 [4; 3; 2; 1]%N s0 = Some [(1, [2; 3; 1; 4]); (2, [3; 1; 4; 2]); (3, [1; 4; 2; 3]); (4, [])]%N.
Proof. vm_compute. split; reflexivity. Qed.

Example C07_example_sort : isort pair_leb [(2, 1); (0, 7); (2, 0)]%N = isort pair_leb [(0, 7); (2, 0); (2, 1)]%N.
Proof. vm_compute. reflexivity. Qed.

Print Assumptions C07_inventory.
Print Assumptions C07_sort.
Print Assumptions C07_sort_by_key.
Print Assumptions C07_pair_sort.
Print Assumptions C07_scope_names.
Print Assumptions C07_name_scopes.
Print Assumptions C07_usage_fixpoint.
Print Assumptions C07_usage_is_reachability.
