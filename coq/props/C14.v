(* C14 — layout trivia and source positions.  Property theorems only. *)
From Coq Require Import List NArith Bool String Ascii.
From RV Require Import Loc LocProofs Lexer LexerTrivia LexerTrivia2 LexerTrivia3 LexerTriviaNum LexerTrivia4 LexerTriviaFloat LexerNumTail LexerTrivia5 LexerTrivia6 LexerTrivia7 LexerTrivia8 GenLexer.
Import ListNotations.
Local Open Scope N_scope.

(* ---- every file text a ++ b split at the start of a line, every inserted text of whole lines (k line feeds, the last
        byte a line feed), every later offset: the decoded line moves down by exactly k and the column is unchanged ---- *)
Theorem C14_inserting_lines_shifts_lines :
  forall (a ins b : list N) (j : nat),
    (a = [] \/ last a 0 = nl) -> (ins = [] \/ last ins 0 = nl) ->
    line_col (a ++ ins ++ b) (List.length a + (List.length ins + j)) =
    let '(l, c) := line_col (a ++ b) (List.length a + j) in (l + count_nl ins, c).
Proof. exact line_shift. Qed.

(* ---- every set of loaded files, every file i of it, every offset into it (the end-of-file slot included): the
        location handed out for that offset decodes to file i's name and to the line and column inside file i ---- *)
Theorem C14_location_names_its_file :
  forall (fs : list sfile) (i : nat) (f : sfile) (off : nat),
    nth_error fs i = Some f -> (off <= List.length (f_bytes f))%nat ->
    locate fs 0 (location_of fs i off) = Some (f_name f, fst (line_col (f_bytes f) off), snd (line_col (f_bytes f) off)).
Proof. exact location_names_its_file. Qed.

Theorem C14_file_ranges_disjoint :
  forall (fs : list sfile) (i j : nat) (fi fj : sfile),
    nth_error fs i = Some fi -> nth_error fs j = Some fj -> (i < j)%nat ->
    base_of fs i + slots fi <= base_of fs j.
Proof. exact file_ranges_disjoint. Qed.

(* ---- files loaded later (further includes, the scratch files of ##) never change what an earlier location decodes to ---- *)
Theorem C14_later_files_do_not_matter :
  forall (fs more : list sfile) (cur loc : N),
    cur <= loc -> loc < cur + total fs -> locate (fs ++ more) cur loc = locate fs cur loc.
Proof. exact later_files_do_not_matter. Qed.

(* ---- layout trivia at the lexer (partial).
   Full statement of the property's first half, for the lexer alone: inserting whitespace, comments or line splices
   between two tokens of a file leaves the sequence of tokens that are not whitespace unchanged, except directly after
   `<` or `>`.  Proved below, for every table of keywords / symbols / suffixes: a single blank (space, tab, line feed)
   directly after an identifier, keyword, reserved word, operator symbol or string literal.
   Then (the two C14_trivia theorems): any run of blanks, block comments, line comments with their line feed and line
   splices after such a token, unless the token begins with a slash (the text of a comment directly after the
   operator `/` is not a comment there: the two slashes open a line comment).
   Then: trivia in front of the first token, and trivia behind any such token that stands after a prefix of such
   tokens separated by single blanks (C14_trivia_behind_a_spaced_prefix_partial).
   Then: behind any prefix of such tokens and trivia in any arrangement, the tokens touching or not
   (C14_trivia_behind_a_token_prefix_partial).
   Missing: numeric literals and `<` / `>` as the token in front or anywhere before it, tokens in
   front of the insertion point when the file does not start with the
   token (that they do not look ahead that far is not proved), and everything after the lexer (directive lines,
   macro invocations, the parser) - those layers are exercised by the metamorphic runs of the check. ---- *)

(* the token is read the same, with the same length, whatever blank follows it *)
Theorem C14_token_ignores_a_following_blank_partial :
  forall keywords reserved_words symbols int_suffixes float_suffixes float_is_zero utf8_ok (a b : string) t w b',
    tok_at keywords reserved_words symbols int_suffixes float_suffixes float_is_zero utf8_ok false (a ++ b) = LOk t (slen a) ->
    solid t = true -> blank w ->
    tok_at keywords reserved_words symbols int_suffixes float_suffixes float_is_zero utf8_ok false (a ++ String w b') = LOk t (slen a).
Proof. exact solid_token_ignores_following_blank. Qed.

(* from that token on, the file with the blank inserted lexes to the same tokens up to whitespace *)
Theorem C14_blank_after_a_token_keeps_the_rest_partial :
  forall keywords reserved_words symbols int_suffixes float_suffixes float_is_zero utf8_ok (a b : string) last t ts w,
    tok_at keywords reserved_words symbols int_suffixes float_suffixes float_is_zero utf8_ok false (a ++ b) = LOk t (slen a) ->
    solid t = true -> blank w ->
    Lexes keywords reserved_words symbols int_suffixes float_suffixes float_is_zero utf8_ok (a ++ b) last (t :: ts) ->
    exists ts', Lexes keywords reserved_words symbols int_suffixes float_suffixes float_is_zero utf8_ok (a ++ String w b) last (t :: ts') /\
                strip ts' = strip ts.
Proof. exact blank_after_solid_token. Qed.

(* the same through TokenStream (`lex_file`), for a file that starts with the token *)
Theorem C14_blank_after_the_first_token_partial :
  forall keywords reserved_words symbols int_suffixes float_suffixes float_is_zero utf8_ok (a b : string) t w spans,
    tok_at keywords reserved_words symbols int_suffixes float_suffixes float_is_zero utf8_ok false (a ++ b) = LOk t (slen a) ->
    solid t = true -> blank w ->
    lex_file keywords reserved_words symbols int_suffixes float_suffixes float_is_zero utf8_ok (a ++ b) = SOk spans ->
    exists spans', lex_file keywords reserved_words symbols int_suffixes float_suffixes float_is_zero utf8_ok (a ++ String w b) = SOk spans' /\
                   strip (toks spans') = strip (toks spans).
Proof. exact blank_after_first_token. Qed.

(* non-vacuity with the tables of the real lexer: `x+=1` and `x +=1`; the hypothesis fails where it must: `+` `=` *)
Example C14_trivia_example :
  let lex := lex_file keywords reserved_words symbols int_suffixes float_suffixes (fun _ => false) (fun _ => true) in
  let at_ := tok_at keywords reserved_words symbols int_suffixes float_suffixes (fun _ => false) (fun _ => true) false in
  at_ ("x" ++ "+=1")%string = LOk (TId "x") 1%nat /\ solid (TId "x") = true /\
  option_map strip (match lex "x+=1"%string with SOk l => Some (toks l) | _ => None end) =
  option_map strip (match lex "x +=1"%string with SOk l => Some (toks l) | _ => None end) /\
  at_ ("+" ++ "=1")%string <> LOk (TSym "Plus") 1%nat.
Proof. vm_compute. repeat split. discriminate. Qed.

(* any run of trivia pieces - blanks, block comments whose body does not hold the closing star-slash, line comments
   with their line feed, line splices - after such a token that does not begin with a slash *)
Theorem C14_trivia_after_a_token_keeps_the_rest_partial :
  forall keywords reserved_words symbols int_suffixes float_suffixes float_is_zero utf8_ok c a' (b : string) last t ts x,
    tok_at keywords reserved_words symbols int_suffixes float_suffixes float_is_zero utf8_ok false (String c a' ++ b) = LOk t (slen (String c a')) ->
    solid t = true -> Ascii.eqb c "/" = false -> Trivia x ->
    Lexes keywords reserved_words symbols int_suffixes float_suffixes float_is_zero utf8_ok (String c a' ++ b) last (t :: ts) ->
    exists ts', Lexes keywords reserved_words symbols int_suffixes float_suffixes float_is_zero utf8_ok (String c a' ++ x ++ b) last (t :: ts') /\
                strip ts' = strip ts.
Proof. exact trivia_after_solid_token. Qed.

Theorem C14_trivia_after_the_first_token_partial :
  forall keywords reserved_words symbols int_suffixes float_suffixes float_is_zero utf8_ok c a' (b : string) t x spans,
    tok_at keywords reserved_words symbols int_suffixes float_suffixes float_is_zero utf8_ok false (String c a' ++ b) = LOk t (slen (String c a')) ->
    solid t = true -> Ascii.eqb c "/" = false -> Trivia x ->
    lex_file keywords reserved_words symbols int_suffixes float_suffixes float_is_zero utf8_ok (String c a' ++ b) = SOk spans ->
    exists spans', lex_file keywords reserved_words symbols int_suffixes float_suffixes float_is_zero utf8_ok (String c a' ++ x ++ b) = SOk spans' /\
                   strip (toks spans') = strip (toks spans).
Proof. exact trivia_after_first_token. Qed.

(* non-vacuity with the real tables: a comment whose body begins with a slash, a line comment and a splice after `x`;
   and the excluded adjacency: a comment directly after the operator `/` is not a comment *)
Example C14_trivia_pieces_example :
  let lex := lex_file keywords reserved_words symbols int_suffixes float_suffixes (fun _ => false) (fun _ => true) in
  let nonws s := option_map strip (match lex s with SOk l => Some (toks l) | _ => None end) in
  Trivia ("/*" ++ "/ c " ++ "*/") /\ Trivia (("//" ++ " c" ++ String "010" "") ++ (String "\" (String "010" ""))) /\
  nonws "x+=1"%string = nonws ("x" ++ ("/*" ++ "/ c " ++ "*/") ++ "+=1")%string /\
  nonws "x+=1"%string = nonws ("x" ++ (("//" ++ " c" ++ String "010" "") ++ (String "\" (String "010" ""))) ++ "+=1")%string /\
  nonws "a/b"%string <> nonws ("a/" ++ ("/*" ++ " c " ++ "*/") ++ "b")%string.
Proof.
  split; [apply TrOne, PBlock; reflexivity|].
  split; [apply TrMore; [apply PLine; reflexivity|apply TrOne, PSplice]|].
  vm_compute. repeat split. discriminate.
Qed.

(* trivia in front of the first token of a file *)
Theorem C14_trivia_at_the_start_partial :
  forall keywords reserved_words symbols int_suffixes float_suffixes float_is_zero utf8_ok x (s : string) spans,
    Trivia x ->
    lex_file keywords reserved_words symbols int_suffixes float_suffixes float_is_zero utf8_ok s = SOk spans ->
    exists spans', lex_file keywords reserved_words symbols int_suffixes float_suffixes float_is_zero utf8_ok (x ++ s) = SOk spans' /\
                   strip (toks spans') = strip (toks spans).
Proof. exact trivia_at_start. Qed.

(* any token boundary behind a prefix of such tokens that are separated by single blanks: the prefix `p` is a run of
   identifier / keyword / symbol / string tokens each followed by one blank (`Spaced`), the token in front of the
   insertion point is of that kind and does not begin with a slash, the rest of the file is arbitrary *)
Theorem C14_trivia_behind_a_spaced_prefix_partial :
  forall keywords reserved_words symbols int_suffixes float_suffixes float_is_zero utf8_ok p tp c a' (b : string) t x spans,
    Spaced keywords reserved_words symbols int_suffixes float_suffixes float_is_zero utf8_ok p tp ->
    tok_at keywords reserved_words symbols int_suffixes float_suffixes float_is_zero utf8_ok false (String c a' ++ b) = LOk t (slen (String c a')) ->
    solid t = true -> Ascii.eqb c "/" = false -> Trivia x ->
    lex_file keywords reserved_words symbols int_suffixes float_suffixes float_is_zero utf8_ok (p ++ String c a' ++ b) = SOk spans ->
    exists spans', lex_file keywords reserved_words symbols int_suffixes float_suffixes float_is_zero utf8_ok (p ++ String c a' ++ x ++ b) = SOk spans' /\
                   strip (toks spans') = strip (toks spans).
Proof. exact trivia_after_token_behind_spaced_prefix. Qed.

(* non-vacuity with the real tables: `return x += y;` - the prefix `return x += `, the token `y`, a comment and a line
   splice inserted in front of the `;` *)
Local Open Scope string_scope.
Example C14_spaced_prefix_example :
  let sp := Spaced keywords reserved_words symbols int_suffixes float_suffixes (fun _ => false) (fun _ => true) in
  let lex := lex_file keywords reserved_words symbols int_suffixes float_suffixes (fun _ => false) (fun _ => true) in
  let nonws s := option_map strip (match lex s with SOk l => Some (toks l) | _ => None end) in
  (exists tp, sp ("return" ++ String " " ("x" ++ String " " ("+=" ++ String " " ""))) tp) /\
  nonws "return x += y;"%string = nonws ("return x += y" ++ (("/*" ++ " c " ++ "*/") ++ (String "\" (String "010" ""))) ++ ";")%string.
Proof.
  cbv zeta. split.
  - eexists. apply SpCons; [vm_compute; reflexivity|reflexivity|left; reflexivity|].
    apply SpCons; [vm_compute; reflexivity|reflexivity|left; reflexivity|].
    apply SpCons; [vm_compute; reflexivity|reflexivity|left; reflexivity|]. apply SpNil.
  - vm_compute. reflexivity.
Qed.
Local Close Scope string_scope.


Local Open Scope string_scope.
(* any token boundary behind a prefix made of such tokens and of trivia pieces in any arrangement - the tokens may touch,
   as long as each is followed by a character that cannot extend it (`Pre`, checked against the first character `c` of the
   token in front of the insertion point); numeric literals and `<` / `>` may not occur in the prefix *)
Theorem C14_trivia_behind_a_token_prefix_partial :
  forall keywords reserved_words symbols int_suffixes float_suffixes float_is_zero utf8_ok p c a' (b : string) t x spans,
    Pre keywords reserved_words symbols int_suffixes float_suffixes float_is_zero utf8_ok c p ->
    tok_at keywords reserved_words symbols int_suffixes float_suffixes float_is_zero utf8_ok false (String c a' ++ b) = LOk t (slen (String c a')) ->
    solid t = true -> Ascii.eqb c "/" = false -> Trivia x ->
    lex_file keywords reserved_words symbols int_suffixes float_suffixes float_is_zero utf8_ok (p ++ String c a' ++ b) = SOk spans ->
    exists spans', lex_file keywords reserved_words symbols int_suffixes float_suffixes float_is_zero utf8_ok (p ++ String c a' ++ x ++ b) = SOk spans' /\
                   strip (toks spans') = strip (toks spans).
Proof. exact trivia_after_token_behind_prefix. Qed.

(* non-vacuity with the real tables: `a/* c */=b+c;` - the prefix `a/* c */=b+` (tokens that touch, a comment between
   two of them), the token `c`, a line comment inserted in front of the `;` *)
Example C14_token_prefix_example :
  let pre := Pre keywords reserved_words symbols int_suffixes float_suffixes (fun _ => false) (fun _ => true) "c"%char in
  let lex := lex_file keywords reserved_words symbols int_suffixes float_suffixes (fun _ => false) (fun _ => true) in
  let nonws s := option_map strip (match lex s with SOk l => Some (toks l) | _ => None end) in
  pre ("a" ++ ("/*" ++ " c " ++ "*/") ++ "=" ++ "b" ++ "+" ++ "") /\
  nonws "a/* c */=b+c;" = nonws ("a/* c */=b+c" ++ ("//" ++ " d" ++ String "010" "") ++ ";").
Proof.
  cbv zeta. split.
  - apply (PreTok _ _ _ _ _ _ _ _ "a"%char "" (TId "a")); [vm_compute; reflexivity|reflexivity|split; intros; [reflexivity|discriminate]|].
    apply PreTrivia; [apply PBlock; reflexivity|].
    apply (PreTok _ _ _ _ _ _ _ _ "="%char "" (TSym "Equals")); [vm_compute; reflexivity|reflexivity|split; intros; [discriminate|repeat split; intros; try reflexivity; discriminate]|].
    apply (PreTok _ _ _ _ _ _ _ _ "b"%char "" (TId "b")); [vm_compute; reflexivity|reflexivity|split; intros; [reflexivity|discriminate]|].
    apply (PreTok _ _ _ _ _ _ _ _ "+"%char "" (TSym "Plus")); [vm_compute; reflexivity|reflexivity|split; intros; [discriminate|repeat split; intros; try reflexivity; discriminate]|].
    apply PreNil.
  - vm_compute. reflexivity.
Qed.
Local Close Scope string_scope.

Local Open Scope string_scope.
(* ---- decimal integer literals: a run of digits (no leading zero unless it is `0` alone) in front of a character that
        can neither continue a number nor start a suffix is the LiteralInt of its value and of exactly its length,
        whatever follows that character (for every suffix table whose suffixes begin with a letter) ---- *)
Theorem C14_decimal_int_token :
  forall keywords reserved_words symbols int_suffixes float_suffixes float_is_zero utf8_ok c a' v w r,
    suffixes_alpha int_suffixes = true ->
    all is_digit (String c a') = true -> (Ascii.eqb c "0" = true -> a' = "") ->
    accum 10 dec_val (String c a') 0 = Some v ->
    ends_number w ->
    tok_at keywords reserved_words symbols int_suffixes float_suffixes float_is_zero utf8_ok false (String c a' ++ String w r) =
    LOk (TInt "LiteralInt" v) (slen (String c a')).
Proof. exact decimal_int_token. Qed.

(* ---- prefixes that may hold decimal integer literals (`Pre2`): every prefix of `Pre` is one, and so is a decimal
        integer literal in front of such a prefix whose first character ends a number ---- *)
Theorem C14_pre_is_pre2 :
  forall keywords reserved_words symbols int_suffixes float_suffixes float_is_zero utf8_ok nxt p,
    Pre keywords reserved_words symbols int_suffixes float_suffixes float_is_zero utf8_ok nxt p ->
    Pre2 keywords reserved_words symbols int_suffixes float_suffixes float_is_zero utf8_ok nxt p.
Proof. exact pre_pre2. Qed.

Theorem C14_pre2_decimal_int :
  forall keywords reserved_words symbols int_suffixes float_suffixes float_is_zero utf8_ok nxt c a' v p,
    suffixes_alpha int_suffixes = true ->
    all is_digit (String c a') = true -> (Ascii.eqb c "0" = true -> a' = "") ->
    accum 10 dec_val (String c a') 0 = Some v ->
    ends_number (next_char nxt p) ->
    Pre2 keywords reserved_words symbols int_suffixes float_suffixes float_is_zero utf8_ok nxt p ->
    Pre2 keywords reserved_words symbols int_suffixes float_suffixes float_is_zero utf8_ok nxt (String c a' ++ p).
Proof. exact pre2_decimal_int. Qed.

(* ---- trivia in front of any token boundary behind such a prefix, the token in front of it being an identifier, keyword,
        operator or string, or a decimal integer literal: the tokens that are not whitespace stay as they were.  Floating
        point, hexadecimal, octal and suffixed literals and `<` / `>` are still outside these theorems ---- *)
Theorem C14_trivia_behind_a_prefix_with_integers_partial :
  forall keywords reserved_words symbols int_suffixes float_suffixes float_is_zero utf8_ok p c a' t (b : string) x spans,
    Pre2 keywords reserved_words symbols int_suffixes float_suffixes float_is_zero utf8_ok c p ->
    tok_at keywords reserved_words symbols int_suffixes float_suffixes float_is_zero utf8_ok false (String c a' ++ b) = LOk t (slen (String c a')) ->
    solid t = true -> Ascii.eqb c "/" = false -> Trivia x ->
    lex_file keywords reserved_words symbols int_suffixes float_suffixes float_is_zero utf8_ok (p ++ String c a' ++ b) = SOk spans ->
    exists spans', lex_file keywords reserved_words symbols int_suffixes float_suffixes float_is_zero utf8_ok (p ++ String c a' ++ x ++ b) = SOk spans' /\
                   strip (toks spans') = strip (toks spans).
Proof. exact trivia_after_token_behind_prefix2. Qed.

Theorem C14_trivia_behind_a_decimal_int_partial :
  forall keywords reserved_words symbols int_suffixes float_suffixes float_is_zero utf8_ok p c a' v (b : string) x spans,
    suffixes_alpha int_suffixes = true ->
    Pre2 keywords reserved_words symbols int_suffixes float_suffixes float_is_zero utf8_ok c p ->
    all is_digit (String c a') = true -> (Ascii.eqb c "0" = true -> a' = "") ->
    accum 10 dec_val (String c a') 0 = Some v ->
    tok_at keywords reserved_words symbols int_suffixes float_suffixes float_is_zero utf8_ok false (String c a' ++ b) =
      LOk (TInt "LiteralInt" v) (slen (String c a')) ->
    Trivia x ->
    lex_file keywords reserved_words symbols int_suffixes float_suffixes float_is_zero utf8_ok (p ++ String c a' ++ b) = SOk spans ->
    exists spans', lex_file keywords reserved_words symbols int_suffixes float_suffixes float_is_zero utf8_ok (p ++ String c a' ++ x ++ b) = SOk spans' /\
                   strip (toks spans') = strip (toks spans).
Proof. exact trivia_after_decimal_int_behind_prefix2. Qed.

(* non-vacuity with the real tables: the suffix table meets the hypothesis; `n=16+x;`: the prefix `n=16+` (an identifier, an
   operator, a decimal integer literal, an operator), the token `x`, a block comment in front of the `;`; and `n=16;` with
   the comment behind the 16 *)
Example C14_suffix_table_ok : suffixes_alpha int_suffixes = true.
Proof. vm_compute. reflexivity. Qed.
Example C14_integer_prefix_example :
  let pre2 := Pre2 keywords reserved_words symbols int_suffixes float_suffixes (fun _ => false) (fun _ => true) "x"%char in
  let lex := lex_file keywords reserved_words symbols int_suffixes float_suffixes (fun _ => false) (fun _ => true) in
  let nonws s := option_map strip (match lex s with SOk l => Some (toks l) | _ => None end) in
  pre2 ("n" ++ "=" ++ "16" ++ "+" ++ "") /\
  nonws "n=16+x;" = nonws ("n=16+x" ++ ("/*" ++ " c " ++ "*/") ++ ";") /\
  nonws "n=16;" = nonws ("n=16" ++ ("/*" ++ " c " ++ "*/") ++ ";").
Proof.
  cbv zeta. split; [|split; vm_compute; reflexivity].
  apply (pre2_solid _ _ _ _ _ _ _ _ "n"%char "" (TId "n")); [vm_compute; reflexivity|reflexivity|split; intros; [reflexivity|discriminate]|].
  apply (pre2_solid _ _ _ _ _ _ _ _ "="%char "" (TSym "Equals")); [vm_compute; reflexivity|reflexivity|split; intros; [discriminate|repeat split; intros; try reflexivity; discriminate]|].
  apply (pre2_decimal_int _ _ _ _ _ _ _ _ "1"%char "6" 16%N); [vm_compute; reflexivity|reflexivity|discriminate|reflexivity|split; reflexivity|].
  apply (pre2_solid _ _ _ _ _ _ _ _ "+"%char "" (TSym "Plus")); [vm_compute; reflexivity|reflexivity|split; intros; [discriminate|repeat split; intros; try reflexivity; discriminate]|].
  apply Pre2Nil.
Qed.
Local Close Scope string_scope.

Local Open Scope string_scope.
(* ---- plain floating-point literals `digits.digits` (no exponent, no suffix): in front of a character that can neither
        continue the literal nor start a suffix it is the LiteralFloat of exactly that text, whatever follows; it may
        stand in a `Pre2` prefix, and trivia behind it leaves the tokens that are not whitespace unchanged ---- *)
Theorem C14_plain_float_token :
  forall keywords reserved_words symbols int_suffixes float_suffixes float_is_zero utf8_ok c wh fr w r,
    fsuffixes_alpha float_suffixes = true ->
    all is_digit (String c wh) = true -> all is_digit fr = true ->
    ends_float w ->
    let text := String c wh ++ String "." fr in
    tok_at keywords reserved_words symbols int_suffixes float_suffixes float_is_zero utf8_ok false (text ++ String w r) =
    LOk (TFloat FNone text) (slen text).
Proof. exact plain_float_token. Qed.

Theorem C14_pre2_plain_float :
  forall keywords reserved_words symbols int_suffixes float_suffixes float_is_zero utf8_ok nxt c wh fr p,
    fsuffixes_alpha float_suffixes = true ->
    all is_digit (String c wh) = true -> all is_digit fr = true ->
    ends_float (next_char nxt p) ->
    Pre2 keywords reserved_words symbols int_suffixes float_suffixes float_is_zero utf8_ok nxt p ->
    Pre2 keywords reserved_words symbols int_suffixes float_suffixes float_is_zero utf8_ok nxt ((String c wh ++ String "." fr) ++ p).
Proof. exact pre2_plain_float. Qed.

Theorem C14_trivia_behind_a_plain_float_partial :
  forall keywords reserved_words symbols int_suffixes float_suffixes float_is_zero utf8_ok p c wh fr (b : string) x spans,
    fsuffixes_alpha float_suffixes = true ->
    Pre2 keywords reserved_words symbols int_suffixes float_suffixes float_is_zero utf8_ok c p ->
    all is_digit (String c wh) = true -> all is_digit fr = true ->
    let text := String c wh ++ String "." fr in
    tok_at keywords reserved_words symbols int_suffixes float_suffixes float_is_zero utf8_ok false (text ++ b) = LOk (TFloat FNone text) (slen text) ->
    Trivia x ->
    lex_file keywords reserved_words symbols int_suffixes float_suffixes float_is_zero utf8_ok (p ++ text ++ b) = SOk spans ->
    exists spans', lex_file keywords reserved_words symbols int_suffixes float_suffixes float_is_zero utf8_ok (p ++ text ++ x ++ b) = SOk spans' /\
                   strip (toks spans') = strip (toks spans).
Proof. exact trivia_after_plain_float_behind_prefix2. Qed.

Example C14_float_suffix_table_ok : fsuffixes_alpha float_suffixes = true.
Proof. vm_compute. reflexivity. Qed.
Example C14_plain_float_example :
  let lex := lex_file keywords reserved_words symbols int_suffixes float_suffixes (fun _ => false) (fun _ => true) in
  let nonws s := option_map strip (match lex s with SOk l => Some (toks l) | _ => None end) in
  tok_at keywords reserved_words symbols int_suffixes float_suffixes (fun _ => false) (fun _ => true) false ("0.5" ++ "*y;") =
    LOk (TFloat FNone "0.5") 3 /\
  nonws "x=0.5*y;" = nonws ("x=0.5" ++ ("//" ++ " half" ++ String "010" "") ++ "*y;").
Proof. cbv zeta. split; vm_compute; reflexivity. Qed.
Local Close Scope string_scope.

Local Open Scope string_scope.
(* ---- numeric literals of every form (decimal, hexadecimal, octal, with suffixes, exponents, #INF): a text that begins
        with a digit is read the same in front of any two characters that end it (`stopb`: no letter, digit or underscore,
        neither . nor #, and + or - only where the text does not end in the e of an exponent), whatever follows them - for every pair of suffix tables made of letters ---- *)
Theorem C14_numeric_token_ignores_what_follows :
  forall keywords reserved_words symbols int_suffixes float_suffixes float_is_zero utf8_ok c u' w1 r1 w2 r2,
    suffixes_alpha_all int_suffixes = true -> fsuffixes_alpha float_suffixes = true ->
    is_digit c = true -> stopb (String c u') w1 = true -> stopb (String c u') w2 = true ->
    tok_at keywords reserved_words symbols int_suffixes float_suffixes float_is_zero utf8_ok false (String c u' ++ String w1 r1) =
    tok_at keywords reserved_words symbols int_suffixes float_suffixes float_is_zero utf8_ok false (String c u' ++ String w2 r2).
Proof. exact numeric_token_ignores_tail. Qed.

(* ---- so such a literal may stand in a `Pre2` prefix ... ---- *)
Theorem C14_pre2_number :
  forall keywords reserved_words symbols int_suffixes float_suffixes float_is_zero utf8_ok nxt c a' t w0 r0 p,
    suffixes_alpha_all int_suffixes = true -> fsuffixes_alpha float_suffixes = true ->
    is_digit c = true -> stopb (String c a') w0 = true ->
    tok_at keywords reserved_words symbols int_suffixes float_suffixes float_is_zero utf8_ok false (String c a' ++ String w0 r0) = LOk t (slen (String c a')) ->
    stopb (String c a') (next_char nxt p) = true ->
    Pre2 keywords reserved_words symbols int_suffixes float_suffixes float_is_zero utf8_ok nxt p ->
    Pre2 keywords reserved_words symbols int_suffixes float_suffixes float_is_zero utf8_ok nxt (String c a' ++ p).
Proof. exact pre2_number. Qed.

(* ---- ... and trivia between it and the character that ends it, behind such a prefix, leaves the tokens that are not
        whitespace unchanged.  What remains outside the lexer theorems: `<` / `>` in front of the insertion point and a
        literal directly followed by `.` or `#` (`1.x`, the recorded swizzle finding, is of that kind) ---- *)
Theorem C14_trivia_behind_a_number_partial :
  forall keywords reserved_words symbols int_suffixes float_suffixes float_is_zero utf8_ok p c a' t w0 r0 x spans,
    suffixes_alpha_all int_suffixes = true -> fsuffixes_alpha float_suffixes = true ->
    Pre2 keywords reserved_words symbols int_suffixes float_suffixes float_is_zero utf8_ok c p -> is_digit c = true -> stopb (String c a') w0 = true ->
    tok_at keywords reserved_words symbols int_suffixes float_suffixes float_is_zero utf8_ok false (String c a' ++ String w0 r0) = LOk t (slen (String c a')) ->
    Trivia x ->
    lex_file keywords reserved_words symbols int_suffixes float_suffixes float_is_zero utf8_ok (p ++ String c a' ++ String w0 r0) = SOk spans ->
    exists spans', lex_file keywords reserved_words symbols int_suffixes float_suffixes float_is_zero utf8_ok (p ++ String c a' ++ x ++ String w0 r0) = SOk spans' /\
                   strip (toks spans') = strip (toks spans).
Proof. exact trivia_after_number_behind_prefix2. Qed.

(* non-vacuity with the real tables: `x=1+0x1Fu*2.5e-3f;` - the prefix `x=1+0x1Fu*` with a decimal literal in front of a `+`
   and a suffixed hexadecimal literal in it, the literal `2.5e-3f` in front of the `;`, a line comment between them *)
Example C14_all_suffix_tables_ok : suffixes_alpha_all int_suffixes = true /\ fsuffixes_alpha float_suffixes = true.
Proof. split; vm_compute; reflexivity. Qed.
Example C14_number_example :
  let pre2 := Pre2 keywords reserved_words symbols int_suffixes float_suffixes (fun _ => false) (fun _ => true) "2"%char in
  let tok := tok_at keywords reserved_words symbols int_suffixes float_suffixes (fun _ => false) (fun _ => true) false in
  let lex := lex_file keywords reserved_words symbols int_suffixes float_suffixes (fun _ => false) (fun _ => true) in
  let nonws s := option_map strip (match lex s with SOk l => Some (toks l) | _ => None end) in
  pre2 ("x" ++ "=" ++ "1" ++ "+" ++ "0x1Fu" ++ "*" ++ "") /\
  tok ("2.5e-3f" ++ ";") = LOk (TFloat FFloat "2.5e-3") 7 /\
  nonws "x=1+0x1Fu*2.5e-3f;" = nonws ("x=1+0x1Fu*2.5e-3f" ++ ("//" ++ " c" ++ String "010" "") ++ ";").
Proof.
  cbv zeta. split; [|split; vm_compute; reflexivity].
  apply (pre2_solid _ _ _ _ _ _ _ _ "x"%char "" (TId "x")); [vm_compute; reflexivity|reflexivity|split; intros; [reflexivity|discriminate]|].
  apply (pre2_solid _ _ _ _ _ _ _ _ "="%char "" (TSym "Equals")); [vm_compute; reflexivity|reflexivity|split; intros; [discriminate|repeat split; intros; try reflexivity; discriminate]|].
  apply (pre2_number _ _ _ _ _ _ _ _ "1"%char "" (TInt "LiteralInt" 1) "+"%char "");
    [vm_compute; reflexivity|vm_compute; reflexivity|reflexivity|reflexivity|vm_compute; reflexivity|reflexivity|].
  apply (pre2_solid _ _ _ _ _ _ _ _ "+"%char "" (TSym "Plus")); [vm_compute; reflexivity|reflexivity|split; intros; [discriminate|repeat split; intros; try reflexivity; discriminate]|].
  apply (pre2_number _ _ _ _ _ _ _ _ "0"%char "x1Fu" (TInt "LiteralIntUnsigned32" 31) "*"%char "");
    [vm_compute; reflexivity|vm_compute; reflexivity|reflexivity|reflexivity|vm_compute; reflexivity|reflexivity|].
  apply (pre2_solid _ _ _ _ _ _ _ _ "*"%char "" (TSym "Asterix")); [vm_compute; reflexivity|reflexivity|split; intros; [discriminate|repeat split; intros; try reflexivity; discriminate]|].
  apply Pre2Nil.
Qed.
Local Close Scope string_scope.

Local Open Scope string_scope.
(* ---- `<` and `>` inside a prefix: the lexer records on them whether a token follows directly; behind the bracket stands
        the rest of the prefix (a token read the same whatever follows, or a trivia piece), so the recorded flag does not
        depend on what comes after the prefix.  A bracket directly in front of the token at the insertion point is covered when that token is a
        word (C14_pre2_angle_before_a_word); trivia inserted directly behind a `<` / `>` is the exception the property names ---- *)
Theorem C14_pre2_langle :
  forall keywords reserved_words symbols int_suffixes float_suffixes float_is_zero utf8_ok nxt p,
    Pre2 keywords reserved_words symbols int_suffixes float_suffixes float_is_zero utf8_ok nxt p -> p <> "" ->
    Pre2 keywords reserved_words symbols int_suffixes float_suffixes float_is_zero utf8_ok nxt ("<" ++ p).
Proof. exact pre2_langle. Qed.

Theorem C14_pre2_rangle :
  forall keywords reserved_words symbols int_suffixes float_suffixes float_is_zero utf8_ok nxt p,
    Pre2 keywords reserved_words symbols int_suffixes float_suffixes float_is_zero utf8_ok nxt p -> p <> "" ->
    Pre2 keywords reserved_words symbols int_suffixes float_suffixes float_is_zero utf8_ok nxt (">" ++ p).
Proof. exact pre2_rangle. Qed.

Theorem C14_pre2_angle_before_a_word :
  forall keywords reserved_words symbols int_suffixes float_suffixes float_is_zero utf8_ok nxt,
    is_alpha_ nxt = true ->
    Pre2 keywords reserved_words symbols int_suffixes float_suffixes float_is_zero utf8_ok nxt "<" /\
    Pre2 keywords reserved_words symbols int_suffixes float_suffixes float_is_zero utf8_ok nxt ">".
Proof. intros. split; [apply pre2_langle_word | apply pre2_rangle_word]; assumption. Qed.

(* non-vacuity with the real tables: `b=i<4;` and a block comment behind the `;` - the prefix `b=i<4` holds a `<` *)
Example C14_angle_example :
  let pre2 := Pre2 keywords reserved_words symbols int_suffixes float_suffixes (fun _ => false) (fun _ => true) ";"%char in
  let lex := lex_file keywords reserved_words symbols int_suffixes float_suffixes (fun _ => false) (fun _ => true) in
  let nonws s := option_map strip (match lex s with SOk l => Some (toks l) | _ => None end) in
  pre2 ("b" ++ "=" ++ "i" ++ "<" ++ "4" ++ "") /\
  nonws ("b=i<4;" ++ String "010" "") = nonws ("b=i<4;" ++ ("/*" ++ " c " ++ "*/") ++ String "010" "").
Proof.
  cbv zeta. split; [|vm_compute; reflexivity].
  apply (pre2_solid _ _ _ _ _ _ _ _ "b"%char "" (TId "b")); [vm_compute; reflexivity|reflexivity|split; intros; [reflexivity|discriminate]|].
  apply (pre2_solid _ _ _ _ _ _ _ _ "="%char "" (TSym "Equals")); [vm_compute; reflexivity|reflexivity|split; intros; [discriminate|repeat split; intros; try reflexivity; discriminate]|].
  apply (pre2_solid _ _ _ _ _ _ _ _ "i"%char "" (TId "i")); [vm_compute; reflexivity|reflexivity|split; intros; [reflexivity|discriminate]|].
  apply pre2_langle; [|discriminate].
  apply (pre2_number _ _ _ _ _ _ _ _ "4"%char "" (TInt "LiteralInt" 4) ";"%char "");
    [vm_compute; reflexivity|vm_compute; reflexivity|reflexivity|reflexivity|vm_compute; reflexivity|reflexivity|].
  apply Pre2Nil.
Qed.
Local Close Scope string_scope.

Local Open Scope string_scope.
(* ---- trivia at any number of token boundaries at once.  A text is described as a list of elements (`Good`): tokens, each
        read the same in front of every character of a set that holds the character actually following it, and trivia
        pieces.  Behind every token marked insertable any run of trivia pieces may be added (`Ins`) - at as many tokens
        as one likes - and the file lexes to the same tokens that are not whitespace, whatever follows the described
        text.  Words, operators and strings (insertable unless they begin with a slash), numeric literals of every form
        (insertable) and `<` / `>` in front of a word or a blank (not insertable: the exception the property names) can be
        elements (the C14_good_ theorems) ---- *)
Theorem C14_trivia_at_many_boundaries_partial :
  forall keywords reserved_words symbols int_suffixes float_suffixes float_is_zero utf8_ok nxt r0 es es' spans,
    Good keywords reserved_words symbols int_suffixes float_suffixes float_is_zero utf8_ok nxt es -> Ins es es' ->
    lex_file keywords reserved_words symbols int_suffixes float_suffixes float_is_zero utf8_ok (txt es ++ String nxt r0) = SOk spans ->
    exists spans', lex_file keywords reserved_words symbols int_suffixes float_suffixes float_is_zero utf8_ok (txt es' ++ String nxt r0) = SOk spans' /\
                   strip (toks spans') = strip (toks spans).
Proof. exact trivia_at_many_boundaries. Qed.

Theorem C14_good_solid :
  forall keywords reserved_words symbols int_suffixes float_suffixes float_is_zero utf8_ok nxt c a' t ins es b,
    tok_at keywords reserved_words symbols int_suffixes float_suffixes float_is_zero utf8_ok false (String c a' ++ b) = LOk t (slen (String c a')) ->
    solid t = true -> follows_tok c (next_char nxt (txt es)) -> (ins = true -> Ascii.eqb c "/" = false) ->
    Good keywords reserved_words symbols int_suffixes float_suffixes float_is_zero utf8_ok nxt es ->
    Good keywords reserved_words symbols int_suffixes float_suffixes float_is_zero utf8_ok nxt (ETok c a' t ins :: es).
Proof. exact good_solid. Qed.

Theorem C14_good_number :
  forall keywords reserved_words symbols int_suffixes float_suffixes float_is_zero utf8_ok nxt c a' t w0 r0 ins es,
    suffixes_alpha_all int_suffixes = true -> fsuffixes_alpha float_suffixes = true ->
    is_digit c = true -> stopb (String c a') w0 = true ->
    tok_at keywords reserved_words symbols int_suffixes float_suffixes float_is_zero utf8_ok false (String c a' ++ String w0 r0) = LOk t (slen (String c a')) ->
    stopb (String c a') (next_char nxt (txt es)) = true ->
    Good keywords reserved_words symbols int_suffixes float_suffixes float_is_zero utf8_ok nxt es ->
    Good keywords reserved_words symbols int_suffixes float_suffixes float_is_zero utf8_ok nxt (ETok c a' t ins :: es).
Proof. exact good_number. Qed.

Theorem C14_good_angle :
  forall keywords reserved_words symbols int_suffixes float_suffixes float_is_zero utf8_ok nxt es,
    Good keywords reserved_words symbols int_suffixes float_suffixes float_is_zero utf8_ok nxt es ->
    (is_alpha_ (next_char nxt (txt es)) = true ->
       Good keywords reserved_words symbols int_suffixes float_suffixes float_is_zero utf8_ok nxt (ETok "<" "" (TLAngle true) false :: es) /\
       Good keywords reserved_words symbols int_suffixes float_suffixes float_is_zero utf8_ok nxt (ETok ">" "" (TRAngle true) false :: es)) /\
    (blank (next_char nxt (txt es)) ->
       Good keywords reserved_words symbols int_suffixes float_suffixes float_is_zero utf8_ok nxt (ETok "<" "" (TLAngle false) false :: es) /\
       Good keywords reserved_words symbols int_suffixes float_suffixes float_is_zero utf8_ok nxt (ETok ">" "" (TRAngle false) false :: es)).
Proof.
  intros. split; intros; split.
  - apply good_langle_word; assumption.
  - apply good_rangle_word; assumption.
  - apply good_langle_blank; assumption.
  - apply good_rangle_blank; assumption.
Qed.

(* non-vacuity with the real tables: `if(i<n)x=x+0.5f;` described element by element, and trivia added behind eight of its
   twelve tokens at once *)
Definition ex_elems : list elem :=
  [ETok "i" "f" (TKeyword "If") true; ETok "(" "" (TSym "LeftParen") true; ETok "i" "" (TId "i") true;
   ETok "<" "" (TLAngle true) false; ETok "n" "" (TId "n") true; ETok ")" "" (TSym "RightParen") true;
   ETok "x" "" (TId "x") true; ETok "=" "" (TSym "Equals") true; ETok "x" "" (TId "x") true;
   ETok "+" "" (TSym "Plus") true; ETok "0" ".5f" (TFloat FFloat "0.5") true; ETok ";" "" (TSym "Semicolon") true].
Definition ex_elems' : list elem :=
  [ETok "i" "f" (TKeyword "If") true; ETriv " "; ETok "(" "" (TSym "LeftParen") true; ETriv ("/*" ++ "a" ++ "*/");
   ETok "i" "" (TId "i") true;
   ETok "<" "" (TLAngle true) false; ETok "n" "" (TId "n") true; ETriv " "; ETriv (String "009" "");
   ETok ")" "" (TSym "RightParen") true; ETriv (String "010" "");
   ETok "x" "" (TId "x") true; ETok "=" "" (TSym "Equals") true; ETriv ("//" ++ " b" ++ String "010" "");
   ETok "x" "" (TId "x") true;
   ETok "+" "" (TSym "Plus") true; ETriv (String "\" (String "010" "")); ETok "0" ".5f" (TFloat FFloat "0.5") true; ETriv ("/*" ++ "" ++ "*/"); ETriv " ";
   ETok ";" "" (TSym "Semicolon") true; ETriv " "].
Example C14_many_example_texts :
  txt ex_elems = "if(i<n)x=x+0.5f;" /\
  txt ex_elems' = "if (/*a*/i<n " ++ String "009" (")" ++ String "010" ("x=// b" ++ String "010" ("x+\" ++ String "010" "0.5f/**/ ; "))).
Proof. split; reflexivity. Qed.
Example C14_many_example_good :
  Good keywords reserved_words symbols int_suffixes float_suffixes (fun _ => false) (fun _ => true) "010"%char ex_elems.
Proof.
  unfold ex_elems.
  apply (good_solid _ _ _ _ _ _ _ _ _ _ _ _ _ " "); [vm_compute; reflexivity|reflexivity|split; intros; [reflexivity|discriminate]|discriminate + reflexivity + (intros; reflexivity)|].
  apply (good_solid _ _ _ _ _ _ _ _ _ _ _ _ _ " "); [vm_compute; reflexivity|reflexivity|split; intros; [discriminate|repeat split; intros; try reflexivity; discriminate]|intros; reflexivity|].
  apply (good_solid _ _ _ _ _ _ _ _ _ _ _ _ _ " "); [vm_compute; reflexivity|reflexivity|split; intros; [reflexivity|discriminate]|intros; reflexivity|].
  apply good_langle_word; [reflexivity|].
  apply (good_solid _ _ _ _ _ _ _ _ _ _ _ _ _ " "); [vm_compute; reflexivity|reflexivity|split; intros; [reflexivity|discriminate]|intros; reflexivity|].
  apply (good_solid _ _ _ _ _ _ _ _ _ _ _ _ _ " "); [vm_compute; reflexivity|reflexivity|split; intros; [discriminate|repeat split; intros; try reflexivity; discriminate]|intros; reflexivity|].
  apply (good_solid _ _ _ _ _ _ _ _ _ _ _ _ _ " "); [vm_compute; reflexivity|reflexivity|split; intros; [reflexivity|discriminate]|intros; reflexivity|].
  apply (good_solid _ _ _ _ _ _ _ _ _ _ _ _ _ " "); [vm_compute; reflexivity|reflexivity|split; intros; [discriminate|repeat split; intros; try reflexivity; discriminate]|intros; reflexivity|].
  apply (good_solid _ _ _ _ _ _ _ _ _ _ _ _ _ " "); [vm_compute; reflexivity|reflexivity|split; intros; [reflexivity|discriminate]|intros; reflexivity|].
  apply (good_solid _ _ _ _ _ _ _ _ _ _ _ _ _ " "); [vm_compute; reflexivity|reflexivity|split; intros; [discriminate|repeat split; intros; try reflexivity; discriminate]|intros; reflexivity|].
  apply (good_number _ _ _ _ _ _ _ _ _ _ _ " "%char ""); [vm_compute; reflexivity|vm_compute; reflexivity|reflexivity|reflexivity|vm_compute; reflexivity|reflexivity|].
  apply (good_solid _ _ _ _ _ _ _ _ _ _ _ _ _ " "); [vm_compute; reflexivity|reflexivity|split; intros; [discriminate|repeat split; intros; try reflexivity; discriminate]|intros; reflexivity|].
  apply GNil.
Qed.
Example C14_many_example_ins : Ins ex_elems ex_elems'.
Proof.
  unfold ex_elems, ex_elems'.
  apply (ITok "i" "f" _ true _ _ [" "]); [constructor; [apply PBlank; left; reflexivity|constructor]|left; reflexivity|].
  apply (ITok "(" "" _ true _ _ ["/*" ++ "a" ++ "*/"]); [constructor; [apply PBlock; reflexivity|constructor]|left; reflexivity|].
  apply (ITok "i" "" _ true _ _ []); [constructor|right; reflexivity|].
  apply (ITok "<" "" _ false _ _ []); [constructor|right; reflexivity|].
  apply (ITok "n" "" _ true _ _ [" "; String "009" ""]); [constructor; [apply PBlank; left; reflexivity|constructor; [apply PBlank; right; left; reflexivity|constructor]]|left; reflexivity|].
  apply (ITok ")" "" _ true _ _ [String "010" ""]); [constructor; [apply PBlank; right; right; reflexivity|constructor]|left; reflexivity|].
  apply (ITok "x" "" _ true _ _ []); [constructor|right; reflexivity|].
  apply (ITok "=" "" _ true _ _ ["//" ++ " b" ++ String "010" ""]); [constructor; [apply PLine; reflexivity|constructor]|left; reflexivity|].
  apply (ITok "x" "" _ true _ _ []); [constructor|right; reflexivity|].
  apply (ITok "+" "" _ true _ _ [String "\" (String "010" "")]); [constructor; [apply PSplice|constructor]|left; reflexivity|].
  apply (ITok "0" ".5f" _ true _ _ ["/*" ++ "" ++ "*/"; " "]); [constructor; [apply PBlock; reflexivity|constructor; [apply PBlank; left; reflexivity|constructor]]|left; reflexivity|].
  apply (ITok ";" "" _ true _ _ [" "]); [constructor; [apply PBlank; left; reflexivity|constructor]|left; reflexivity|].
  apply INil.
Qed.
Local Close Scope string_scope.

(* ---- non-vacuity ---- *)
Example C14_example :
  let a := [105; 110; 116; 10] in           (* "int\n" *)
  let ins := [47; 47; 10; 10] in            (* "//\n\n" : two lines *)
  let b := [32; 32; 120; 59; 10] in         (* "  x;\n" *)
  line_col (a ++ b) 6 = (2, 3) /\ line_col (a ++ ins ++ b) 10 = (4, 3).
Proof. vm_compute. split; reflexivity. Qed.

Example C14_example_files :
  let fs := [{| f_name := "main.rssl"; f_bytes := [97; 10; 98] |}; {| f_name := "b.h"; f_bytes := [10; 10; 120] |}] in
  locate fs 0 (location_of fs 1 2) = Some ("b.h"%string, 3, 1) /\ locate fs 0 (location_of fs 0 3) = Some ("main.rssl"%string, 2, 2).
Proof. vm_compute. split; reflexivity. Qed.

Print Assumptions C14_inserting_lines_shifts_lines.
Print Assumptions C14_location_names_its_file.
Print Assumptions C14_file_ranges_disjoint.
Print Assumptions C14_later_files_do_not_matter.
Print Assumptions C14_token_ignores_a_following_blank_partial.
Print Assumptions C14_blank_after_a_token_keeps_the_rest_partial.
Print Assumptions C14_blank_after_the_first_token_partial.
Print Assumptions C14_trivia_after_a_token_keeps_the_rest_partial.
Print Assumptions C14_trivia_after_the_first_token_partial.
Print Assumptions C14_trivia_at_the_start_partial.
Print Assumptions C14_trivia_behind_a_spaced_prefix_partial.
Print Assumptions C14_trivia_behind_a_token_prefix_partial.
Print Assumptions C14_decimal_int_token.
Print Assumptions C14_pre_is_pre2.
Print Assumptions C14_pre2_decimal_int.
Print Assumptions C14_trivia_behind_a_prefix_with_integers_partial.
Print Assumptions C14_trivia_behind_a_decimal_int_partial.
Print Assumptions C14_plain_float_token.
Print Assumptions C14_pre2_plain_float.
Print Assumptions C14_trivia_behind_a_plain_float_partial.
Print Assumptions C14_numeric_token_ignores_what_follows.
Print Assumptions C14_pre2_number.
Print Assumptions C14_trivia_behind_a_number_partial.
Print Assumptions C14_pre2_langle.
Print Assumptions C14_pre2_rangle.
Print Assumptions C14_pre2_angle_before_a_word.
Print Assumptions C14_trivia_at_many_boundaries_partial.
Print Assumptions C14_good_solid.
Print Assumptions C14_good_number.
Print Assumptions C14_good_angle.
