(* C14 — diagnostics track source positions.  Property theorems only. *)
From Coq Require Import List NArith Bool String.
From RV Require Import Loc LocProofs.
Import ListNotations.
Local Open Scope N_scope.

(* ---- every file text a ++ b split at the start of a line, every inserted text of whole lines (k line feeds, the last
        byte a line feed), every later offset: the decoded line moves down by exactly k and the column is unchanged ---- *)
Theorem C14_inserting_lines_shifts_lines :
  forall (a ins b : list N) (j : nat),
    (a = [] \/ last a 0 = nl) -> (ins = [] \/ last ins 0 = nl) ->
    line_col (a ++ ins ++ b) (List.length a + (List.length ins + j)) =
    let '(l, c) := line_col (a ++ b) (List.length a + j) in (l + count_nl ins, c).
Proof. exact line_shift. Qed.

(* ---- every set of loaded files, every file i of it, every offset into it (the end-of-file slot included): the
        location handed out for that offset decodes to file i's name and to the line and column inside file i ---- *)
Theorem C14_location_names_its_file :
  forall (fs : list sfile) (i : nat) (f : sfile) (off : nat),
    nth_error fs i = Some f -> (off <= List.length (f_bytes f))%nat ->
    locate fs 0 (location_of fs i off) = Some (f_name f, fst (line_col (f_bytes f) off), snd (line_col (f_bytes f) off)).
Proof. exact location_names_its_file. Qed.

Theorem C14_file_ranges_disjoint :
  forall (fs : list sfile) (i j : nat) (fi fj : sfile),
    nth_error fs i = Some fi -> nth_error fs j = Some fj -> (i < j)%nat ->
    base_of fs i + slots fi <= base_of fs j.
Proof. exact file_ranges_disjoint. Qed.

(* ---- files loaded later (further includes, the scratch files of ##) never change what an earlier location decodes to ---- *)
Theorem C14_later_files_do_not_matter :
  forall (fs more : list sfile) (cur loc : N),
    cur <= loc -> loc < cur + total fs -> locate (fs ++ more) cur loc = locate fs cur loc.
Proof. exact later_files_do_not_matter. Qed.

(* ---- non-vacuity ---- *)
Example C14_example :
  let a := [105; 110; 116; 10] in           (* "int\n" *)
  let ins := [47; 47; 10; 10] in            (* "//\n\n" : two lines *)
  let b := [32; 32; 120; 59; 10] in         (* "  x;\n" *)
  line_col (a ++ b) 6 = (2, 3) /\ line_col (a ++ ins ++ b) 10 = (4, 3).
Proof. vm_compute. split; reflexivity. Qed.

Example C14_example_files :
  let fs := [{| f_name := "main.rssl"; f_bytes := [97; 10; 98] |}; {| f_name := "b.h"; f_bytes := [10; 10; 120] |}] in
  locate fs 0 (location_of fs 1 2) = Some ("b.h"%string, 3, 1) /\ locate fs 0 (location_of fs 0 3) = Some ("main.rssl"%string, 2, 2).
Proof. vm_compute. split; reflexivity. Qed.

Print Assumptions C14_inserting_lines_shifts_lines.
Print Assumptions C14_location_names_its_file.
Print Assumptions C14_file_ranges_disjoint.
Print Assumptions C14_later_files_do_not_matter.
