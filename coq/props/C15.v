(* C15 — renaming is harmless and emitted names are hygienic: the name generator.  Property theorems only. *)
From Coq Require Import List NArith Bool String Ascii.
From RV Require Import Wire NameGen NameGenProofs GenNames Scopes ScopesProofs TargetWords TargetWordsProofs NameGenEquiv.
From Coq Require Import Permutation.
Import ListNotations.
Local Open Scope string_scope.

(* ---- table obligation: every reserved entry of both exporters is a well formed identifier
        (an entry such as "SamplerState," would never match anything) ---- *)
Definition ident_start (c : ascii) : bool :=
  let n := N_of_ascii c in ((65 <=? n) && (n <=? 90) || (97 <=? n) && (n <=? 122) || (n =? 95))%N.
Definition ident_char (c : ascii) : bool := ident_start c || ((48 <=? N_of_ascii c) && (N_of_ascii c <=? 57))%N.
Definition is_ident (s : string) : bool :=
  match s with String c r => ident_start c && forallb ident_char (list_ascii_of_string r) | EmptyString => false end.

Theorem C15_reserved_lists_well_formed :
  forallb is_ident hlsl_reserved = true /\ forallb is_ident msl_reserved = true.
Proof. split; vm_compute; reflexivity. Qed.

(* ---- table obligation: every word this development knows to be a keyword or built-in name of a target (the reviewed
        lists of model/TargetWords.v, not taken from /repo) is an entry of that exporter's reserved list, which the
        theorems below show no emitted managed name can equal ---- *)
Theorem C15_target_words_are_reserved :
  forallb (listed hlsl_reserved) hlsl_target_words = true /\ forallb (listed msl_reserved) msl_target_words = true.
Proof. split; vm_compute; reflexivity. Qed.

Theorem C15_target_words_reserved_each :
  (forall w, In w hlsl_target_words -> In w hlsl_reserved) /\ (forall w, In w msl_target_words -> In w msl_reserved).
Proof. exact (conj (listed_all_in _ _ (proj1 C15_target_words_are_reserved)) (listed_all_in _ _ (proj2 C15_target_words_are_reserved))). Qed.

(* ---- for every reserved list and every scope (any number of symbols, names and overloads) ---- *)

(* the generator always terminates with a result: the suffix search needs at most |used|+1 probes *)
Theorem C15_build_total : forall reserved scopes locals, build reserved scopes locals <> None.
Proof. exact build_total. Qed.

(* within a scope: pairwise distinct names, none reserved, unique non-reserved names kept verbatim,
   every symbol named *)
Theorem C15_scope_hygiene : forall reserved es K G,
  NoDup (map e_name es) -> assign_scope reserved es = Some (K, G) ->
  NoDup (map snd (K ++ G)) /\
  (forall n, In n (map snd (K ++ G)) -> ~ In n reserved) /\
  (forall e s, In e es -> e_syms e = [s] -> ~ In (e_name e) reserved -> In (s, e_name e) K) /\
  (forall e s, In e es -> In s (e_syms e) -> In s (map fst (K ++ G))).
Proof. exact assign_scope_spec. Qed.

(* a local variable never receives a reserved name or a name generated for a global symbol *)
Theorem C15_locals_avoid_reserved_and_generated : forall locals all used res,
  assign_locals locals all used [] = Some res ->
  forall id n, In (id, n) res -> ~ In n used.
Proof.
  intros locals all used res H id n Hin.
  destruct (assign_locals_spec locals all used [] res H id n Hin) as [[]|Hn]. exact Hn.
Qed.

(* every use refers to the entity it referred to in the source: the path the exporters write for the symbol `leaf` of
   namespace t (`emit`: the namespaces from the root, the name, and a leading `::` where a declaration between the use
   site and the root, or a local / member / method, has the path's first name) is resolved by the front end's lookup
   to that symbol - from every namespace u, under every stack of local frames *)
Theorem C15_emitted_path_names_its_symbol :
  forall (is_ns : list string -> bool) (has : list string -> string -> bool) (inner : string -> bool)
         (live : list string -> bool),
    (* the namespaces that are written out include every namespace from which namespaces lead to a declaration *)
    (forall n s r t' leaf', walk is_ns (n :: s) r = Some t' -> has t' leaf' = true -> live (n :: s) = true) ->
    forall (frames : list (string -> bool)) (u t : list string) (leaf : string),
    ns_ok is_ns t = true -> has t leaf = true ->
    Forall (fun f : string -> bool => forall n, f n = true -> inner n = true) frames ->
    resolve is_ns has frames u (emit is_ns has inner live u t leaf) = Some (Declared t).
Proof. exact emitted_path_resolves. Qed.

(* non-vacuity: root f used from namespace A::B where A declares its own f needs the anchor; the path without it is
   looked up as A::f (what the seeded change `is_hidden_from_root` looking at the innermost namespace only emits) *)
Example C15_path_example :
  let is_ns := fun p : list string => match p with ["A"] | ["B"; "A"] => true | _ => false end in
  let has := fun (p : list string) (n : string) => match p with [] | ["A"] => String.eqb n "f" | _ => false end in
  let inner := fun _ : string => false in
  p_abs (emit is_ns has inner is_ns ["B"; "A"] [] "f") = true /\
  resolve is_ns has [] ["B"; "A"] (emit is_ns has inner is_ns ["B"; "A"] [] "f") = Some (Declared []) /\
  resolve is_ns has [] ["B"; "A"] (emit_relative [] "f") = Some (Declared ["A"]) /\
  (* an empty namespace A::B::A is not written out: its name does not force the anchor on the root path A::f *)
  (let is_ns2 := fun p : list string => match p with ["A"] | ["B"; "A"] | ["A"; "B"; "A"] => true | _ => false end in
   let live2 := fun p : list string => match p with ["A"] => true | _ => false end in
   p_abs (emit is_ns2 has inner live2 ["B"; "A"] ["A"] "f") = false /\
   resolve is_ns2 has [] ["B"; "A"] (emit is_ns2 has inner live2 ["B"; "A"] ["A"] "f") = Some (Declared ["A"])).
Proof. vm_compute. repeat split. Qed.

(* ---- non-vacuity: overloads f,f next to a user symbol f_0, and a reserved name ---- *)
Example C15_example :
  assign_scope ["float4"; "abs"]
    [mkEntry "f" [(3, 0); (3, 1)]%N; mkEntry "f_0" [(3, 2)%N]; mkEntry "abs" [(2, 0)%N]; mkEntry "g" [(2, 1)%N]] =
  Some ([((3, 2)%N, "f_0"); ((2, 1)%N, "g")], [((2, 0)%N, "abs_0"); ((3, 0)%N, "f_1"); ((3, 1)%N, "f_2")]).
Proof. vm_compute. reflexivity. Qed.

(* ---- renaming (first sentence of the property, for the name generator): for every reserved list, every scope whose
        names are fresh - pairwise distinct, none of the form m_k for a name m of the scope, no m_k reserved - and every
        renaming onto names that are fresh again and reserved exactly when the original was: the symbols that kept
        their name keep the renamed name, and the i-th symbol of any other name n, which got n_i, gets (f n)_i ---- *)
Theorem C15_renaming_renames_the_result : forall reserved f es,
  Fresh reserved es -> Fresh reserved (ren f es) -> keeps_reserved reserved f es ->
  exists G G',
    assign_scope reserved es = Some (kept_assignments reserved es, G) /\
    assign_scope reserved (ren f es) = Some (map (fun p => (fst p, f (snd p))) (kept_assignments reserved es), G') /\
    Permutation G (closed_gen reserved es) /\ Permutation G' (ren_closed_gen reserved f es).
Proof. exact rename_equivariant. Qed.

(* a test for freshness: no name of the scope and no reserved word ends in an underscore and digits *)
Theorem C15_fresh_when_plain : forall reserved es,
  NoDup (names es) -> plain_names (names es) = true -> plain_names reserved = true -> Fresh reserved es.
Proof. exact fresh_intro. Qed.

(* table obligation: no reserved word of either exporter has the shape of a generated name *)
Theorem C15_reserved_words_are_plain : plain_names hlsl_reserved = true /\ plain_names msl_reserved = true.
Proof. split; vm_compute; reflexivity. Qed.

(* non-vacuity with the real HLSL table: overloads f, f; a free name g; a reserved name abs; renamed to foo, bar, min *)
Example C15_renaming_example :
  let es := [mkEntry "f" [(1, 0); (1, 1)]%N; mkEntry "g" [(1, 2)%N]; mkEntry "abs" [(1, 3)%N]] in
  let f := fun n => if String.eqb n "f" then "foo" else if String.eqb n "g" then "bar" else "min" in
  Fresh hlsl_reserved es /\ Fresh hlsl_reserved (ren f es) /\ keeps_reserved hlsl_reserved f es /\
  assign_scope hlsl_reserved es = Some ([((1, 2)%N, "g")], [((1, 3)%N, "abs_0"); ((1, 0)%N, "f_0"); ((1, 1)%N, "f_1")]) /\
  assign_scope hlsl_reserved (ren f es) = Some ([((1, 2)%N, "bar")], [((1, 0)%N, "foo_0"); ((1, 1)%N, "foo_1"); ((1, 3)%N, "min_0")]).
Proof.
  cbv zeta. split; [|split; [|split; [|split]]].
  - apply fresh_intro; [repeat constructor; cbn; intuition discriminate|vm_compute; reflexivity|exact (proj1 C15_reserved_words_are_plain)].
  - apply fresh_intro; [repeat constructor; cbn; intuition discriminate|vm_compute; reflexivity|exact (proj1 C15_reserved_words_are_plain)].
  - intros n Hn. cbn in Hn. destruct Hn as [<-|[<-|[<-|[]]]]; vm_compute; reflexivity.
  - vm_compute. reflexivity.
  - vm_compute. reflexivity.
Qed.

(* the same for local variables (the second pass of the generator): for every list of locals whose names are never of
   the form m_k and for which no n_k is taken, and every renaming that is injective on them, fresh again, and onto names
   that are taken exactly when the original was: a local that kept its name keeps the renamed one, and the j-th renamed
   local called n, which got n_j, gets (f n)_j *)
Theorem C15_renaming_renames_the_locals : forall f locals used0 used0',
  LocalsFresh locals used0 -> LocalsFresh (ren_locals f locals) used0' ->
  (forall a b, In a (map snd locals) -> In b (map snd locals) -> f a = f b -> a = b) ->
  (forall n, In n (map snd locals) -> in_str (f n) used0' = in_str n used0) ->
  assign_locals locals (map snd locals) used0 [] = Some (closed_locals (fun x => x) used0 [] locals) /\
  assign_locals (ren_locals f locals) (map snd (ren_locals f locals)) used0' [] = Some (closed_locals f used0 [] locals).
Proof. exact rename_locals_equivariant. Qed.

Example C15_renaming_locals_example :
  let locals := [(0, "a"); (1, "v"); (2, "a"); (3, "w")]%N in
  let f := fun n => if String.eqb n "a" then "p" else if String.eqb n "v" then "q" else "r" in
  assign_locals locals (map snd locals) ["a"; "w"; "abs"] [] = Some [(0, "a_0"); (1, "v"); (2, "a_1"); (3, "w_0")]%N /\
  assign_locals (ren_locals f locals) (map snd (ren_locals f locals)) ["p"; "r"; "abs"] [] = Some [(0, "p_0"); (1, "q"); (2, "p_1"); (3, "r_0")]%N /\
  closed_locals f ["a"; "w"; "abs"] [] locals = [(0, "p_0"); (1, "q"); (2, "p_1"); (3, "r_0")]%N.
Proof. vm_compute. repeat split. Qed.

Print Assumptions C15_reserved_lists_well_formed.
Print Assumptions C15_target_words_are_reserved.
Print Assumptions C15_target_words_reserved_each.
Print Assumptions C15_build_total.
Print Assumptions C15_scope_hygiene.
Print Assumptions C15_locals_avoid_reserved_and_generated.
Print Assumptions C15_emitted_path_names_its_symbol.
Print Assumptions C15_renaming_renames_the_result.
Print Assumptions C15_fresh_when_plain.
Print Assumptions C15_reserved_words_are_plain.
Print Assumptions C15_renaming_renames_the_locals.
