(* C18 — targets agree on everything that is target-independent.  Property theorems only. *)
From Coq Require Import List NArith Bool String.
From RV Require Import Macro MacroProofs MacroIrrelevant Bindings BindingsProofs GenBindings GenDefines.
Import ListNotations.
Local Open Scope string_scope.

(* the two macros whose values depend on the target *)
Definition target_macro (x : string) : bool := String.eqb x "RSSL_TARGET_HLSL" || String.eqb x "RSSL_TARGET_MSL".

(* ---- every paste function that cannot produce a target macro name, every pair of macro tables that differ only in
        the definitions of the target macros, every token list that does not mention them: the same expansion ---- *)
Theorem C18_target_macros_irrelevant_for_tokens :
  forall (paste : mtok -> mtok -> option mtok) defs defs' toks,
    (forall a b t, paste a b = Some t -> cleanb target_macro t = true) ->
    rel target_macro defs defs' -> clean target_macro toks ->
    apply_macros paste defs toks = apply_macros paste defs' toks.
Proof. intros paste defs defs' toks Hp R Hc. exact (proj1 (apply_macros_agree target_macro paste Hp defs defs' toks R Hc)). Qed.

(* ---- and for whole files with includes, #define, #undef, #pragma once: the same tokens reach the parser, or the
        same error is reported, for every target ---- *)
Theorem C18_target_macros_irrelevant_for_files :
  forall (paste : mtok -> mtok -> option mtok) files fuel self its st st',
    (forall a b t, paste a b = Some t -> cleanb target_macro t = true) ->
    (forall f body, files f = Some body -> Forall (item_clean target_macro) body) ->
    st_rel target_macro st st' -> Forall (item_clean target_macro) its ->
    match run paste files fuel self its st, run paste files fuel self its st' with
    | Datatypes.inl r, Datatypes.inl r' => ps_out r = ps_out r'
    | Datatypes.inr e, Datatypes.inr e' => e = e'
    | _, _ => False
    end.
Proof.
  intros paste files fuel self its st st' Hp Hf Hs Hc.
  pose proof (run_agree target_macro paste Hp files Hf fuel self its st st' Hs Hc) as H.
  destruct (run paste files fuel self its st), (run paste files fuel self its st'); try exact H.
  destruct H as (_ & _ & H & _). exact H.
Qed.

(* ---- the slot assignment: which declarations are bound, their kinds and their descriptor counts do not depend on the
        target's parameter record, static samplers aside; only buffer addresses can become inline constants, and only
        when the record supports them ---- *)
Theorem C18_bound_set_is_target_independent :
  forall p p' (d : Bindings.decl okind), d_static_sampler d = false -> bindable okind p d = bindable okind p' d.
Proof.
  intros p p' d Hs. unfold bindable, Bindings.skipped_sampler. destruct (d_kind d); try reflexivity. rewrite Hs. reflexivity.
Qed.

Theorem C18_inline_only_for_buffer_addresses :
  forall p (d : Bindings.decl okind), Bindings.takes_inline okind is_addr p d = true ->
    support_buffer_address p = true /\ Bindings.decl_is_addr okind is_addr d = true.
Proof.
  intros p d H. unfold Bindings.takes_inline in H. destruct (d_kind d); try discriminate. apply andb_true_iff in H. exact H.
Qed.

(* ---- non-vacuity ---- *)
Example C18_example :
  let pastef := fun _ _ : mtok => @None mtok in
  let d (v : string) := [{| m_name := "RSSL_TARGET_HLSL"; m_fn := false; m_params := 0; m_body := [MLit v] |};
                         {| m_name := "N"; m_fn := false; m_params := 0; m_body := [MLit "4"] |}] in
  apply_macros pastef (d "1") [MId "x"; MWs; MId "N"] = apply_macros pastef (d "0") [MId "x"; MWs; MId "N"] /\
  apply_macros pastef (d "1") [MId "RSSL_TARGET_HLSL"] <> apply_macros pastef (d "0") [MId "RSSL_TARGET_HLSL"].
Proof. vm_compute. split; [reflexivity | discriminate]. Qed.

(* ---- the premise of the two macro theorems, as an obligation on the source: the section of compile() that builds the
        initial macro table (regenerated from src/compile.rs on every run) consists of unconditional pushes only, and
        every macro other than RSSL_TARGET_HLSL / RSSL_TARGET_MSL is pushed with a literal value; so the tables of two
        targets differ in the definitions of those two names only ---- *)
Theorem C18_initial_defines_differ_only_in_target_macros :
  forallb (fun r : string * string * bool * string =>
             let '(kind, name, nested, value) := r in
             String.eqb kind "push" && negb nested &&
             (String.eqb name "RSSL_TARGET_HLSL" || String.eqb name "RSSL_TARGET_MSL" || negb (String.eqb value "<computed>")))
          initial_defines = true.
Proof. vm_compute. reflexivity. Qed.

Print Assumptions C18_target_macros_irrelevant_for_tokens.
Print Assumptions C18_initial_defines_differ_only_in_target_macros.
Print Assumptions C18_target_macros_irrelevant_for_files.
Print Assumptions C18_bound_set_is_target_independent.
Print Assumptions C18_inline_only_for_buffer_addresses.
