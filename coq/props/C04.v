(* C04 — emitted DirectX HLSL is accepted by the front end and is a fixpoint.  Property theorems only.
   The property is a composition; each link is a theorem about the model of the pass that is responsible for it:
     names       a path written by the exporter is found again, from where it is read, as the symbol it was written for;
                 the name map of the second compilation is the name map of the first
     slots       the declarations as printed (group explicit, object kinds possibly re-spelt) get the same slots
     expressions C09_expression_roundtrip (the printed expression reads back as the same tree)
     literals    C10_int_exact, C10_float_nearest_* (a printed literal reads back as the same value)
   The end-to-end statement itself (the second output equals the first byte for byte) is what the correspondence
   observes on the implementation: corpus, repository sources and generated programs. *)
From Coq Require Import List NArith Bool String Lia.
From RV Require Import Wire NameGen NameGenProofs Bindings BindingsProofs FixpointProofs Scopes ScopesProofs GenBindings GenNames.
From RV Require C09 C10.
Import ListNotations.
Local Open Scope string_scope.
Local Open Scope list_scope.

(* ---- names: no undeclared or clashing names ---- *)

(* whatever the namespaces, their contents, the local frames around the use site (parameters, locals, members: all in
   the name map's set of inner names) and the place the path is used from: the emitted path resolves to the symbol *)
Theorem C04_emitted_path_finds_its_symbol :
  forall (is_ns : list string -> bool) (has : list string -> string -> bool) (inner : string -> bool)
         (live : list string -> bool),
    (* the namespaces that are written out include every namespace from which namespaces lead to a declaration *)
    (forall n s r t' leaf', walk is_ns (n :: s) r = Some t' -> has t' leaf' = true -> live (n :: s) = true) ->
    forall (frames : list (string -> bool)) (u t : list string) (leaf : string),
    ns_ok is_ns t = true -> has t leaf = true ->
    Forall (fun f : string -> bool => forall n, f n = true -> inner n = true) frames ->
    resolve is_ns has frames u (emit is_ns has inner live u t leaf) = Some (Declared t).
Proof. exact emitted_path_resolves. Qed.

(* the anchor is needed: without it (the exporters before the repair) a nearer declaration captures the path.
   ::f used from namespace Q that declares its own f; a global v read in a function with a local v *)
Definition ex_is_ns (p : list string) : bool := match p with ["Q"] => true | _ => false end.
Definition ex_has (p : list string) (n : string) : bool :=
  match p with [] => String.eqb n "f" || String.eqb n "v" | ["Q"] => String.eqb n "f" | _ => false end.

Example C04_relative_path_is_captured :
  resolve ex_is_ns ex_has [] ["Q"] (emit_relative [] "f") = Some (Declared ["Q"]) /\
  resolve ex_is_ns ex_has [fun n => String.eqb n "v"] [] (emit_relative [] "v") = Some Local /\
  resolve ex_is_ns ex_has [] ["Q"] (emit ex_is_ns ex_has (fun n => String.eqb n "v") ex_is_ns ["Q"] [] "f") = Some (Declared []) /\
  resolve ex_is_ns ex_has [fun n => String.eqb n "v"] [] (emit ex_is_ns ex_has (fun n => String.eqb n "v") ex_is_ns [] [] "v") = Some (Declared []).
Proof. vm_compute. repeat split. Qed.

(* the name map of the emitted program: every symbol of a scope keeps the name the first compilation gave it, nothing
   is generated again; locals keep theirs when none is reserved or the name of a global variable (which the first
   compilation guarantees: C15_locals_avoid_reserved_and_generated) (for every reserved list; instantiated below with the list of the HLSL exporter) *)
Theorem C04_second_generation_names :
  forall reserved es K G,
    NoDup (map e_name es) -> assign_scope reserved es = Some (K, G) ->
    assign_scope reserved (reentries (K ++ G)) = Some (K ++ G, []).
Proof. exact second_generation_scope. Qed.

Theorem C04_name_map_identity :
  forall reserved scopes locals,
    Forall (Forall (fun e => is_kept reserved e = true)) scopes ->
    (forall id n, In (id, n) locals ->
       in_str n (gvar_names (flat_map (kept_assignments reserved) scopes) ++ reserved) = false) ->
    build reserved scopes locals = Some (flat_map (kept_assignments reserved) scopes, locals).
Proof. exact build_identity. Qed.

Example C04_names_example :
  let first := assign_scope hlsl_reserved
                 [mkEntry "f" [(3, 0); (3, 1)]%N; mkEntry "f_0" [(3, 2)%N]; mkEntry "abs" [(2, 0)%N]; mkEntry "g" [(2, 1)%N]] in
  first = Some ([((3, 2)%N, "f_0"); ((2, 1)%N, "g")], [((2, 0)%N, "abs_0"); ((3, 0)%N, "f_1"); ((3, 1)%N, "f_2")]) /\
  assign_scope hlsl_reserved (reentries ([((3, 2)%N, "f_0"); ((2, 1)%N, "g")] ++ [((2, 0)%N, "abs_0"); ((3, 0)%N, "f_1"); ((3, 1)%N, "f_2")]))
  = Some ([((3, 2)%N, "f_0"); ((2, 1)%N, "g")] ++ [((2, 0)%N, "abs_0"); ((3, 0)%N, "f_1"); ((3, 1)%N, "f_2")], []).
Proof. vm_compute. split; reflexivity. Qed.

(* ---- slots: every resource on the same binding slot ---- *)
Notation decl := (Bindings.decl okind).
Notation assign := (Bindings.assign okind metal2 is_addr).

(* the printed declaration carries its group; the default group of the second compilation is irrelevant *)
Theorem C04_slots_rederived_with_explicit_groups :
  forall p dflt dflt' (ds : list decl),
    assign p dflt' (map (with_group okind dflt) ds) = assign p dflt ds.
Proof. exact (assign_with_explicit_groups okind metal2 is_addr). Qed.

(* DirectX: object kinds may be printed as other object kinds (BufferAddress as ByteAddressBuffer) *)
Theorem C04_slots_rederived_directx :
  forall (rek : okind -> okind) p dflt dflt' (ds : list decl),
    metal_slot_layout p = false -> support_buffer_address p = false ->
    assign p dflt' (map (emitted okind rek dflt) ds) = assign p dflt ds.
Proof. exact (assign_emitted_directx okind metal2 is_addr). Qed.

(* the parameter record the compiler passes for HlslForDirectX (regenerated from src/compile.rs) meets both premises *)
Theorem C04_directx_params :
  match find (fun r : string * params => String.eqb (fst r) "HlslForDirectX") target_params with
  | Some (_, p) => metal_slot_layout p = false /\ support_buffer_address p = false
  | None => False
  end.
Proof. vm_compute. split; reflexivity. Qed.

(* ---- expressions and literals: the links proved for C09 and C10 ---- *)
Check C09.C09_expression_roundtrip.
Check C09.C09_printer_is_level_directed.
Check C10.C10_int_exact.
Check C10.C10_float_nearest_pos.
Check C10.C10_float_nearest_neg.

Print Assumptions C04_emitted_path_finds_its_symbol.
Print Assumptions C04_second_generation_names.
Print Assumptions C04_name_map_identity.
Print Assumptions C04_slots_rederived_with_explicit_groups.
Print Assumptions C04_slots_rederived_directx.
Print Assumptions C04_directx_params.
