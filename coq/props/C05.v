(* C05 — reflection metadata agrees with the emitted source.  Property theorems only; the records both the annotation
   printers and the metadata builders read are the bindings of the C06 model (tables regenerated in GenBindings.v). *)
From Coq Require Import List NArith Bool String Lia.
From RV Require Import Bindings BindingsProofs MetadataProofs GenBindings.
Import ListNotations.
Local Open Scope N_scope.

Notation decl := (Bindings.decl okind).
Notation assign := (Bindings.assign okind metal2 is_addr).
Notation binding_ok := (BindingsProofs.binding_ok okind metal2 is_addr).

(* ---- which declarations have a binding record (hence an annotation and one metadata entry): constant buffers, and
        globals of an object type that are extern and not a static sampler implemented in the shader; each gets exactly
        one record, in its own or the default group ---- *)
Theorem C05_one_entry_per_bound_declaration :
  forall p dflt (ds : list decl),
    Forall2 (fun d ob =>
               match ob with
               | None => bindable okind p d = false
               | Some b => bindable okind p d = true /\ b_set b = group_of okind dflt d
               end) ds (fst (assign p dflt ds)).
Proof.
  intros p dflt ds. pose proof (assign_bindings_ok okind metal2 is_addr p dflt ds) as F.
  induction F as [|d ob l l' H F IH]; constructor; [|exact IH].
  destruct ob as [b|]; [|exact H]. cbn in H. destruct H as (H1 & H2 & _). split; assumption.
Qed.

Theorem C05_static_globals_have_no_entry :
  forall p (d : decl), d_extern d = false -> d_kind d <> KCBuffer -> bindable okind p d = false.
Proof. intros p d He Hk. unfold bindable. destruct (d_kind d); [congruence | rewrite He; reflexivity | reflexivity]. Qed.

(* ---- the inline descriptor struct the HLSL exporter prints for a group: 8 bytes per inline binding at the binding's
        offset, offsets 0, 8, 16, ..., total size equal to the size in the metadata; the exporter's two assertions hold
        for every declaration list (every parameter record without the Metal slot layout, as all HLSL targets) ---- *)
Theorem C05_inline_descriptor_struct :
  forall p dflt (ds : list decl) g l z,
    metal_slot_layout p = false ->
    In (g, l, z) (snd (assign p dflt ds)) ->
    let ranges := inline_ranges g (fst (assign p dflt ds)) in
    z = 8 * N.of_nat (List.length ranges) /\
    (forall o len, In (o, len) ranges -> len = 8 /\ o + 8 <= z) /\
    tiles 0 ranges.
Proof. exact (inline_descriptor_struct okind metal2 is_addr). Qed.

Theorem C05_hlsl_targets_have_no_metal_layout :
  forallb (fun r : string * params => if String.prefix "Hlsl" (fst r) then negb (metal_slot_layout (snd r)) else true) target_params = true.
Proof. vm_compute. reflexivity. Qed.

Print Assumptions C05_one_entry_per_bound_declaration.
Print Assumptions C05_static_globals_have_no_entry.
Print Assumptions C05_inline_descriptor_struct.
Print Assumptions C05_hlsl_targets_have_no_metal_layout.
