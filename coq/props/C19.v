(* C19 — layout-consistency validation is sound.  Property theorems only. *)
From Coq Require Import List NArith Bool String Lia.
From RV Require Import Layout LayoutProofs GenLayout.
Import ListNotations.
Local Open Scope N_scope.

Notation ty := (Layout.ty scalar).
Notation check := (Layout.check scalar ssize sbool array_min).
Notation spec_total := (Layout.spec_total scalar ssize sbool).
Notation spec_fields := (Layout.spec_fields scalar ssize sbool).
Notation spec_sa := (Layout.spec_sa scalar ssize sbool).

(* ---- table obligation: the scalar sizes the reference rules assume ---- *)
Theorem C19_scalar_sizes :
  map (fun s => (scalar_name s, ssize s, sbool s)) all_scalars =
  [("Bool"%string, Some 4, true); ("IntLiteral"%string, None, false); ("Int32"%string, Some 4, false);
   ("UInt32"%string, Some 4, false); ("FloatLiteral"%string, None, false); ("Float16"%string, Some 2, false);
   ("Float32"%string, Some 4, false); ("Float64"%string, Some 8, false)].
Proof. vm_compute. reflexivity. Qed.

(* the element stride of every array with at least two elements takes part in the comparison *)
Theorem C19_array_stride_recorded : array_min = 1.
Proof. reflexivity. Qed.

(* ---- every type tree, any nesting depth ---- *)

(* acceptance implies the same total size and the same offset for every field, recursively *)
Theorem C19_check_sound : forall t : ty,
  check t = Accept ->
  exists z, spec_total Hlsl t = Some z /\ spec_total Metal t = Some z /\
            spec_fields Hlsl t 0 = spec_fields Metal t 0.
Proof. exact (check_sound scalar ssize sbool array_min C19_array_stride_recorded). Qed.

(* a size rejection reports the true sizes and alignments *)
Theorem C19_check_reports_truth : forall (t : ty) hs ha ms ma,
  check t = Mismatch hs ha ms ma ->
  spec_total Hlsl t = Some hs /\ spec_total Metal t = Some ms /\ hs <> ms /\
  option_map snd (spec_sa Hlsl t) = Some ha /\ option_map snd (spec_sa Metal t) = Some ma.
Proof. exact (check_reports_truth scalar ssize sbool array_min). Qed.

(* the implementation computes sizes in 32 bits with checked operations: a type whose running sizes do not fit is
   answered "unknown size" (`check32`); it accepts less than `check` and reports the same numbers *)
Theorem C19_check32_sound : forall t : ty,
  check32 scalar ssize sbool array_min t = Accept ->
  exists z, spec_total Hlsl t = Some z /\ spec_total Metal t = Some z /\
            spec_fields Hlsl t 0 = spec_fields Metal t 0.
Proof. exact (check32_sound scalar ssize sbool array_min C19_array_stride_recorded). Qed.

Theorem C19_check32_reports_truth : forall (t : ty) hs ha ms ma,
  check32 scalar ssize sbool array_min t = Mismatch hs ha ms ma ->
  spec_total Hlsl t = Some hs /\ spec_total Metal t = Some ms /\ hs <> ms /\
  option_map snd (spec_sa Hlsl t) = Some ha /\ option_map snd (spec_sa Metal t) = Some ma.
Proof. exact (check32_reports_truth scalar ssize sbool array_min). Qed.

(* ---- non-vacuity and the two witnesses that the unrepaired checker accepted ---- *)
Definition f1 := TScalar ST_Float32.
Definition f2 := TVec ST_Float32 2.
Definition f4 := TVec ST_Float32 4.
Fixpoint mk (l : list ty) : Layout.tys scalar := match l with [] => TNil | t :: r => TCons t (mk r) end.

Example C19_accepts_consistent :
  check (TStruct (mk [f4; TStruct (mk [f2; f2]); TArr (TScalar ST_UInt32) 2; TScalar ST_Float64])) = Accept.
Proof. vm_compute. reflexivity. Qed.

Example C19_witness_nested_padding :   (* {struct{float2;float}; float}: 16 bytes in HLSL, 24 in Metal *)
  check (TStruct (mk [TStruct (mk [f2; f1]); f1])) = Mismatch 16 4 24 8.
Proof. vm_compute. reflexivity. Qed.

Example C19_witness_same_size_other_offsets :   (* {float; float2; double}: 24 bytes in both, float2 at 4 vs 8 *)
  check (TStruct (mk [f1; f2; TScalar ST_Float64])) = OffsetMismatch 4 8.
Proof. vm_compute. reflexivity. Qed.

Print Assumptions C19_scalar_sizes.
Print Assumptions C19_array_stride_recorded.
Print Assumptions C19_check_sound.
Print Assumptions C19_check_reports_truth.
Print Assumptions C19_check32_sound.
Print Assumptions C19_check32_reports_truth.
