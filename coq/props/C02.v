(* C02 — MSL export preserves the meaning of every accepted program.  Property theorems only.
   What is specific to the Metal exporter is proved on models: which functions receive which globals as parameters
   (on the usage fixpoint of C07: exactly the ones they reach), that every call can pass them on, and that the
   trampoline the exporter puts in front of functions with out / inout parameters gives references copy-in / copy-out
   behaviour for every body and every aliasing of the arguments.  Everything else the Metal text says is compared with
   the HLSL text (validated against the typed IR by C01) token by token, a difference being accepted only where the
   rules of tools/c02ref.py explain it and the facts computed from the IR confirm it; that comparison is observed on
   the implementation, not proved. *)
From Coq Require Import List NArith ZArith Bool Sorted.
From RV Require Import Perm PermProofs MslThreading MslThreadingProofs.
Import ListNotations.

(* ---- globals Metal cannot express as globals are passed to exactly the functions that (transitively) need them ---- *)
Theorem C02_globals_reach_exactly_who_needs_them :
  forall s0 threaded fuel ks s, recurse fuel ks s0 = Some s ->
  forall f g, In f ks -> (In g (required s threaded f) <-> threaded g = true /\ reach s0 f g).
Proof. exact required_exact. Qed.

(* every argument appended to a call is a parameter of the caller *)
Theorem C02_calls_are_well_scoped :
  forall s0 threaded fuel ks s, recurse fuel ks s0 = Some s ->
  forall f d g, In f ks -> In d ks -> In d (get s0 f) -> In g (required s threaded d) -> In g (required s threaded f).
Proof. exact call_is_well_scoped. Qed.

(* the appended arguments and the appended parameters are the same list, in the same (sorted) order *)
Theorem C02_call_matches_signature :
  forall s threaded params args d,
  skipn (List.length args) (call_arguments s threaded args d) = skipn (List.length params) (signature s threaded params d).
Proof. intros s threaded. exact (call_matches_signature threaded s). Qed.

Theorem C02_threaded_in_order : forall s threaded f, StronglySorted (fun a b => N.leb a b = true) (required s threaded f).
Proof. intros s threaded. exact (required_sorted threaded s). Qed.

(* ---- out / inout parameters keep copy-in / copy-out behaviour: for every body (any sequence of parameter writes, each
        computed from the current values of all parameters), every list of argument variables — aliased or not — and
        every store, the Metal call through the trampoline leaves every variable of the caller as the HLSL call does ---- *)
Theorem C02_trampoline_keeps_copy_semantics :
  forall b locals args s,
    NoDup locals -> List.length locals = List.length args -> wf_body (List.length args) b ->
    (forall x, In x locals -> ~ In x args) ->
    forall y, ~ In y locals -> metal_call b locals args s y = hlsl_call b args s y.
Proof. exact trampoline_keeps_copy_semantics. Qed.

(* ---- non-vacuity: f(a, a) with references alone differs from copy semantics; through the trampoline it does not;
        a call graph main -> f -> g where g uses the static 9 and main uses the static const 8 ---- *)
Example C02_trampoline_is_needed :
  hlsl_call [ISet 1 (fun v => (nth 0 v 0 * 10)%Z); ISet 0 (fun v => (nth 1 v 0 + 1)%Z)] [5%N; 5%N] (fun _ => 1%Z) 5%N = 10%Z /\
  metal_call_direct [ISet 1 (fun v => (nth 0 v 0 * 10)%Z); ISet 0 (fun v => (nth 1 v 0 + 1)%Z)] [5%N; 5%N] (fun _ => 1%Z) 5%N = 11%Z /\
  metal_call [ISet 1 (fun v => (nth 0 v 0 * 10)%Z); ISet 0 (fun v => (nth 1 v 0 + 1)%Z)] [100%N; 101%N] [5%N; 5%N] (fun _ => 1%Z) 5%N = 10%Z.
Proof. vm_compute. repeat split. Qed.

Definition ex_s0 : state := [(1, [2; 8]); (2, [3]); (3, [9]); (8, []); (9, [])]%N.
Definition ex_threaded (k : key) : bool := N.eqb k 9.
Example C02_threading_example :
  match recurse 10 [1; 2; 3; 8; 9]%N ex_s0 with
  | Some s => required s ex_threaded 1%N = [9%N] /\ required s ex_threaded 3%N = [9%N] /\ required s ex_threaded 8%N = []
  | None => False
  end.
Proof. vm_compute. repeat split. Qed.

Print Assumptions C02_globals_reach_exactly_who_needs_them.
Print Assumptions C02_calls_are_well_scoped.
Print Assumptions C02_call_matches_signature.
Print Assumptions C02_threaded_in_order.
Print Assumptions C02_trampoline_keeps_copy_semantics.
