(* C03 — accepted programs elaborate to well-typed IR; ill-typed programs are rejected.  Property theorems only.
   The checker of coq/model/IRType.v (`wt`) is the specification of "well typed": every node of the IR carries the type
   Expression::get_type gives it, and a node is consistent when that type is the one its rule derives and every operand
   has exactly the type the node requires.  The extracted checker is run on the IR of every program the harness type
   checks (corpus, repository sources, generated programs); the theorems say what a passed check means.
   Not a theorem: that the type checker's output always passes (there is no model of the elaborator); that half of the
   property is observed, together with the rejection of programs carrying one injected violation. *)
From Coq Require Import List NArith Bool String.
From RV Require Import IRType IRTypeProofs.
Import ListNotations.
Local Open Scope string_scope.
Local Open Scope N_scope.

(* every expression has a well-defined type: the annotation of every node (what the IR's own rules answer) is the type
   derived bottom-up from the leaves *)
Theorem C03_types_are_derived : forall e, wt e = None -> derive e = Some (e_ty e, e_lv e).
Proof. exact wt_annotations_are_derived. Qed.

(* and every node of the tree, however deep, meets its rule *)
Theorem C03_every_node_consistent : forall e, wt e = None ->
  forall s, subterm s e -> match s with Node k t lv kids => check_node k t lv kids = None end.
Proof. exact wt_every_node. Qed.

(* assignments and compound assignments: the target is an lvalue whose path goes through nothing const, and the value
   has the target's type (no conversion left implicit) *)
Theorem C03_assignment : forall name t lv a b,
  assign_name name = true -> check_node (KOp name) t lv [a; b] = None ->
  e_lv a = true /\ const_path a = false /\ is_const (e_ty a) = false /\ same (e_ty a) (e_ty b) = true /\ t = e_ty a.
Proof.
  intros name t lv a b Hn C. destruct (wt_assignment_operands name t lv a b Hn C) as (W & S & T & _).
  destruct (writable_spec a W) as (L & P & K). repeat split; assumption.
Qed.

Theorem C03_increment : forall name t lv a,
  in_list name ["PrefixIncrement"; "PrefixDecrement"; "PostfixIncrement"; "PostfixDecrement"] = true ->
  check_node (KOp name) t lv [a] = None -> e_lv a = true /\ const_path a = false.
Proof.
  intros name t lv a Hn C. destruct (writable_spec a (wt_increment_operand name t lv a Hn C)) as (L & P & _). split; assumption.
Qed.

(* calls: one operand per parameter - only parameters with default values (those from index nd on) may be left out,
   from the end -, each of its parameter's type (template parameters aside), and a writable lvalue wherever the
   parameter is out or inout *)
Theorem C03_call : forall intrinsic nd params ret t lv args,
  check_node (KCall false intrinsic nd params ret) t lv args = None ->
  Forall2 (fun (p : N * ty) a =>
             (same (e_ty a) (snd p) = true \/ exists i, strip (snd p) = TParam i) /\
             (fst p <> 0 -> writable a = true)) (firstn (List.length args) params) args /\
  (N.to_nat nd <= List.length args <= List.length params)%nat /\ t = ret /\ lv = false.
Proof. exact wt_call_operands. Qed.

(* matrix swizzles name components the matrix has; the result is an lvalue only without a repeated component *)
Theorem C03_matrix_swizzle : forall idx t lv x,
  check_node (KMSwz idx) t lv [x] = None ->
  exists r c s, strip (e_ty x) = TMatrix r c s /\
    forallb (fun i => (i / 4 <? r) && (i mod 4 <? c)) idx = true /\
    lv = (e_lv x && nodupN idx)%bool.
Proof. exact wt_matrix_swizzle. Qed.

(* returns and initialisers *)
Theorem C03_return : forall ret e, wt_stmt ret (SRet (Some e)) = None -> wt e = None /\ same (e_ty e) ret = true.
Proof. exact wt_return. Qed.
Theorem C03_return_nothing : forall ret, wt_stmt ret (SRet None) = None -> strip ret = TVoid.
Proof. exact wt_return_nothing. Qed.
Theorem C03_initialiser : forall ret t e, wt_stmt ret (SVar t (IExpr e)) = None -> wt e = None /\ same (e_ty e) t = true.
Proof. exact wt_initialiser. Qed.

(* ---- non-vacuity: `s.v.x = (float)i + 1.0f` is well typed; the same write through a const struct is not; passing a
        const int for an out parameter is not ---- *)
Definition tf := TScalar KFloat.
Definition ti := TScalar KInt.
Definition ex_lhs (smod : N) : expr :=
  Node (KSwz [0]) tf true [Node (KSMem 7 (TVector 4 tf)) (TVector 4 tf) true [Node KVar (remod smod (TStruct 7)) true []]].
Definition ex_rhs : expr :=
  Node (KOp "Add") tf false [Node KCast tf false [Node KVar ti true []]; Node KLit tf false []].
Definition ex_assign (smod : N) : expr := Node (KOp "Assignment") tf true [ex_lhs smod; ex_rhs].

Example C03_example :
  wt (ex_assign 0) = None /\
  wt (ex_assign 1) = Some "assignment to something that is not a writable lvalue" /\
  wt (Node (KCall false false 1 [(1, ti)] TVoid) TVoid false [Node KVar (TMod 1 ti) true []]) = Some "out / inout argument is not a writable lvalue" /\
  wt (Node (KOp "Add") tf false [Node KVar ti true []; Node KLit tf false []]) = Some "operands of an arithmetic operation have different types".
Proof. vm_compute. repeat split. Qed.

Print Assumptions C03_types_are_derived.
Print Assumptions C03_every_node_consistent.
Print Assumptions C03_assignment.
Print Assumptions C03_increment.
Print Assumptions C03_call.
Print Assumptions C03_return.
Print Assumptions C03_return_nothing.
Print Assumptions C03_initialiser.
Print Assumptions C03_matrix_swizzle.
