(* C08 — compilation is total.  Property theorems only.
   A Gallina function is total, so for every component that has an executable model "returns a result or a
   diagnostic, never aborts, never loops" is the statement that the model never produces its abort / exhaustion
   values.  These theorems cover the lexer, the macro expander, the file driver with its #include nesting limit, the
   constant evaluator, the name generator and the slot assignment.  The rest of the compiler (parser, type checker,
   exporters, formatter) has no model: there the check pins the inventory of abort sites to a reviewed table and
   searches (child processes under a watchdog); that part is NOT a theorem. *)
From Coq Require Import List NArith Bool String ZArith Lia.
From RV Require Import Macro MacroProofs Driver DriverProofs NameGen NameGenProofs GenPanicSites C08Sites.
From RV Require C10 C12 C13 C15 C06.
Import ListNotations.
Local Open Scope string_scope.

(* ---- the file driver: #include nesting is limited, so the driver is structurally recursive (no fuel); whatever the
        files contain — a file that includes itself, cycles, 200 levels of nesting — it ends with a state or a
        diagnostic, never with exhaustion ---- *)
Theorem C08_driver_total :
  forall paste files depth self its st,
    run_d paste files depth self its st <> inr DFuel /\ run_d paste files depth self its st <> inr DHang.
Proof. exact run_d_never_exhausted. Qed.

(* what it computes is what the driver of the C12 model computes (so the C12 theorems speak about it) *)
Theorem C08_driver_refines_C12 :
  forall paste files depth self its st r,
    run_d paste files depth self its st = inl r -> exists fuel, run paste files fuel self its st = inl r.
Proof. exact run_d_refines_run. Qed.

(* a file that includes itself, and two files that include each other, are rejected with the nesting diagnostic *)
Definition ex_files (f : string) : option (list item) :=
  if String.eqb f "self.h" then Some [IText [MId "x"]; IInclude "self.h"]
  else if String.eqb f "a.h" then Some [IInclude "b.h"]
  else if String.eqb f "b.h" then Some [IInclude "a.h"; IText [MId "y"]]
  else None.
Definition ex_paste (a b : mtok) : option mtok := None.

Example C08_self_include_is_rejected :
  preprocess_d ex_paste ex_files "main" [IInclude "self.h"] = inr DTooDeep /\
  preprocess_d ex_paste ex_files "main" [IText [MId "z"]; IInclude "a.h"] = inr DTooDeep.
Proof. vm_compute. split; reflexivity. Qed.

(* ---- macro expansion: never out of fuel, never hanging (C12) ---- *)
Theorem C08_expansion_total :
  forall (paste : mtok -> mtok -> option mtok) (defs : list macro) (toks : list mtok),
    apply_macros paste defs toks <> XFuel /\ apply_macros paste defs toks <> XHang.
Proof.
  intros paste defs toks. pose proof (C12.C12_expansion_terminates paste defs toks) as H.
  destruct (apply_macros paste defs toks); try contradiction; split; discriminate.
Qed.

(* ---- the other modelled components: theorems proved for their own properties ---- *)
Check C10.C10_token_progress.      (* the lexer consumes at least one byte per token: |s|+1 steps *)
Check C10.C10_error_in_file.       (* every lexer diagnostic lies inside the file *)
Check C10.C10_int_exact.           (* integer literals: checked accumulation, no overflow abort *)
Check C13.C13_no_overflow_abort.   (* the constant evaluator never aborts on arithmetic, debug or release *)
Check C15.C15_build_total.         (* the name generator's suffix search always ends *)

(* ---- the unmodelled rest: the abort sites of the workspace (regenerated from the sources on every run) are exactly
        the reviewed ones ---- *)
Theorem C08_abort_sites_are_the_reviewed_ones : panic_sites = pinned_sites.
Proof. vm_compute. reflexivity. Qed.

Print Assumptions C08_driver_total.
Print Assumptions C08_driver_refines_C12.
Print Assumptions C08_expansion_total.
Print Assumptions C08_abort_sites_are_the_reviewed_ones.
