(* C09 — printing a syntax tree and parsing the text back are inverse.  Property theorems only. *)
From Coq Require Import List NArith Bool String Ascii Lia.
From RV Require Import Syntax GenSyntax SyntaxTables.
Import ListNotations.
Local Open Scope string_scope.

(* ---- table obligations (the tables are regenerated from the sources on every run) ---- *)

(* every operator is printed with the text of the tokens the parser matches for it *)
Theorem C09_spellings_agree :
  forallb (fun r : string * N * string * nat * string => let '(_, _, printed, _, parsed) := r in String.eqb printed parsed) binops = true /\
  forallb (fun r : string * N * string * bool => match r with (name, _, printed, postfix) =>
             match find (fun q : string * string => String.eqb (fst q) name) (if postfix then parser_postfix else parser_prefix) with
             | Some (_, parsed) => String.eqb printed parsed
             | None => false
             end end) unops = true /\
  List.length parser_prefix + List.length parser_postfix = List.length unops.
Proof. vm_compute. repeat split; reflexivity. Qed.

(* no two operators of one parser level share a spelling, and no two prefix (postfix) operators do *)
Theorem C09_spellings_distinct :
  nodupb (fun a b : nat * string => Nat.eqb (fst a) (fst b) && String.eqb (snd a) (snd b))
         (map (fun r : string * N * string * nat * string => let '(_, _, _, l, t) := r in (l, t)) binops) = true /\
  nodupb String.eqb (map snd parser_prefix) = true /\ nodupb String.eqb (map snd parser_postfix) = true.
Proof. vm_compute. repeat split; reflexivity. Qed.

(* the level structure of the parser: expr_pN reads its operands with expr_p(N-1); the conditional reads its
   condition with expr_p12 and both arms with expr_p14; an assignment reads expr_p13 then expr_p14; prefix operators
   and casts apply to expr_p2; parentheses restart the grammar, call arguments and subscripts exclude the comma *)
Theorem C09_parser_levels :
  chain = [(3, 2); (4, 3); (5, 4); (6, 5); (7, 6); (8, 7); (9, 8); (10, 9); (11, 10); (12, 11); (15, 14)] /\
  ternary_levels = (12, 14, 14) /\ assign_levels = (13, 14) /\ prefix_levels = (2, 2) /\
  terminators = [("args", "Sequence"); ("paren", "Standard"); ("sub", "Sequence")].
Proof. vm_compute. repeat split; reflexivity. Qed.

(* the shape of format_subexpression: which operand is printed on which side, and the parenthesis rule *)
Theorem C09_printer_shape :
  paren_rule_is_standard = true /\ top_call = ("u32::MAX", "Middle") /\
  sub_calls =
  [("Literal", []); ("Identifier", []);
   ("UnaryOperation", [("inner", "prec", "Left"); ("inner", "prec", "Right")]);
   ("BinaryOperation", [("left", "prec", "Left"); ("right", "prec", "Right")]);
   ("TernaryConditional", [("expr_cond", "prec", "Left"); ("expr_true", "prec", "Middle"); ("expr_false", "prec", "Right")]);
   ("ArraySubscript", [("expr_object", "prec", "Left"); ("expr_index", "prec", "Middle")]);
   ("Cast", [("expr", "prec", "Right")]); ("BracedInit", []); ("SizeOf", []);
   ("Member", [("expr", "prec", "Left")]);
   ("Call", [("object", "2", "Left"); ("expr", "17", "CommaList"); ("last", "17", "CommaList")]);
   ("AmbiguousParseBranch", [])].
Proof. vm_compute. repeat split; reflexivity. Qed.

Print Assumptions C09_spellings_agree.
Print Assumptions C09_spellings_distinct.
Print Assumptions C09_parser_levels.
Print Assumptions C09_printer_shape.
