(* C09 — printing a syntax tree and parsing the text back are inverse.  Property theorems only. *)
From Coq Require Import List NArith Bool String Ascii Lia.
From RV Require Import Syntax GenSyntax SyntaxTables SyntaxProofs SyntaxBridge SyntaxInst.
Import ListNotations.
Local Open Scope string_scope.

(* ---- table obligations (the tables are regenerated from the sources on every run) ---- *)

(* every operator is printed with the text of the tokens the parser matches for it *)
Theorem C09_spellings_agree :
  forallb (fun r : string * N * string * nat * string => let '(_, _, printed, _, parsed) := r in String.eqb printed parsed) binops = true /\
  forallb (fun r : string * N * string * bool => match r with (name, _, printed, postfix) =>
             match find (fun q : string * string => String.eqb (fst q) name) (if postfix then parser_postfix else parser_prefix) with
             | Some (_, parsed) => String.eqb printed parsed
             | None => false
             end end) unops = true /\
  List.length parser_prefix + List.length parser_postfix = List.length unops.
Proof. vm_compute. repeat split; reflexivity. Qed.

(* no two operators of one parser level share a spelling, and no two prefix (postfix) operators do *)
Theorem C09_spellings_distinct :
  nodupb (fun a b : nat * string => Nat.eqb (fst a) (fst b) && String.eqb (snd a) (snd b))
         (map (fun r : string * N * string * nat * string => let '(_, _, _, l, t) := r in (l, t)) binops) = true /\
  nodupb String.eqb (map snd parser_prefix) = true /\ nodupb String.eqb (map snd parser_postfix) = true.
Proof. vm_compute. repeat split; reflexivity. Qed.

(* the level structure of the parser: expr_pN reads its operands with expr_p(N-1); the conditional reads its
   condition with expr_p12 and both arms with expr_p14; an assignment reads expr_p13 then expr_p14; prefix operators
   and casts apply to expr_p2; parentheses restart the grammar, call arguments and subscripts exclude the comma *)
Theorem C09_parser_levels :
  chain = [(3, 2); (4, 3); (5, 4); (6, 5); (7, 6); (8, 7); (9, 8); (10, 9); (11, 10); (12, 11); (15, 14)] /\
  ternary_levels = (12, 14, 14) /\ assign_levels = (13, 14) /\ prefix_levels = (2, 2) /\
  terminators = [("args", "Sequence"); ("paren", "Standard"); ("sub", "Sequence")].
Proof. vm_compute. repeat split; reflexivity. Qed.

(* the shape of format_subexpression: which operand is printed on which side, and the parenthesis rule *)
Theorem C09_printer_shape :
  paren_rule_is_standard = true /\ top_call = ("u32::MAX", "Middle") /\
  sub_calls =
  [("Literal", []); ("Identifier", []);
   ("UnaryOperation", [("inner", "prec", "Left"); ("inner", "prec", "Right")]);
   ("BinaryOperation", [("left", "prec", "Left"); ("right", "prec", "Right")]);
   ("TernaryConditional", [("expr_cond", "prec", "Left"); ("expr_true", "prec", "Middle"); ("expr_false", "prec", "Right")]);
   ("ArraySubscript", [("expr_object", "prec", "Left"); ("expr_index", "prec", "Middle")]);
   ("Cast", [("expr", "prec", "Right")]); ("BracedInit", []); ("SizeOf", []);
   ("Member", [("expr", "prec", "Left")]);
   ("Call", [("object", "2", "Left"); ("expr", "17", "CommaList"); ("last", "17", "CommaList")]);
   ("AmbiguousParseBranch", [])].
Proof. vm_compute. repeat split; reflexivity. Qed.

(* the printer's precedence numbers and associativity classes stand for the parser's levels: in every operand
   position (outer precedence, side) the printer leaves unparenthesised exactly the node kinds that the parser
   function reading that position can produce.  One statement per node kind; each is recomputed from the tables. *)
Theorem C09_positions_match_parser_levels :
  (forall o, t_uop o = true -> t_un_post o = true ->
     ctx_ok t_assoc t_lvN t_precs (t_un_prec o) (t_side "UnaryOperation" 0) 1) /\
  (forall o, t_uop o = true -> t_un_post o = false ->
     ctx_ok t_assoc t_lvN t_precs (t_un_prec o) (t_side "UnaryOperation" 1) 2) /\
  (forall o, t_bop o = true ->
     ctx_ok t_assoc t_lvN t_precs (t_bin_prec o) (t_side "BinaryOperation" 0) (lctx t_blv o) /\
     ctx_ok t_assoc t_lvN t_precs (t_bin_prec o) (t_side "BinaryOperation" 1) (rctx t_blv o)) /\
  (ctx_ok t_assoc t_lvN t_precs P_tern (t_side "TernaryConditional" 0) 12 /\
   ctx_ok t_assoc t_lvN t_precs P_tern (t_side "TernaryConditional" 1) 13 /\
   ctx_ok t_assoc t_lvN t_precs P_tern (t_side "TernaryConditional" 2) 13) /\
  (ctx_ok t_assoc t_lvN t_precs P_sub (t_side "ArraySubscript" 0) 1 /\
   ctx_ok t_assoc t_lvN t_precs P_sub (t_side "ArraySubscript" 1) 1) /\
  ctx_ok t_assoc t_lvN t_precs P_mem (t_side "Member" 0) 1 /\
  (ctx_ok t_assoc t_lvN t_precs (outer_of_call 0) (t_side "Call" 0) 1 /\
   ctx_ok t_assoc t_lvN t_precs (outer_of_call 1) (t_side "Call" 1) 13) /\
  ctx_ok t_assoc t_lvN t_precs P_cast (t_side "Cast" 0) 2 /\
  ctx_ok t_assoc t_lvN t_precs top_outer (side_of_name (snd top_call)) 14.
Proof. exact (conj C_post (conj C_pre (conj C_bin (conj C_tern (conj C_sub (conj C_mem (conj C_call (conj C_cast C_top)))))))). Qed.

(* ---- every expression tree, of any depth and any number of call arguments, over identifiers, literals,
        prefix / postfix / binary operators, the conditional, assignments, the comma, subscripts, members, calls and
        casts to a named type: the token text the printer model gives it is read back by the parser model as the same
        tree, with nothing left over.  Excluded (known finding template-argument-reading): texts in which `>` is
        directly followed by `(`. ---- *)
Theorem C09_expression_roundtrip :
  forall (G : string -> bool) (e : expr),
    t_wf G e -> gt_paren (toks (t_print e)) = false ->
    t_parse G (toks (t_print e)) = Ok e [].
Proof. exact t_roundtrip. Qed.

(* the text is the level-directed minimal parenthesisation *)
Theorem C09_printer_is_level_directed :
  forall (G : string -> bool) (e : expr), t_wf G e -> toks (t_print e) = t_raw e.
Proof. exact t_print_raw. Qed.

(* ---- non-vacuity ---- *)
Definition ex_G (t : string) : bool := String.eqb t "T0".
Definition ex_tree : expr :=
  EBin "Assignment" (ESub (EId "x") (EBin "Sequence" (EId "a") (EId "b")))
    (ETern (EBin "LessThan" (EUn "Minus" (EUn "Minus" (EId "y"))) (ELit true "1"))
           (ECall (EMem (ELit true "1") "m") [EBin "Assignment" (EId "p") (EId "q"); ECast "T0" (EUn "PostfixIncrement" (EId "z"))])
           (EBin "Subtract" (EId "u") (EBin "Subtract" (EId "v") (EId "w")))).

Example C09_example_wf : t_wf ex_G ex_tree /\ gt_paren (toks (t_print ex_tree)) = false.
Proof. split; [vm_compute; intuition reflexivity | vm_compute; reflexivity]. Qed.

Example C09_example_text :
  render (t_print ex_tree) = "x[(a, b)] = - -y < 1 ? (1).m(p = q, (T0)z++) : u - (v - w)".
Proof. vm_compute. reflexivity. Qed.

Example C09_example_parse : t_parse ex_G (toks (t_print ex_tree)) = Ok ex_tree [].
Proof. vm_compute. reflexivity. Qed.

(* the excluded shape is real: the model does not decide it *)
Example C09_template_shape_unmodelled :
  let e := EBin "GreaterThan" (EBin "LessThan" (EId "x") (EId "y")) (EBin "Equality" (EId "z") (EId "w")) in
  render (t_print e) = "x < y > (z == w)" /\ gt_paren (toks (t_print e)) = true /\ t_parse ex_G (toks (t_print e)) = Unm.
Proof. vm_compute. repeat split; reflexivity. Qed.

Print Assumptions C09_spellings_agree.
Print Assumptions C09_spellings_distinct.
Print Assumptions C09_parser_levels.
Print Assumptions C09_printer_shape.
Print Assumptions C09_positions_match_parser_levels.
Print Assumptions C09_expression_roundtrip.
Print Assumptions C09_printer_is_level_directed.
