(* C01 — HLSL export preserves the meaning of every accepted program.  Property theorems only.
   The check reads the emitted HLSL back with the front end (the emitted text is inside the input language, C04) and
   compares, item by item, the typed IR of the emitted text (IR2) with the typed IR of the source (IR1): the body of
   every function with its literal values, operators, conversions, call targets and argument lists, every global
   initialiser, every struct layout and every enum value.  The comparison is `Alpha.pair`; the theorems say what a
   successful comparison means: IR2 is IR1 with the local variables renamed one-to-one, nothing else may differ — so
   nothing the source computes is dropped, reordered, regrouped or given another operator, conversion or literal.
   `C01_same_behaviour` then says what that means for behaviour: under the evaluator of model/Sem.v the two functions
   return the same value, copy the same values back and have the same effect on everything that is not a local, for
   every interpretation of the words the comparison demands to be identical.
   Assumption, not a theorem: the front end's reading of the emitted text is HLSL's reading of it (every conversion
   is explicit in that text). *)
From Coq Require Import List NArith ZArith Bool String.
From RV Require Import Wire Alpha AlphaProofs Sem SemProofs.
Import ListNotations.
Local Open Scope string_scope.

(* a successful comparison: the second dump is the first with its locals renamed, by a renaming that is one-to-one on
   the locals of the first dump *)
Theorem C01_equal_up_to_local_names :
  forall l1 l2 r,
    pair [] 0 l1 l2 = Same r ->
    map (rename r) l1 = l2 /\
    forall a a', In (Id a) l1 -> In (Id a') l1 -> rename r (Id a) = rename r (Id a') -> a = a'.
Proof. exact pair_injective. Qed.

(* every word that is not a local is compared literally: a successful comparison leaves no operator, literal, type,
   callee or arity word different *)
Corollary C01_words_identical :
  forall l1 l2 r, pair [] 0 l1 l2 = Same r ->
  List.length l1 = List.length l2 /\ forall k s, nth_error l1 k = Some (W s) -> nth_error l2 k = Some (W s).
Proof.
  intros l1 l2 r H. destruct (pair_injective l1 l2 r H) as [M _]. subst l2. split; [rewrite map_length; reflexivity|].
  intros k s E. rewrite nth_error_map, E. reflexivity.
Qed.

(* no false differences: a dump is always equal to itself *)
Theorem C01_comparison_is_reflexive : forall l, exists r, pair [] 0 l l = Same r.
Proof. intros l. apply pair_reflexive; [apply bij_nil | intros a b H; discriminate]. Qed.

(* what a successful comparison means for what the functions compute.  `enc_func` is the encoding harness/src/sdump.rs
   writes (every function dump of every run is decoded and re-encoded by the extracted checker: the hypothesis
   `l1 = enc_func f1` is checked, not assumed); `run` is the evaluator of model/Sem.v, in which a local variable is a
   cell addressed by its VariableId (reads, writes through member / swizzle / subscript paths, compound assignment,
   increments, copy-in / copy-out calls, sequencing, conditionals, loops with break / continue, switch with fall-through,
   discard, return).
   If the dump of IR1 is the encoding of f1 and the comparison with the dump of IR2 succeeds, then the dump of IR2 is
   the encoding of a function that is discarded in the same cases, returns the same value, copies the same values back
   through its out / inout parameters and leaves everything that is not a local in the same state - for every fuel, every argument list,
   every outside state and every interpretation I of the operator, literal, conversion, accessor, callee and global
   words (those words are compared literally, so both functions use the same ones). *)
Theorem C01_same_behaviour :
  forall (V G : Type) (I : interp V G) (f1 : func) (l2 : list tok) (r : corr),
    pair [] 0 (enc_func f1) l2 = Same r ->
    l2 = enc_func (rn_func r f1) /\
    forall fuel args g, run I fuel f1 args g = run I fuel (rn_func r f1) args g.
Proof. intros V G I. exact (pair_same_behaviour I). Qed.

(* non-vacuity of the evaluator: `int f(int p, inout int q) { int x = p; x += 1; q = x * 2; while (x < 10) { x++; } return x + q; }`
   over the integers: f(5, q) returns 10 + 12 and copies 12 back; the same function under other ids is accepted by
   the comparison and computes the same *)
Definition zi : interp Z unit := {|
  leaf := fun l _ => match l with ["Lit"; "ci"; n] => parse_Z n | _ => None end;
  gget := fun _ _ => None; gput := fun _ _ _ => None;
  truth := fun v => Some (negb (Z.eqb v 0));
  acc_get := fun _ _ => None; acc_put := fun _ _ _ => None; idx_get := fun _ _ => None; idx_put := fun _ _ _ => None;
  call := fun _ _ _ _ => None; ctor := fun _ _ _ => None;
  op := fun name vs =>
    match vs with
    | [a; b] => if String.eqb name "Add" then Some (a + b)%Z else if String.eqb name "Multiply" then Some (a * b)%Z
                else if String.eqb name "LessThan" then Some (if Z.ltb a b then 1 else 0)%Z else None
    | [a] => if String.eqb name "PostfixIncrement" then Some (a + 1)%Z else None
    | _ => None
    end;
  dflt := fun _ => None; agg := fun _ _ => None;
  case_match := fun l v => match l with ["ci"; n] => option_map (Z.eqb v) (parse_Z n) | _ => None end |}.

Definition lit (n : string) : expr := ELeaf ["Lit"; "ci"; n].
Definition ex_f (p q x : N) : func := {|
  f_ret := ["ts"; "i"];
  f_params := [(p, "0", ["ts"; "i"], None); (q, "2", ["ts"; "i"], None)];
  f_body := [ SVar (x, ["Local"; "ts"; "i"], IExp (ELoc p));
              SExpr (EOp "SumAssignment" [ELoc x; lit "1"]);
              SExpr (EOp "Assignment" [ELoc q; EOp "Multiply" [ELoc x; lit "2"]]);
              SWhile (EOp "LessThan" [ELoc x; lit "10"]) [SExpr (EOp "PostfixIncrement" [ELoc x])];
              SRet (EOp "Add" [ELoc x; ELoc q]) ] |}.

Example C01_evaluator_example :
  run zi 20 (ex_f 7 8 9) [Some 5%Z; Some 0%Z] tt = Some (false, Some 22%Z, [None; Some 12%Z], tt) /\
  pair [] 0 (enc_func (ex_f 7 8 9)) (enc_func (ex_f 1 2 3)) = Same [(9, 3); (8, 2); (7, 1)]%N /\
  rn_func [(9, 3); (8, 2); (7, 1)]%N (ex_f 7 8 9) = ex_f 1 2 3 /\
  run zi 20 (ex_f 1 2 3) [Some 5%Z; Some 0%Z] tt = Some (false, Some 22%Z, [None; Some 12%Z], tt).
Proof. vm_compute. repeat split. Qed.

(* switch with fall-through: `int h(int p) { int r = 0; switch (p) { case 1: r = 10; case 2: r += 1; break; default: r = 7; } return r; }` *)
Definition ex_h (p r : N) : func := {|
  f_ret := ["ts"; "i"];
  f_params := [(p, "0", ["ts"; "i"], None)];
  f_body := [ SVar (r, ["Local"; "ts"; "i"], IExp (lit "0"));
              SSwitch (ELoc p) [ SWord ["SCase"; "ci"; "1"]; SExpr (EOp "Assignment" [ELoc r; lit "10"]);
                                 SWord ["SCase"; "ci"; "2"]; SExpr (EOp "SumAssignment" [ELoc r; lit "1"]); SWord ["SBreak"];
                                 SWord ["SDefault"]; SExpr (EOp "Assignment" [ELoc r; lit "7"]) ];
              SRet (ELoc r) ] |}.

Example C01_switch_example :
  map (fun a => run zi 20 (ex_h 4 5) [Some a] tt) [1; 2; 5]%Z =
  [Some (false, Some 11%Z, [None], tt); Some (false, Some 1%Z, [None], tt); Some (false, Some 7%Z, [None], tt)].
Proof. vm_compute. reflexivity. Qed.

(* ---- non-vacuity: `int x = p; return x + 1;` against the same with other ids; against `x - 1`; against a swapped use ---- *)
Definition ex_a := [W "F"; Id 7; W "SVar"; Id 9; W "IE"; W "Loc"; Id 7; W "SRet"; W "Op"; W "Add"; W "Loc"; Id 9; W "Lit"; W "ci"; W "1"].
Definition ex_b := [W "F"; Id 2; W "SVar"; Id 3; W "IE"; W "Loc"; Id 2; W "SRet"; W "Op"; W "Add"; W "Loc"; Id 3; W "Lit"; W "ci"; W "1"].
Definition ex_c := [W "F"; Id 2; W "SVar"; Id 3; W "IE"; W "Loc"; Id 2; W "SRet"; W "Op"; W "Subtract"; W "Loc"; Id 3; W "Lit"; W "ci"; W "1"].
Definition ex_d := [W "F"; Id 2; W "SVar"; Id 3; W "IE"; W "Loc"; Id 2; W "SRet"; W "Op"; W "Add"; W "Loc"; Id 2; W "Lit"; W "ci"; W "1"].

Example C01_example :
  pair [] 0 ex_a ex_b = Same [(9, 3); (7, 2)]%N /\
  pair [] 0 ex_a ex_c = Differ 9 (Some (W "Add")) (Some (W "Subtract")) /\
  pair [] 0 ex_a ex_d = Differ 11 (Some (Id 9)) (Some (Id 2)).
Proof. vm_compute. repeat split. Qed.

Print Assumptions C01_equal_up_to_local_names.
Print Assumptions C01_words_identical.
Print Assumptions C01_comparison_is_reflexive.
Print Assumptions C01_same_behaviour.
