(* C01 — HLSL export preserves the meaning of every accepted program.  Property theorems only.
   The check reads the emitted HLSL back with the front end (the emitted text is inside the input language, C04) and
   compares, item by item, the typed IR of the emitted text (IR2) with the typed IR of the source (IR1): the body of
   every function with its literal values, operators, conversions, call targets and argument lists, every global
   initialiser, every struct layout and every enum value.  The comparison is `Alpha.pair`; the theorems say what a
   successful comparison means: IR2 is IR1 with the local variables renamed one-to-one, nothing else may differ — so
   nothing the source computes is dropped, reordered, regrouped or given another operator, conversion or literal.
   Assumptions, not theorems: the front end's reading of the emitted text is HLSL's reading of it (every conversion
   is explicit in that text), and what a function computes does not depend on the identity of its VariableIds. *)
From Coq Require Import List NArith Bool String.
From RV Require Import Alpha AlphaProofs.
Import ListNotations.
Local Open Scope string_scope.

(* a successful comparison: the second dump is the first with its locals renamed, by a renaming that is one-to-one on
   the locals of the first dump *)
Theorem C01_equal_up_to_local_names :
  forall l1 l2 r,
    pair [] 0 l1 l2 = Same r ->
    map (rename r) l1 = l2 /\
    forall a a', In (Id a) l1 -> In (Id a') l1 -> rename r (Id a) = rename r (Id a') -> a = a'.
Proof. exact pair_injective. Qed.

(* every word that is not a local is compared literally: a successful comparison leaves no operator, literal, type,
   callee or arity word different *)
Corollary C01_words_identical :
  forall l1 l2 r, pair [] 0 l1 l2 = Same r ->
  List.length l1 = List.length l2 /\ forall k s, nth_error l1 k = Some (W s) -> nth_error l2 k = Some (W s).
Proof.
  intros l1 l2 r H. destruct (pair_injective l1 l2 r H) as [M _]. subst l2. split; [rewrite map_length; reflexivity|].
  intros k s E. rewrite nth_error_map, E. reflexivity.
Qed.

(* no false differences: a dump is always equal to itself *)
Theorem C01_comparison_is_reflexive : forall l, exists r, pair [] 0 l l = Same r.
Proof. intros l. apply pair_reflexive; [apply bij_nil | intros a b H; discriminate]. Qed.

(* ---- non-vacuity: `int x = p; return x + 1;` against the same with other ids; against `x - 1`; against a swapped use ---- *)
Definition ex_a := [W "F"; Id 7; W "SVar"; Id 9; W "IE"; W "Loc"; Id 7; W "SRet"; W "Op"; W "Add"; W "Loc"; Id 9; W "Lit"; W "ci"; W "1"].
Definition ex_b := [W "F"; Id 2; W "SVar"; Id 3; W "IE"; W "Loc"; Id 2; W "SRet"; W "Op"; W "Add"; W "Loc"; Id 3; W "Lit"; W "ci"; W "1"].
Definition ex_c := [W "F"; Id 2; W "SVar"; Id 3; W "IE"; W "Loc"; Id 2; W "SRet"; W "Op"; W "Subtract"; W "Loc"; Id 3; W "Lit"; W "ci"; W "1"].
Definition ex_d := [W "F"; Id 2; W "SVar"; Id 3; W "IE"; W "Loc"; Id 2; W "SRet"; W "Op"; W "Add"; W "Loc"; Id 2; W "Lit"; W "ci"; W "1"].

Example C01_example :
  pair [] 0 ex_a ex_b = Same [(9, 3); (7, 2)]%N /\
  pair [] 0 ex_a ex_c = Differ 9 (Some (W "Add")) (Some (W "Subtract")) /\
  pair [] 0 ex_a ex_d = Differ 11 (Some (Id 9)) (Some (Id 2)).
Proof. vm_compute. repeat split. Qed.

Print Assumptions C01_equal_up_to_local_names.
Print Assumptions C01_words_identical.
Print Assumptions C01_comparison_is_reflexive.
